(* C25, embedded-signature parameter list: model of
   Cython/Compiler/AutoDocTransforms.py  EmbedSignature._fmt_arglist

       arglist = []
       for arg in args:
           if not hide_self or not arg.entry.is_self_arg:
               arglist.append(self._fmt_arg(arg))
       if pargs:   arglist.insert(npargs + npoargs, '*%s' % fmt_star_arg(pargs))
       elif nkargs: arglist.insert(npargs + npoargs, '*')
       if npoargs: arglist.insert(npoargs, '/')
       if kargs:   arglist.append('**%s' % fmt_star_arg(kargs))

   The formatted text of one argument (name, annotation, default: _fmt_arg) is an abstract value
   of type A: the layout logic never looks at it.  Executable definitions only. *)
From Coq Require Import List Bool Arith.
Import ListNotations.

Set Implicit Arguments.

Inductive tok (A : Type) : Type :=
| TArg (a : A)          (* one formatted argument *)
| TSlash                (* '/' *)
| TStar                 (* bare '*' *)
| TVarArgs (a : A)      (* '*args' *)
| TKwArgs (a : A).      (* '**kwargs' *)
Arguments TSlash {A}.
Arguments TStar {A}.

(* Python list.insert(i, x) for i >= 0: an index past the end appends *)
Definition insert (A : Type) (i : nat) (x : A) (l : list A) : list A := firstn i l ++ x :: skipn i l.

Definition ins_opt (A : Type) (i : nat) (o : option A) (l : list A) : list A :=
  match o with Some x => insert i x l | None => l end.

(* the order in which the two markers are inserted *)
Inductive order := StarThenSlash   (* the code as it is *)
                 | SlashThenStar.  (* variant: '/' first, same indices *)

Section ArgList.
Variable A : Type.

(* an argument node: (entry.is_self_arg, formatted text) *)
Definition argnode := (bool * A)%type.

Definition visible (hide_self : bool) (args : list argnode) : list argnode :=
  filter (fun a => negb (hide_self && fst a)) args.

Definition star_tok (pargs : option A) (nk : nat) : option (tok A) :=
  match pargs with
  | Some p => Some (TVarArgs p)
  | None => if nk =? 0 then None else Some TStar
  end.

Definition slash_tok (npo : nat) : option (tok A) := if npo =? 0 then None else Some TSlash.

Definition kw_toks (kargs : option A) : list (tok A) :=
  match kargs with Some k => [TKwArgs k] | None => [] end.

(* repaired variant (proposed_fixes/C25-c_format_init_hidden_self_shifts_markers.diff): a hidden
   self argument does not count for the marker positions: "if npoargs: npoargs -= 1 else: npargs -= 1" *)
Fixpoint adjust (hide_self : bool) (args : list argnode) (npo np : nat) : nat * nat :=
  match args with
  | [] => (npo, np)
  | a :: r => if hide_self && fst a
              then (if npo =? 0 then adjust hide_self r npo (np - 1) else adjust hide_self r (npo - 1) np)
              else adjust hide_self r npo np
  end.

Definition fmt_arglist (ord : order) (fix_hidden : bool) (args : list argnode)
           (npo np : nat) (pargs : option A) (nk : nat) (kargs : option A) (hide_self : bool) : list (tok A) :=
  let l0 := map (fun a => TArg (snd a)) (visible hide_self args) in
  let c := if fix_hidden then adjust hide_self args npo np else (npo, np) in
  let npo' := fst c in
  let np' := snd c in
  let l2 := match ord with
            | StarThenSlash => ins_opt npo' (slash_tok npo') (ins_opt (np' + npo') (star_tok pargs nk) l0)
            | SlashThenStar => ins_opt (np' + npo') (star_tok pargs nk) (ins_opt npo' (slash_tok npo') l0)
            end in
  l2 ++ kw_toks kargs.

(* ---- the source signature and its canonical rendering (what inspect.Signature.__str__ prints:
   '/' after the last positional-only parameter, '*args' or - when there are keyword-only parameters
   and no *args - a bare '*' in front of the keyword-only ones, '**kwargs' last) *)
Record sigsrc := { s_po : list A; s_pk : list A; s_va : option A; s_ko : list A; s_kw : option A }.

Definition opt_list (X : Type) (o : option X) : list X := match o with Some x => [x] | None => [] end.

Definition canon (s : sigsrc) : list (tok A) :=
  map (@TArg A) (s_po s) ++ (match s_po s with [] => [] | _ => [TSlash] end) ++ map (@TArg A) (s_pk s)
  ++ opt_list (star_tok (s_va s) (length (s_ko s))) ++ map (@TArg A) (s_ko s) ++ kw_toks (s_kw s).

(* ---- reading a token list back as a parameter list, by the Python grammar for parameter lists:
   at most one '/', with at least one parameter in front of it, before any star; a bare '*' needs
   a parameter after it; parameters after '*' / '*args' are keyword-only; '**kwargs' is last.
   None = SyntaxError. *)
Fixpoint take_args (l : list (tok A)) : list A * list (tok A) :=
  match l with
  | TArg a :: r => let p := take_args r in (a :: fst p, snd p)
  | _ => ([], l)
  end.

Definition read_tail (po pk : list A) (va : option A) (ko : list A) (r : list (tok A)) : option sigsrc :=
  match r with
  | [] => Some {| s_po := po; s_pk := pk; s_va := va; s_ko := ko; s_kw := None |}
  | [TKwArgs k] => Some {| s_po := po; s_pk := pk; s_va := va; s_ko := ko; s_kw := Some k |}
  | _ => None
  end.

Definition read_star (po pk : list A) (r : list (tok A)) : option sigsrc :=
  match r with
  | TStar :: r' => let p := take_args r' in
                   match fst p with [] => None | _ => read_tail po pk None (fst p) (snd p) end
  | TVarArgs v :: r' => let p := take_args r' in read_tail po pk (Some v) (fst p) (snd p)
  | _ => read_tail po pk None [] r
  end.

Definition read_sig (l : list (tok A)) : option sigsrc :=
  let p := take_args l in
  match snd p with
  | TSlash :: r => match fst p with
                   | [] => None
                   | _ => let q := take_args r in read_star (fst p) (fst q) (snd q)
                   end
  | r => read_star [] (fst p) r
  end.

(* the arguments of a source signature as EmbedSignature receives them *)
Definition plain (l : list A) : list argnode := map (fun a => (false, a)) l.
Definition args_of (s : sigsrc) : list argnode := plain (s_po s ++ s_pk s ++ s_ko s).

Definition fmt_of (ord : order) (fix_hidden : bool) (s : sigsrc) (hide_self : bool) : list (tok A) :=
  fmt_arglist ord fix_hidden (args_of s) (length (s_po s)) (length (s_pk s)) (s_va s) (length (s_ko s)) (s_kw s) hide_self.

(* a method whose first argument is the (hidden) self argument: self is positional-only when
   self_po, else positional-or-keyword; s describes the parameters after self *)
Definition fmt_of_self (ord : order) (fix_hidden : bool) (self : A) (self_po : bool) (s : sigsrc)
           (hide_self : bool) : list (tok A) :=
  fmt_arglist ord fix_hidden ((true, self) :: args_of s)
              (if self_po then S (length (s_po s)) else length (s_po s))
              (if self_po then length (s_pk s) else S (length (s_pk s)))
              (s_va s) (length (s_ko s)) (s_kw s) hide_self.

End ArgList.

(* witnesses (arguments named by numbers) *)
Definition w_seed : sigsrc nat :=         (* def f(a, /, b, *, c) *)
  {| s_po := [1]; s_pk := [2]; s_va := None; s_ko := [3]; s_kw := None |}.
Definition w_seed2 : sigsrc nat :=        (* def h(a, b, /, *, c) *)
  {| s_po := [1; 2]; s_pk := []; s_va := None; s_ko := [3]; s_kw := None |}.
Definition w_init : sigsrc nat :=         (* def __init__(self, a, *, k) : parameters after self *)
  {| s_po := []; s_pk := [1]; s_va := None; s_ko := [2]; s_kw := None |}.
Definition w_init2 : sigsrc nat :=        (* def __init__(self, a, *args, k) *)
  {| s_po := []; s_pk := [1]; s_va := Some 9; s_ko := [2]; s_kw := None |}.
