(* Model of Cython/Shadow.py: cdiv, cmod on Python (unbounded) integers. *)
From Coq Require Import ZArith Bool Lia.
Open Scope Z_scope.

(* def cdiv(a, b):
       if a < 0: a = -a; b = -b
       if b < 0: return (a + b + 1) // b
       return a // b                                 *)
Definition sh_cdiv (a b : Z) : Z :=
  let '(a, b) := if a <? 0 then (- a, - b) else (a, b) in
  if b <? 0 then (a + b + 1) / b else a / b.

(* def cmod(a, b):
       r = a % b
       if (a * b) < 0 and r: r -= b
       return r                                      *)
Definition sh_cmod (a b : Z) : Z :=
  let r := a mod b in
  if (a * b <? 0) && negb (r =? 0) then r - b else r.
