(* Model of a compilation session: Cython/Compiler/Main.py:compile_multiple driving
   compile_single/run_pipeline with a Context.

   Context.find_module() keeps every parsed .pxd module scope in a cache (context.modules,
   scope.pxd_file_loaded); the entries of such a scope carry a `used` mark that the analysis of a
   cimporting module sets (NameNode/AttributeNode analyse_*: entry.used = 1) and that
   ModuleNode.generate_cfunction_declarations / generate_c_function_import_code_for_module /
   generate_cfunction_declaration read again ("if entry.used and entry.inline_func_in_pxd ...").
   Other entries of a cimported scope (struct/enum/typedef declarations, extension type structs) are
   written for every cimporting module, marked or not.

   compile_multiple() creates the Context and DROPS it after every source ("context = None").
   Both variants are modelled behind the flag [reset] (true = the code as it is).

   Identification: a .pxd is a number (its index in [pxds]), an entry is its index in the scope. *)
From Coq Require Import List Bool Arith.
Import ListNotations.

(* emission rule of an entry of a cimported scope *)
Inductive kind :=
| KAlways    (* written for every module that cimports the scope (type declarations) *)
| KUsed.     (* written only when entry.used is set (cfunction prototypes / imports)   *)

Definition pxd := list kind.
(* one cimported scope of a module: the .pxd and the entries whose `used` mark the module sets *)
Definition cimport := (nat * list nat)%type.
(* a module, as far as this mechanism goes: its cimported scopes in source order (transitively closed) *)
Definition module := list cimport.

Record context := mkctx { loaded : list nat; marks : list (nat * nat) }.
Definition fresh : context := mkctx [] [].

Definition mem_nat (x : nat) (l : list nat) : bool := existsb (Nat.eqb x) l.
Definition pair_eqb (x y : nat * nat) : bool := Nat.eqb (fst x) (fst y) && Nat.eqb (snd x) (snd y).
Definition mem_pair (x : nat * nat) (l : list (nat * nat)) : bool := existsb (pair_eqb x) l.

(* Context.find_module: a cache hit returns the scope as it is, a miss parses the file *)
Definition load (c : context) (p : nat) : context * list nat :=
  if mem_nat p (loaded c) then (c, []) else (mkctx (p :: loaded c) (marks c), [p]).

Fixpoint load_all (c : context) (m : module) : context * list nat :=
  match m with
  | [] => (c, [])
  | ci :: r =>
      let (c1, ps) := load c (fst ci) in
      let (c2, qs) := load_all c1 r in (c2, ps ++ qs)
  end.

Definition uses_of (m : module) : list (nat * nat) :=
  flat_map (fun ci : cimport => map (pair (fst ci)) (snd ci)) m.

(* analysis: entry.used = 1 on the (shared) entry objects *)
Definition mark_all (c : context) (m : module) : context := mkctx (loaded c) (uses_of m ++ marks c).

Definition emits (k : kind) (marked : bool) : bool :=
  match k with KAlways => true | KUsed => marked end.

Definition entries_of (pxds : list pxd) (p : nat) : pxd := nth p pxds [].

(* entry indices are drawn from [seq 0 (length ...)], so the [nth] default below is never used;
   a .pxd number outside [pxds] is a scope without entries *)
Definition emit_pxd (pxds : list pxd) (c : context) (p : nat) : list (nat * nat) :=
  map (pair p)
      (filter (fun i => emits (nth i (entries_of pxds p) KAlways) (mem_pair (p, i) (marks c)))
              (seq 0 (length (entries_of pxds p)))).

(* ModuleNode: for module in env.cimported_modules: for entry in module.<entries>: ... *)
Definition emit (pxds : list pxd) (c : context) (m : module) : list (nat * nat) :=
  flat_map (fun ci : cimport => emit_pxd pxds c (fst ci)) m.

(* compile_single with a given context: (context afterwards, (.pxd files parsed, declarations written)) *)
Definition compile (pxds : list pxd) (c : context) (m : module)
  : context * (list nat * list (nat * nat)) :=
  let (c1, ps) := load_all c m in
  let c2 := mark_all c1 m in
  (c2, (ps, emit pxds c2 m)).

(* compile_multiple *)
Fixpoint session (pxds : list pxd) (reset : bool) (c : context) (ms : list module)
  : list (list nat * list (nat * nat)) :=
  match ms with
  | [] => []
  | m :: r =>
      let (c', o) := compile pxds c m in
      o :: session pxds reset (if reset then fresh else c') r
  end.

(* the context a non-resetting session has reached after [ms] *)
Fixpoint run (pxds : list pxd) (c : context) (ms : list module) : context :=
  match ms with
  | [] => c
  | m :: r => run pxds (fst (compile pxds c m)) r
  end.

(* a module compiled alone by a fresh process *)
Definition isolated (pxds : list pxd) (m : module) : list nat * list (nat * nat) :=
  snd (compile pxds fresh m).

(* the same module compiled after [prefix] in a session that keeps its context *)
Definition after (pxds : list pxd) (prefix : list module) (m : module) : list nat * list (nat * nat) :=
  snd (compile pxds (run pxds fresh prefix) m).
