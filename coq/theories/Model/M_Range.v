(* Model of the C loop that Cython emits for `for x in range(a, b, s)` / `reversed(range(...))` /
   `enumerate(...)`:
     Optimize.py  IterationTransform._transform_range_iteration, _find_for_from_node_relations,
                  _build_range_step_calculation, _transform_enumerate_iteration
     Nodes.py     ForFromStatNode.generate_execution_code (relation_table, bound temp, unsigned
                  descending form, target assignment per iteration, else clause)
   and of Python's own loop over range()/reversed(range()).  Executable definitions only. *)
From Coq Require Import ZArith List Bool Lia.
From CyVerif Require Import Lib.CInt Model.M_Prange.   (* py_range_len, py_range *)
Import ListNotations.
Open Scope Z_scope.

(* ---- Python side ------------------------------------------------------------------------- *)

Inductive ctl := Next | Break.          (* falling off the end of the body and `continue` are both Next *)

Section Loops.
  Context {S : Type}.
  (* the body receives the value assigned to the target in this iteration *)
  Variable body : Z -> S -> ctl * S.

  (* for v in vals: body  else: ...   -> (state, else clause ran) *)
  Fixpoint py_for (vals : list Z) (st : S) : S * bool :=
    match vals with
    | [] => (st, true)
    | v :: r => match body v st with
                | (Break, st') => (st', false)
                | (Next, st') => py_for r st'
                end
    end.

  (* ---- C side -------------------------------------------------------------------------- *)
  Inductive outcome := Done (st : S) (else_ran : bool) | OutOfFuel | UB.

  (* for (u = u0; test u; ) { t = pre u; target = t; body; continue_label: u = next t; } else-clause *)
  Fixpoint c_loop (test : Z -> bool) (pre next : Z -> option Z) (fuel : nat) (u : Z) (st : S) : outcome :=
    match fuel with
    | O => OutOfFuel
    | Datatypes.S f =>
        if test u then
          match pre u with
          | None => UB
          | Some t =>
              match body t st with
              | (Break, st') => Done st' false
              | (Next, st') => match next t with
                               | None => UB
                               | Some u' => c_loop test pre next f u' st'
                               end
              end
          end
        else Done st true
    end.
End Loops.
Arguments outcome : clear implicits.

Definition done_of {S} (r : S * bool) : outcome S := Done (fst r) (snd r).

Definition py_reversed_range (a b s : Z) : list Z := rev (py_range a b s).

(* ---- C arithmetic at a loop type (w bits, signed sg); int is 32 bits ------------------------ *)
Definition prom_w (w : Z) : Z := Z.max w 32.
Definition prom_s (w : Z) (sg : bool) : bool := if w <? 32 then true else sg.
(* an arithmetic operator whose exact result is v, carried out after the integer promotions:
   signed overflow = undefined behaviour (None), unsigned wraps *)
Definition carith (w : Z) (sg : bool) (v : Z) : option Z :=
  if prom_s w sg then (if in_rangeb (prom_w w) true v then Some v else None)
  else Some (wrap (prom_w w) false v).
(* ... and stored into a variable of the type (conversion is modular) *)
Definition cop (w : Z) (sg : bool) (v : Z) : option Z := option_map (wrap w sg) (carith w sg v).

(* ---- ForFromStatNode ---------------------------------------------------------------------- *)
Inductive rel := Le | Lt | Ge | Gt.
Definition find_relations (neg_step reversed : bool) : rel * rel :=
  if reversed then (if neg_step then (Lt, Le) else (Gt, Ge))
  else (if neg_step then (Ge, Gt) else (Le, Lt)).
(* relation_table: initial offset and direction *)
Definition rel_offset (r : rel) : Z := match r with Le => 0 | Lt => 1 | Ge => 0 | Gt => -1 end.
Definition rel_incr (r : rel) : bool := match r with Le | Lt => true | Ge | Gt => false end.
Definition rel_test (r : rel) (x y : Z) : bool :=
  match r with Le => x <=? y | Lt => x <? y | Ge => y <=? x | Gt => y <? x end.
Definition rel_is_gt (r : rel) : bool := match r with Ge | Gt => true | _ => false end.

(* `for t from b1 r1 t r2 b2 by A` at loop type (w, sg); b2 already evaluated once into a temp.
   unsigned and relation2[0] == '>':   for (t = b1+off + A; t r2 b2 + A; ) { t -= A; ...
   otherwise:                          for (t = b1+off; t r2 b2; t (+|-)= A) { ...            *)
Definition for_from {S} (body : Z -> S -> ctl * S) (w : Z) (sg : bool) (r1 r2 : rel)
    (b1 b2 A : Z) (fuel : nat) (st : S) : outcome S :=
  if negb sg && rel_is_gt r2 then
    match cop w sg (b1 + rel_offset r1 + A), carith w sg (b2 + A) with
    | Some u0, Some lim =>
        c_loop body (fun u => rel_test r2 u lim) (fun u => cop w sg (u - A)) Some fuel u0 st
    | _, _ => UB
    end
  else
    match cop w sg (b1 + rel_offset r1) with
    | Some t0 =>
        c_loop body (fun t => rel_test r2 t b2) Some
               (fun t => cop w sg (if rel_incr r1 then t + A else t - A)) fuel t0 st
    | None => UB
    end.

(* for x in range(a, b, s), s a non-zero constant *)
Definition range_loop {S} (body : Z -> S -> ctl * S) (w : Z) (sg : bool) (a b s : Z) :=
  let '(r1, r2) := find_relations (s <? 0) false in
  for_from body w sg r1 r2 a b (Z.abs s).

(* reversed(range(a, b, s)): the start bound of the reversed loop.
   constant bounds: evaluated by the compiler in Python integers *)
Definition rev_bound1_const (a b s : Z) : Z :=
  let A := Z.abs s in
  if A =? 1 then b
  else if s <? 0 then a - A * ((a - b - 1) / A) - 1
  else a + A * ((b - a - 1) / A) + 1.

(* runtime bounds: the same expression as C arithmetic in the spanning type (cw, csg) of the bounds;
   floor = true: `//` through __Pyx_div_T (directive cdivision=False), false: the C `/` operator
   (directive cdivision=True; unsigned types always) *)
Definition bind {A B} (x : option A) (f : A -> option B) : option B :=
  match x with Some v => f v | None => None end.
Definition rev_bound1_rt (floor : bool) (cw : Z) (csg : bool) (a b s : Z) : option Z :=
  let A := Z.abs s in
  let ar := carith cw csg in
  let dv := fun x => if floor || negb csg then x / A else Z.quot x A in
  if A =? 1 then Some b
  else if s <? 0 then
    bind (ar (a - b)) (fun d => bind (ar (d - 1)) (fun d1 =>
    bind (ar (A * dv d1)) (fun m => bind (ar (a - m)) (fun x => ar (x - 1)))))
  else
    bind (ar (b - a)) (fun d => bind (ar (d - 1)) (fun d1 =>
    bind (ar (A * dv d1)) (fun m => bind (ar (a + m)) (fun x => ar (x + 1))))).

Definition reversed_loop_from {S} (body : Z -> S -> ctl * S) (w : Z) (sg : bool) (bound1 : option Z)
    (a s : Z) (fuel : nat) (st : S) : outcome S :=
  let '(r1, r2) := find_relations (s <? 0) true in
  match bound1 with
  | None => UB
  | Some b1 => for_from body w sg r1 r2 b1 a (Z.abs s) fuel st
  end.

Definition reversed_loop_const {S} (body : Z -> S -> ctl * S) w sg (a b s : Z) :=
  reversed_loop_from body w sg (Some (rev_bound1_const a b s)) a s.
Definition reversed_loop_rt {S} (body : Z -> S -> ctl * S) (floor : bool) w sg cw csg (a b s : Z) :=
  reversed_loop_from body w sg (rev_bound1_rt floor cw csg a b s) a s.

(* explicit "nothing leaves the C type" conditions (the complement of finding F16) *)
Definition unsigned_desc (sg : bool) (neg_step reversed : bool) : bool :=
  negb sg && rel_is_gt (snd (find_relations neg_step reversed)).
Definition fwd_safe (w : Z) (sg : bool) (a b s : Z) : bool :=
  if unsigned_desc sg (s <? 0) false
  then in_rangeb w sg (a + Z.abs s) && in_rangeb (prom_w w) (prom_s w sg) (b + Z.abs s)
  else in_rangeb w sg (a + s * py_range_len a b s).
Definition rev_safe (w : Z) (sg : bool) (b1 a s : Z) : bool :=
  in_rangeb w sg b1 &&
  (if unsigned_desc sg (s <? 0) true
   then in_rangeb w sg (b1 + rel_offset (fst (find_relations (s <? 0) true)) + Z.abs s)
        && in_rangeb (prom_w w) (prom_s w sg) (a + Z.abs s)
   else in_rangeb w sg (b1 + rel_offset (fst (find_relations (s <? 0) true)))
        && in_rangeb w sg (a - s)).

(* ---- enumerate: counter temp of the counter type, assigned then incremented in the body ------ *)
Definition enum_body {S} (w : Z) (sg : bool) (typed : bool) (body : Z * Z -> S -> ctl * S)
    (v : Z) (cst : Z * S) : ctl * (Z * S) :=
  let '(c, st) := cst in
  let '(k, st') := body (c, v) st in
  (k, ((if typed then wrap w sg (c + 1) else c + 1), st')).

Fixpoint py_for_pairs {S} (body : Z * Z -> S -> ctl * S) (ps : list (Z * Z)) (st : S) : S * bool :=
  match ps with
  | [] => (st, true)
  | p :: r => match body p st with
              | (Break, st') => (st', false)
              | (Next, st') => py_for_pairs body r st'
              end
  end.
Definition py_enumerate (vals : list Z) (start : Z) : list (Z * Z) :=
  combine (map (fun i => start + Z.of_nat i) (seq 0 (length vals))) vals.

(* ---- a concrete observing body: log every value, remember the target, break at the n-th visit -- *)
Definition lstate := (list Z * option Z)%type.
Definition log_body (brk_at : Z) (v : Z) (st : lstate) : ctl * lstate :=
  let log' := fst st ++ [v] in
  ((if brk_at <=? Z.of_nat (length log') then Break else Next), (log', Some v)).
Definition l0 : lstate := ([], None).

Definition plog_body (brk_at : Z) (p : Z * Z) (st : list (Z * Z)) : ctl * list (Z * Z) :=
  let l := st ++ [p] in ((if brk_at <=? Z.of_nat (length l) then Break else Next), l).
