(* C09 -- ConstantFolding (Cython/Compiler/Optimize.py) on sequence displays: executable model.

   Region: visit_SequenceNode (inlining of starred sequence literals), visit_MulNode /
   _calculate_constant_seq (sequence * int, int * sequence, merged factors, factor <= 0,
   factor 1, run-time factors, a sequence that already has a mult_factor), the literal
   branch of visit_BinopNode for '*', and the consumers of `constant_result` that replace a
   node by a constant: visit_PrimaryCmpNode ('=='), visit_BoolBinopNode ('or'),
   visit_CondExprNode.  Every node carries the `constant_result` attribute the compiler stores
   on it (None = not_a_constant): for a sequence node it is NOT a function of the node (the
   code as it is keeps the value of the sequence as written after a factor was attached).

   Flags:  fx    = false: the code as it is; true: proposed_fixes/C09-multiplied_sequence_stale_constant.diff
                   (_calculate_constant_seq recalculates the constant result of the node it changed)
           guard = true: the code as it is ("and not arg.target.mult_factor" in visit_SequenceNode);
                   false: the inlining without that guard (refuted).

   Leaves: int literals, True/False, None (EOpq false) / Ellipsis (EOpq true) as constants that
   are neither numbers nor iterables, names (run-time values).  *)
From Coq Require Import ZArith List Bool.
Import ListNotations.
Open Scope Z_scope.

Inductive kind := KTuple | KList.

Inductive value :=
| VInt (z : Z) | VBool (b : bool) | VOpq (b : bool)
| VSeq (k : kind) (l : list value).

Inductive expr :=
| EInt (z : Z) | EBool (b : bool) | EOpq (b : bool) | EVar (n : nat)
| EStar (e : expr)                       (* only meaningful as a display item *)
| EDisp (k : kind) (items : list expr)
| EMul (a b : expr)
| ECmp (a b : expr)                      (* a == b *)
| EOr (a b : expr)
| ECond (c a b : expr).                  (* a if c else b *)

(* ---------------- Python semantics (the property oracle's definition) ---------------- *)
Definition kind_eqb (a b : kind) : bool :=
  match a, b with KTuple, KTuple | KList, KList => true | _, _ => false end.

Fixpoint rep_nat {A} (n : nat) (l : list A) : list A :=
  match n with O => [] | S m => l ++ rep_nat m l end.
Definition zrep {A} (n : Z) (l : list A) : list A := rep_nat (Z.to_nat n) l.

Definition as_int (v : value) : option Z :=
  match v with VInt z => Some z | VBool b => Some (if b then 1 else 0) | _ => None end.

Definition py_mul (a b : value) : option value :=
  match a, b with
  | VSeq k l, x => match as_int x with Some n => Some (VSeq k (zrep n l)) | None => None end
  | x, VSeq k l => match as_int x with Some n => Some (VSeq k (zrep n l)) | None => None end
  | x, y => match as_int x, as_int y with Some p, Some q => Some (VInt (p * q)) | _, _ => None end
  end.

Definition truthy (v : value) : bool :=
  match v with
  | VInt z => negb (z =? 0) | VBool b => b | VOpq b => b
  | VSeq _ l => match l with [] => false | _ => true end
  end.

Fixpoint py_eq (a b : value) {struct a} : bool :=
  match a, b with
  | VSeq k1 l1, VSeq k2 l2 =>
      kind_eqb k1 k2 &&
      (fix go (l1 l2 : list value) {struct l1} : bool :=
         match l1, l2 with
         | [], [] => true
         | x :: t, y :: u => py_eq x y && go t u
         | _, _ => false
         end) l1 l2
  | VSeq _ _, _ | _, VSeq _ _ => false
  | VOpq x, VOpq y => Bool.eqb x y
  | VOpq _, _ | _, VOpq _ => false
  | x, y => match as_int x, as_int y with Some p, Some q => p =? q | _, _ => false end
  end.

Section Eval.
  Variable env : nat -> value.

  Fixpoint eval (e : expr) : option value :=
    match e with
    | EInt z => Some (VInt z) | EBool b => Some (VBool b) | EOpq b => Some (VOpq b)
    | EVar n => Some (env n)
    | EStar _ => None
    | EDisp k items =>
        match (fix go (l : list expr) : option (list value) :=
                 match l with
                 | [] => Some []
                 | EStar x :: t =>
                     match eval x, go t with
                     | Some (VSeq _ vs), Some r => Some (vs ++ r)
                     | _, _ => None
                     end
                 | x :: t =>
                     match eval x, go t with
                     | Some v, Some r => Some (v :: r)
                     | _, _ => None
                     end
                 end) items with
        | Some l => Some (VSeq k l)
        | None => None
        end
    | EMul a b => match eval a, eval b with Some x, Some y => py_mul x y | _, _ => None end
    | ECmp a b => match eval a, eval b with Some x, Some y => Some (VBool (py_eq x y)) | _, _ => None end
    | EOr a b => match eval a with Some x => if truthy x then Some x else eval b | None => None end
    | ECond c a b => match eval c with Some x => if truthy x then eval a else eval b | None => None end
    end.
End Eval.

(* ---------------- the tree ConstantFolding leaves behind ---------------- *)
Inductive fnode :=
| FInt (z : Z) | FBool (b : bool) | FOpq (b : bool) | FVar (n : nat)
| FStar (x : fnode)                                                    (* StarredUnpackingNode *)
| FSeq (k : kind) (items : list fnode) (m : option fnode) (c : option value)   (* TupleNode / ListNode: args, mult_factor, constant_result *)
| FMul (a b : fnode) (c : option value)                                (* MulNode left in place, its constant_result *)
| FCmp (a b : fnode) | FOr (a b : fnode) | FCond (c a b : fnode).

(* node.constant_result (None = not_a_constant) *)
Definition cres (n : fnode) : option value :=
  match n with
  | FInt z => Some (VInt z) | FBool b => Some (VBool b) | FOpq b => Some (VOpq b)
  | FSeq _ _ _ c => c
  | FMul _ _ c => c
  | _ => None
  end.

(* what the generated code computes for the folded tree: a sequence node denotes (items) * factor *)
Section Denote.
  Variable env : nat -> value.

  Fixpoint fdenote (n : fnode) : option value :=
    match n with
    | FInt z => Some (VInt z) | FBool b => Some (VBool b) | FOpq b => Some (VOpq b)
    | FVar v => Some (env v)
    | FStar _ => None
    | FSeq k items m _ =>
        match (fix go (l : list fnode) : option (list value) :=
                 match l with
                 | [] => Some []
                 | FStar x :: t =>
                     match fdenote x, go t with
                     | Some (VSeq _ vs), Some r => Some (vs ++ r)
                     | _, _ => None
                     end
                 | x :: t =>
                     match fdenote x, go t with
                     | Some v, Some r => Some (v :: r)
                     | _, _ => None
                     end
                 end) items with
        | Some l =>
            match m with
            | None => Some (VSeq k l)
            | Some mf =>
                match fdenote mf with
                | Some f => match as_int f with Some n => Some (VSeq k (zrep n l)) | None => None end
                | None => None
                end
            end
        | None => None
        end
    | FMul a b _ => match fdenote a, fdenote b with Some x, Some y => py_mul x y | _, _ => None end
    | FCmp a b => match fdenote a, fdenote b with Some x, Some y => Some (VBool (py_eq x y)) | _, _ => None end
    | FOr a b => match fdenote a with Some x => if truthy x then Some x else fdenote b | None => None end
    | FCond c a b => match fdenote c with Some x => if truthy x then fdenote a else fdenote b | None => None end
    end.
End Denote.

(* ---------------- ConstantFolding ---------------- *)
(* visit_SequenceNode: "*<sequence literal>" items are replaced by the literal's items *)
Definition flatten (guard : bool) (items : list fnode) : list fnode :=
  flat_map (fun it =>
    match it with
    | FStar (FSeq _ args None _) => args
    | FStar (FSeq _ args (Some _) _) => if guard then [it] else args
    | _ => [it]
    end) items.

(* TupleNode/ListNode.calculate_constant_result under _calculate_const: every child constant *)
Fixpoint items_cres (items : list fnode) : option (list value) :=
  match items with
  | [] => Some []
  | x :: t => match cres x, items_cres t with Some v, Some r => Some (v :: r) | _, _ => None end
  end.

Definition is_int_value (v : option value) : option Z :=
  match v with Some (VInt z) => Some z | Some (VBool b) => Some (if b then 1 else 0) | _ => None end.

(* factor.constant_result != 1 *)
Definition differs_from_one (v : option value) : bool :=
  match is_int_value v with Some z => negb (z =? 1) | None => true end.

(* visit_BinopNode for '*': both operands literal nodes of class BoolNode/IntNode and a constant
   result -> IntNode; anything else: the node itself *)
Definition binop_mul (a b : fnode) (c : option value) : fnode :=
  match c, a, b with
  | Some (VInt z), (FInt _ | FBool _), (FInt _ | FBool _) => FInt z
  | _, _, _ => FMul a b c
  end.

(* _calculate_constant_seq(node, sequence_node, factor); `node` = MulNode a b with result c *)
Definition calc_seq (fx : bool) (node : fnode) (k : kind) (args : list fnode) (m : option fnode)
           (sc : option value) (factor : fnode) : fnode :=
  let fc := cres factor in
  if differs_from_one fc && (match args with [] => false | _ => true end) then
    match is_int_value fc with
    | Some z =>
        if z <=? 0 then FSeq k [] None (if fx then Some (VSeq k []) else sc)
        else match m with
             | Some mf =>
                 match is_int_value (cres mf) with
                 | Some mz => FSeq k args (Some (FInt (mz * z))) (if fx then None else sc)
                 | None => node
                 end
             | None => FSeq k args (Some factor) (if fx then None else sc)
             end
    | None =>
        match m with
        | Some _ => node
        | None => FSeq k args (Some factor) (if fx then None else sc)
        end
    end
  else FSeq k args m sc.

(* visit_MulNode *)
Definition mul_node (fx : bool) (a b : fnode) : fnode :=
  let c := match cres a, cres b with Some x, Some y => py_mul x y | _, _ => None end in
  match a, b with
  | FSeq k args m sc, _ => calc_seq fx (FMul a b c) k args m sc b
  | FInt _, FSeq k args m sc => calc_seq fx (FMul a b c) k args m sc a
  | _, _ => binop_mul a b c
  end.

Fixpoint fold (fx guard : bool) (e : expr) : fnode :=
  match e with
  | EInt z => FInt z | EBool b => FBool b | EOpq b => FOpq b | EVar n => FVar n
  | EStar x => FStar (fold fx guard x)
  | EDisp k items =>
      let fl := flatten guard (map (fold fx guard) items) in
      FSeq k fl None (match items_cres fl with Some l => Some (VSeq k l) | None => None end)
  | EMul a b => mul_node fx (fold fx guard a) (fold fx guard b)
  | ECmp a b =>
      let a' := fold fx guard a in
      let b' := fold fx guard b in
      match cres a', cres b' with
      | Some x, Some y => FBool (py_eq x y)
      | _, _ => FCmp a' b'
      end
  | EOr a b =>
      let a' := fold fx guard a in
      let b' := fold fx guard b in
      match cres a' with
      | Some x => if truthy x then a' else b'
      | None => FOr a' b'
      end
  | ECond c a b =>
      let c' := fold fx guard c in
      let a' := fold fx guard a in
      let b' := fold fx guard b in
      match cres c' with
      | Some x => if truthy x then a' else b'
      | None => FCond c' a' b'
      end
  end.

(* expressions without a consumer of constant results ('==', 'or', conditional expression):
   displays, repetitions, starred items -- the part of the code as it is that is correct *)
Fixpoint display_only (e : expr) : bool :=
  match e with
  | EInt _ | EBool _ | EOpq _ | EVar _ => true
  | EStar x => display_only x
  | EDisp _ items => forallb display_only items
  | EMul a b => display_only a && display_only b
  | ECmp _ _ | EOr _ _ | ECond _ _ _ => false
  end.
