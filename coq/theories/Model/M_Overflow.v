(* Model of Cython/Utility/Overflow.c (both preprocessor branches), of the overflowcheck
   plumbing in ExprNodes.NumBinopNode / UnaryMinusNode / SimpleCallNode(abs) and of
   Optimize.ConsolidateOverflowCheck.

   A helper instantiated at a C integer type of width w and signedness s takes operands that
   are values of that type and returns (value, bit) where bit is what the helper or-s into
   *overflow.  Every C operation is followed by an explicit wrap at the width of the type it
   is carried out in; lw / llw are the widths of long / long long (the "wider type" paths),
   iw the width of int (Binop dispatch).  __Pyx_is_constant(x) is __builtin_constant_p(x):
   its value depends on inlining, so the three places that test it are boolean parameters
   (cb, ca, swap) and the theorems hold for every choice. *)
From Coq Require Import ZArith List Bool Lia.
From CyVerif Require Import Lib.CInt.
Import ListNotations.
Open Scope Z_scope.

(* ---- Common.proto macros ------------------------------------------------------------- *)
(* __PYX_HALF_MAX(type) = ((type) 1) << (sizeof(type) * 8 - 2) *)
Definition pyx_half_max (w : Z) (s : bool) : Z := wrap w s (Z.shiftl 1 (w - 2)).
(* __PYX_MIN(type) = IS_UNSIGNED(type) ? (type) 0 : 0 - HALF_MAX - HALF_MAX *)
Definition pyx_min (w : Z) (s : bool) : Z :=
  if s then wrap w s (wrap w s (0 - pyx_half_max w s) - pyx_half_max w s) else 0.
(* __PYX_MAX(type) = ~__PYX_MIN(type) *)
Definition pyx_max (w : Z) (s : bool) : Z := wrap w s (Z.lnot (pyx_min w s)).
(* the shift and the subtractions in __PYX_MIN stay inside the type (no signed overflow; for an
   unsigned type the arithmetic arm of the conditional is not evaluated) *)
Definition pyx_min_no_overflow (w : Z) (s : bool) : bool :=
  if s then in_rangeb w s (Z.shiftl 1 (w - 2)) && in_rangeb w s (0 - pyx_half_max w s)
            && in_rangeb w s (0 - pyx_half_max w s - pyx_half_max w s)
  else true.

(* ---- builtin branch: contract of __builtin_{add,sub,mul}_overflow --------------------
   "the result is the infinite-precision result wrapped to the type; returns true iff the
   infinite-precision result is not representable" (gcc manual 6.56, clang LanguageExtensions) *)
Definition builtin_res (w : Z) (s : bool) (exact : Z) : Z * bool :=
  (wrap w s exact, negb (in_rangeb w s exact)).

(* ---- portable branch, BaseCaseUnsigned ------------------------------------------------ *)
Definition uadd_portable (w a b : Z) : Z * bool :=
  let r := wrap w false (a + b) in (r, r <? a).

Definition usub_portable (w a b : Z) : Z * bool :=
  let r := wrap w false (a - b) in (r, a <? r).

(* __Pyx_mul_const_<uint>_checking_overflow; swap = is_constant(a) && !is_constant(b) *)
Definition umul_const_portable (w : Z) (swap : bool) (a b : Z) : Z * bool :=
  let a' := if swap then b else a in
  let b' := if swap then a else b in
  let prod := wrap w false (a' * b') in
  (prod, if b' =? 0 then false else Z.quot (pyx_max w false) b' <? a').

(* widening path shared by add/mul: compute in the bw-bit type, cast down, compare *)
Definition widen_res (w : Z) (s : bool) (bw : Z) (exact : Z) : Z * bool :=
  let big_r := wrap bw s exact in
  let r := wrap w s big_r in
  (r, negb (big_r =? r)).

Definition umul_portable (w lw llw : Z) (cb ca swap : bool) (a b : Z) : Z * bool :=
  if cb then umul_const_portable w swap a b
  else if ca then umul_const_portable w swap b a
  else if w <? lw then widen_res w false lw (a * b)
  else if w <? llw then widen_res w false llw (a * b)
  else umul_const_portable w swap a b.

(* __Pyx_div_<uint>_checking_overflow (both branches).  Not referenced by the compiler. *)
Definition udiv_helper (w a b : Z) : Z * bool :=
  if b =? 0 then (0, true) else (Z.quot a b, false).

(* ---- portable branch, BaseCaseSigned --------------------------------------------------- *)
(* the word whose non-zero-ness is or-ed into *overflow by the sign trick of add *)
Definition sadd_flagword (w a b : Z) : Z :=
  let ua := wrap w false a in let ub := wrap w false b in
  let r := wrap w false (ua + ub) in
  Z.shiftr (Z.land (Z.lxor ua r) (Z.lxor ub r)) (w - 1).

Definition sadd_portable (w lw llw a b : Z) : Z * bool :=
  if w <? lw then widen_res w true lw (a + b)
  else if w <? llw then widen_res w true llw (a + b)
  else let r := wrap w false (wrap w false a + wrap w false b) in
       (wrap w true r, negb (sadd_flagword w a b =? 0)).

Definition ssub_flagword (w a b : Z) : Z :=
  let ua := wrap w false a in let ub := wrap w false b in
  let r := wrap w false (ua - ub) in
  Z.shiftr (Z.land (Z.lxor ua ub) (Z.lxor ua r)) (w - 1).

Definition ssub_portable (w a b : Z) : Z * bool :=
  let r := wrap w false (wrap w false a - wrap w false b) in
  (wrap w true r, negb (ssub_flagword w a b =? 0)).

Definition smul_const_flag (w a b : Z) : bool :=
  if 1 <? b then (Z.quot (pyx_max w true) b <? a) || (a <? Z.quot (pyx_min w true) b)
  else if b =? -1 then a =? pyx_min w true
  else if b <? -1 then (Z.quot (pyx_min w true) b <? a) || (a <? Z.quot (pyx_max w true) b)
  else false.

Definition smul_const_portable (w : Z) (swap : bool) (a b : Z) : Z * bool :=
  let a' := if swap then b else a in
  let b' := if swap then a else b in
  (wrap w true (wrap w false (wrap w false a' * wrap w false b')), smul_const_flag w a' b').

Definition smul_portable (w lw llw : Z) (cb ca swap : bool) (a b : Z) : Z * bool :=
  if cb then smul_const_portable w swap a b
  else if ca then smul_const_portable w swap b a
  else if w <? lw then widen_res w true lw (a * b)
  else if w <? llw then widen_res w true llw (a * b)
  else smul_const_portable w swap a b.

(* __Pyx_div_<int>_checking_overflow (both branches) as written: the quotient is taken on the
   operands cast to the unsigned type.  Not referenced by the compiler ('/' and '//' are not
   in NumBinopNode.overflow_op_names; DivNode has its own guards, see M_CMath.div_node). *)
Definition sdiv_helper (w a b : Z) : Z * bool :=
  if b =? 0 then (0, true)
  else (wrap w true (Z.quot (wrap w false a) (wrap w false b)),
        (a =? pyx_min w true) && (b =? -1)).

(* C division x / y on a signed type is defined (C11 6.5.5) *)
Definition cdiv_defined (w : Z) (s : bool) (x y : Z) : bool :=
  negb (y =? 0) && negb (s && (x =? min_int w s) && (y =? -1)).

(* ---- undefined-behaviour freedom of the helpers' own operations ------------------------
   signed operations must not overflow in the type they are carried out in; divisions must be
   defined; shift counts in [0, width) (unsigned wrap-around and the implementation-defined
   narrowing casts are not UB).  The flag word or-ed into an int must be 0 or 1. *)
Definition widen_ub_free (w : Z) (s : bool) (bw : Z) (exact : Z) : bool :=
  if s then in_rangeb bw true exact else true.

Definition sadd_ub_free (w lw llw a b : Z) : bool :=
  if w <? lw then widen_ub_free w true lw (a + b)
  else if w <? llw then widen_ub_free w true llw (a + b)
  else (0 <=? w - 1) && (w - 1 <? w) && (sadd_flagword w a b <=? 1) && (0 <=? sadd_flagword w a b).

Definition ssub_ub_free (w a b : Z) : bool :=
  (0 <=? w - 1) && (w - 1 <? w) && (ssub_flagword w a b <=? 1) && (0 <=? ssub_flagword w a b).

Definition smul_const_ub_free (w a b : Z) : bool :=
  pyx_min_no_overflow w true &&
  (if 1 <? b then cdiv_defined w true (pyx_max w true) b && cdiv_defined w true (pyx_min w true) b
   else if b =? -1 then true
   else if b <? -1 then cdiv_defined w true (pyx_min w true) b && cdiv_defined w true (pyx_max w true) b
   else true).

Definition smul_ub_free (w lw llw : Z) (cb ca swap : bool) (a b : Z) : bool :=
  let a' := if swap then b else a in
  let b' := if swap then a else b in
  if cb then smul_const_ub_free w a' b'
  else if ca then smul_const_ub_free w b' a'
  else if w <? lw then widen_ub_free w true lw (a * b)
  else if w <? llw then widen_ub_free w true llw (a * b)
  else smul_const_ub_free w a' b'.

Definition umul_const_ub_free (w b : Z) : bool := true.  (* division only under b != 0 *)

(* ---- LeftShift ------------------------------------------------------------------------ *)
Definition lshift_check (w : Z) (s : bool) (a b : Z) : bool :=
  (s && ((a <? 0) || (b <? 0)))
  || (wrap w s w <=? b)                              (* b >= (TYPE)(8 * sizeof(TYPE)) *)
  || (Z.shiftr (pyx_max w s) b <? a).                (* a > (__PYX_MAX(TYPE) >> b) *)

Definition lshift_helper (w : Z) (s : bool) (a b : Z) : Z * bool :=
  if lshift_check w s a b then (0, true) else (wrap w s (Z.shiftl a b), false).

(* the two shifts that are actually executed have a count in [0,w) and, for a signed type, a
   non-negative left operand whose shifted value is representable (C11 6.5.7p4) *)
Definition lshift_ub_free (w : Z) (s : bool) (a b : Z) : bool :=
  pyx_min_no_overflow w s &&
  (if (s && ((a <? 0) || (b <? 0))) || (wrap w s w <=? b) then true
   else (0 <=? b) && (b <? w) &&
        (if Z.shiftr (pyx_max w s) b <? a then true
         else if s then (0 <=? a) && in_rangeb w s (a * 2 ^ b) else true)).

(* ---- Binop: dispatch of a typedef'd type by sizeof -------------------------------------- *)
Inductive binop := Add | Sub | Mul.

Definition exact_op (op : binop) (a b : Z) : Z :=
  match op with Add => a + b | Sub => a - b | Mul => a * b end.

(* the helper of the base type of width w, in the given preprocessor branch *)
Definition base_helper (builtin : bool) (op : binop) (w : Z) (s : bool) (lw llw : Z)
    (cb ca swap : bool) (a b : Z) : Z * bool :=
  if builtin then builtin_res w s (exact_op op a b)
  else match op, s with
       | Add, false => uadd_portable w a b
       | Sub, false => usub_portable w a b
       | Mul, false => umul_portable w lw llw cb ca swap a b
       | Add, true => sadd_portable w lw llw a b
       | Sub, true => ssub_portable w a b
       | Mul, true => smul_portable w lw llw cb ca swap a b
       end.

Inductive hres := R (v : Z) (f : bool) | Fatal.

Definition of_pair (p : Z * bool) : hres := R (fst p) (snd p).

(* __Pyx_<BINOP>_<NAME>_checking_overflow for a type that is not literally int/long/long long:
   sizeof(TYPE) < sizeof(int) -> the unchecked macro (a) op (b) (computed in int after the
   integer promotions, converted to TYPE by the return) *)
Definition binop_dispatch (builtin : bool) (op : binop) (iw lw llw : Z) (w : Z) (s : bool)
    (cb ca swap : bool) (a b : Z) : hres :=
  if w <? iw then R (wrap w s (wrap iw true (exact_op op a b))) false
  else if w =? iw then of_pair (base_helper builtin op iw s lw llw cb ca swap a b)
  else if w =? lw then of_pair (base_helper builtin op lw s lw llw cb ca swap a b)
  else if w =? llw then of_pair (base_helper builtin op llw s lw llw cb ca swap a b)
  else Fatal.

(* SizeCheck.proto: module import fails unless this holds *)
Definition size_sane (iw lw llw w : Z) : bool := (w <=? iw) || (w =? llw) || (w =? lw).

(* ---- the generated statement ----------------------------------------------------------- *)
Inductive oc := Val (v : Z) | Ovf | Undef.

Definition raise_if (p : Z * bool) : oc := if snd p then Ovf else Val (fst p).

Inductive cop := OAdd | OSub | OMul | OLshift.

Definition exact_cop (op : cop) (a b : Z) : Z :=
  match op with OAdd => a + b | OSub => a - b | OMul => a * b | OLshift => a * 2 ^ b end.

Definition helper (builtin : bool) (op : cop) (w : Z) (s : bool) (lw llw : Z)
    (cb ca swap : bool) (a b : Z) : Z * bool :=
  match op with
  | OAdd => base_helper builtin Add w s lw llw cb ca swap a b
  | OSub => base_helper builtin Sub w s lw llw cb ca swap a b
  | OMul => base_helper builtin Mul w s lw llw cb ca swap a b
  | OLshift => lshift_helper w s a b
  end.

(* NumBinopNode with overflow_check: bit = 0; r = helper(a, b, &bit); if (bit) raise *)
Definition binop_node (builtin : bool) (op : cop) (w : Z) (s : bool) (lw llw : Z)
    (cb ca swap : bool) (a b : Z) : oc :=
  raise_if (helper builtin op w s lw llw cb ca swap a b).

(* UnaryMinusNode.  checked = false is the code as it is: "(-x)" with no test at all, so the
   most negative value of a signed type overflows (UB) and an unsigned operand wraps.
   checked = true is the proposed repair: test first, like abs() does. *)
Definition neg_node (checked : bool) (w : Z) (s : bool) (a : Z) : oc :=
  if checked && negb (in_rangeb w s (- a)) then Ovf
  else if s && (a =? min_int w s) then Undef
  else Val (wrap w s (- a)).

(* SimpleCallNode for abs/labs/__Pyx_abs_longlong under overflowcheck (signed int types):
   if (x == __PYX_MIN(T)) raise; r = abs(x) *)
Definition abs_node (w : Z) (a : Z) : oc :=
  if a =? pyx_min w true then Ovf
  else if a =? min_int w true then Undef
  else Val (wrap w true (Z.abs a)).

(* a << b has a mathematical value only for b >= 0 *)
Definition exact_defined (op : cop) (b : Z) : bool :=
  match op with OLshift => 0 <=? b | _ => true end.

(* ---- executable count of spurious flags (flag set although the exact result fits) ------- *)
Definition spurious (builtin : bool) (op : cop) (w : Z) (s : bool) (lw llw : Z)
    (cb ca swap : bool) (a b : Z) : bool :=
  snd (helper builtin op w s lw llw cb ca swap a b) && in_rangeb w s (exact_cop op a b)
  && exact_defined op b.

(* ---- ConsolidateOverflowCheck ----------------------------------------------------------
   Expression trees over checked binary operators; every operand has the (common) result type
   (w, s).  An annotated node carries overflow_check (own : bool): true = the node allocates,
   zeroes and finally tests a bit; false = it or-s into the bit of the nearest enclosing node
   that owns one. *)
Inductive expr :=
  | EVar (i : nat)
  | EConst (c : Z)
  | EBin (op : cop) (e1 e2 : expr).

Inductive aexpr :=
  | AVar (i : nat)
  | AConst (c : Z)
  | ABin (own : bool) (op : cop) (e1 e2 : aexpr).

(* what analyse_c_operation produces: every node checks for itself *)
Fixpoint annotate (e : expr) : aexpr :=
  match e with
  | EVar i => AVar i
  | EConst c => AConst c
  | EBin op e1 e2 => ABin true op (annotate e1) (annotate e2)
  end.

(* visit_NumBinopNode with overflow_fold on: inside = (self.overflow_bit_node is not None) *)
Fixpoint consolidate (inside : bool) (e : aexpr) : aexpr :=
  match e with
  | AVar i => AVar i
  | AConst c => AConst c
  | ABin own op e1 e2 =>
      if own then ABin (negb inside) op (consolidate true e1) (consolidate true e2)
      else ABin own op (consolidate inside e1) (consolidate inside e2)
  end.

Section Eval.
  Variable builtin : bool.
  Variables w lw llw : Z.
  Variable s : bool.
  Variable env : nat -> Z.

  Definition hlp (op : cop) (a b : Z) : Z * bool := helper builtin op w s lw llw false false false a b.

  (* generated code of an annotated tree.  Returns (value, pending) where pending is the
     or of the bits written by not-yet-tested nodes below; None = OverflowError raised. *)
  Fixpoint run (e : aexpr) : option (Z * bool) :=
    match e with
    | AVar i => Some (env i, false)
    | AConst c => Some (c, false)
    | ABin own op e1 e2 =>
        match run e1 with
        | None => None
        | Some (v1, p1) =>
          match run e2 with
          | None => None
          | Some (v2, p2) =>
              let r := hlp op v1 v2 in
              let bit := p1 || p2 || snd r in
              if own then (if bit then None else Some (fst r, false))
              else Some (fst r, bit)
          end
        end
    end.

  (* reference: some sub-operation, evaluated on exact operand values, overflows or is flagged *)
  Fixpoint ref_eval (e : expr) : option Z :=
    match e with
    | EVar i => Some (env i)
    | EConst c => Some c
    | EBin op e1 e2 =>
        match ref_eval e1, ref_eval e2 with
        | Some v1, Some v2 => let r := hlp op v1 v2 in if snd r then None else Some (fst r)
        | _, _ => None
        end
    end.
End Eval.

(* a pending bit that nobody tests would be a lost overflow: the top node must own its bit *)
Definition run_top (builtin : bool) (w lw llw : Z) (s : bool) (env : nat -> Z) (e : aexpr)
  : option (option Z) :=
  match run builtin w lw llw s env e with
  | None => Some None                    (* OverflowError *)
  | Some (v, false) => Some (Some v)
  | Some (v, true) => None               (* overflow bit set and never tested *)
  end.

Definition env_of_list (l : list Z) (i : nat) : Z := nth i l 0.

(* ---- typedef'd integer types: the Binop if-chain in detail ---------------------------------
   CTypedefType.overflow_check_binop instantiates Binop / LeftShift with TYPE = the typedef name
   for every typedef whose DECLARED rank is at least that of int; the real width w and signedness s
   are only known to the C compiler (an extern ctypedef need not declare the exact size).
   narrow_cmp = the comparison between sizeof(TYPE) and sizeof(int) that guards the shortcut arm
   (CmpLt is the code as it is). *)
Inductive narrow_cmp := CmpLt | CmpLe.

Definition cmp_holds (c : narrow_cmp) (w iw : Z) : bool :=
  match c with CmpLt => w <? iw | CmpLe => w <=? iw end.

(* the callee selected by the if-chain: the shortcut macro, a base helper (width, signedness), or
   Py_FatalError *)
Inductive choice := CNarrow | CBase (bw : Z) (bs : bool) | CFatal.

Definition dispatch_choice (c : narrow_cmp) (iw lw llw w : Z) (s : bool) : choice :=
  if cmp_holds c w iw then CNarrow
  else if w =? iw then CBase iw s
  else if w =? lw then CBase lw s
  else if w =? llw then CBase llw s
  else CFatal.

(* the shortcut arm as it is: (a) op (b) after the integer promotions, converted to TYPE by the
   return statement; the bit is not touched *)
Definition narrow_unchecked (op : binop) (iw w : Z) (s : bool) (a b : Z) : hres :=
  R (wrap w s (wrap iw true (exact_op op a b))) false.

(* the shortcut arm repaired (proposed fix): the int helper on the promoted operands, then
   "if ((TYPE) r != r) *overflow |= 1; return (TYPE) r;"  (used for sizeof(TYPE) < sizeof(int)) *)
Definition narrow_checked (builtin : bool) (op : binop) (iw lw llw w : Z) (s : bool)
    (cb ca swap : bool) (a b : Z) : hres :=
  let p := base_helper builtin op iw true lw llw cb ca swap a b in
  R (wrap w s (fst p)) (snd p || negb (wrap w s (fst p) =? fst p)).

Definition binop_dispatch_v (fx : bool) (c : narrow_cmp) (builtin : bool) (op : binop)
    (iw lw llw w : Z) (s : bool) (cb ca swap : bool) (a b : Z) : hres :=
  match dispatch_choice c iw lw llw w s with
  | CNarrow => if fx then narrow_checked builtin op iw lw llw w s cb ca swap a b
               else narrow_unchecked op iw w s a b
  | CBase bw bs => of_pair (base_helper builtin op bw bs lw llw cb ca swap a b)
  | CFatal => Fatal
  end.

(* LeftShift instantiated at a typedef'd type.  For a type narrower than int the macros are
   evaluated after the integer promotions: __PYX_MIN(T) is the int 0 for an unsigned T, so
   __PYX_MAX(T) = ~0 = -1 and "a > (-1 >> b)" holds for every a: the bit is always set.  For a
   signed narrow T the int-valued macros have the values of the type (pyx_max w true). *)
Definition lshift_td (iw w : Z) (s : bool) (a b : Z) : Z * bool :=
  if (w <? iw) && negb s then (0, true) else lshift_helper w s a b.

Definition oc_of_hres (h : hres) : oc :=
  match h with R v f => if f then Ovf else Val v | Fatal => Undef end.

(* NumBinopNode whose result type is a typedef'd type of real width w / signedness s *)
Definition typedef_node (fx : bool) (c : narrow_cmp) (builtin : bool) (op : cop)
    (iw lw llw w : Z) (s : bool) (cb ca swap : bool) (a b : Z) : oc :=
  match op with
  | OAdd => oc_of_hres (binop_dispatch_v fx c builtin Add iw lw llw w s cb ca swap a b)
  | OSub => oc_of_hres (binop_dispatch_v fx c builtin Sub iw lw llw w s cb ca swap a b)
  | OMul => oc_of_hres (binop_dispatch_v fx c builtin Mul iw lw llw w s cb ca swap a b)
  | OLshift => raise_if (lshift_td iw w s a b)
  end.

(* ---- the raise in a nogil context -----------------------------------------------------------
   NumBinopNode.generate_evaluation_code emits PyErr_SetString for a set bit.  Inside a nogil
   section / nogil function the thread holds no GIL and has no current thread state: without
   put_ensure_gil() the call dereferences a NULL thread state (gil_fixed = false: the code as it
   is; true: the raise is bracketed by put_ensure_gil / put_release_ensured_gil like DivNode). *)
Definition nogil_node (gil_fixed in_nogil : bool) (o : oc) : oc :=
  match o with
  | Ovf => if in_nogil && negb gil_fixed then Undef else Ovf
  | _ => o
  end.
