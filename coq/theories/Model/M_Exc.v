(* C22 -- exception handling.  Two executable semantics of one statement language:

   exec_ref : CPython 3.12 (ceval.c: PUSH_EXC_INFO / POP_EXCEPT / RERAISE / WITH_EXCEPT_START,
              errors.c: _PyErr_SetObject context chaining, do_raise), working on the TOP item of
              the thread's exc_info stack;
   exec_sch : the code Cython generates: source-level rewriting first (desugar =
              PostParse.visit_ExceptClauseNode for the implicit deletion of the as-name,
              WithTransform.visit_WithStatNode for with-blocks) and then the generated C of
              TryExceptStatNode / ExceptClauseNode / TryFinallyStatNode / ReraiseStatNode /
              WithStatNode with the helpers of Utility/Exceptions.c
              (__Pyx_ExceptionSave reads the TOPMOST non-empty exc_info item, __Pyx_ExceptionReset,
              __Pyx_ExceptionSwap and __Pyx_GetException write the TOP item).

   The exc_info stack: a compiled function never pushes or pops items (only generators do), it
   reads the topmost non-empty item and writes the top item.  So the state carries the value of
   the top item (top) and the value of the topmost non-empty item underneath (below, constant
   during one call; None when the function is not called from inside a generator frame or
   nothing is being handled there). *)
From Coq Require Import List Bool Arith.
Import ListNotations.

(* ---------- exception objects ---------- *)
(* classes: 0 Exception (as a pattern it matches everything raised here), 1 RuntimeError,
   2 UnboundLocalError, >= 3 user classes deriving directly from Exception *)
Definition c_runtime : nat := 1.
Definition c_unbound : nat := 2.

Record eobj := mkobj { e_cls : nat; e_user : bool;
                       e_ctx : option nat; e_cause : option nat; e_supp : bool }.

Inductive event :=
| EvLog (n : nat)                                         (* a block ran *)
| EvProbe (h : option nat) (snap : list eobj)             (* sys.exc_info()[1] + all chain fields *)
| EvEnter (k : nat)                                       (* __enter__ of manager k *)
| EvExit (k : nat) (arg : option nat) (h : option nat) (snap : list eobj).  (* __exit__(arg) *)

(* the part of the state both semantics treat identically *)
Record core := mkcore { heap : list eobj; env : list (nat * nat); log : list event }.

Record state := mkst { co : core;
                       top : option nat;          (* value of the top exc_info item *)
                       below : option nat;        (* topmost non-empty item underneath *)
                       cur : option (option nat); (* scheme only: exc_vars temps of the lexically
                                                     innermost handler; Some None = zeroed *)
                       wx : bool }.               (* scheme only: exit_var of the innermost with is live *)

Definition set_co k st := mkst k (top st) (below st) (cur st) (wx st).
Definition set_top t st := mkst (co st) t (below st) (cur st) (wx st).
Definition set_cur c st := mkst (co st) (top st) (below st) c (wx st).
Definition set_wx w st := mkst (co st) (top st) (below st) (cur st) w.

(* _PyErr_GetTopmostException *)
Definition handled (st : state) : option nat :=
  match top st with Some e => Some e | None => below st end.

Inductive oc := ONorm | ORaise (e : nat) | ORet | OBrk | OCont
              | OCrash.   (* scheme only: error return without an exception set / NULL deref *)

(* ---------- heap operations ---------- *)
Definition get (h : list eobj) (e : nat) : eobj := nth e h (mkobj 0 false None None false).
Fixpoint upd (h : list eobj) (e : nat) (f : eobj -> eobj) : list eobj :=
  match h, e with
  | [], _ => []
  | o :: t, O => f o :: t
  | o :: t, S e' => o :: upd t e' f
  end.
Definition with_ctx (c : option nat) (o : eobj) := mkobj (e_cls o) (e_user o) c (e_cause o) (e_supp o).
(* PyException_SetCause: also sets __suppress_context__ *)
Definition with_cause (c : option nat) (o : eobj) := mkobj (e_cls o) (e_user o) (e_ctx o) c true.

(* the cycle-avoidance walk of _PyErr_SetObject *)
Fixpoint break_cycle (fuel : nat) (h : list eobj) (o value : nat) : list eobj :=
  match fuel with
  | O => h
  | S f => match e_ctx (get h o) with
           | None => h
           | Some c => if c =? value then upd h o (with_ctx None) else break_cycle f h c value
           end
  end.
(* _PyErr_SetObject: implicit chaining to the exception being handled *)
Definition set_ctx (h : list eobj) (value : nat) (hd : option nat) : list eobj :=
  match hd with
  | None => h
  | Some x => if x =? value then h
              else upd (break_cycle (length h) h x value) value (with_ctx (Some x))
  end.

Definition add_log (ev : event) (k : core) : core := mkcore (heap k) (env k) (log k ++ [ev]).
Definition set_heap (h : list eobj) (k : core) : core := mkcore h (env k) (log k).
Definition alloc (c : nat) (user : bool) (k : core) : nat * core :=
  (length (heap k), set_heap (heap k ++ [mkobj c user None None false]) k).
Fixpoint lookup (x : nat) (l : list (nat * nat)) : option nat :=
  match l with [] => None | (y, e) :: t => if y =? x then Some e else lookup x t end.
Definition unbind (x : nat) (k : core) : core :=
  mkcore (heap k) (filter (fun p => negb (fst p =? x)) (env k)) (log k).
Definition bind (x e : nat) (k : core) : core :=
  let k' := unbind x k in mkcore (heap k') ((x, e) :: env k') (log k').
Definition bind_opt (x : option nat) (e : nat) k := match x with Some n => bind n e k | None => k end.
Definition unbind_opt (x : option nat) k := match x with Some n => unbind n k | None => k end.

(* PyErr_SetObject(value) and the error exit *)
Definition raise_with (e : nat) (k : core) (hd : option nat) : oc * core :=
  (ORaise e, set_heap (set_ctx (heap k) e hd) k).
(* an exception created by the runtime itself (PyErr_SetString / PyErr_Format) *)
Definition raise_internal (c : nat) (k : core) (hd : option nat) : oc * core :=
  let (e, k1) := alloc c false k in raise_with e k1 hd.

Inductive what := RNew (c : nat) | RVar (x : nat).
Inductive cause := NoCause | FromNone | FromNew (c : nat) | FromVar (x : nat).

(* raise W [from C]: do_raise() of ceval.c == __Pyx_Raise(): operands left to right, then
   PyException_SetCause, then PyErr_SetObject *)
Definition do_raise (w : what) (cz : cause) (k : core) (hd : option nat) : oc * core :=
  let r1 := match w with
            | RNew c => let (e, k1) := alloc c true k in Some (e, k1)
            | RVar x => match lookup x (env k) with Some e => Some (e, k) | None => None end
            end in
  match r1 with
  | None => raise_internal c_unbound k hd
  | Some (e, k1) =>
      match cz with
      | NoCause => raise_with e k1 hd
      | FromNone => raise_with e (set_heap (upd (heap k1) e (with_cause None)) k1) hd
      | FromNew c => let (e2, k2) := alloc c true k1 in
                     raise_with e (set_heap (upd (heap k2) e (with_cause (Some e2))) k2) hd
      | FromVar x => match lookup x (env k1) with
                     | Some e2 => raise_with e (set_heap (upd (heap k1) e (with_cause (Some e2))) k1) hd
                     | None => raise_internal c_unbound k1 hd
                     end
      end
  end.

(* run a shared operation on the core, giving it the handled exception *)
Definition lift (g : core -> option nat -> oc * core) (st : state) : oc * state :=
  let (o, k) := g (co st) (handled st) in (o, set_co k st).
Definition logst (ev : core -> option nat -> event) (st : state) : state :=
  set_co (add_log (ev (co st) (handled st)) (co st)) st.

Definition ev_probe (k : core) (hd : option nat) := EvProbe hd (heap k).
Definition ev_exit (n : nat) (arg : option nat) (k : core) (hd : option nat) := EvExit n arg hd (heap k).

Definition pat_matches (p : option nat) (c : nat) : bool :=
  match p with None => true | Some q => (q =? 0) || (q =? c) end.
Definition cls_of (st : state) (e : nat) := e_cls (get (heap (co st)) e).

(* ---------- source language ---------- *)
Inductive exitk := XPass | XSwallow | XRaise (c : nat).   (* what __exit__ does *)

Inductive stmt :=
| SSkip | SLog (n : nat) | SProbe
| SRaise (w : what) (cz : cause) | SReraise
| SSeq (a b : stmt)
| STry (body : stmt) (hs : handlers) (orelse : stmt)
| SFinally (body fin : stmt)
| SWith (k : nat) (x : exitk) (body : stmt)
| SLoop (n : nat) (body : stmt)          (* for _ in range(n) *)
| SReturn | SBreak | SContinue
with handlers :=
| HNil
| HCons (pat : option nat) (name : option nat) (body : stmt) (tl : handlers).

(* bare raise when nothing lexical is known: the topmost handled exception, else RuntimeError *)
Definition reraise_dynamic (st : state) : oc * state :=
  match handled st with
  | Some e => (ORaise e, st)
  | None => lift (raise_internal c_runtime) st
  end.

(* after a finally/with clean-up: the clean-up outcome wins unless it completed normally *)
Definition after (pending o2 : oc) : oc := match o2 with ONorm => pending | _ => o2 end.

(* ---------- reference semantics: CPython ---------- *)
Fixpoint exec_ref (s : stmt) (r : state) {struct s} : oc * state :=
  match s with
  | SSkip => (ONorm, r)
  | SLog n => (ONorm, logst (fun _ _ => EvLog n) r)
  | SProbe => (ONorm, logst ev_probe r)
  | SRaise w cz => lift (do_raise w cz) r
  | SReraise => reraise_dynamic r
  | SSeq a b => let (o, r1) := exec_ref a r in
                match o with ONorm => exec_ref b r1 | _ => (o, r1) end
  | STry body hs orelse =>
      let (o, r1) := exec_ref body r in
      match o with
      | ONorm => exec_ref orelse r1
      | ORaise e => handle_ref hs e r1
      | _ => (o, r1)
      end
  | SFinally body fin =>
      let (o, r1) := exec_ref body r in
      match o with
      | ORaise e =>                                  (* PUSH_EXC_INFO; fin; POP_EXCEPT; RERAISE *)
          let saved := top r1 in
          let (o2, r2) := exec_ref fin (set_top (Some e) r1) in
          (after (ORaise e) o2, set_top saved r2)
      | _ => let (o2, r2) := exec_ref fin r1 in (after o o2, r2)
      end
  | SWith k x body =>
      let (o, r1) := exec_ref body (logst (fun _ _ => EvEnter k) r) in
      match o with
      | ORaise e =>                                  (* PUSH_EXC_INFO; WITH_EXCEPT_START *)
          let saved := top r1 in
          let r2 := logst (ev_exit k (Some e)) (set_top (Some e) r1) in
          match x with
          | XSwallow => (ONorm, set_top saved r2)
          | XPass => (ORaise e, set_top saved r2)
          | XRaise c => let (o', r3) := lift (raise_internal c) r2 in (o', set_top saved r3)
          end
      | _ =>
          let r2 := logst (ev_exit k None) r1 in
          match x with
          | XRaise c => lift (raise_internal c) r2
          | _ => (o, r2)
          end
      end
  | SLoop n body =>
      (fix loop (i : nat) (r : state) : oc * state :=
         match i with
         | O => (ONorm, r)
         | S i' => let (o, r1) := exec_ref body r in
                   match o with
                   | ONorm | OCont => loop i' r1
                   | OBrk => (ONorm, r1)
                   | _ => (o, r1)
                   end
         end) n r
  | SReturn => (ORet, r)
  | SBreak => (OBrk, r)
  | SContinue => (OCont, r)
  end
with handle_ref (hs : handlers) (e : nat) (r : state) {struct hs} : oc * state :=
  match hs with
  | HNil => (ORaise e, r)
  | HCons pat name body tl =>
      if pat_matches pat (cls_of r e) then
        let saved := top r in                        (* PUSH_EXC_INFO *)
        let r1 := set_co (bind_opt name e (co r)) (set_top (Some e) r) in
        let (o, r2) := exec_ref body r1 in
        (o, set_top saved (set_co (unbind_opt name (co r2)) r2))   (* name = None; del name; POP_EXCEPT *)
      else handle_ref tl e r
  end.

(* ---------- what the compiler generates ---------- *)
Inductive cstmt :=
| CSkip | CLog (n : nat) | CProbe
| CRaise (w : what) (cz : cause) | CReraise
| CSeq (a b : cstmt)
| CTry (body : cstmt) (hs : chandlers) (orelse : cstmt)
| CFinally (handle_error_case : bool) (body fin : cstmt)
| CLoop (n : nat) (body : cstmt)
| CReturn | CBreak | CContinue
| CDel (x : nat)                                  (* del x, ignore_nonexisting *)
| CWithScope (k : nat) (body : cstmt)             (* WithStatNode: __enter__, exit_var temp *)
| CExitExc (k : nat) (x : exitk)                  (* if not exit of the excinfo_target: raise *)
| CExitNone (k : nat) (x : exitk)                 (* if exit_var: exit(None, None, None) *)
with chandlers :=
| CHNil
| CHCons (pat : option nat) (name : option nat) (body : cstmt) (tl : chandlers).

Fixpoint desugar (s : stmt) : cstmt :=
  match s with
  | SSkip => CSkip | SLog n => CLog n | SProbe => CProbe
  | SRaise w cz => CRaise w cz | SReraise => CReraise
  | SSeq a b => CSeq (desugar a) (desugar b)
  | STry body hs orelse => CTry (desugar body) (desugar_h hs) (desugar orelse)
  | SFinally body fin => CFinally true (desugar body) (desugar fin)
  | SWith k x body =>                              (* ParseTreeTransforms.WithTransform *)
      CWithScope k
        (CFinally false
           (CTry (desugar body) (CHCons None None (CExitExc k x) CHNil) CSkip)
           (CExitNone k x))
  | SLoop n body => CLoop n (desugar body)
  | SReturn => CReturn | SBreak => CBreak | SContinue => CContinue
  end
with desugar_h (hs : handlers) : chandlers :=
  match hs with
  | HNil => CHNil
  | HCons pat None body tl => CHCons pat None (desugar body) (desugar_h tl)
  | HCons pat (Some x) body tl =>                  (* PostParse.visit_ExceptClauseNode *)
      CHCons pat (Some x) (CFinally true (desugar body) (CDel x)) (desugar_h tl)
  end.

(* HasNoExceptionHandlingVisitor: handler bodies for which GetException is skipped *)
Fixpoint trivial (c : cstmt) : bool :=
  match c with
  | CSkip | CReturn => true
  | CSeq a b => trivial a && trivial b
  | _ => false
  end.

(* ReraiseStatNode. fx = false: the code as it is (__Pyx_ErrRestoreWithState steals the temps
   and they are zeroed); fx = true: the proposed repair (the temps keep their references). *)
Definition reraise_sch (fx : bool) (c : state) : oc * state :=
  match cur c with
  | None => reraise_dynamic c                       (* __Pyx_ReraiseException() *)
  | Some (Some e) => (ORaise e, if fx then c else set_cur (Some None) c)
  | Some None => (OCrash, c)
  end.

Fixpoint exec_sch (fx sx : bool) (s : cstmt) (c : state) {struct s} : oc * state :=
  match s with
  | CSkip => (ONorm, c)
  | CLog n => (ONorm, logst (fun _ _ => EvLog n) c)
  | CProbe => (ONorm, logst ev_probe c)
  | CRaise w cz => lift (do_raise w cz) c
  | CReraise => reraise_sch fx c
  | CSeq a b => let (o, c1) := exec_sch fx sx a c in
                match o with ONorm => exec_sch fx sx b c1 | _ => (o, c1) end
  | CTry body hs orelse =>
      (* __Pyx_ExceptionSave: the topmost non-empty item; sx = true: the proposed repair (top item,
         symmetric with __Pyx_ExceptionReset and with PUSH_EXC_INFO) *)
      let saved := if sx then top c else handled c in
      let (o, c1) := exec_sch fx sx body c in
      match o with
      | ONorm => let (o2, c2) := exec_sch fx sx orelse c1 in
                 match o2 with
                 | ONorm | OCrash => (o2, c2)       (* fall through: temps dropped, no reset *)
                 | _ => (o2, set_top saved c2)      (* except_error / except_return / break / continue *)
                 end
      | ORaise e => handle_sch fx sx hs e saved c1
      | OCrash => (OCrash, c1)
      | _ => (o, set_top saved c1)                  (* try_return / try_break / try_continue *)
      end
  | CFinally herr body fin =>
      let (o, c1) := exec_sch fx sx body c in
      match o with
      | OCrash => (OCrash, c1)
      | ORaise e =>
          if herr then
            let saved := top c1 in                  (* __Pyx_ExceptionSwap: top item *)
            let old := cur c1 in
            let (o2, c2) := exec_sch fx sx fin (set_cur (Some (Some e)) (set_top (Some e) c1)) in
            let v := cur c2 in                      (* __Pyx_GetException above, exc_vars[:3] *)
            let c3 := set_cur old c2 in
            match o2 with
            | ONorm => match v with                 (* put_error_uncatcher: Reset, ErrRestore(temps) *)
                       | Some (Some e') => (ORaise e', set_top saved c3)
                       | _ => (OCrash, c3)
                       end
            | OCrash => (OCrash, c3)
            | _ => (o2, set_top saved c3)           (* put_error_cleaner on every other exit *)
            end
          else (ORaise e, c1)
      | _ => let (o2, c2) := exec_sch fx sx fin c1 in (after o o2, c2)
      end
  | CLoop n body =>
      (fix loop (i : nat) (c : state) : oc * state :=
         match i with
         | O => (ONorm, c)
         | S i' => let (o, c1) := exec_sch fx sx body c in
                   match o with
                   | ONorm | OCont => loop i' c1
                   | OBrk => (ONorm, c1)
                   | _ => (o, c1)
                   end
         end) n c
  | CReturn => (ORet, c)
  | CBreak => (OBrk, c)
  | CContinue => (OCont, c)
  | CDel x => (ONorm, set_co (unbind x (co c)) c)
  | CWithScope k body =>
      let old := wx c in
      let (o, c1) := exec_sch fx sx body (set_wx true (logst (fun _ _ => EvEnter k) c)) in
      (o, set_wx old c1)
  | CExitExc k x =>
      let arg := match cur c with Some (Some e) => Some e | _ => None end in
      let c1 := logst (ev_exit k arg) (set_wx false c) in
      match x with
      | XSwallow => (ONorm, c1)
      | XPass => reraise_sch fx c1
      | XRaise n => lift (raise_internal n) c1
      end
  | CExitNone k x =>
      if wx c then
        let c1 := logst (ev_exit k None) (set_wx false c) in
        match x with
        | XRaise n => lift (raise_internal n) c1
        | _ => (ONorm, c1)
        end
      else (ONorm, c)
  end
with handle_sch (fx sx : bool) (hs : chandlers) (e : nat) (saved : option nat) (c : state)
       {struct hs} : oc * state :=
  match hs with
  | CHNil => (ORaise e, set_top saved c)            (* goto except_error_label: reset *)
  | CHCons pat name body tl =>
      if pat_matches pat (cls_of c e) then
        if (match name with Some _ => true | None => false end) || negb (trivial body) then
          let old := cur c in                        (* __Pyx_GetException: top item := e *)
          let c1 := set_cur (Some (Some e)) (set_co (bind_opt name e (co c)) (set_top (Some e) c)) in
          let (o, c2) := exec_sch fx sx body c1 in
          match o with
          | OCrash => (OCrash, c2)
          | _ => (o, set_top saved (set_cur old c2))  (* every exit: __Pyx_ExceptionReset *)
          end
        else                                         (* __Pyx_ErrRestore(0,0,0) *)
          let (o, c1) := exec_sch fx sx body c in
          match o with
          | OCrash => (OCrash, c1)
          | _ => (o, set_top saved c1)
          end
      else handle_sch fx sx tl e saved c
  end.

(* ---------- entry points ---------- *)
Definition init_state (h : list eobj) (t b : option nat) : state :=
  mkst (mkcore h [] []) t b None false.
Definition run_ref (s : stmt) (h : list eobj) (t b : option nat) := exec_ref s (init_state h t b).
Definition run_sch (fx sx : bool) (s : stmt) (h : list eobj) (t b : option nat) :=
  exec_sch fx sx (desugar s) (init_state h t b).
