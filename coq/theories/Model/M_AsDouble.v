(* C06 -- the string pre-scanner of float(str/bytes/bytearray) in Cython/Utility/Optimize.c
   (__Pyx__PyBytes_AsDouble, __Pyx_PyUnicode_AsDouble_WithSpaces and their _Copy / _inf_nan
   helpers) and CPython's own pre-scan (floatobject.c float_from_string_inner +
   pystrtod.c _Py_string_to_number_with_underscores).

   Characters are code points (Z).  A C string / PyUnicode buffer is [data ++ [0]] (both kinds of
   object guarantee the terminator).  The number buffer (`char number[40]` or the PyMem_Malloc'ed
   one) has an explicit capacity; a write at an index >= capacity gives [OOBWrite], a read past
   the terminator gives [OOBRead].  Definitions only. *)
From Coq Require Import ZArith List Bool.
Import ListNotations.
Open Scope Z_scope.

(* Py_ISSPACE == __Pyx__PyBytes_AsDouble_IsSpace (bytes >= 0x80 are negative chars: not space) *)
Definition isspace_b (c : Z) : bool := (c =? 32) || ((9 <=? c) && (c <=? 13)).

(* Py_UNICODE_ISSPACE: _Py_ascii_whitespace below 128, _PyUnicode_IsWhitespace above *)
Definition isspace_u (c : Z) : bool :=
  if c <? 128 then (c =? 32) || ((9 <=? c) && (c <=? 13)) || ((28 <=? c) && (c <=? 31))
  else (c =? 133) || (c =? 160) || (c =? 5760) || ((8192 <=? c) && (c <=? 8202))
       || (c =? 8232) || (c =? 8233) || (c =? 8239) || (c =? 8287) || (c =? 12288).

(* repaired space test of the unicode path: what CPython's float() strips from a non-ASCII str
   (ASCII characters are kept by _PyUnicode_TransformDecimalAndSpaceToASCII and then only
   Py_ISSPACE is stripped; non-ASCII spaces become ' ') *)
Definition isspace_u_new (c : Z) : bool := if c <? 128 then isspace_b c else isspace_u c.

Definition is_digit (c : Z) : bool := (48 <=? c) && (c <=? 57).
Definition is_us (c : Z) : bool := c =? 95.
Definition is2 (c a b : Z) : bool := (c =? a) || (c =? b).

Inductive scan_res :=
| OOBRead                    (* read beyond the terminator of the input buffer *)
| OOBWrite                   (* write beyond the capacity of the number buffer *)
| Fallback                   (* __Pyx_SlowPyString_AsDouble: PyFloat_FromString(obj), CPython itself *)
| Special (neg isnan : bool) (* +-inf / +-nan returned by the _inf_nan recogniser *)
| Parse (s : list Z).        (* s is handed to PyOS_string_to_double; the value is returned iff the
                                parser consumes exactly s (or raises), else Fallback *)

(* while (IsSpace(start[0])) start++;   on the buffer including its terminator *)
Fixpoint lskip (sp : Z -> bool) (mem : list Z) : option (list Z) :=
  match mem with
  | [] => None
  | c :: t => if sp c then lskip sp t else Some mem
  end.

Fixpoint dropwhile (sp : Z -> bool) (l : list Z) : list Z :=
  match l with
  | [] => []
  | c :: t => if sp c then dropwhile sp t else l
  end.

(* while (start < last - 1 && IsSpace(last[-1])) last--;   on the characters [start, last) *)
Definition rstrip (sp : Z -> bool) (body : list Z) : list Z :=
  match body with
  | [] => []
  | c :: t => c :: rev (dropwhile sp (rev t))
  end.

(* ---------- __Pyx__PyBytes_AsDouble_inf_nan / __Pyx__PyUnicode_AsDouble_inf_nan ---------- *)
Inductive infnan_res := INFail | INCont | INVal (neg isnan : bool) | INOOB.

Definition rd (l : list Z) (i : nat) : option Z := nth_error l i.

(* [rest]: the buffer from `start` on (with terminator); [len]: the stripped length *)
Definition inf_nan (rest : list Z) (len : Z) : infnan_res :=
  match rd rest 0 with
  | None => INOOB
  | Some sign =>
    let sg := (sign =? 45) || (sign =? 43) in
    let st := if sg then 1%nat else 0%nat in
    let len := if sg then len - 1 else len in
    let neg := sign =? 45 in
    match rd rest st with
    | None => INOOB
    | Some c0 =>
      if is2 c0 110 78 then
        if negb (len =? 3) then INFail else
        match rd rest (st + 1), rd rest (st + 2) with
        | Some c1, Some c2 =>
            if is2 c1 97 65 && is2 c2 110 78 then INVal neg true else INFail
        | _, _ => INOOB
        end
      else if is2 c0 105 73 then
        if len <? 3 then INFail else
        match rd rest (st + 1), rd rest (st + 2) with
        | Some c1, Some c2 =>
            let m := is2 c1 110 78 && is2 c2 102 70 in
            if (len =? 3) && m then INVal neg false
            else if negb (len =? 8) then INFail else
            match rd rest (st + 3), rd rest (st + 4), rd rest (st + 5), rd rest (st + 6),
                  rd rest (st + 7) with
            | Some c3, Some c4, Some c5, Some c6, Some c7 =>
                if m && is2 c3 105 73 && is2 c4 110 78 && is2 c5 105 73 && is2 c6 116 84
                   && is2 c7 121 89
                then INVal neg false else INFail
            | _, _, _, _, _ => INOOB
            end
        | _, _ => INOOB
        end
      else if (c0 =? 46) || is_digit c0 then INCont
      else INFail
    end
  end.

(* ---------- the copy loops ---------- *)
Definition is_punct_b (c : Z) : bool := is_us c || (c =? 46) || (c =? 101) || (c =? 69).
Definition is_punct_u (c : Z) : bool := is_us c || (c =? 46).

(* loop state of the underscore rule.
   old code: [st_p] = last_was_punctuation (initially 1).
   repaired: [st_d] = last_was_digit, [st_u] = last_was_underscore (initially 0, 0). *)
Record ust := { st_p : bool; st_d : bool; st_u : bool }.
Definition ust0 : ust := {| st_p := true; st_d := false; st_u := false |}.

(* (error on this character, next state) *)
Definition ustep (fix_us : bool) (punct : Z -> bool) (s : ust) (c : Z) : bool * ust :=
  if fix_us then
    ((is_us c && negb (st_d s)) || (st_u s && negb (is_digit c)),
     {| st_p := false; st_d := is_digit c; st_u := is_us c |})
  else
    (st_p s && punct c, {| st_p := punct c; st_d := false; st_u := false |}).
Definition ufinal (fix_us : bool) (s : ust) : bool := if fix_us then st_u s else st_p s.

(* __Pyx__PyBytes_AsDouble_Copy: every character is stored at *buffer (an underscore is
   overwritten by its successor); errors are accumulated, no early exit *)
Fixpoint copy_b (fix_us : bool) (l : list Z) (cap : nat) (out : list Z) (s : ust) (err : bool)
  : scan_res :=
  match l with
  | [] =>
      if (cap <=? length out)%nat then OOBWrite            (* *buffer = '\0' *)
      else if err || ufinal fix_us s then Fallback else Parse (rev out)
  | c :: t =>
      if (cap <=? length out)%nat then OOBWrite            (* *buffer = chr *)
      else let '(e, s') := ustep fix_us is_punct_b s c in
           copy_b fix_us t cap (if is_us c then out else c :: out) s' (err || e)
  end.

(* __Pyx__PyUnicode_AsDouble_Copy over the characters it reads: store, then the > 127 test and
   the rule, each with an early `goto parse_failure` *)
Fixpoint copy_u (fix_us : bool) (l : list Z) (cap : nat) (out : list Z) (s : ust) : scan_res :=
  match l with
  | [] =>
      if ufinal fix_us s then Fallback
      else if (cap <=? length out)%nat then OOBWrite       (* *buffer = '\0' *)
      else Parse (rev out)
  | c :: t =>
      if (cap <=? length out)%nat then OOBWrite            (* *buffer = (char)chr *)
      else if 127 <? c then Fallback
      else let '(e, s') := ustep fix_us is_punct_u s c in
           if e then Fallback
           else copy_u fix_us t cap (if is_us c then out else c :: out) s'
  end.

Definition remove_us (l : list Z) : list Z := filter (fun c => negb (is_us c)) l.

(* ---------- __Pyx__PyBytes_AsDouble (bytes, bytearray, ASCII str) ---------- *)
Definition scan_bytes (fix_us : bool) (data : list Z) : scan_res :=
  match lskip isspace_b (data ++ [0]) with
  | None => OOBRead
  | Some rest =>
    let region := rstrip isspace_b (removelast rest) in
    match region with
    | [] => Fallback                                        (* length <= 0 *)
    | _ =>
      match inf_nan rest (Z.of_nat (length region)) with
      | INOOB => OOBRead
      | INFail => Fallback
      | INVal n k => Special n k
      | INCont =>
        let digits := length (remove_us region) in
        if (digits =? length region)%nat then Parse region  (* parsed in place, end == last *)
        else
          let cap := if (digits <? 40)%nat then 40%nat else S digits in
          copy_b fix_us region cap [] ust0 false
      end
    end
  end.

(* ---------- __Pyx_PyUnicode_AsDouble_WithSpaces (non-ASCII str) ---------- *)
(* fix_le: loop bound `i < end` instead of `i <= end` (F5); fix_us: underscore rule (F4);
   fix_sp: space test equal to CPython's float() *)
Definition scan_uni (fix_le fix_us fix_sp : bool) (data : list Z) : scan_res :=
  let sp := if fix_sp then isspace_u_new else isspace_u in
  match lskip sp (data ++ [0]) with
  | None => OOBRead
  | Some rest =>
    let region := rstrip sp (removelast rest) in
    match region with
    | [] => Fallback
    | _ =>
      let len := length region in
      match inf_nan rest (Z.of_nat len) with
      | INOOB => OOBRead
      | INFail => Fallback
      | INVal n k => Special n k
      | INCont =>
        let cap := if (len <? 40)%nat then 40%nat else S len in
        if fix_le then copy_u fix_us region cap [] ust0
        else match rd rest len with                         (* PyUnicode_READ(kind, data, end) *)
             | None => OOBRead
             | Some x => copy_u fix_us (region ++ [x]) cap [] ust0
             end
      end
    end
  end.

Definition is_ascii (data : list Z) : bool := forallb (fun c => c <? 128) data.

(* __Pyx_PyUnicode_AsDouble *)
Definition scan_str (fix_le fix_us fix_sp : bool) (data : list Z) : scan_res :=
  if is_ascii data then scan_bytes fix_us data else scan_uni fix_le fix_us fix_sp data.

(* ---------- CPython ---------- *)
(* pystrtod.c: underscores only directly after and directly before an ASCII digit *)
Fixpoint us_ok_from (prev : Z) (l : list Z) : bool :=
  match l with
  | [] => negb (is_us prev)
  | c :: t =>
      (if is_us c then is_digit prev else negb (is_us prev) || is_digit c) && us_ok_from c t
  end.
Definition us_ok (l : list Z) : bool := us_ok_from 0 l.

Inductive py_res := PyError | PyParse (s : list Z).

(* float_from_string_inner: strip Py_ISSPACE, hand the rest to PyOS_string_to_double, which has
   to consume all of it *)
Definition py_inner (t : list Z) : py_res :=
  match lskip isspace_b (t ++ [0]) with
  | None => PyError
  | Some rest =>
      match rstrip isspace_b (removelast rest) with
      | [] => PyError
      | region => PyParse region
      end
  end.

Fixpoint upto_nul (l : list Z) : list Z :=
  match l with
  | [] => []
  | c :: t => if c =? 0 then [] else c :: upto_nul t
  end.

(* _Py_string_to_number_with_underscores (strchr(s, '_') stops at the first NUL) *)
Definition py_with_underscores (t : list Z) : py_res :=
  if existsb is_us (upto_nul t)
  then (if us_ok t then py_inner (remove_us t) else PyError)
  else py_inner t.

(* PyFloat_FromString(bytes / bytearray) *)
Definition py_scan_bytes (data : list Z) : py_res := py_with_underscores data.

Section PyStr.
  (* Py_UNICODE_TODECIMAL: the Unicode database (trusted table) *)
  Variable todecimal : Z -> option Z.

  (* _PyUnicode_TransformDecimalAndSpaceToASCII for a non-ASCII str *)
  Fixpoint transform (l : list Z) : list Z :=
    match l with
    | [] => []
    | c :: t =>
        if c <? 127 then c :: transform t
        else if isspace_u c then 32 :: transform t
        else match todecimal c with
             | Some d => (48 + d) :: transform t
             | None => [63]
             end
    end.

  (* PyFloat_FromString(str) *)
  Definition py_scan_str (data : list Z) : py_res :=
    py_with_underscores (if is_ascii data then data else transform data).
End PyStr.

(* the inf / nan spellings PyOS_string_to_double accepts (_Py_parse_inf_or_nan): optional sign,
   then "inf", "infinity" or "nan" in any case; result (negative, is_nan) *)
Definition lower (c : Z) : Z := if (65 <=? c) && (c <=? 90) then c + 32 else c.
Definition list_eqb (a b : list Z) : bool :=
  (length a =? length b)%nat && forallb (fun p => fst p =? snd p) (combine a b).
Definition infnan_spelling (s : list Z) : option (bool * bool) :=
  let '(neg, body) := match s with
                      | 45 :: t => (true, t)
                      | 43 :: t => (false, t)
                      | _ => (false, s)
                      end in
  let b := map lower body in
  if list_eqb b [105; 110; 102] then Some (neg, false)
  else if list_eqb b [105; 110; 102; 105; 110; 105; 116; 121] then Some (neg, false)
  else if list_eqb b [110; 97; 110] then Some (neg, true)
  else None.
