(* Model of Cython/Shadow.py: cast(), declare(), typedef.__call__ and the builtin
   constructors int()/float() they end in, on a small universe of Python values.
   Finite floats are carried exactly as sign / magnitude / binary exponent:
   VFloat s m e denotes (-1)^s * m * 2^e with m >= 0. *)
From Coq Require Import ZArith List Bool Lia.
Import ListNotations.
Open Scope Z_scope.

Inductive val :=
| VNone
| VInt (z : Z)
| VFloat (s : bool) (m : Z) (e : Z)
| VInf (s : bool)
| VNan
| VOther (c : Z) (id : Z)          (* an existing instance of user class c *)
| VNew (c : Z) (nargs : Z).        (* a fresh instance built by c( *args ) *)

Inductive cls := KInt | KFloat | KOther (c : Z).

(* what can stand in the type position of cast():
     TDef b   an instance of Shadow.typedef (also const/volatile/restrict, which subclass it)
     TClass c a Python class
     TNon     anything else (neither typedef nor type) *)
Inductive ty := TClass (c : cls) | TDef (b : ty) | TNon.

Inductive err := TypeError | ValueError | OverflowError | IndexError.
Inductive res := RVal (v : val) | RErr (e : err).

Definition is_none (v : val) : bool := match v with VNone => true | _ => false end.

Definition isinstance (v : val) (c : cls) : bool :=
  match c, v with
  | KInt, VInt _ => true
  | KFloat, (VFloat _ _ _ | VInf _ | VNan) => true
  | KOther c, (VOther c' _ | VNew c' _) => c =? c'
  | _, _ => false
  end.

(* int(float): CPython works on the magnitude and re-applies the sign *)
Definition py_trunc (s : bool) (m e : Z) : Z :=
  let a := if 0 <=? e then m * 2 ^ e else m / 2 ^ (- e) in
  if s then - a else a.

(* the C conversion double -> integer type: the fractional part of the signed value is discarded *)
Definition c_trunc (s : bool) (m e : Z) : Z :=
  let sm := if s then - m else m in
  if 0 <=? e then sm * 2 ^ e else Z.quot sm (2 ^ (- e)).

(* float(int): IEEE-754 binary64 round-to-nearest-even of an unbounded integer *)
Definition nbits (a : Z) : Z := if a =? 0 then 0 else Z.log2 a + 1.

Definition round_to_double (z : Z) : res :=
  let a := Z.abs z in
  let n := nbits a in
  if n <=? 53 then RVal (VFloat (z <? 0) a 0)
  else
    let sh := n - 53 in
    let q := a / 2 ^ sh in
    let r := a mod 2 ^ sh in
    let half := 2 ^ (sh - 1) in
    let q' := if (half <? r) || ((r =? half) && Z.odd q) then q + 1 else q in
    if 2 ^ 1024 <=? q' * 2 ^ sh then RErr OverflowError
    else RVal (VFloat (z <? 0) q' sh).

(* c( *args ) for the builtin classes *)
Definition construct (c : cls) (args : list val) : res :=
  match c with
  | KInt =>
      match args with
      | [] => RVal (VInt 0)
      | [VInt z] => RVal (VInt z)
      | [VFloat s m e] => RVal (VInt (py_trunc s m e))
      | [VInf _] => RErr OverflowError
      | [VNan] => RErr ValueError
      (* int(x, base): the base is range-checked before x is looked at; x is never a str here *)
      | [_; VInt b] => if (b =? 0) || ((2 <=? b) && (b <=? 36)) then RErr TypeError else RErr ValueError
      | _ => RErr TypeError
      end
  | KFloat =>
      match args with
      | [] => RVal (VFloat false 0 0)
      | [VInt z] => round_to_double z
      | [VFloat s m e] => RVal (VFloat s m e)
      | [VInf s] => RVal (VInf s)
      | [VNan] => RVal VNan
      | _ => RErr TypeError
      end
  | KOther k => RVal (VNew k (Z.of_nat (length args)))
  end.

(* def cast(t, *args, **kwargs):
       if isinstance(t, typedef): return t( *args )     # typedef.__call__ = cast(self._basetype, *arg)
       elif isinstance(t, type):
           if len(args) != 1 or not (args[0] is None or isinstance(args[0], t)): return t( *args )
       return args[0]                                                                  *)
Fixpoint cast (t : ty) (args : list val) : res :=
  match t with
  | TDef b => cast b args
  | TClass c =>
      match args with
      | [a] => if is_none a || isinstance a c then RVal a else construct c args
      | _ => construct c args
      end
  | TNon => match args with a :: _ => RVal a | [] => RErr IndexError end
  end.

(* def declare(t=None, value=_Unspecified, **kwds):
       if value is not _Unspecified: return cast(t, value)
       elif _is_value_type(t): return t()            # struct/union/array: not in this universe
       else: return None                                                               *)
Definition declare (t : ty) (value : option val) : res :=
  match value with Some v => cast t [v] | None => RVal VNone end.

Fixpoint base (t : ty) : option cls :=
  match t with TDef b => base b | TClass c => Some c | TNon => None end.

Fixpoint wrapn (n : nat) (t : ty) : ty :=
  match n with O => t | S k => TDef (wrapn k t) end.
