(* C06 -- C double arithmetic: `a % b` (CMath.c:ModFloat, ExprNodes.ModNode) and `a // b`
   (ExprNodes.DivNode: floor(a / b)) against CPython's float_rem / float_floor_div.

   Doubles are [spec_float] values (Coq.Floats.SpecFloat: the IEEE-754 binary64 datatype that
   specifies PrimFloat); + - * / and the comparisons are the SpecFloat operations at
   prec = 53, emax = 1024 (round to nearest even).  libm's fmod / floor are parameters of the
   models (section variables in the proofs); [fmod_exact] / [floor_exact] are exact Gallina
   implementations used to run the model.  Definitions only. *)
From Coq Require Import ZArith Bool List SpecFloat.
Import ListNotations.
Open Scope Z_scope.

Definition F := spec_float.
Definition dprec := 53.
Definition demax := 1024.

Definition fadd : F -> F -> F := SFadd dprec demax.
Definition fsub : F -> F -> F := SFsub dprec demax.
Definition fmul : F -> F -> F := SFmul dprec demax.
Definition fdiv : F -> F -> F := SFdiv dprec demax.
Definition feqb : F -> F -> bool := SFeqb.
Definition fltb : F -> F -> bool := SFltb.
Definition fleb : F -> F -> bool := SFleb.
Definition fvalid : F -> bool := valid_binary dprec demax.

Definition fzero : F := S754_zero false.
Definition fone : F := S754_finite false 4503599627370496 (-52).
Definition fhalf : F := S754_finite false 4503599627370496 (-53).

(* C: x != 0 (true for NaN), x < 0, x > y *)
Definition fnonzero (x : F) : bool := negb (feqb x fzero).
Definition fneg (x : F) : bool := fltb x fzero.
Definition fgtb (x y : F) : bool := fltb y x.

(* (double)(int)c for a C truth value c *)
Definition f_of_bool (c : bool) : F := if c then fone else fzero.

(* sign bit (NaN carries no sign in spec_float: treated as positive; copysign is only
   reached with a non-NaN second operand in the functions below) *)
Definition fsign (x : F) : bool :=
  match x with
  | S754_zero s | S754_infinity s | S754_finite s _ _ => s
  | S754_nan => false
  end.
Definition fcopysign (x y : F) : F :=
  match x with
  | S754_zero _ => S754_zero (fsign y)
  | S754_infinity _ => S754_infinity (fsign y)
  | S754_finite _ m e => S754_finite (fsign y) m e
  | S754_nan => S754_nan
  end.

(* ---------- exact libm functions (for running the models) ---------- *)

(* C99 7.12.10.1 / F.9.7.1: x - n*y with the sign of x and magnitude < |y|, exactly *)
Definition fmod_exact (x y : F) : F :=
  match x, y with
  | S754_nan, _ | _, S754_nan => S754_nan
  | S754_infinity _, _ => S754_nan
  | _, S754_zero _ => S754_nan
  | S754_zero _, _ => x
  | S754_finite _ _ _, S754_infinity _ => x
  | S754_finite sx mx ex, S754_finite _ my ey =>
      let e := Z.min ex ey in
      let a := Zpos mx * 2 ^ (ex - e) in
      let b := Zpos my * 2 ^ (ey - e) in
      binary_normalize dprec demax (cond_Zopp sx (a mod b)) e sx
  end.

(* C99 7.12.9.2: largest integral value not greater than x *)
Definition floor_exact (x : F) : F :=
  match x with
  | S754_finite s m e =>
      if 0 <=? e then x
      else binary_normalize dprec demax (cond_Zopp s (Zpos m) / 2 ^ (- e)) 0 s
  | _ => x
  end.

(* ---------- outcomes ---------- *)
Inductive fres :=
| FVal (v : F)
| FZeroDiv.          (* ZeroDivisionError *)

(* ---------- a % b ---------- *)
Section Mod.
  Variable fmod : F -> F -> F.

  (* CMath.c ModFloat as it is:
       r = fmod(a, b);  r += ((r != 0) & ((r < 0) ^ (b < 0))) * b;  return r;          *)
  Definition mod_float_old (a b : F) : F :=
    let r := fmod a b in
    fadd r (fmul (f_of_bool (fnonzero r && xorb (fneg r) (fneg b))) b).

  (* repaired ModFloat (proposed fix):
       r = fmod(a, b);
       if (r != 0) { if ((r < 0) ^ (b < 0)) r += b; } else r = copysign(0, b);          *)
  Definition mod_float_new (a b : F) : F :=
    let r := fmod a b in
    if fnonzero r then (if xorb (fneg r) (fneg b) then fadd r b else r)
    else fcopysign fzero b.

  Definition mod_float (fixed : bool) := if fixed then mod_float_new else mod_float_old.

  (* ModNode: zero test `b == 0` first (cdivision=False), then the helper *)
  Definition mod_node (fixed : bool) (a b : F) : fres :=
    if feqb b fzero then FZeroDiv else FVal (mod_float fixed a b).

  (* CPython Objects/floatobject.c float_rem *)
  Definition py_float_rem (a b : F) : fres :=
    if feqb b fzero then FZeroDiv else
    let m := fmod a b in
    FVal (if fnonzero m
          then (if negb (Bool.eqb (fneg b) (fneg m)) then fadd m b else m)
          else fcopysign fzero b).
End Mod.

(* ---------- a // b ---------- *)
Section FloorDiv.
  Variable fmod : F -> F -> F.
  Variable ffloor : F -> F.

  (* DivNode.calculate_result_code for a C floating type: floor(a / b) *)
  Definition floordiv_old (a b : F) : F := ffloor (fdiv a b).

  (* CPython float_floor_div -> _float_div_mod (the quotient part) *)
  Definition py_floor_div_val (a b : F) : F :=
    let m := fmod a b in
    let d := fdiv (fsub a m) b in
    let d := if fnonzero m && negb (Bool.eqb (fneg b) (fneg m)) then fsub d fone else d in
    if fnonzero d then
      let fl := ffloor d in
      if fgtb (fsub d fl) fhalf then fadd fl fone else fl
    else fcopysign fzero (fdiv a b).

  (* proposed helper __Pyx_floordiv_<T>: the same computation *)
  Definition floordiv_new (a b : F) : F := py_floor_div_val a b.

  Definition floordiv (fixed : bool) := if fixed then floordiv_new else floordiv_old.

  Definition floordiv_node (fixed : bool) (a b : F) : fres :=
    if feqb b fzero then FZeroDiv else FVal (floordiv fixed a b).

  Definition py_float_floor_div (a b : F) : fres :=
    if feqb b fzero then FZeroDiv else FVal (py_floor_div_val a b).
End FloorDiv.

(* ---------- plain operators (C and CPython both use the hardware IEEE operation) ---------- *)
Definition truediv_node (a b : F) : fres :=
  if feqb b fzero then FZeroDiv else FVal (fdiv a b).

(* ---------- executable instances ---------- *)
Definition mod_node_x (fixed : bool) := mod_node fmod_exact fixed.
Definition py_float_rem_x := py_float_rem fmod_exact.
Definition floordiv_node_x (fixed : bool) := floordiv_node fmod_exact floor_exact fixed.
Definition py_float_floor_div_x := py_float_floor_div fmod_exact floor_exact.

(* the special values used by the witnesses *)
Definition finf (s : bool) : F := S754_infinity s.
Definition fmone : F := S754_finite true 4503599627370496 (-52).
Definition ffive : F := S754_finite false 5629499534213120 (-50).
Definition ftenth : F := S754_finite false 7205759403792794 (-56).
