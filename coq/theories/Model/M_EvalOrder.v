(* M_EvalOrder - executable model for C20 (evaluation order).  Definitions only.

   Source language "MiniPy" (what props/C20.py generates), a reference big-step semantics giving
   CPython's documented left-to-right order, a flat three-address temp machine with forward jumps,
   and [gen]: the code generator's discipline (ExprNodes.generate_evaluation_code: sub-expressions in
   subexprs order into temps, then the node's own operation; BoolBinopNode's jump threading;
   CondExprNode; PrimaryCmpNode cascades; PyMethodCallNode; Optimize._optimise_min_max;
   Nodes.SingleAssignmentNode / CascadedAssignmentNode / ParallelAssignmentNode after
   PostParse.flatten_parallel_assignments; ParseTreeTransforms.ExpandInplaceOperators).

   The semantics of the primitive operations, of leaf calls, of truth tests and of unpacking are
   parameters (record [sem]); the theorems hold for every choice.  [std_sem] is the instance that
   mirrors the logging runtime of the correspondence harness. *)
From Coq Require Import List Bool Arith.
From CyVerif Require Import Model.M_CCallMap.
Import ListNotations.

(* ---------- values, events ---------- *)
Inductive op :=
| OLog (id : nat)            (* logged operation on logging objects: one event, fresh object *)
| OSeq (id : nat)            (* silent construction: tuple/list/set/dict display, slice, str join *)
| OIn (neg : bool)           (* in / not in: __contains__ event, truth test of its result, C bool *)
| OGetItem | OSetItem | ODelItem
| OGetSlice                 (* a[lo:hi] (SliceIndexNode: not a subscript node); args a, lo, hi *)
| OGetAttr (a : nat) | OSetAttr (a : nat) | ODelAttr (a : nat).

Inductive val :=
| VNone
| VBool (b : bool)
| VLeaf (kind k : nat)       (* kind 0: truthy object, 1: falsy object, 2: plain 2-tuple, 3: plain dict *)
| VItem (i : nat) (v : val)  (* i-th item obtained by unpacking v *)
| VOp (o : op) (args : list val).

Inductive event :=
| EvLeaf (k : nat)
| EvOp (o : op) (args : list val)
| EvBool (v : val)
| EvIter (v : val).

Record sem := {
  leafsem : nat -> nat -> val * list event;
  opsem : op -> list val -> val * list event;
  truthsem : val -> bool * list event;
  unpacksem : nat -> val -> list val * list event }.

(* ---------- source language ---------- *)
Inductive expr :=
| ELeaf (kind k : nat)
| EName (x : nat)
| ENone                                   (* absent slice bound *)
| EOp (o : op) (es : list expr)           (* strict node: children left to right, then the operation *)
| ENot (e : expr)
| EAnd (a b : expr)
| EOr (a b : expr)
| ECond (c a b : expr)                    (* a if c else b *)
| ECmp (a : expr) (ops : list op) (rest : list expr)   (* a op1 b op2 c ...  (two or more operators) *)
| EMCall (m : nat) (o : op) (obj : expr) (args : list expr)  (* obj.m(args) without * / ** arguments *)
| EMinMax (o : op) (args : list expr)     (* min(...) / max(...) with >= 2 arguments; o = the < or > *)
(* call of a compile-time-known C function (cdef / cpdef function, C method): ndecl declared parameters
   (after self) of which the first nreq are required; recv = the receiver of a method call (ENone for a
   plain function); es = the argument values in CALL order: npos positional ones, then one per keyword;
   names = the declared index of every keyword.  The operation o receives the receiver and the values
   in DECLARATION order. *)
| ECCall (o : op) (nreq ndecl : nat) (recv : expr) (npos : nat) (names : list nat) (es : list expr).

(* simple assignment target: a name, or "evaluate es, then store operation o on (es, value)" *)
Inductive starget := TName (x : nat) | TStore (o : op) (es : list expr).
Inductive target := TS (t : starget) | TTup (ts : list starget).

Inductive stmt :=
| SAssign (ts : list target) (rhs : expr)     (* t1 = t2 = ... = rhs *)
| SAug (lhs : expr) (iop : op) (rhs : expr)   (* lhs iop= rhs;  lhs: EName / EOp OGetItem [b;i] / EOp (OGetAttr a) [o] *)
| SDel (o : op) (es : list expr).             (* del target *)

(* ---------- reference semantics (CPython order) ---------- *)
(* result of an expression: value, whether its truth has already been tested (and what it was), events,
   and the ghost list of evaluated leaf tags *)
Record res := { rv : val; rk : option bool; rev : list event; rlf : list nat }.
Inductive mode := MVal | MBool.

Definition truth_of (S : sem) (v : val) (k : option bool) : bool * list event :=
  match k with Some b => (b, []) | None => truthsem S v end.

Definition flat_ev (l : list res) : list event := flat_map rev l.
Definition flat_lf (l : list res) : list nat := flat_map rlf l.

Section Ref.
Variable S : sem.
Variable vars : nat -> val.

(* cascaded comparison a op1 b op2 c ...: va is the already evaluated left operand.
   MVal: an intermediate result is tested, the final one is not; MBool: every result is tested once. *)
Fixpoint eval (m : mode) (e : expr) {struct e} : res :=
  let evals := fix evals (es : list expr) : list res :=
      match es with [] => [] | x :: xs => eval MVal x :: evals xs end in
  let chain := fix chain (va : val) (ops : list op) (es : list expr) {struct es} : res :=
      match ops, es with
      | o :: ops', b :: es' =>
          let rb := eval MVal b in
          let '(r, ev1) := opsem S o [va; rv rb] in
          match ops', es', m with
          | _ :: _, _ :: _, _ =>
              let '(t, ev2) := truthsem S r in
              if t then
                let rc := chain (rv rb) ops' es' in
                {| rv := rv rc; rk := rk rc; rev := rev rb ++ ev1 ++ ev2 ++ rev rc; rlf := rlf rb ++ rlf rc |}
              else {| rv := match m with MVal => r | MBool => VBool false end;
                      rk := match m with MVal => None | MBool => Some false end;
                      rev := rev rb ++ ev1 ++ ev2; rlf := rlf rb |}
          | _, _, MVal => {| rv := r; rk := None; rev := rev rb ++ ev1; rlf := rlf rb |}
          | _, _, MBool =>
              let '(t, ev2) := truthsem S r in
              {| rv := VBool t; rk := Some t; rev := rev rb ++ ev1 ++ ev2; rlf := rlf rb |}
          end
      | _, _ => match m with
                | MVal => {| rv := VNone; rk := None; rev := []; rlf := [] |}
                | MBool => let '(t, ev) := truthsem S VNone in
                           {| rv := VBool t; rk := Some t; rev := ev; rlf := [] |}
                end
      end in
  let tobool (r : res) : res :=
      match m with
      | MVal => r
      | MBool => let '(t, ev) := truth_of S (rv r) (rk r) in
                 {| rv := VBool t; rk := Some t; rev := rev r ++ ev; rlf := rlf r |}
      end in
  match e with
  | ELeaf kind k => let '(v, ev) := leafsem S kind k in
                    tobool {| rv := v; rk := None; rev := ev; rlf := [k] |}
  | EName x => tobool {| rv := vars x; rk := None; rev := []; rlf := [] |}
  | ENone => tobool {| rv := VNone; rk := None; rev := []; rlf := [] |}
  | EOp o es => let rs := evals es in
                let '(v, ev) := opsem S o (map rv rs) in
                tobool {| rv := v; rk := None; rev := flat_ev rs ++ ev; rlf := flat_lf rs |}
  | ENot a => let ra := eval MBool a in
              let t := match rk ra with Some t => negb t | None => false end in
              {| rv := VBool t; rk := Some t; rev := rev ra; rlf := rlf ra |}
  | EAnd a b =>
      let ra := eval m a in
      let '(t, ev) := truth_of S (rv ra) (rk ra) in
      if t then let rb := eval m b in
                {| rv := rv rb; rk := rk rb; rev := rev ra ++ ev ++ rev rb; rlf := rlf ra ++ rlf rb |}
      else {| rv := rv ra; rk := Some false; rev := rev ra ++ ev; rlf := rlf ra |}
  | EOr a b =>
      let ra := eval m a in
      let '(t, ev) := truth_of S (rv ra) (rk ra) in
      if t then {| rv := rv ra; rk := Some true; rev := rev ra ++ ev; rlf := rlf ra |}
      else let rb := eval m b in
           {| rv := rv rb; rk := rk rb; rev := rev ra ++ ev ++ rev rb; rlf := rlf ra ++ rlf rb |}
  | ECond c a b =>
      let rc := eval MBool c in
      let t := match rk rc with Some t => t | None => false end in
      let rx := if t then eval MVal a else eval MVal b in
      tobool {| rv := rv rx; rk := None; rev := rev rc ++ rev rx; rlf := rlf rc ++ rlf rx |}
  | ECmp a ops rest =>
      let ra := eval MVal a in
      let rc := chain (rv ra) ops rest in
      {| rv := rv rc; rk := rk rc; rev := rev ra ++ rev rc; rlf := rlf ra ++ rlf rc |}
  | EMCall mname o obj args =>
      (* CPython: object, attribute lookup, arguments, call *)
      let ro := eval MVal obj in
      let '(f, ev1) := opsem S (OGetAttr mname) [rv ro] in
      let rs := evals args in
      let '(v, ev2) := opsem S o (f :: map rv rs) in
      tobool {| rv := v; rk := None; rev := rev ro ++ ev1 ++ flat_ev rs ++ ev2; rlf := rlf ro ++ flat_lf rs |}
  | EMinMax o args =>
      (* builtin min/max: all arguments left to right, then a left-to-right scan with one comparison
         "candidate o best" and one truth test per further argument *)
      let rs := evals args in
      let scan := fix scan (best : val) (vs : list val) : val * list event :=
          match vs with
          | [] => (best, [])
          | v :: vs' => let '(r, ev1) := opsem S o [v; best] in
                        let '(t, ev2) := truthsem S r in
                        let '(w, ev3) := scan (if t then v else best) vs' in
                        (w, ev1 ++ ev2 ++ ev3)
          end in
      match map rv rs with
      | [] => tobool {| rv := VNone; rk := None; rev := []; rlf := [] |}
      | v0 :: vs => let '(w, ev) := scan v0 vs in
                    tobool {| rv := w; rk := None; rev := flat_ev rs ++ ev; rlf := flat_lf rs |}
      end
  | ECCall o nreq ndecl recv npos names es =>
      (* CPython: the receiver, then every argument value in call order (positional, then keywords as
         written), then the call, which binds the values to the declared parameters *)
      let rr := eval MVal recv in
      let rs := evals es in
      let '(v, ev) := opsem S o (rv rr :: map (fun p => nth p (map rv rs) VNone) (ref_slots npos names ndecl 0)) in
      tobool {| rv := v; rk := None; rev := rev rr ++ flat_ev rs ++ ev; rlf := rlf rr ++ flat_lf rs |}
  end.

Fixpoint evals (es : list expr) : list res :=
  match es with [] => [] | x :: xs => eval MVal x :: evals xs end.

End Ref.

(* statement level: the reference threads the variable environment and accumulates events *)
Record sres := { svars : nat -> val; sev : list event; slf : list nat }.

Definition upd (f : nat -> val) (x : nat) (v : val) : nat -> val :=
  fun y => if Nat.eqb y x then v else f y.

Section RefStmt.
Variable S : sem.

Definition ref_store1 (st : sres) (t : starget) (v : val) : sres :=
  match t with
  | TName x => {| svars := upd (svars st) x v; sev := sev st; slf := slf st |}
  | TStore o es =>
      let rs := evals S (svars st) es in
      let '(_, ev) := opsem S o (map rv rs ++ [v]) in
      {| svars := svars st; sev := sev st ++ flat_ev rs ++ ev; slf := slf st ++ flat_lf rs |}
  end.

Fixpoint ref_store_items (st : sres) (ts : list starget) (vs : list val) : sres :=
  match ts with
  | [] => st
  | t :: ts' => ref_store_items (ref_store1 st t (hd VNone vs)) ts' (tl vs)
  end.

Definition ref_store (st : sres) (t : target) (v : val) : sres :=
  match t with
  | TS t1 => ref_store1 st t1 v
  | TTup ts =>
      let '(vs, ev) := unpacksem S (length ts) v in
      ref_store_items {| svars := svars st; sev := sev st ++ ev; slf := slf st |} ts vs
  end.

Fixpoint ref_stores (st : sres) (ts : list target) (v : val) : sres :=
  match ts with [] => st | t :: ts' => ref_stores (ref_store st t v) ts' v end.

Definition ref_stmt (vars : nat -> val) (s : stmt) : sres :=
  match s with
  | SAssign ts rhs =>
      let r := eval S vars MVal rhs in
      ref_stores {| svars := vars; sev := rev r; slf := rlf r |} ts (rv r)
  | SAug lhs iop rhs =>
      match lhs with
      | EName x =>
          let r := eval S vars MVal rhs in
          let '(w, ev) := opsem S iop [vars x; rv r] in
          {| svars := upd vars x w; sev := rev r ++ ev; slf := rlf r |}
      | EOp OGetItem [b; i] =>
          let rb := eval S vars MVal b in
          let ri := eval S vars MVal i in
          let '(cur, ev1) := opsem S OGetItem [rv rb; rv ri] in
          let r := eval S vars MVal rhs in
          let '(w, ev2) := opsem S iop [cur; rv r] in
          let '(_, ev3) := opsem S OSetItem [rv rb; rv ri; w] in
          {| svars := vars; sev := rev rb ++ rev ri ++ ev1 ++ rev r ++ ev2 ++ ev3;
             slf := rlf rb ++ rlf ri ++ rlf r |}
      | EOp (OGetAttr a) [o] =>
          let ro := eval S vars MVal o in
          let '(cur, ev1) := opsem S (OGetAttr a) [rv ro] in
          let r := eval S vars MVal rhs in
          let '(w, ev2) := opsem S iop [cur; rv r] in
          let '(_, ev3) := opsem S (OSetAttr a) [rv ro; w] in
          {| svars := vars; sev := rev ro ++ ev1 ++ rev r ++ ev2 ++ ev3; slf := rlf ro ++ rlf r |}
      | _ => {| svars := vars; sev := []; slf := [] |}
      end
  | SDel o es =>
      let rs := evals S vars es in
      let '(_, ev) := opsem S o (map rv rs) in
      {| svars := vars; sev := flat_ev rs ++ ev; slf := flat_lf rs |}
  end.
End RefStmt.

(* ---------- the temp machine ---------- *)
Inductive operand := OTemp (t : nat) | OVar (x : nat) | ONoneC.

Inductive instr :=
| ILeaf (t : nat) (kind k : nat)
| IOp (t : nat) (o : op) (args : list operand)
| IIsTrue (t : nat) (src : operand)      (* t := C truth value of src (__Pyx_PyObject_IsTrue) *)
| INot (t : nat) (src : nat)             (* C-level ! on a C truth value *)
| IMove (t : nat) (src : operand)
| IStore (x : nat) (src : operand)
| IUnpack (t0 : nat) (n : nat) (src : operand)   (* items into temps t0 .. t0+n-1 *)
| ILabel (l : nat)
| IGoto (l : nat)
| IJumpIf (src : nat) (sense : bool) (l : nat).  (* if (src == sense) goto l;  src holds a C truth value *)

Record state := { temps : nat -> val; mvars : nat -> val; trace : list event; leaflog : list nat }.

Inductive rmode := Normal | Skip (l : nat).

Definition getop (st : state) (o : operand) : val :=
  match o with OTemp t => temps st t | OVar x => mvars st x | ONoneC => VNone end.

Definition set_temp (st : state) (t : nat) (v : val) (ev : list event) : state :=
  {| temps := upd (temps st) t v; mvars := mvars st; trace := trace st ++ ev; leaflog := leaflog st |}.

Fixpoint set_temps (f : nat -> val) (t0 : nat) (vs : list val) (n : nat) : nat -> val :=
  match n with
  | O => f
  | S n' => set_temps (upd f t0 (hd VNone vs)) (S t0) (tl vs) n'
  end.

Definition cbool (v : val) : bool := match v with VBool b => b | _ => false end.

Section Machine.
Variable S : sem.

Definition step (i : instr) (st : state) : state * rmode :=
  match i with
  | ILeaf t kind k =>
      let '(v, ev) := leafsem S kind k in
      ({| temps := upd (temps st) t v; mvars := mvars st; trace := trace st ++ ev;
          leaflog := leaflog st ++ [k] |}, Normal)
  | IOp t o args => let '(v, ev) := opsem S o (map (getop st) args) in (set_temp st t v ev, Normal)
  | IIsTrue t src => let '(b, ev) := truthsem S (getop st src) in (set_temp st t (VBool b) ev, Normal)
  | INot t src => (set_temp st t (VBool (negb (cbool (temps st src)))) [], Normal)
  | IMove t src => (set_temp st t (getop st src) [], Normal)
  | IStore x src => ({| temps := temps st; mvars := upd (mvars st) x (getop st src); trace := trace st;
                        leaflog := leaflog st |}, Normal)
  | IUnpack t0 n src =>
      let '(vs, ev) := unpacksem S n (getop st src) in
      ({| temps := set_temps (temps st) t0 vs n; mvars := mvars st; trace := trace st ++ ev;
          leaflog := leaflog st |}, Normal)
  | ILabel _ => (st, Normal)
  | IGoto l => (st, Skip l)
  | IJumpIf src sense l => (st, if Bool.eqb (cbool (temps st src)) sense then Skip l else Normal)
  end.

(* forward jumps only: in mode [Skip l] instructions are passed over until [ILabel l] *)
Fixpoint run (c : list instr) (st : state) (m : rmode) : state * rmode :=
  match c with
  | [] => (st, m)
  | i :: c' =>
      match m with
      | Normal => let '(st', m') := step i st in run c' st' m'
      | Skip l => match i with
                  | ILabel l' => if Nat.eqb l l' then run c' st Normal else run c' st m
                  | _ => run c' st m
                  end
      end
  end.
End Machine.

(* ---------- the code generator ---------- *)
(* which repairs are applied (false = the tree as it is) *)
Record flags := {
  fx_minmax : bool;     (* proposed fix: first min/max argument evaluated first *)
  fx_mcall : bool;      (* hypothetical: method looked up before the arguments (no fix proposed) *)
  fx_inplace : bool;    (* proposed fix: o.a.b op= v / o[i].b op= v evaluate the base object once *)
  fx_cascade : bool;    (* hypothetical: cascaded unpacking assigns target by target *)
  (* GeneralCallNode.map_to_simple_call_node (keyword arguments of C function calls) *)
  fx_ccsimple : bool;   (* proposed fix: only names and constants count as simple before type analysis *)
  fx_cckeep : bool;     (* proposed fix: the argument list keeps its tail when leading arguments become temps *)
  fx_ccrecv : bool;     (* proposed fix: the receiver of a C method call is evaluated before the keyword temps *)
  cc_sorted : bool }.   (* the temps are sorted by call position (true = the code as it is) *)

(* context of a node: value wanted, C truth value wanted, or operand of a jump-threaded and/or tree
   (BoolBinopNode.generate_bool_evaluation_code: result temp, "next and" label, "next or" label, end label) *)
Inductive ctx :=
| CVal | CBool
| CThread (m : mode) (res : nat) (andl orl : option nat) (endl : nat).

Definition mode_of (c : ctx) : mode :=
  match c with CVal => MVal | CBool => MBool | CThread m _ _ _ _ => m end.

Definition gres := (list instr * operand * nat)%type.

(* BoolBinopResultNode.generate_bool_evaluation_code for an operand whose value is in [r].
   (The real code omits a goto to the label that follows immediately; the model always emits it.) *)
Definition thread_tail (m : mode) (res : nat) (andl orl : option nat) (endl : nat) (r : operand) (n : nat)
  : list instr * nat :=
  let deliver := [IMove res r; IGoto endl] in
  match andl, orl with
  | None, None => (deliver, n)
  | _, _ =>
      let '(tst, t, n1) := match m, r with
                           | MBool, OTemp t => ([], t, n)
                           | _, _ => ([IIsTrue n r], n, S n)
                           end in
      (tst ++ match andl, orl with
              | Some al, Some ol => [IJumpIf t false ol; IGoto al]
              | Some al, None => [IJumpIf t true al] ++ deliver
              | None, Some ol => [IJumpIf t false ol] ++ deliver
              | None, None => deliver
              end, n1)
  end.

Definition finish (c : ctx) (g : gres) : gres :=
  match c with
  | CVal => g
  | CBool => let '(code, r, n) := g in (code ++ [IIsTrue n r], OTemp n, S n)
  | CThread m res andl orl endl =>
      let '(code, r, n) := g in
      let '(code1, r1, n1) := match m with
                              | MVal => (code, r, n)
                              | MBool => (code ++ [IIsTrue n r], OTemp n, S n)
                              end in
      let '(tail, n2) := thread_tail m res andl orl endl r1 n1 in
      (code1 ++ tail, OTemp res, n2)
  end.

(* a node that already produced a C truth value in temp t *)
Definition finish_bool (c : ctx) (code : list instr) (t : nat) (n : nat) : gres :=
  match c with
  | CThread m res andl orl endl =>
      let '(tail, n2) := thread_tail MBool res andl orl endl (OTemp t) n in
      (code ++ tail, OTemp res, n2)
  | _ => (code, OTemp t, n)
  end.

(* --- calls of C functions with keyword arguments --- *)
(* ExprNode.is_simple() asked BEFORE type analysis: names, constants, attribute chains on such, and every
   node class whose is_temp is set at class level (tuple / list / set / dict displays, a single formatted
   value f"{e}", and / or, conditional expressions).  Silent constructions with an odd identifier are the
   ones that do not answer "simple" at that stage (an f-string of several parts is still a chain of AddNodes) *)
Fixpoint bsimple (e : expr) : bool :=
  match e with
  | EName _ | ENone => true
  | EOp (OGetAttr _) [o] => bsimple o
  | EOp (OSeq id) _ => Nat.even id
  | EAnd _ _ | EOr _ _ | ECond _ _ _ => true
  | _ => false
  end.

(* what is really free of side effects *)
Definition tsimple (e : expr) : bool :=
  match e with EName _ | ENone => true | _ => false end.

Definition csimple (F : flags) (e : expr) : bool := if fx_ccsimple F then tsimple e else bsimple e.

(* code of the arguments at the call positions ps, one after the other; gfs = the code generators of all
   arguments in call order *)
Fixpoint gen_sel (gfs : list (nat -> gres)) (ps : list nat) (n : nat) : list instr * list operand * nat :=
  match ps with
  | [] => ([], [], n)
  | p :: r => let '(c1, r1, n1) := nth p gfs (fun n => ([], ONoneC, n)) n in
              let '(c2, rs, n2) := gen_sel gfs r n1 in
              (c1 ++ c2, r1 :: rs, n2)
  end.

Fixpoint lookup (p : nat) (env : list (nat * operand)) : operand :=
  match env with
  | [] => ONoneC
  | (q, o) :: r => if Nat.eqb q p then o else lookup p r
  end.

(* EvalWithTempExprNode chain (the temps, in list order) around a SimpleCallNode that evaluates its
   function (the receiver) and then the arguments that were left in place, in argument-list order.
   A rejected call (compile error) generates nothing. *)
Definition ccall_code (F : flags) (c : ctx) (o : op) (nreq ndecl : nat) (grecv : nat -> gres)
    (npos : nat) (names : list nat) (simple : nat -> bool) (gfs : list (nat -> gres)) (n : nat) : gres :=
  match ccmap (cc_sorted F) (fx_cckeep F) npos ndecl names simple with
  | CMOk temps args =>
      if Nat.ltb (length args) nreq then finish c ([], ONoneC, n)     (* Call with wrong number of arguments *)
      else
        let inplace := filter (fun p => negb (memb p temps)) args in
        if fx_ccrecv F then
          let '(c0, r0, n0) := grecv n in
          let '(c1, trs, n1) := gen_sel gfs temps n0 in
          let '(c2, irs, n2) := gen_sel gfs inplace n1 in
          let env := combine (temps ++ inplace) (trs ++ irs) in
          finish c (c0 ++ c1 ++ c2 ++ [IOp n2 o (r0 :: map (fun p => lookup p env) args)], OTemp n2, S n2)
        else
          let '(c1, trs, n1) := gen_sel gfs temps n in
          let '(c0, r0, n0) := grecv n1 in
          let '(c2, irs, n2) := gen_sel gfs inplace n0 in
          let env := combine (temps ++ inplace) (trs ++ irs) in
          finish c (c1 ++ c0 ++ c2 ++ [IOp n2 o (r0 :: map (fun p => lookup p env) args)], OTemp n2, S n2)
  | _ => finish c ([], ONoneC, n)
  end.

(* the compiler rejects the call (compile error), or leaves it to a Python call (CMGap on a cpdef function) *)
Definition ccall_rejected (F : flags) (nreq ndecl npos : nat) (names : list nat) (simple : nat -> bool) : bool :=
  match ccmap (cc_sorted F) (fx_cckeep F) npos ndecl names simple with
  | CMOk _ args => Nat.ltb (length args) nreq
  | _ => true
  end.

Section Gen.
Variable F : flags.

Fixpoint gen (c : ctx) (e : expr) (n : nat) {struct e} : gres :=
  let gens := fix gens (es : list expr) (n : nat) : list instr * list operand * nat :=
      match es with
      | [] => ([], [], n)
      | x :: xs => let '(c1, r1, n1) := gen CVal x n in
                   let '(c2, rs, n2) := gens xs n1 in
                   (c1 ++ c2, r1 :: rs, n2)
      end in
  (* PrimaryCmpNode / CascadedCmpNode: result temp r (value), C truth temp tb, end label *)
  let chain := fix chain (m : mode) (r tb endl : nat) (ra : operand) (ops : list op) (es : list expr) (n : nat)
                 {struct es} : list instr * nat :=
      match ops, es with
      | o :: ops', b :: es' =>
          let '(cb, rb, n1) := gen CVal b n in
          let cmp := cb ++ [IOp r o [ra; rb]] in
          match ops', es', m with
          | _ :: _, _ :: _, _ =>
              let '(cc, n2) := chain m r tb endl rb ops' es' n1 in
              (cmp ++ [IIsTrue tb (OTemp r); IJumpIf tb false endl] ++ cc, n2)
          | _, _, MVal => (cmp, n1)
          | _, _, MBool => (cmp ++ [IIsTrue tb (OTemp r)], n1)
          end
      | _, _ => match m with
                | MVal => ([IMove r ONoneC], n)
                | MBool => ([IMove r ONoneC; IIsTrue tb ONoneC], n)
                end
      end in
  match e with
  | ELeaf kind k => finish c ([ILeaf n kind k], OTemp n, S n)
  | EName x => finish c ([], OVar x, n)
  | ENone => finish c ([], ONoneC, n)
  | EOp o es => let '(code, rs, n1) := gens es n in
                finish c (code ++ [IOp n1 o rs], OTemp n1, S n1)
  | ENot a => let '(ca, ra, n1) := gen CBool a n in
              let t := match ra with OTemp t => t | _ => 0 end in
              finish_bool c (ca ++ [INot n1 t]) n1 (S n1)
  | EAnd a b =>
      match c with
      | CThread m res andl orl endl =>
          let my := n in
          let '(ca, _, n1) := gen (CThread m res (Some my) orl endl) a (S n) in
          let '(cb, _, n2) := gen (CThread m res andl orl endl) b n1 in
          (ca ++ [ILabel my] ++ cb, OTemp res, n2)
      | _ =>
          let m := mode_of c in
          let res := n in let endl := S n in let my := S (S n) in
          let '(ca, _, n1) := gen (CThread m res (Some my) None endl) a (S (S (S n))) in
          let '(cb, _, n2) := gen (CThread m res None None endl) b n1 in
          (ca ++ [ILabel my] ++ cb ++ [ILabel endl], OTemp res, n2)
      end
  | EOr a b =>
      match c with
      | CThread m res andl orl endl =>
          let my := n in
          let '(ca, _, n1) := gen (CThread m res andl (Some my) endl) a (S n) in
          let '(cb, _, n2) := gen (CThread m res andl orl endl) b n1 in
          (ca ++ [ILabel my] ++ cb, OTemp res, n2)
      | _ =>
          let m := mode_of c in
          let res := n in let endl := S n in let my := S (S n) in
          let '(ca, _, n1) := gen (CThread m res None (Some my) endl) a (S (S (S n))) in
          let '(cb, _, n2) := gen (CThread m res None None endl) b n1 in
          (ca ++ [ILabel my] ++ cb ++ [ILabel endl], OTemp res, n2)
      end
  | ECond cnd a b =>
      (* CondExprNode: condition coerced to a C truth value; if/else *)
      let res := n in let lelse := S n in let lend := S (S n) in
      let '(cc, rc, n1) := gen CBool cnd (S (S (S n))) in
      let t := match rc with OTemp t => t | _ => 0 end in
      let '(ca, ra, n2) := gen CVal a n1 in
      let '(cb, rb, n3) := gen CVal b n2 in
      finish c (cc ++ [IJumpIf t false lelse] ++ ca ++ [IMove res ra; IGoto lend; ILabel lelse]
                   ++ cb ++ [IMove res rb; ILabel lend], OTemp res, n3)
  | ECmp a ops rest =>
      let r := n in let tb := S n in let endl := S (S n) in
      let '(ca, ra, n1) := gen CVal a (S (S (S n))) in
      let m := mode_of c in
      let '(cc, n2) := chain m r tb endl ra ops rest n1 in
      let code := ca ++ cc ++ [ILabel endl] in
      match m with
      | MVal => finish c (code, OTemp r, n2)
      | MBool => finish_bool c code tb n2
      end
  | EMCall mname o obj args =>
      let '(co, ro, n1) := gen CVal obj n in
      if fx_mcall F then
        let '(ca, rs, n2) := gens args (S n1) in
        finish c (co ++ [IOp n1 (OGetAttr mname) [ro]] ++ ca ++ [IOp n2 o (OTemp n1 :: rs)], OTemp n2, S n2)
      else
        (* PyMethodCallNode with PyObject_VectorcallMethod: the attribute lookup happens in the call *)
        let '(ca, rs, n2) := gens args n1 in
        finish c (co ++ ca ++ [IOp n2 (OGetAttr mname) [ro]; IOp (S n2) o (OTemp n2 :: rs)], OTemp (S n2), S (S n2))
  | EMinMax o args =>
      (* _optimise_min_max: EvalWithTempExprNode(arg2, ... EvalWithTempExprNode(argN, <chain that evaluates arg1>)) *)
      let scan := fix scan (best : nat) (tb : nat) (rs : list operand) (l : nat) : list instr * nat :=
          match rs with
          | [] => ([], l)
          | r :: rs' =>
              let '(cc, l') := scan best tb rs' (S l) in
              ([IOp tb o [r; OTemp best]; IIsTrue tb (OTemp tb); IJumpIf tb false l; IMove best r; ILabel l] ++ cc, l')
          end in
      match args with
      | [] => finish c ([], ONoneC, n)
      | a0 :: rest =>
          let best := n in let tb := S n in
          if fx_minmax F then
            let '(c0, r0, n1) := gen CVal a0 (S (S n)) in
            let '(cr, rs, n2) := gens rest n1 in
            let '(cs, n3) := scan best tb rs n2 in
            finish c (c0 ++ cr ++ [IMove best r0] ++ cs, OTemp best, n3)
          else
            let '(cr, rs, n1) := gens rest (S (S n)) in
            let '(c0, r0, n2) := gen CVal a0 n1 in
            let '(cs, n3) := scan best tb rs n2 in
            finish c (cr ++ c0 ++ [IMove best r0] ++ cs, OTemp best, n3)
      end
  | ECCall o nreq ndecl recv npos names es =>
      let gfs := (fix go (es : list expr) : list (nat -> gres) :=
                    match es with [] => [] | x :: xs => gen CVal x :: go xs end) es in
      ccall_code F c o nreq ndecl (gen CVal recv) npos names (fun p => csimple F (nth p es ENone)) gfs n
  end.

Fixpoint gens (es : list expr) (n : nat) : list instr * list operand * nat :=
  match es with
  | [] => ([], [], n)
  | x :: xs => let '(c1, r1, n1) := gen CVal x n in
               let '(c2, rs, n2) := gens xs n1 in
               (c1 ++ c2, r1 :: rs, n2)
  end.

(* --- statements --- *)
Definition gen_store1 (t : starget) (v : operand) (n : nat) : list instr * nat :=
  match t with
  | TName x => ([IStore x v], n)
  | TStore o es => let '(code, rs, n1) := gens es n in (code ++ [IOp n1 o (rs ++ [v])], S n1)
  end.

Fixpoint gen_store_items (ts : list starget) (t0 : nat) (n : nat) : list instr * nat :=
  match ts with
  | [] => ([], n)
  | t :: ts' => let '(c1, n1) := gen_store1 t (OTemp t0) n in
                let '(c2, n2) := gen_store_items ts' (S t0) n1 in
                (c1 ++ c2, n2)
  end.

Definition gen_store (t : target) (v : operand) (n : nat) : list instr * nat :=
  match t with
  | TS t1 => gen_store1 t1 v n
  | TTup ts => let k := length ts in
               let '(c, n1) := gen_store_items ts n (n + k) in
               (IUnpack n k v :: c, n1)
  end.

Fixpoint gen_stores (ts : list target) (v : operand) (n : nat) : list instr * nat :=
  match ts with
  | [] => ([], n)
  | t :: ts' => let '(c1, n1) := gen_store t v n in
                let '(c2, n2) := gen_stores ts' v n1 in
                (c1 ++ c2, n2)
  end.

(* PostParse._visit_assignment_node + flatten_parallel_assignments for
   "targets = display of k plain items" with at least one tuple target (all of length k):
   the item values go into temps; the plain targets are assigned the whole sequence first; then, item by
   item, the i-th element of every tuple target (in target order) is assigned item i. *)
Definition is_tup (t : target) : bool := match t with TTup _ => true | _ => false end.

Fixpoint plain_targets (ts : list target) : list starget :=
  match ts with [] => [] | TS t :: r => t :: plain_targets r | TTup _ :: r => plain_targets r end.
Fixpoint tuple_targets (ts : list target) : list (list starget) :=
  match ts with [] => [] | TS _ :: r => tuple_targets r | TTup l :: r => l :: tuple_targets r end.

Fixpoint gen_store_same (ts : list starget) (v : operand) (n : nat) : list instr * nat :=
  match ts with
  | [] => ([], n)
  | t :: ts' => let '(c1, n1) := gen_store1 t v n in
                let '(c2, n2) := gen_store_same ts' v n1 in
                (c1 ++ c2, n2)
  end.

Fixpoint gen_columns (cols : list (list starget)) (rs : list operand) (n : nat) : list instr * nat :=
  match rs with
  | [] => ([], n)
  | r :: rs' =>
      let '(c1, n1) := gen_store_same (flat_map (fun l => match l with [] => [] | t :: _ => [t] end) cols) r n in
      let '(c2, n2) := gen_columns (map (@tl starget) cols) rs' n1 in
      (c1 ++ c2, n2)
  end.

(* every right-hand side of a parallel assignment is coerced to a temp *)
Fixpoint to_temps (rs : list operand) (n : nat) : list instr * list operand * nat :=
  match rs with
  | [] => ([], [], n)
  | r :: rs' => let '(c, ts, n1) := to_temps rs' (S n) in (IMove n r :: c, OTemp n :: ts, n1)
  end.

Definition display_items (e : expr) : option (op * list expr) :=
  match e with EOp (OSeq id) es => Some (OSeq id, es) | _ => None end.

Definition flattens (ts : list target) (rhs : expr) : option (op * list expr) :=
  match display_items rhs with
  | Some (o, es) =>
      if existsb is_tup ts && forallb (fun l => Nat.eqb (length l) (length es)) (tuple_targets ts)
      then Some (o, es) else None
  | None => None
  end.

(* ExpandInplaceOperators.side_effect_free_reference *)
Inductive rexpr := RVar (x : nat) | RTemp (t : nat) | RAttr (a : nat) (r : rexpr) | RSub (b i : rexpr).

Fixpoint gen_rexpr (r : rexpr) (n : nat) : list instr * operand * nat :=
  match r with
  | RVar x => ([], OVar x, n)
  | RTemp t => ([], OTemp t, n)
  | RAttr a r1 => let '(c, o, n1) := gen_rexpr r1 n in (c ++ [IOp n1 (OGetAttr a) [o]], OTemp n1, S n1)
  | RSub b i => let '(c1, o1, n1) := gen_rexpr b n in
                let '(c2, o2, n2) := gen_rexpr i n1 in
                (c1 ++ c2 ++ [IOp n2 OGetItem [o1; o2]], OTemp n2, S n2)
  end.

Definition let_temp (e : expr) (n : nat) : list instr * rexpr * nat :=
  let '(c, r, n1) := gen CVal e n in
  match r with
  | OTemp t => (c, RTemp t, n1)
  | _ => (c ++ [IMove n1 r], RTemp n1, S n1)
  end.

Fixpoint sefr (setting : bool) (e : expr) (n : nat) {struct e} : list instr * rexpr * nat :=
  match e with
  | EName x => ([], RVar x, n)
  | EOp OGetItem [b; i] =>
      if setting then
        let '(c1, rb, n1) := sefr false b n in
        let '(c2, ri, n2) := let_temp i n1 in
        (c1 ++ c2, RSub rb ri, n2)
      else let_temp e n
  | EOp (OGetAttr a) [o] =>
      if setting then
        let '(c1, ro, n1) := sefr (negb (fx_inplace F)) o n in
        (c1, RAttr a ro, n1)
      else let_temp e n
  | _ => let_temp e n
  end.

Definition gen_stmt (s : stmt) (n : nat) : list instr * nat :=
  match s with
  | SAssign ts rhs =>
      match (if fx_cascade F then None else flattens ts rhs) with
      | Some (o, es) =>
          let '(c1, rs, n1) := gens es n in
          let '(c2, tsr, n2) := to_temps rs n1 in
          let plain := plain_targets ts in
          let '(c3, n3) := match plain with
                           | [] => ([], n2)
                           | _ => let '(c, n') := gen_store_same plain (OTemp n2) (S n2) in
                                  (IOp n2 o tsr :: c, n')
                           end in
          let '(c4, n4) := gen_columns (tuple_targets ts) tsr n3 in
          (c1 ++ c2 ++ c3 ++ c4, n4)
      | None =>
          let '(c1, r, n1) := gen CVal rhs n in
          let '(c2, n2) := gen_stores ts r n1 in
          (c1 ++ c2, n2)
      end
  | SAug lhs iop rhs =>
      match lhs with
      | EName x =>
          let '(c1, r, n1) := gen CVal rhs n in
          (c1 ++ [IOp n1 iop [OVar x; r]; IStore x (OTemp n1)], S n1)
      | EOp OGetItem [_; _] | EOp (OGetAttr _) [_] =>
          let '(c0, lhs', n0) := sefr true lhs n in
          let '(c1, cur, n1) := gen_rexpr lhs' n0 in
          let '(c2, r, n2) := gen CVal rhs n1 in
          let w := n2 in
          match lhs' with
          | RSub b i =>
              let '(c3, ob, n3) := gen_rexpr b (S n2) in
              let '(c4, oi, n4) := gen_rexpr i n3 in
              (c0 ++ c1 ++ c2 ++ [IOp w iop [cur; r]] ++ c3 ++ c4 ++ [IOp n4 OSetItem [ob; oi; OTemp w]], S n4)
          | RAttr a o =>
              let '(c3, oo, n3) := gen_rexpr o (S n2) in
              (c0 ++ c1 ++ c2 ++ [IOp w iop [cur; r]] ++ c3 ++ [IOp n3 (OSetAttr a) [oo; OTemp w]], S n3)
          | _ => ([], n)
          end
      | _ => ([], n)
      end
  | SDel o es => let '(code, rs, n1) := gens es n in (code ++ [IOp n1 o rs], S n1)
  end.

End Gen.

(* some C call in the expression is rejected by the compiler *)
Fixpoint rejected (F : flags) (e : expr) : bool :=
  let any := fix any (es : list expr) : bool :=
      match es with [] => false | x :: xs => rejected F x || any xs end in
  match e with
  | ELeaf _ _ | EName _ | ENone => false
  | EOp _ es => any es
  | ENot a => rejected F a
  | EAnd a b | EOr a b => rejected F a || rejected F b
  | ECond c a b => rejected F c || rejected F a || rejected F b
  | ECmp a _ rest => rejected F a || any rest
  | EMCall _ _ obj args => rejected F obj || any args
  | EMinMax _ args => any args
  | ECCall _ nreq ndecl recv npos names es =>
      rejected F recv || any es ||
      ccall_rejected F nreq ndecl npos names (fun p => csimple F (nth p es ENone))
  end.

(* the calls for which the generated order is proved to be the call order:
   well-formed (every keyword declared, nothing bound twice, no gap, all required parameters given),
   temps sorted, and - for the tree as it is - none of the three deviations is triggered:
   no non-simple argument before the first temp (else the argument list is cut), every argument the
   compiler takes for simple really is free of side effects (unless all keywords are in declaration
   order), the receiver is a name (unless there are no temps) *)
Definition ccok (F : flags) (nreq ndecl : nat) (recv : expr) (npos : nat) (names : list nat) (es : list expr) : bool :=
  let simple := fun p => csimple F (nth p es ENone) in
  let m := npos + length names in
  let k := npos + inorder_prefix ndecl npos names in
  Nat.eqb (length es) m && cc_wf npos ndecl names && cc_sorted F && Nat.leb nreq m &&
  (fx_cckeep F || forallb simple (seq 0 k) || forallb simple (seq k (m - k))) &&
  (forallb (fun e => implb (csimple F e) (tsimple e)) es || Nat.leb (length names) (inorder_prefix ndecl npos names)) &&
  (fx_ccrecv F || tsimple recv ||
   match ccmap (cc_sorted F) (fx_cckeep F) npos ndecl names simple with CMOk [] _ => true | _ => false end).

(* ---------- the concrete semantics mirroring the logging runtime ---------- *)
Fixpoint vtruth (v : val) : bool :=
  match v with
  | VNone => false
  | VBool b => b
  | VLeaf kind _ => negb (Nat.eqb kind 1 || Nat.eqb kind 5)    (* F(k) leaves and the variable y are falsy *)
  | VItem i _ => negb (Nat.eqb i 1)
  | VOp (OSeq _) args => match args with [] => false | _ => true end
  | VOp OGetSlice args => match args with a :: _ => vtruth a | [] => true end
  | VOp _ args => fold_right (fun a t => xorb (vtruth a) t) true args
  end.

Definition is_logging (v : val) : bool :=
  match v with
  | VLeaf kind _ => Nat.ltb kind 2
  | VItem _ (VLeaf 2 _) => true
  | VItem _ (VLeaf 3 _) => false
  | VItem _ _ => true
  | VOp (OSeq _) _ => false
  | VOp _ _ => true
  | _ => false
  end.

Definition std_truth (v : val) : bool * list event :=
  (vtruth v, if is_logging v then [EvBool v] else []).

Definition std_op (o : op) (args : list val) : val * list event :=
  match o with
  | OSeq _ => (VOp o args, [])
  | OIn neg =>
      match args with
      | [a; b] => let r := VOp (OIn false) [b; a] in
                  (VBool (xorb neg (vtruth r)), [EvOp (OIn false) [b; a]; EvBool r])
      | _ => (VNone, [])
      end
  | _ => (VOp o args, [EvOp o args])
  end.

Fixpoint items_from (v : val) (i n : nat) : list val :=
  match n with O => [] | S n' => VItem i v :: items_from v (S i) n' end.

Definition std_unpack (n : nat) (v : val) : list val * list event :=
  match v with
  | VOp (OSeq _) args => (args, [])
  | VLeaf 2 _ => (items_from v 0 n, [])
  | _ => (items_from v 0 n, [EvIter v])
  end.

Definition std_sem : sem :=
  {| leafsem := fun kind k => (VLeaf kind k, [EvLeaf k]);
     opsem := std_op; truthsem := std_truth; unpacksem := std_unpack |}.

Definition init_vars (x : nat) : val := match x with 3 => VNone | _ => VLeaf (4 + x) 0 end.
Definition init_state : state :=
  {| temps := fun _ => VNone; mvars := init_vars; trace := []; leaflog := [] |}.

(* entry points of the extracted runner *)
Definition run_stmt (F : flags) (s : stmt) : state * rmode :=
  let '(c, _) := gen_stmt F s 0 in run std_sem c init_state Normal.
Definition ref_run (s : stmt) : sres := ref_stmt std_sem init_vars s.
Definition mk_flags8 (a b c d e f g h : bool) : flags :=
  {| fx_minmax := a; fx_mcall := b; fx_inplace := c; fx_cascade := d;
     fx_ccsimple := e; fx_cckeep := f; fx_ccrecv := g; cc_sorted := h |}.
(* the first four repairs as given, the C-call mapping repaired *)
Definition mk_flags (a b c d : bool) : flags := mk_flags8 a b c d true true true true.
Definition starget_rejected (F : flags) (t : starget) : bool :=
  match t with TName _ => false | TStore _ es => existsb (rejected F) es end.
Definition stmt_rejected (F : flags) (s : stmt) : bool :=
  match s with
  | SAssign ts rhs =>
      rejected F rhs ||
      existsb (fun t => match t with TS t1 => starget_rejected F t1 | TTup l => existsb (starget_rejected F) l end) ts
  | SAug lhs _ rhs => rejected F lhs || rejected F rhs
  | SDel _ es => existsb (rejected F) es
  end.
