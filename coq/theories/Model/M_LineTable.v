(* Model of Cython/Compiler/LineTable.py (build_line_table, encode_single_position,
   encode_location_short / _oneline / _start, encode_varint) and of CPython 3.12's readers of
   the location table (Objects/codeobject.c: read_varint, read_signed_varint,
   advance_with_locations = what code.co_positions() iterates; scan_varint, get_line_delta,
   advance = what co_lines() / PyCode_Addr2Line / tracebacks use).

   Python ints are Z (the module runs uncompiled: no C truncation), a "character"
   chr(x) / f"{x:c}" of the table is the number x, checked to be a latin-1 code point when it
   is produced.  Bit operations are the Z bit operations (Python's and C's agree with them on
   the values that occur).  No proofs here. *)
From Coq Require Import ZArith List Bool.
From CyVerif Require Import Lib.CInt.
Import ListNotations.
Open Scope Z_scope.

(* (start_lineno, end_lineno, start_col_offset, end_col_offset) *)
Definition pos := (Z * Z * Z * Z)%type.
Definition p_start (p : pos) : Z := let '(sl, _, _, _) := p in sl.
Definition p_end (p : pos) : Z := let '(_, el, _, _) := p in el.
Definition p_col (p : pos) : Z := let '(_, _, sc, _) := p in sc.
Definition p_ecol (p : pos) : Z := let '(_, _, _, ec) := p in ec.

(* ------------------------------------------------------------------------------------ *)
(* the encoder                                                                          *)

Inductive eres (A : Type) :=
| EOk (a : A)
| EAssertionError          (* an `assert` of LineTable.py failed *)
| EEncodeError             (* chr()/format(':c')/latin-1: code point outside 0..255 *)
| EOutOfFuel.              (* model artefact; proved unreachable *)
Arguments EOk {A} a.
Arguments EAssertionError {A}.
Arguments EEncodeError {A}.
Arguments EOutOfFuel {A}.

Definition ebind {A B} (x : eres A) (f : A -> eres B) : eres B :=
  match x with
  | EOk a => f a
  | EAssertionError => EAssertionError
  | EEncodeError => EEncodeError
  | EOutOfFuel => EOutOfFuel
  end.

Definition byte_ok (b : Z) : bool := (0 <=? b) && (b <? 256).
Definition chars (l : list Z) : eres (list Z) :=
  if forallb byte_ok l then EOk l else EEncodeError.

(* encode_varint:  while value >= 64: append(chr(64 | (value & 63))); value >>= 6
                   append(chr(value))                                              *)
Fixpoint varint_loop (fuel : nat) (v : Z) : eres (list Z) :=
  match fuel with
  | O => EOutOfFuel
  | S f =>
      if 64 <=? v
      then ebind (varint_loop f (Z.shiftr v 6)) (fun r => EOk (Z.lor 64 (Z.land v 63) :: r))
      else EOk [v]
  end.

Definition varint_fuel (v : Z) : nat := S (Z.to_nat (Z.log2 v)).

Definition encode_varint (v : Z) : eres (list Z) :=
  if v <? 0 then EAssertionError          (* assert value > 0 or value == 0 *)
  else varint_loop (varint_fuel v) v.

(* encode_location_short: f"{128 | (code << 3):c}{(low_bits << 4) | (end_column - start_column):c}" *)
Definition short_bytes (sc ec : Z) : list Z :=
  let low_bits := Z.land sc 7 in
  let code := Z.shiftr sc 3 in
  [Z.lor 128 (Z.shiftl code 3); Z.lor (Z.shiftl low_bits 4) (ec - sc)].

(* encode_location_oneline: f"{128 | (code << 3):c}{start_column:c}{end_column:c}", code = 10 + line_delta *)
Definition oneline_bytes (d sc ec : Z) : list Z :=
  [Z.lor 128 (Z.shiftl (10 + d) 3); sc; ec].

(* encode_location_start(table_bytes, 14) *)
Definition long_start : Z := Z.lor 128 (Z.shiftl 14 3).

(* encode_single_position.  [fx] selects what the long form returns as the new "last line":
     false = the code as it is:  return end_lineno
     true  = proposed repair:    return start_lineno                                        *)
Definition encode_single (fx : bool) (p : pos) (last : Z) : eres (list Z * Z) :=
  let '(sl, el, sc, ec) := p in
  if sl <? last then EAssertionError       (* assert start_lineno >= last_lineno *)
  else
    let d := sl - last in
    if (el =? sl) && ((d =? 0) && (sc <? 80) && ((0 <=? ec - sc) && (ec - sc <? 16)))
    then ebind (chars (short_bytes sc ec)) (fun b => EOk (b, el))
    else if (el =? sl) && ((0 <=? d) && (d <? 3) && (sc <? 128) && (ec <? 128))
    then ebind (chars (oneline_bytes d sc ec)) (fun b => EOk (b, el))
    else
      ebind (encode_varint (Z.shiftl d 1)) (fun v1 =>
      ebind (encode_varint (el - sl)) (fun v2 =>
      ebind (encode_varint (sc + 1)) (fun v3 =>
      ebind (encode_varint (ec + 1)) (fun v4 =>
        EOk (long_start :: v1 ++ v2 ++ v3 ++ v4, if fx then sl else el))))).

Fixpoint build_loop (fx : bool) (ps : list pos) (last : Z) : eres (list Z) :=
  match ps with
  | [] => EOk []
  | p :: r =>
      ebind (encode_single fx p last) (fun bl =>
      ebind (build_loop fx r (snd bl)) (fun bs => EOk (fst bl ++ bs)))
  end.

Definition build_line_table (fx : bool) (ps : list pos) (firstlineno : Z) : eres (list Z) :=
  build_loop fx ps firstlineno.

(* ------------------------------------------------------------------------------------ *)
(* CPython 3.12, Objects/codeobject.c.  C ints are modelled unbounded (exact while every
   quantity stays below 2^31); a read past the end of the table is the explicit outcome
   None / DTruncated.  -1 stands for "no line / no column" (Python's None).               *)

(* read_varint:  read = read_byte; val = read & 63; shift = 0;
                 while (read & 64) { read = read_byte; shift += 6; val |= (read & 63) << shift; } *)
Fixpoint read_varint_loop (bs : list Z) (val shift : Z) : option (Z * list Z) :=
  match bs with
  | [] => None
  | b :: r =>
      let val' := Z.lor val (Z.shiftl (Z.land b 63) shift) in
      if Z.land b 64 =? 0 then Some (val', r) else read_varint_loop r val' (shift + 6)
  end.
Definition read_varint (bs : list Z) : option (Z * list Z) := read_varint_loop bs 0 0.

(* read_signed_varint: uval & 1 ? -(int)(uval >> 1) : uval >> 1 *)
Definition signed_of_uval (u : Z) : Z :=
  if Z.land u 1 =? 0 then Z.shiftr u 1 else - Z.shiftr u 1.
Definition read_signed_varint (bs : list Z) : option (Z * list Z) :=
  match read_varint bs with
  | Some (u, r) => Some (signed_of_uval u, r)
  | None => None
  end.

Definition entry_code (first_byte : Z) : Z := Z.land (Z.shiftr first_byte 3) 15.
Definition entry_units (first_byte : Z) : Z := Z.land first_byte 7 + 1.

(* advance_with_locations: one table entry.
   Returns ((line, endline, column, endcolumn), code units, new computed_line, remaining bytes) *)
Definition advance_with_locations (bs : list Z) (computed_line : Z)
  : option (pos * Z * Z * list Z) :=
  match bs with
  | [] => None
  | first_byte :: r =>
      let code := entry_code first_byte in
      let n := entry_units first_byte in
      if code =? 15 then Some ((-1, -1, -1, -1), n, computed_line, r)
      else if code =? 14 then
        match read_signed_varint r with None => None | Some (dl, r1) =>
        match read_varint r1 with None => None | Some (de, r2) =>
        match read_varint r2 with None => None | Some (c, r3) =>
        match read_varint r3 with None => None | Some (ec, r4) =>
          let line := computed_line + dl in
          Some ((line, line + de, c - 1, ec - 1), n, line, r4)
        end end end end
      else if code =? 13 then
        match read_signed_varint r with None => None | Some (dl, r1) =>
          let line := computed_line + dl in
          Some ((line, line, -1, -1), n, line, r1)
        end
      else if (10 <=? code) && (code <=? 12) then
        match r with
        | c :: ec :: r2 =>
            let line := computed_line + (code - 10) in
            Some ((line, line, c, ec), n, line, r2)
        | _ => None
        end
      else
        match r with
        | second_byte :: r1 =>
            let column := Z.lor (Z.shiftl code 3) (Z.shiftr second_byte 4) in
            Some ((computed_line, computed_line, column, column + Z.land second_byte 15),
                  n, computed_line, r1)
        | [] => None
        end
  end.

Inductive dres :=
| DOk (ps : list pos)
| DTruncated               (* the C code would read past the end of the table *)
| DOutOfFuel.              (* model artefact; proved unreachable *)

(* positionsiter_next until at_end(): one tuple per code unit of every entry *)
Fixpoint decode_loop (fuel : nat) (bs : list Z) (computed_line : Z) : dres :=
  match bs with
  | [] => DOk []
  | _ :: _ =>
      match fuel with
      | O => DOutOfFuel
      | S f =>
          match advance_with_locations bs computed_line with
          | None => DTruncated
          | Some (tup, n, line', rest) =>
              match decode_loop f rest line' with
              | DOk l => DOk (repeat tup (Z.to_nat n) ++ l)
              | e => e
              end
          end
      end
  end.

(* list(code.replace(co_linetable=bs, co_firstlineno=first).co_positions()) *)
Definition decode_positions (first : Z) (bs : list Z) : dres :=
  decode_loop (length bs) bs first.

(* ---- the line-only reader (co_lines, PyCode_Addr2Line, frame.f_lineno, tracebacks) ---- *)

(* scan_varint(ptr) *)
Definition scan_varint (bs : list Z) : option Z :=
  match read_varint bs with Some (u, _) => Some u | None => None end.
Definition scan_signed_varint (bs : list Z) : option Z :=
  match scan_varint bs with Some u => Some (signed_of_uval u) | None => None end.

(* get_line_delta(ptr) *)
Definition get_line_delta (bs : list Z) : option Z :=
  match bs with
  | [] => None
  | b :: r =>
      let code := entry_code b in
      if code =? 15 then Some 0
      else if (code =? 13) || (code =? 14) then scan_signed_varint r
      else if code =? 10 then Some 0
      else if code =? 11 then Some 1
      else if code =? 12 then Some 2
      else Some 0
  end.

(* do { lo_next++; } while (lo_next < limit && (lo_next[0] & 128) == 0); -- the part after ++ *)
Fixpoint skip_payload (bs : list Z) : list Z :=
  match bs with
  | [] => []
  | b :: r => if Z.land b 128 =? 0 then skip_payload r else bs
  end.

(* advance(): (ar_line, code units, new computed_line, remaining) *)
Definition advance (bs : list Z) (computed_line : Z) : option (Z * Z * Z * list Z) :=
  match bs with
  | [] => None
  | b :: r =>
      match get_line_delta bs with
      | None => None
      | Some dl =>
          let cl := computed_line + dl in
          let ar_line := if Z.shiftr b 3 =? 31 then -1 else cl in
          Some (ar_line, entry_units b, cl, skip_payload r)
      end
  end.

Inductive lres := LOk (ls : list Z) | LTruncated | LOutOfFuel.

(* the line of every code unit, in order (co_lines() expanded to code units) *)
Fixpoint lines_loop (fuel : nat) (bs : list Z) (computed_line : Z) : lres :=
  match bs with
  | [] => LOk []
  | _ :: _ =>
      match fuel with
      | O => LOutOfFuel
      | S f =>
          match advance bs computed_line with
          | None => LTruncated
          | Some (line, n, cl, rest) =>
              match lines_loop f rest cl with
              | LOk l => LOk (repeat line (Z.to_nat n) ++ l)
              | e => e
              end
          end
      end
  end.

Definition decode_lines (first : Z) (bs : list Z) : lres :=
  lines_loop (length bs) bs first.
