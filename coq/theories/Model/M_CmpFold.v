(* Model of Optimize.ConstantFolding.visit_PrimaryCmpNode: constant folding of a comparison
   chain  e0 op1 e1 op2 e2 ...  (the transform runs before FlattenInListTransform and before
   type analysis).

   The visitor computes, for every link whose two operands have a constant result, the
   compile-time result of the comparison (calculate_cascaded_constant_result; an exception of
   the compile-time comparison or a str/bytes mix gives "not a constant").  Then
     - a constant-False link ends the collection (final_false_result): everything to its
       right is dropped, everything to its LEFT is kept and and-ed with the literal False;
     - a constant-True link is dropped and starts a new partial cascade at its right operand;
     - any other link is appended to the current partial cascade;
     - partial cascades without a link are skipped, the others become PrimaryCmpNodes joined by
       BoolBinopNode('and') (left nested; generate_bool_evaluation_code threads the labels of a
       nested operand1, so the chain is an n-ary `and`: every node is truth-tested once, the
       last one not at all);
     - no node at all: the literal True.

   tail_fix  = false: the code as it is (a chain ending in a constant-True link after a
               non-constant one yields the previous comparison result untested);
               true: proposed repair, the literal True is appended in that case.
   drop_left = true: the variant `cmp_nodes = final_false_result` (partial cascades collected
               before a constant-False link are thrown away) - refuted in Proof/P_CmpFold.v.

   The semantics of a partial cascade is M_Cmp.ref_links (= the temp machine of
   PrimaryCmpNode/CascadedCmpNode by P_Cmp.cascade_trace_eq).  Definitions only. *)
From Coq Require Import ZArith List Bool.
From CyVerif Require Import Lib.CInt Model.M_Cmp.
Import ListNotations.
Open Scope Z_scope.

(* an operand of the chain; f_const = operand.has_constant_result() *)
Record cfop := mkF { f_op : operand; f_const : bool }.
Definition chain := (cfop * list (Z * cfop))%type.

Definition plain_links (ls : list (Z * cfop)) : list (Z * operand) :=
  map (fun l => (fst l, f_op (snd l))) ls.
Definition plain (c : chain) : cascade := (f_op (fst c), plain_links (snd c)).

Inductive fnode := FBool (b : bool) | FCasc (c : cascade).

Definition mk_casc (h : operand) (cur : list (Z * operand)) : list fnode :=
  match cur with [] => [] | _ :: _ => [FCasc (h, cur)] end.

Definition is_false_node (n : fnode) : bool :=
  match n with FBool false => true | _ => false end.

Section Fold.
  (* compile-time comparison of two constant values; None = it raises / is not portable *)
  Variable ct : Z -> val -> val -> option bool.

  Definition status (op : Z) (l r : cfop) : option bool :=
    if f_const l && f_const r then
      match o_res (f_op l), o_res (f_op r) with
      | inl a, inl b => ct op a b
      | _, _ => None
      end
    else None.

  (* the collection loop, from the left operand l of the next link: (links that continue the
     current partial cascade, nodes that follow it) *)
  Fixpoint fold_from (tail_fix : bool) (l : cfop) (links : list (Z * cfop))
    : list (Z * operand) * list fnode :=
    match links with
    | [] => ([], [])
    | (op, r) :: rest =>
      match status op l r with
      | None => let (cur, more) := fold_from tail_fix r rest in ((op, f_op r) :: cur, more)
      | Some false => ([], [FBool false])
      | Some true =>
        match rest with
        | [] => ([], if tail_fix then [FBool true] else [])
        | _ :: _ => let (cur, more) := fold_from tail_fix r rest in ([], mk_casc (f_op r) cur ++ more)
        end
      end
    end.

  Definition fold (tail_fix drop_left : bool) (c : chain) : list fnode :=
    let (cur, more) := fold_from tail_fix (fst c) (snd c) in
    let nodes := mk_casc (f_op (fst c)) cur ++ more in
    let nodes := if drop_left && existsb is_false_node nodes then [FBool false] else nodes in
    match nodes with [] => [FBool true] | _ :: _ => nodes end.
End Fold.

Section FoldSem.
  Variable cmp : Z -> val -> val -> val + exn.
  Variable truth : val -> bool + exn.
  Variable vbool : bool -> val.                 (* the objects True and False *)

  Definition eval_node (n : fnode) (tr : list event) : list event * outcome val :=
    match n with
    | FBool b => (tr, OVal (vbool b))
    | FCasc c =>
      match o_res (fst c) with
      | inr x => (tr ++ ev_of (fst c), ORaise x)
      | inl v0 => ref_links cmp truth v0 (snd c) (tr ++ ev_of (fst c))
      end
    end.

  (* x and <k>: x is truth-tested; false: its value; true: k *)
  Definition and_then (r : list event * outcome val)
                      (k : list event -> list event * outcome val) : list event * outcome val :=
    match r with
    | (t1, OVal v) =>
      let t2 := t1 ++ [EvTruth v] in
      match truth v with
      | inr x => (t2, ORaise x)
      | inl false => (t2, OVal v)
      | inl true => k t2
      end
    | other => other
    end.

  Fixpoint eval_nodes (ns : list fnode) (tr : list event) : list event * outcome val :=
    match ns with
    | [] => (tr, OUndef)
    | n :: rest =>
      match rest with
      | [] => eval_node n tr
      | _ :: _ => and_then (eval_node n tr) (eval_nodes rest)
      end
    end.

  Variable ct : Z -> val -> val -> option bool.

  Definition run_fold (tail_fix drop_left : bool) (c : chain) : list event * outcome val :=
    eval_nodes (fold ct tail_fix drop_left c) [].

  (* what is observable: operand evaluations, and comparison calls / truth tests of the values
     that log them (instrumented objects); comparisons of built-in values are silent *)
  Variable loud : val -> bool.
  Definition keep (e : event) : bool :=
    match e with
    | EvOp _ => true
    | EvCmp _ a b => loud a || loud b
    | EvTruth v => loud v
    end.
  Definition obs (r : list event * outcome val) : list event * outcome val :=
    (filter keep (fst r), snd r).
End FoldSem.
