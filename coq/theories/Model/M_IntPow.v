(* Model of Cython/Utility/CMath.c:IntPow (__Pyx_pow_<type>) at a C integer type (w, s), every
   C operation wrapped explicitly; and of the 2**n object fast path of Optimize.c:PyNumberPow2. *)
From Coq Require Import ZArith List Bool Lia.
From CyVerif Require Import Lib.CInt.
Open Scope Z_scope.

(* (b * (e&1)) | ((~e)&1)      -- "1 or b" *)
Definition pow_factor (w : Z) (s : bool) (b e : Z) : Z :=
  Z.lor (wrap w s (b * Z.land e 1)) (Z.land (Z.lnot e) 1).

(* while (likely(e)) { t *= factor; e >>= 1; if (likely(e)) b *= b; }   -- None = out of fuel *)
Fixpoint pow_loop (fuel : nat) (w : Z) (s : bool) (t b e : Z) : option Z :=
  if e =? 0 then Some t
  else match fuel with
       | O => None
       | S f => pow_loop f w s (wrap w s (t * pow_factor w s b e))
                         (if Z.shiftr e 1 =? 0 then b else wrap w s (b * b)) (Z.shiftr e 1)
       end.

Definition int_pow (w : Z) (s : bool) (b e : Z) : option Z :=
  if e =? 3 then Some (wrap w s (wrap w s (b * b) * b))        (* case 3: t *= b; case 2: t *= b; *)
  else if e =? 2 then Some (wrap w s (b * b))
  else if e =? 1 then Some b
  else if e =? 0 then Some 1
  else if s && (e <? 0) then Some 0                              (* #if signed: if (e<0) return 0; *)
  else pow_loop (Z.to_nat w) w s 1 b e.

(* __Pyx__PyNumber_PowerOf2(two, exp): which path computes 2**n for an exact int exponent n.
   sizeof(long)*8-2 = 62, sizeof(unsigned long long)*8-1 = 63 on LP64; an exponent that does not
   fit Py_ssize_t makes PyLong_AsSsize_t fail (-1 with OverflowError, which is swallowed). *)
Inductive pow2_path := P2One | P2Long (v : Z) | P2ULL (v : Z) | P2Lshift (n : Z) | P2Fallback.

Definition pow2 (n : Z) : pow2_path :=
  if n =? 0 then P2One
  else if n <? 0 then P2Fallback
  else if n <=? 2 ^ 63 - 1 then
    (if n <=? 62 then P2Long (wrap 64 true (Z.shiftl 1 n))
     else if n <=? 63 then P2ULL (wrap 64 false (Z.shiftl 1 n))
     else P2Lshift n)
  else P2Fallback.

(* value produced on each path; the generic paths are CPython's own 1 << n and 2 ** n *)
Definition pow2_value (n : Z) : option Z :=
  match pow2 n with
  | P2One => Some 1
  | P2Long v => Some v
  | P2ULL v => Some v
  | P2Lshift k => Some (Z.shiftl 1 k)
  | P2Fallback => if n <? 0 then None (* float result: PyNumber_Power *) else Some (2 ^ n)
  end.

(* ---- overflow-tracking variant of the helper (C36 share) ---------------------------------
   Signed C multiplication that overflows is undefined behaviour: PUB.  `fixsq` = true is the
   current text, which squares the base only while further exponent bits remain
       e >>= 1;  if (likely(e)) b *= b;
   fixsq = false the text before the repair (b *= b unconditionally: one needless squaring
   after the last multiplication). *)
Inductive pres := PVal (v : Z) | PUB | PFuel.

Definition mulc (w : Z) (s : bool) (x y : Z) : option Z :=
  if s then (if in_rangeb w s (x * y) then Some (x * y) else None)
  else Some (wrap w s (x * y)).

Fixpoint pow_loop_ck (fixsq : bool) (fuel : nat) (w : Z) (s : bool) (t b e : Z) : pres :=
  if e =? 0 then PVal t
  else match fuel with
       | O => PFuel
       | S f =>
           match mulc w s t (if Z.odd e then b else 1) with
           | None => PUB
           | Some t' =>
               let e' := Z.shiftr e 1 in
               if fixsq && (e' =? 0) then pow_loop_ck fixsq f w s t' b e'
               else match mulc w s b b with
                    | None => PUB
                    | Some b' => pow_loop_ck fixsq f w s t' b' e'
                    end
           end
       end.

Definition int_pow_ck (fixsq : bool) (w : Z) (s : bool) (b e : Z) : pres :=
  if e =? 3 then match mulc w s b b with
                 | None => PUB
                 | Some t => match mulc w s t b with None => PUB | Some r => PVal r end
                 end
  else if e =? 2 then match mulc w s b b with None => PUB | Some r => PVal r end
  else if e =? 1 then PVal b
  else if e =? 0 then PVal 1
  else if s && (e <? 0) then PVal 0
  else pow_loop_ck fixsq (Z.to_nat w) w s 1 b e.
