(* C21 - model of the CFG construction of Cython/Compiler/FlowControl.py: ControlFlowAnalysis
   (visit_* methods for name references, assignments, del, if, while/for..else, try/except/else,
   try/finally, break, continue, return, raise), ControlFlow.newblock/nextblock/add_child and the
   unreachable-block part of ControlFlow.normalize, feeding Model/M_Flow.v (initialize,
   reaching_definitions, check_definitions).  Executable definitions only.

   Blocks are numbered in creation order: 0 = flow.entry_point, 1 = flow.exit_point, 2 = the
   function body block.  Statements (NameReference / NameAssignment / NameDeletion) are kept in one
   list, newest first, each with its block.  An edge (u, k, v) records block.add_child(v) on block u
   made when u held k statements (k is ghost information: the code has no such field; [edges_at_end]
   says that it is always the final length, i.e. that edges leave from the end of a block).

   [fx] selects the variant: false = the code as it is, true = the repaired code
   (proposed_fixes/C21-jump_through_nested_finally.diff): break/continue/return run through EVERY
   enclosing finally clause up to their target, and the exception entry of a try/finally is linked
   to the enclosing handler before the finally clause is entered. *)
From Coq Require Import NArith List Bool Arith.
From CyVerif Require Import Model.M_Flow.
Import ListNotations.

Definition nref := (nat * nat)%type.      (* label of the NameNode, entry *)

(* statements; every name occurrence carries the label of its NameNode.  The two copies of a
   finally clause (finally_except_clause = deepcopy, finally_clause) are explicit. *)
Inductive stmt :=
| Skip                                   (* pass / expression statement without tracked names *)
| Call                                   (* a point that may raise (a call) *)
| Ref (l e : nat)
| Asg (l e : nat)
| Del (l e : nat) (ign : bool)           (* ign = DelStatNode.ignore_nonexisting (except ... as x) *)
| Seq (a b : stmt)
| If (c : list nref) (th : stmt) (hasel : bool) (el : stmt)
| Loop (isfor : bool) (c : list nref) (tg : list nref) (body : stmt) (hasel : bool) (el : stmt)
| Try (body : stmt) (hasel : bool) (el : stmt) (hs : handlers)
| TryFin (body fexc fnorm : stmt)
| Break | Continue | Return | Raise
with handlers :=
| HNil
| HCons (hastg : bool) (tl te : nat) (hb : stmt) (rest : handlers).
(* except-clause patterns are not modelled: they never contain tracked names in the checked programs *)

Inductive lstat := LRef (l e : nat) | LAsg (l e : nat) | LDel (l e : nat).

(* ExceptionDescr: entry_point, (finally_enter, finally_exit with its statement count) *)
Record excd := mk_excd { x_entry : nat; x_fin : option (nat * option (nat * nat)) }.
(* LoopDescr: next_block, loop_block, exceptions (innermost first) *)
Record loopd := mk_loopd { l_next : nat; l_loop : nat; l_excs : list excd }.

Record bst := mk_bst { nb : nat; sts : list (nat * lstat); eds : list (nat * nat * nat);
                       cur : option nat; loops : list loopd; excs : list excd }.

Definition set_cur (c : option nat) (st : bst) : bst :=
  mk_bst (nb st) (sts st) (eds st) c (loops st) (excs st).
Definition set_loops (l : list loopd) (st : bst) : bst :=
  mk_bst (nb st) (sts st) (eds st) (cur st) l (excs st).
Definition set_excs (x : list excd) (st : bst) : bst :=
  mk_bst (nb st) (sts st) (eds st) (cur st) (loops st) x.

Definition len (st : bst) (b : nat) : nat :=
  length (filter (fun p => fst p =? b) (sts st)).

Definition add_edge_k (u k v : nat) (st : bst) : bst :=
  mk_bst (nb st) (sts st) ((u, k, v) :: eds st) (cur st) (loops st) (excs st).
Definition add_edge (u v : nat) (st : bst) : bst := add_edge_k u (len st u) v st.
Definition add_edge_o (u : option nat) (v : nat) (st : bst) : bst :=
  match u with Some u => add_edge u v st | None => st end.
(* if self.flow.block: self.flow.block.add_child(v) *)
Definition link_cur (v : nat) (st : bst) : bst := add_edge_o (cur st) v st.

(* ControlFlow.newblock() without parent: the new block is nb st *)
Definition newblock (st : bst) : bst :=
  mk_bst (S (nb st)) (sts st) (eds st) (cur st) (loops st) (excs st).
(* ControlFlow.nextblock(parent) *)
Definition nextblock_from (p : option nat) (st : bst) : bst :=
  let b := nb st in
  let st1 := newblock st in
  let st2 := match p with Some u => add_edge u b st1 | None => link_cur b st1 end in
  set_cur (Some b) st2.
Definition nextblock (st : bst) : bst := nextblock_from None st.

Definition append (s : lstat) (st : bst) : bst :=
  match cur st with
  | Some b => mk_bst (nb st) ((b, s) :: sts st) (eds st) (cur st) (loops st) (excs st)
  | None => st
  end.

(* "if self.flow.exceptions: block.add_child(exc_descr.entry_point); self.flow.nextblock()" *)
Definition exc_edge (st : bst) : bst :=
  match cur st, excs st with
  | Some b, x :: _ => nextblock (add_edge b (x_entry x) st)
  | _, _ => st
  end.

Definition v_ref (l e : nat) (st : bst) : bst := append (LRef l e) st.
Definition v_asg (l e : nat) (st : bst) : bst :=
  match cur st with
  | None => st
  | Some _ => exc_edge (append (LAsg l e) (exc_edge st))
  end.
Definition v_del (l e : nat) (ign : bool) (st : bst) : bst :=
  match cur st with
  | None => st
  | Some _ => exc_edge (append (LDel l e) (if ign then st else append (LRef l e) st))
  end.
Definition refs (c : list nref) (st : bst) : bst :=
  fold_left (fun st r => v_ref (fst r) (snd r) st) c st.
Definition asgs (c : list nref) (st : bst) : bst :=
  fold_left (fun st r => v_asg (fst r) (snd r) st) c st.

Definition has_parents (v : nat) (st : bst) : bool :=
  existsb (fun e => snd e =? v) (eds st).
Definition cur_if_parents (v : nat) (st : bst) : bst :=
  set_cur (if has_parents v st then Some v else None) st.

Definition push_loop (d : loopd) (st : bst) : bst := set_loops (d :: loops st) st.
Definition pop_loop (st : bst) : bst := set_loops (tl (loops st)) st.
Definition push_exc (d : excd) (st : bst) : bst := set_excs (d :: excs st) st.
Definition pop_exc (st : bst) : bst := set_excs (tl (excs st)) st.
(* self.flow.loops[-1].exceptions.append(descr) / .pop() *)
Definition push_loop_exc (d : excd) (st : bst) : bst :=
  match loops st with
  | L :: r => set_loops (mk_loopd (l_next L) (l_loop L) (d :: l_excs L) :: r) st
  | [] => st
  end.
Definition pop_loop_exc (st : bst) : bst :=
  match loops st with
  | L :: r => set_loops (mk_loopd (l_next L) (l_loop L) (tl (l_excs L)) :: r) st
  | [] => st
  end.

(* ---- jumps.  Repaired variant: through every finally clause on the way. *)
Fixpoint chain_edges (src k : nat) (fs : list excd) (T : nat) (st : bst) : bst :=
  match fs with
  | [] => add_edge_k src k T st
  | x :: r =>
      match x_fin x with
      | None => chain_edges src k r T st
      | Some (fe, None) => add_edge_k src k fe st
      | Some (fe, Some (fxb, kx)) => chain_edges fxb kx r T (add_edge_k src k fe st)
      end
  end.

(* as is, break/continue: only the innermost finally of the loop *)
Definition jump_loop_asis (src k : nat) (fs : list excd) (T : nat) (st : bst) : bst :=
  match fs with
  | [] => add_edge_k src k T st
  | x :: _ =>
      match x_fin x with
      | Some (fe, fxo) =>
          let st1 := add_edge_k src k fe st in
          match fxo with Some (fxb, kx) => add_edge_k fxb kx T st1 | None => st1 end
      | None => add_edge_k src k T st
      end
  end.

Fixpoint first_fin (fs : list excd) : option (nat * option (nat * nat) * list excd) :=
  match fs with
  | [] => None
  | x :: r => match x_fin x with Some (fe, fxo) => Some (fe, fxo, r) | None => first_fin r end
  end.

(* as is, return: the innermost finally, whose exit goes to the next outer finally or the exit point *)
Definition jump_ret_asis (src k : nat) (fs : list excd) (st : bst) : bst :=
  match first_fin fs with
  | None => add_edge_k src k 1 st
  | Some (fe, fxo, r) =>
      let st1 := add_edge_k src k fe st in
      match fxo with
      | None => st1
      | Some (fxb, kx) =>
          let T := match first_fin r with Some (fe2, _, _) => fe2 | None => 1 end in
          add_edge_k fxb kx T st1
      end
  end.

Definition v_break (fx isbrk : bool) (st : bst) : bst :=
  match loops st, cur st with
  | L :: _, Some b =>
      let T := if isbrk then l_next L else l_loop L in
      set_cur None ((if fx then chain_edges else jump_loop_asis) b (len st b) (l_excs L) T st)
  | _, _ => st
  end.
Definition v_return (fx : bool) (st : bst) : bst :=
  match cur st with
  | Some b => set_cur None (if fx then chain_edges b (len st b) (excs st) 1 st
                            else jump_ret_asis b (len st b) (excs st) st)
  | None => st
  end.
Definition v_raise (st : bst) : bst :=
  match cur st with
  | Some b => set_cur None (match excs st with x :: _ => add_edge b (x_entry x) st | [] => st end)
  | None => st
  end.

(* ---- the visitor *)
Fixpoint visit (fx : bool) (s : stmt) (st : bst) {struct s} : bst :=
  match s with
  | Skip | Call => st
  | Ref l e => v_ref l e st
  | Asg l e => v_asg l e st
  | Del l e ign => v_del l e ign st
  | Seq a b =>
      let st1 := visit fx a st in
      match cur st1 with None => st1 | Some _ => visit fx b st1 end
  | If c th hasel el =>
      let N := nb st in
      let st3 := refs c (nextblock (newblock st)) in
      let parent := cur st3 in
      let st6 := link_cur N (visit fx th (nextblock st3)) in
      let st7 := if hasel then link_cur N (visit fx el (nextblock_from parent st6))
                 else add_edge_o parent N st6 in
      cur_if_parents N st7
  | Loop isfor c tg body hasel el =>
      let C := nb st in
      let N := S (nb st) in
      let st4 := refs c (push_loop (mk_loopd N C []) (newblock (nextblock st))) in
      let cend := cur st4 in
      let st5 := nextblock st4 in
      let st6 := if isfor then nextblock (asgs tg st5) else st5 in
      let st7 := pop_loop (visit fx body st6) in
      let st8 := match cur st7 with
                 | Some b => let s1 := add_edge b C st7 in if isfor then s1 else add_edge b N s1
                 | None => st7 end in
      let st9 := if hasel then link_cur N (visit fx el (nextblock_from cend st8))
                 else add_edge_o cend N st8 in
      cur_if_parents N st9
  | Try body hasel el hs =>
      let N := nb st in
      let E := S (S (nb st)) in
      let st4 := push_exc (mk_excd E None) (newblock (newblock (newblock st))) in
      let st6 := nextblock (link_cur E (nextblock st4)) in
      let st7 := pop_exc (visit fx body st6) in
      let st8 := match cur st7 with
                 | None => st7
                 | Some _ => link_cur N (if hasel then visit fx el (nextblock st7) else st7)
                 end in
      let '(E', st9) := visit_h fx hs N E st8 in
      let st10 := match excs st9 with x :: _ => add_edge E' (x_entry x) st9 | [] => st9 end in
      cur_if_parents N st10
  | TryFin body fexc fnorm =>
      let B := nb st in
      let EP := S (nb st) in
      let st2 := set_cur (Some EP) (newblock (nextblock st)) in
      let st2' := if fx then exc_edge st2 else st2 in
      let st3 := visit fx fexc st2' in
      let st4 := match cur st3, excs st3 with
                 | Some b, x :: _ => add_edge b (x_entry x) st3
                 | _, _ => st3 end in
      let FE := nb st4 in
      let st6 := visit fx fnorm (set_cur (Some FE) (newblock st4)) in
      let fexit := match cur st6 with Some b => Some (b, len st6 b) | None => None end in
      let d := mk_excd EP (Some (FE, fexit)) in
      let st7 := push_exc d (push_loop_exc d st6) in
      let st8 := nextblock (add_edge B EP (set_cur (Some B) st7)) in
      let st9 := pop_loop_exc (pop_exc (visit fx body st8)) in
      match cur st9 with
      | Some b =>
          let s1 := add_edge b FE st9 in
          match fexit with
          | Some (fxb, k) => set_cur (Some (nb s1)) (add_edge_k fxb k (nb s1) (newblock s1))
          | None => set_cur None s1
          end
      | None => st9
      end
  | Break => v_break fx true st
  | Continue => v_break fx false st
  | Return => v_return fx st
  | Raise => v_raise st
  end
with visit_h (fx : bool) (hs : handlers) (N E : nat) (st : bst) {struct hs} : nat * bst :=
  match hs with
  | HNil => (E, st)
  | HCons hastg tl te hb rest =>
      let st1 := set_cur (Some E) st in
      let E2 := nb st1 in
      let st4 := nextblock (add_edge_o (cur st1) E2 (newblock st1)) in
      let st5 := if hastg then v_asg tl te st4 else st4 in
      visit_h fx rest N E2 (link_cur N (visit fx hb st5))
  end.

(* FuncDefNode: entry point 0, exit point 1, body block 2 with the Argument assignments *)
Definition st_init (args : list nref) : bst :=
  let st := nextblock (mk_bst 2 [] [] (Some 0) [] []) in
  fold_left (fun st r => append (LAsg (fst r) (snd r)) st) args st.

Definition build (fx : bool) (args : list nref) (body : stmt) : bst :=
  link_cur 1 (visit fx body (st_init args)).

(* ---- from the builder state to the CFG analysed by M_Flow *)
Definition block_stats (st : bst) (b : nat) : list lstat :=
  rev (map snd (filter (fun p => fst p =? b) (sts st))).
Definition stat_at (st : bst) (b k : nat) : option lstat := nth_error (block_stats st b) k.

Definition edges_at_end (st : bst) : bool :=
  forallb (fun e => match e with (u, k, _) => k =? len st u end) (eds st).

Definition entry_of (s : lstat) : nat := match s with LRef _ e | LAsg _ e | LDel _ e => e end.

(* sanity of a built graph (always true for graphs produced by [build]; checked by the driver):
   edges leave from block ends, the entry point holds no statement, blocks and entries are in range *)
Definition graph_ok (ne : nat) (st : bst) : bool :=
  edges_at_end st && (len st 0 =? 0) && (1 <=? nb st) &&
  forallb (fun e => match e with (u, _, v) => (u <? nb st) && (v <? nb st) end) (eds st) &&
  forallb (fun p => (fst p <? nb st) && (entry_of (snd p) <? ne)) (sts st).

(* ControlFlow.normalize, first half: blocks not reachable from the entry point are detached.
   (The second half - removing empty blocks and re-parenting - does not change any i_input.) *)
Definition reach_step (st : bst) (r : list nat) : list nat :=
  fold_left (fun acc e => match e with (u, _, v) =>
               if existsb (Nat.eqb u) acc && negb (existsb (Nat.eqb v) acc) then v :: acc else acc end)
            (eds st) r.
Fixpoint reach_iter (n : nat) (st : bst) (r : list nat) : list nat :=
  match n with O => r | S m => reach_iter m st (reach_step st r) end.
Definition closed_b (st : bst) (r : list nat) : bool :=
  existsb (Nat.eqb 0) r &&
  forallb (fun e => match e with (u, _, v) =>
             negb (existsb (Nat.eqb u) r) || existsb (Nat.eqb v) r end) (eds st).
Definition reachable (st : bst) : nat -> bool :=
  let r := reach_iter (nb st) st [0] in
  if closed_b st r then (fun b => existsb (Nat.eqb b) r) else (fun _ => true).

Definition to_stat (s : lstat) : stat :=
  match s with LRef _ e => SRef e | LAsg _ e => SAssign e | LDel _ e => SDel e end.

Definition cfg_of (ne : nat) (st : bst) : cfg :=
  let r := reachable st in
  mk_cfg ne (repeat false ne) (repeat false ne)
    (map (fun b =>
            if r b then
              mk_block (map (fun e => fst (fst e))
                          (filter (fun e => (snd e =? b) && r (fst (fst e))) (eds st)))
                       (map to_stat (block_stats st b)) []
            else mk_block [] [] [])
         (seq 0 (nb st))).

(* the hint of the k-th statement of block b: None = the block was detached (no hint computed) *)
Definition cls_at (ne : nat) (st : bst) (r : result) (b k : nat) : option cls :=
  if reachable st b then Some (nth k (nth b (res_cls r) []) Bound) else None.

Definition label_of (s : lstat) : nat := match s with LRef l _ | LAsg l _ | LDel l _ => l end.

(* every statement in creation order with its block and position: (label, stat, block, position) *)
Definition all_stats (st : bst) : list (lstat * nat * nat) :=
  concat (map (fun b => map (fun p => (snd p, b, fst p))
                          (combine (seq 0 (length (block_stats st b))) (block_stats st b)))
              (seq 0 (nb st))).

(* well-formedness: break/continue only inside loops *)
Fixpoint wf (inl : bool) (s : stmt) : bool :=
  match s with
  | Seq a b => wf inl a && wf inl b
  | If _ th _ el => wf inl th && wf inl el
  | Loop _ _ _ body _ el => wf true body && wf inl el
  | Try body _ el hs => wf inl body && wf inl el && wf_h inl hs
  | TryFin body fexc fnorm => wf inl body && wf inl fexc && wf inl fnorm
  | Break | Continue => inl
  | _ => true
  end
with wf_h (inl : bool) (hs : handlers) : bool :=
  match hs with
  | HNil => true
  | HCons _ _ _ hb rest => wf inl hb && wf_h inl rest
  end.

(* complete run of the model on one function *)
Definition run_cfg (fx : bool) (ne : nat) (args : list nref) (body : stmt)
  : bst * option result :=
  let st := build fx args body in (st, analyse (cfg_of ne st)).
