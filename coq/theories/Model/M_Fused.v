(* C34 - runtime dispatch of fused functions (Cython/Compiler/FusedNode.py make_fused_cpdef,
   Cython/Utility/FusedFunction.pyx, FusedFunction __getitem__ in CythonFunction.c).
   Executable definitions only.  The model follows the code as it is:
   - the members of a fused type are sorted with list.sort() and the __lt__ methods of
     PyrexTypes (a partial order only): [pysort] is CPython 3.12 list.sort for n < 64
     (count_run, reversal of a strictly descending run, binary insertion of the rest);
   - _split_fused_types: first member of every py_type_name, object = fallback, memoryviews apart;
   - map_fused_type: isinstance tests in that order, then the buffer tests (numpy dtype
     fast path: kind class, itemsize, signedness, ndim ONLY; then None; then full coercion
     of memoryview(arg) per member), then the object fallback or None;
   - only the FIRST parameter of each fused type is examined;
   - match_signatures_single / match_signatures (None = wildcard, 2 matches = ambiguous);
   - the selected specialisation then converts every argument itself. *)
From Coq Require Import ZArith List Bool Lia.
Import ListNotations.
Open Scope Z_scope.

(* ---------- types ---------- *)
Inductive builtin := BBytes | BStr | BList | BDict | BTuple | BSet.
(* numeric C types.  rank = 2 * CNumericType.rank: char 0 short 2 int 4 long 6 long long 8
   float 10 double 12 long double 14; sgn 0 unsigned, 1 plain, 2 explicitly signed (char only) *)
Inductive num := NInt (rank sgn : Z) | NBint | NFloat (rank : Z) | NComplex (rrank : Z).
Inductive cmode := MStrided | MCContig | MFContig.       (* T[:..]   T[:, ::1]   T[::1, :] *)
Inductive ctype :=
  | TNum (n : num) | TObject | TBuiltin (b : builtin) | TExt (k : nat)
  | TMem (n : num) (ndim : nat) (m : cmode).

Definition builtin_eqb (a b : builtin) : bool :=
  match a, b with
  | BBytes, BBytes | BStr, BStr | BList, BList | BDict, BDict | BTuple, BTuple | BSet, BSet => true
  | _, _ => false end.
Definition num_eqb (a b : num) : bool :=
  match a, b with
  | NInt r s, NInt r' s' => (r =? r') && (s =? s')
  | NBint, NBint => true
  | NFloat r, NFloat r' => r =? r'
  | NComplex r, NComplex r' => r =? r'
  | _, _ => false end.
Definition cmode_eqb (a b : cmode) : bool :=
  match a, b with MStrided, MStrided | MCContig, MCContig | MFContig, MFContig => true | _, _ => false end.
Definition ctype_eqb (a b : ctype) : bool :=
  match a, b with
  | TNum n, TNum n' => num_eqb n n'
  | TObject, TObject => true
  | TBuiltin x, TBuiltin y => builtin_eqb x y
  | TExt k, TExt k' => Nat.eqb k k'
  | TMem n d m, TMem n' d' m' => num_eqb n n' && Nat.eqb d d' && cmode_eqb m m'
  | _, _ => false end.

Definition rank_of (n : num) : Z :=
  match n with NInt r _ => r | NBint => 4 | NFloat r => r | NComplex r => r + 1 end.
Definition sgn_of (n : num) : Z := match n with NInt _ s => s | _ => 1 end.

(* CNumericType.__lt__ / CComplexType.__lt__ (self = a, other = b) *)
Definition num_lt (a b : num) : bool :=
  match a with
  | NComplex ra => match b with NComplex rb => rb <? ra | _ => false end
  | _ => (rank_of b <? rank_of a) && (sgn_of b <=? sgn_of a)
  end.

(* BaseType.__lt__ compares id(type(self)) < id(type(other)); only memoryview slice types
   inherit it here.  [idlt k] = "id(MemoryViewSliceType) < id(class k)" is a parameter. *)
Inductive tclass := KInt | KBint | KFloat | KComplex | KObject | KBuiltin | KExt | KMem.
Definition class_of (t : ctype) : tclass :=
  match t with
  | TNum (NInt _ _) => KInt | TNum NBint => KBint | TNum (NFloat _) => KFloat
  | TNum (NComplex _) => KComplex | TObject => KObject | TBuiltin _ => KBuiltin
  | TExt _ => KExt | TMem _ _ _ => KMem end.

Definition ty_lt (idlt : tclass -> bool) (a b : ctype) : bool :=
  match a with
  | TNum na => match b with
               | TNum nb => num_lt na nb
               | _ => match na with NComplex _ => false | _ => true end
               end
  | TMem _ _ _ => match b with TMem _ _ _ => false | _ => idlt (class_of b) end
  | _ => false            (* PyObjectType.__lt__ *)
  end.

(* ---------- CPython 3.12 list.sort for short lists ---------- *)
Section Sort.
  Context {A : Type} (lt : A -> A -> bool).

  (* one binary search: invariant l <= r; fuel > r - l is enough (see P_Fused.bsearch_fuel) *)
  Fixpoint bsearch (fuel : nat) (x : A) (a : list A) (l r : nat) : nat :=
    match fuel with
    | O => l
    | S f => if Nat.ltb l r then
               let p := (l + Nat.div2 (r - l))%nat in
               if lt x (nth p a x) then bsearch f x a l p else bsearch f x a (S p) r
             else l
    end.
  Definition binsert (a : list A) (x : A) : list A :=
    let l := bsearch (S (length a)) x a 0 (length a) in firstn l a ++ x :: skipn l a.

  Fixpoint take_desc (prev : A) (rest : list A) : list A * list A :=
    match rest with
    | y :: tl => if lt y prev then let (r, t) := take_desc y tl in (y :: r, t) else ([], rest)
    | [] => ([], [])
    end.
  Fixpoint take_asc (prev : A) (rest : list A) : list A * list A :=
    match rest with
    | y :: tl => if lt y prev then ([], rest) else let (r, t) := take_asc y tl in (y :: r, t)
    | [] => ([], [])
    end.
  Definition count_run (l : list A) : list A * list A :=
    match l with
    | x :: y :: rest =>
        if lt y x then let (r, t) := take_desc y rest in (rev (x :: y :: r), t)
        else let (r, t) := take_asc y rest in (x :: y :: r, t)
    | _ => (l, [])
    end.
  Definition pysort (l : list A) : list A :=
    let (run, rest) := count_run l in fold_left binsert rest run.
End Sort.

(* ---------- py_type_name and _split_fused_types ---------- *)
Inductive pyname := PInt | PBool | PFloat | PComplex | PObject | PB (b : builtin) | PExt (k : nat).
Definition pyname_eqb (a b : pyname) : bool :=
  match a, b with
  | PInt, PInt | PBool, PBool | PFloat, PFloat | PComplex, PComplex | PObject, PObject => true
  | PB x, PB y => builtin_eqb x y
  | PExt k, PExt k' => Nat.eqb k k'
  | _, _ => false end.
Definition py_type_name (t : ctype) : option pyname :=
  match t with
  | TNum (NInt _ _) => Some PInt | TNum NBint => Some PBool | TNum (NFloat _) => Some PFloat
  | TNum (NComplex _) => Some PComplex | TObject => Some PObject
  | TBuiltin b => Some (PB b) | TExt k => Some (PExt k) | TMem _ _ _ => None end.

Record split := { normal : list ctype; buffers : list ctype; has_obj : bool }.
Fixpoint split_go (seen : list pyname) (l : list ctype) (acc : split) : split :=
  match l with
  | [] => acc
  | t :: tl =>
      match py_type_name t with
      | Some p =>
          if existsb (pyname_eqb p) seen then split_go seen tl acc
          else match p with
               | PObject => split_go (p :: seen) tl
                              {| normal := normal acc; buffers := buffers acc; has_obj := true |}
               | _ => split_go (p :: seen) tl
                        {| normal := normal acc ++ [t]; buffers := buffers acc; has_obj := has_obj acc |}
               end
      | None => split_go seen tl
                  {| normal := normal acc; buffers := buffers acc ++ [t]; has_obj := has_obj acc |}
      end
  end.
Definition split_fused (sorted : list ctype) : split :=
  split_go [] sorted {| normal := []; buffers := []; has_obj := false |}.

(* ---------- runtime arguments ---------- *)
Inductive dkind := DKInt | DKUInt | DKFloat | DKComplex.
Inductive bsrc := SNd | SCyMvNd | SPlain.
(* a buffer exporter: numpy array / Cython memoryview whose base is a numpy array / any
   other exporter (Python memoryview, array.array, bytearray ...) *)
Record buf := { b_src : bsrc; b_kind : dkind; b_size : Z; b_ndim : nat; b_cc : bool; b_fc : bool }.
Inductive atag :=
  | AInt | ABool | AFloat | AComplex | ANone
  | ANpFloat64 | ANpComplex128 | ANpInt64        (* float64 subclasses float, complex128 complex *)
  | ABuiltin (b : builtin)
  | AInst (mro : list nat)      (* instance; extension classes of its MRO, most derived first *)
  | AOther                      (* any other object that is no buffer *)
  | ABuf (b : buf).

Definition isinstance (a : atag) (p : pyname) : bool :=
  match p, a with
  | PInt, (AInt | ABool) => true
  | PBool, ABool => true
  | PFloat, (AFloat | ANpFloat64) => true
  | PComplex, (AComplex | ANpComplex128) => true
  | PB b, ABuiltin b' => builtin_eqb b b'
  | PExt k, AInst mro => existsb (Nat.eqb k) mro
  | PObject, _ => true
  | _, _ => false end.
Definition inst_of (a : atag) (t : ctype) : bool :=
  match py_type_name t with Some p => isinstance a p | None => false end.

(* LP64 sizes *)
Definition sizeof (n : num) : Z :=
  match n with
  | NInt r _ => if r =? 0 then 1 else if r =? 2 then 2 else if r =? 4 then 4 else 8
  | NBint => 4
  | NFloat r => if r =? 10 then 4 else if r =? 12 then 8 else 16
  | NComplex r => if r =? 10 then 8 else if r =? 12 then 16 else 32
  end.
Definition kind_match (n : num) (k : dkind) : bool :=
  match n, k with
  | NInt _ s, DKInt => negb (s =? 0)
  | NInt _ s, DKUInt => s =? 0
  | NFloat _, DKFloat => true
  | NComplex _, DKComplex => true
  | _, _ => false end.
Definition contig_ok (m : cmode) (b : buf) : bool :=
  match m with MStrided => true | MCContig => b_cc b | MFContig => b_fc b end.
(* the full check of __Pyx_PyObject_to_MemoryviewSlice_*: format, ndim, contiguity *)
Definition coerce_ok (t : ctype) (b : buf) : bool :=
  match t with
  | TMem n d m => kind_match n (b_kind b) && (sizeof n =? b_size b) && Nat.eqb d (b_ndim b) && contig_ok m b
  | _ => false end.
(* _buffer_check_numpy_dtype: kind class, itemsize, signedness, ndim - no contiguity *)
Definition fast_ok (t : ctype) (b : buf) : bool :=
  match t with
  | TMem n d m => kind_match n (b_kind b) && (sizeof n =? b_size b) && Nat.eqb d (b_ndim b)
  | _ => false end.
Definition has_dtype (b : buf) : bool := match b_src b with SPlain => false | _ => true end.

(* [fastfix] = true is the repaired variant (proposed fix): the fast path also requires the
   contiguity that the member declares *)
Definition buffer_checks (fastfix : bool) (bufs : list ctype) (a : atag) : option ctype :=
  match a with
  | ABuf b =>
      match (if has_dtype b then find (fun t => if fastfix then coerce_ok t b else fast_ok t b) bufs else None) with
      | Some t => Some t
      | None => find (fun t => coerce_ok t b) bufs
      end
  | ANone => hd_error bufs                   (* accept_none: first buffer member *)
  | _ => None
  end.

Definition map_fused (fastfix : bool) (idlt : tclass -> bool) (members : list ctype) (a : atag) : option ctype :=
  let sp := split_fused (pysort (ty_lt idlt) members) in
  match find (inst_of a) (normal sp) with
  | Some t => Some t
  | None =>
      match (match buffers sp with [] => None | _ => buffer_checks fastfix (buffers sp) a end) with
      | Some t => Some t
      | None => if has_obj sp then Some TObject else None
      end
  end.

(* ---------- declarations and the dispatcher ---------- *)
(* fused types in order of first appearance, [fpos] = index of the first parameter of that
   type; [params] = fused type index of every parameter *)
Record ftype := { members : list ctype; fpos : nat }.
Record decl := { ftypes : list ftype; params : list nat }.

Inductive dres := Spec (sig : list ctype) | NoMatch | Ambiguous | BadCall.

Fixpoint all_sigs (fts : list (list ctype)) : list (list ctype) :=
  match fts with
  | [] => [[]]
  | ms :: tl => flat_map (fun m => map (cons m) (all_sigs tl)) ms
  end.
Fixpoint sig_match (sig : list ctype) (dest : list (option ctype)) : bool :=
  match sig, dest with
  | t :: s', Some d :: d' => ctype_eqb d t && sig_match s' d'
  | _ :: s', None :: d' => sig_match s' d'
  | _, _ => true                 (* zip stops at the shorter one *)
  end.

Definition dests (fastfix : bool) (idlt : tclass -> bool) (d : decl) (args : list atag) : option (list (option ctype)) :=
  fold_right (fun ft acc =>
                match acc, nth_error args (fpos ft) with
                | Some l, Some a => Some (map_fused fastfix idlt (members ft) a :: l)
                | _, _ => None end) (Some []) (ftypes d).

Definition dispatch_cy (fastfix : bool) (idlt : tclass -> bool) (d : decl) (args : list atag) : dres :=
  if negb (Nat.eqb (length args) (length (params d))) then BadCall else
  match dests fastfix idlt d args with
  | None => BadCall
  | Some ds =>
      match ds with
      | [one] => match one with Some t => Spec [t] | None => NoMatch end    (* signatures.get(dest_sig0) *)
      | _ => match filter (fun s => sig_match s ds) (all_sigs (map members (ftypes d))) with
             | [] => NoMatch
             | [s] => Spec s
             | _ => Ambiguous
             end
      end
  end.

(* ---------- the call of the selected specialisation ---------- *)
Inductive cres := COk | CTypeError | CValueError.
Definition conv (t : ctype) (a : atag) : cres :=
  match t with
  | TObject => COk
  | TNum NBint => match a with ABuf _ => CValueError | _ => COk end
  | TNum (NInt _ _) =>
      match a with AInt | ABool | AFloat | ANpFloat64 | ANpInt64 | ANpComplex128 => COk | _ => CTypeError end
  | TNum (NFloat _) =>
      match a with AInt | ABool | AFloat | ANpFloat64 | ANpInt64 | ANpComplex128 => COk | _ => CTypeError end
  | TNum (NComplex _) =>
      match a with AInt | ABool | AFloat | AComplex | ANpFloat64 | ANpInt64 | ANpComplex128 => COk
              | _ => CTypeError end
  | TBuiltin b => match a with ABuiltin b' => if builtin_eqb b b' then COk else CTypeError
                          | ANone => COk | _ => CTypeError end
  | TExt k => match a with AInst mro => if existsb (Nat.eqb k) mro then COk else CTypeError
                      | ANone => COk | _ => CTypeError end
  | TMem _ _ _ => match a with ANone => COk
                          | ABuf b => if coerce_ok t b then COk else CValueError
                          | ANpFloat64 | ANpComplex128 | ANpInt64 => CValueError   (* 0-d read-only buffers *)
                          | _ => CTypeError end
  end.

Inductive outcome := Ran (sig : list ctype) | TypeErr | ValueErr | BadArgs.
Fixpoint conv_all (sig : list ctype) (ps : list nat) (args : list atag) : cres :=
  match ps, args with
  | p :: ps', a :: args' =>
      match nth_error sig p with
      | Some t => match conv t a with COk => conv_all sig ps' args' | e => e end
      | None => CTypeError
      end
  | _, _ => COk
  end.
Definition call_cy (fastfix : bool) (idlt : tclass -> bool) (d : decl) (args : list atag) : outcome :=
  match dispatch_cy fastfix idlt d args with
  | Spec sig => match conv_all sig (params d) args with
                | COk => Ran sig | CTypeError => TypeErr | CValueError => ValueErr end
  | NoMatch | Ambiguous => TypeErr
  | BadCall => BadArgs
  end.

(* ---------- the documented rules (docs/src/userguide/fusedtypes.rst, "Calling") ----------
   "try to find an exact match; choose the biggest corresponding numerical type (biggest
   float, biggest complex, biggest int)"; TypeError if no specialisation was found; the same
   fused type gives the same specialised type to all its parameters; differently named
   fused types specialise independently. *)
Definition exact (a : atag) (t : ctype) : bool :=
  match a, t with
  | AInt, TNum (NInt _ _) | ABool, TNum NBint | AFloat, TNum (NFloat _) | AComplex, TNum (NComplex _) => true
  | ABuiltin b, TBuiltin b' => builtin_eqb b b'
  | AInst (k :: _), TExt k' => Nat.eqb k k'
  | ABuf b, TMem _ _ _ => coerce_ok t b
  | ANone, TMem _ _ _ => true
  | _, _ => false end.
(* instance of a base type *)
Definition subinst (a : atag) (t : ctype) : bool :=
  match a, t with
  | ABool, TNum (NInt _ _) | ANpFloat64, TNum (NFloat _) | ANpComplex128, TNum (NComplex _) => true
  | AInst (_ :: bases), TExt k => existsb (Nat.eqb k) bases
  | _, _ => false end.
Definition is_numeric (t : ctype) : bool := match t with TNum _ => true | _ => false end.
Definition trank (t : ctype) : Z := match t with TNum n => rank_of n | _ => 0 end.
(* the first declared member of maximal rank (non-numeric members: the first declared) *)
Fixpoint biggest (l : list ctype) : option ctype :=
  match l with
  | [] => None
  | t :: tl => match biggest tl with
               | Some u => if is_numeric t && is_numeric u && (trank t <? trank u) then Some u else Some t
               | None => Some t end
  end.
Definition doc_choice (ms : list ctype) (a : atag) : option ctype :=
  match filter (exact a) ms with
  | ((_ :: _) as l) => biggest l
  | [] => match filter (subinst a) ms with
          | ((_ :: _) as l) => biggest l
          | [] => if existsb (ctype_eqb TObject) ms then Some TObject else None
          end
  end.
Fixpoint doc_sig (fts : list ftype) (args : list atag) : option (list ctype) :=
  match fts with
  | [] => Some []
  | ft :: tl => match nth_error args (fpos ft), doc_sig tl args with
                | Some a, Some s => match doc_choice (members ft) a with Some t => Some (t :: s) | None => None end
                | _, _ => None end
  end.
(* documented outcome of a call: the selected specialisation, or TypeError (also when a
   further parameter of an already specialised fused type cannot be converted) *)
Definition doc_call (d : decl) (args : list atag) : outcome :=
  if negb (Nat.eqb (length args) (length (params d))) then BadArgs else
  match doc_sig (ftypes d) args with
  | Some sig => match conv_all sig (params d) args with COk => Ran sig | _ => TypeErr end
  | None => TypeErr
  end.

(* ---------- explicit indexing: FusedFunction.__getitem__ ---------- *)
(* an index item is a str (used as is), a type object (its __name__) or anything else (str());
   all three become a string; tuple items are joined with "|" and looked up in __signatures__.
   Strings are abstract tokens here: [key] of a signature = list of the members' typeof_name,
   and the index is a list of tokens as well. *)
Inductive ires := IFound (sig : list ctype) | IKeyError.
Definition getitem {K : Type} (keq : K -> K -> bool) (name : ctype -> K)
           (sigs : list (list ctype)) (idx : list K) : ires :=
  match find (fun s => (Nat.eqb (length s) (length idx)) && forallb (fun p => keq (name (fst p)) (snd p)) (combine s idx)) sigs with
  | Some s => IFound s
  | None => IKeyError
  end.
