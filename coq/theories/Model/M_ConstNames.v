(* C09, second part: from the pooled key of a numeric constant to its C name and its slot in the
   module's number table (Cython/Compiler/Code.py):
     GlobalState.get_int_const / get_float_const / new_num_const   (the pool, keyed by (text, py_type))
     GlobalState.new_num_const_cname                               (C name; abbreviated above 42 characters)
     GlobalState.unique_const_cname                                (the uniqueness counter over const_cnames_used)
     GlobalState.generate_num_constants                            (sort, slot numbering, #define cname numbertab[i],
                                                                    initialisers per slot)
   Executable definitions only; proofs in Proof/P_ConstNames.v.
   Strings are lists of character codes (as in M_Consts.v). *)
From Coq Require Import ZArith List Bool.
From CyVerif Require Import Lib.CInt Model.M_Consts.
Import ListNotations.
Open Scope Z_scope.

Definition str := list Z.

(* ------------------------------------------------------------------ *)
(* 1. the name of a numeric constant                                   *)
(* ------------------------------------------------------------------ *)

(* py_type argument of new_num_const: 'int', 'long' (longness given), 'float' *)
Inductive ptype := PInt | PLong | PFloat.

Definition ptype_eqb (a b : ptype) : bool :=
  match a, b with PInt, PInt | PLong, PLong | PFloat, PFloat => true | _, _ => false end.

Definition s_neg : str := [110; 101; 103; 95].                 (* neg_ *)
Definition s_large : str := [108; 97; 114; 103; 101].          (* large *)
Definition s_xxx : str := [95; 120; 120; 120; 95].             (* _xxx_ *)
(* Naming.interned_prefixes['int'] and ['float'] *)
Definition pfx_int : str := [95; 95; 112; 121; 120; 95; 105; 110; 116; 95].
Definition pfx_float : str := [95; 95; 112; 121; 120; 95; 102; 108; 111; 97; 116; 95].

Definition name_limit : Z := 42.      (* if len(value) > 42 *)
Definition keep : nat := 18.          (* value[:18], value[-18:] *)

(* value.replace('.', '_').replace('+', '_').replace('-', 'neg_'): the replacement texts contain
   none of the replaced characters, so the three passes act character by character *)
Definition sanitize_ch (c : Z) : str :=
  if (c =? 46) || (c =? 43) then [95] else if c =? 45 then s_neg else [c].
Definition sanitize (s : str) : str := flat_map sanitize_ch s.

(* if py_type == 'long': value += 'L'; py_type = 'int' *)
Definition eff_spelling (v : str) (t : ptype) : str :=
  match t with PLong => v ++ [76] | _ => v end.
Definition prefix_of (t : ptype) : str :=
  match t with PFloat => pfx_float | _ => pfx_int end.

Definition lastn {A} (n : nat) (l : list A) : list A := skipn (length l - n) l.

(* str(counter) for the format call *)
Definition dec (c : Z) : str :=
  if c =? 0 then [48] else (if c <? 0 then [45] else []) ++ to_digits 10 (Z.abs c).

(* const_cnames_used: a dict str -> int, kept in insertion order *)
Definition dict := list (str * Z).
Fixpoint dget (k : str) (d : dict) : option Z :=
  match d with
  | [] => None
  | (k', v) :: r => if zlist_eqb k k' then Some v else dget k r
  end.
Definition dmem (k : str) (d : dict) : bool :=
  match dget k d with Some _ => true | None => false end.
Fixpoint dset (k : str) (v : Z) (d : dict) : dict :=
  match d with
  | [] => [(k, v)]
  | (k', v') :: r => if zlist_eqb k k' then (k, v) :: r else (k', v') :: dset k v r
  end.

(* a format string  pre {sep} {counter} post  ({sep} optional) *)
Record fmt := { f_pre : str; f_sep : bool; f_post : str }.
Definition fmt_base (f : fmt) : str := f_pre f ++ f_post f.           (* format(sep='', counter='') *)
Definition fmt_at (f : fmt) (c : Z) : str :=                         (* format(sep='_', counter=c) *)
  f_pre f ++ (if f_sep f then [95] else []) ++ dec c ++ f_post f.

Inductive ures :=
| UOk (name : str) (d : dict)
| UKeyError            (* used[value] on a missing key *)
| UFuel.               (* the while loop did not finish within the fuel *)

(*  while cname in used:
        counter = used[value] = used[value] + 1
        cname = format_str.format(sep='_', counter=counter)
    used[cname] = 1 *)
Fixpoint uniq_loop (fuel : nat) (f : fmt) (d : dict) : ures :=
  match fuel with
  | O => UFuel
  | S n =>
      match dget (fmt_base f) d with
      | None => UKeyError
      | Some c0 =>
          let c := c0 + 1 in
          let d' := dset (fmt_base f) c d in
          let cname := fmt_at f c in
          if dmem cname d' then uniq_loop n f d' else UOk cname (dset cname 1 d')
      end
  end.

(* GlobalState.unique_const_cname; the fuel is one more than the number of names in use *)
Definition unique_const_cname (f : fmt) (d : dict) : ures :=
  let base := fmt_base f in
  if dmem base d then uniq_loop (S (length d)) f d else UOk base (dset base 1 d).

(* with_counter = false is the variant WITHOUT the uniqueness counter (what a dropped
   unique_const_cname call amounts to); only used for the refutation theorem *)
Definition large_fmt (t : ptype) (value : str) : fmt :=
  {| f_pre := prefix_of t ++ s_large; f_sep := false;
     f_post := [95] ++ firstn keep value ++ s_xxx ++ lastn keep value |}.

Definition new_num_const_cname_gen (with_counter : bool) (v : str) (t : ptype) (d : dict) : ures :=
  let value := sanitize (eff_spelling v t) in
  if name_limit <? Z.of_nat (length value) then
    if with_counter then unique_const_cname (large_fmt t value) d
    else UOk (fmt_base (large_fmt t value)) d
  else UOk (prefix_of t ++ value) d.

(* GlobalState.new_num_const_cname *)
Definition new_num_const_cname := new_num_const_cname_gen true.

(* ------------------------------------------------------------------ *)
(* 2. the pool: get_int_const / get_float_const / new_num_const        *)
(* ------------------------------------------------------------------ *)

Definition nkey := (str * ptype)%type.
Definition nkey_eqb (a b : nkey) : bool := zlist_eqb (fst a) (fst b) && ptype_eqb (snd a) (snd b).

Record pool := { p_index : list (nkey * str);      (* num_const_index: key -> cname, newest first *)
                 p_used : dict }.                  (* const_cnames_used *)

Fixpoint index_find (k : nkey) (ix : list (nkey * str)) : option str :=
  match ix with
  | [] => None
  | (k', n) :: r => if nkey_eqb k k' then Some n else index_find k r
  end.

(* returns the C name of the constant and the new pool; None = the naming raised / looped *)
Definition get_num_const_gen (wc : bool) (k : nkey) (p : pool) : option (str * pool) :=
  match index_find k (p_index p) with
  | Some n => Some (n, p)
  | None =>
      match new_num_const_cname_gen wc (fst k) (snd k) (p_used p) with
      | UOk n d' => Some (n, {| p_index := (k, n) :: p_index p; p_used := d' |})
      | _ => None
      end
  end.
Definition get_num_const := get_num_const_gen true.

(* const_cnames_used is shared with the other caller of unique_const_cname (new_const_cname, for
   string / code-object / method constants); a module's compilation is an arbitrary interleaving of
   numeric-constant requests and such foreign calls *)
Inductive event := EReq (k : nkey) | EUniq (f : fmt).

Definition step_event_gen (wc : bool) (e : event) (p : pool) : option (str * pool) :=
  match e with
  | EReq k => get_num_const_gen wc k p
  | EUniq f =>
      match unique_const_cname f (p_used p) with
      | UOk n d' => Some (n, {| p_index := p_index p; p_used := d' |})
      | _ => None
      end
  end.

(* the names handed out, event by event, and the final pool *)
Fixpoint run_events_gen (wc : bool) (es : list event) (p : pool) : option (list str * pool) :=
  match es with
  | [] => Some ([], p)
  | e :: r =>
      match step_event_gen wc e p with
      | None => None
      | Some (n, p') =>
          match run_events_gen wc r p' with
          | None => None
          | Some (ns, p'') => Some (n :: ns, p'')
          end
      end
  end.
Definition run_events := run_events_gen true.

(* GlobalState.__init__: num_const_index = {}, const_cnames_used = {} *)
Definition pool0 : pool := {| p_index := []; p_used := [] |}.

(* the spellings the theorems speak about: no '_', 'g', 'l', 'L' (none occurs in a numeric
   spelling: digits, a-f, x, e/E, '.', '+', '-', inf, nan), every '+' directly after e/E and no
   '.' directly after e/E (the exponent sign of a float; an int has neither) *)
Definition okc (c : Z) : bool := negb ((c =? 95) || (c =? 103) || (c =? 108) || (c =? 76)).
Definition is_e (c : Z) : bool := (c =? 101) || (c =? 69).
Fixpoint sep_ok (prev_e : bool) (s : str) : bool :=
  match s with
  | [] => true
  | c :: r => okc c && (if c =? 43 then prev_e else if c =? 46 then negb prev_e else true)
              && sep_ok (is_e c) r
  end.
Definition spell_ok (s : str) : bool := sep_ok false s.
Definition event_okb (e : event) : bool :=
  match e with EReq k => spell_ok (fst k) | EUniq _ => true end.

(* ------------------------------------------------------------------ *)
(* 3. generate_num_constants: slots, #defines, initialisers            *)
(* ------------------------------------------------------------------ *)

Record numconst := { nc_name : str; nc_text : str; nc_type : ptype; nc_code : str }.

Definition ptype_rank (t : ptype) : Z := match t with PFloat => 0 | PInt => 1 | PLong => 2 end.
    (* 'float' < 'int' < 'long' as Python strings *)

(* value.lstrip('-') *)
Fixpoint lstrip_minus (s : str) : str :=
  match s with c :: r => if c =? 45 then lstrip_minus r else s | [] => [] end.

(* Python's str comparison: Lt / Eq / Gt by code point, shorter prefix first *)
Fixpoint str_cmp (a b : str) : comparison :=
  match a, b with
  | [], [] => Eq
  | [], _ => Lt
  | _, [] => Gt
  | x :: a', y :: b' => match x ?= y with Eq => str_cmp a' b' | c => c end
  end.

Definition lex (c : comparison) (rest : comparison) : comparison :=
  match c with Eq => rest | _ => c end.

(* the sort key (c.py_type, len(c.value.lstrip('-')), c.value.lstrip('-'), c.value, c.value_code) *)
Definition nc_cmp (a b : numconst) : comparison :=
  lex (ptype_rank (nc_type a) ?= ptype_rank (nc_type b))
 (lex (Z.of_nat (length (lstrip_minus (nc_text a))) ?= Z.of_nat (length (lstrip_minus (nc_text b))))
 (lex (str_cmp (lstrip_minus (nc_text a)) (lstrip_minus (nc_text b)))
 (lex (str_cmp (nc_text a) (nc_text b))
      (str_cmp (nc_code a) (nc_code b))))).
Definition nc_le (a b : numconst) : bool :=
  match nc_cmp a b with Gt => false | _ => true end.

(* list.sort is stable: insertion behind the equal elements *)
Fixpoint nc_insert (x : numconst) (l : list numconst) : list numconst :=
  match l with
  | [] => [x]
  | y :: r => if nc_le y x then y :: nc_insert x r else x :: y :: r
  end.
Definition nc_sort (l : list numconst) : list numconst := fold_left (fun acc x => nc_insert x acc) l [].

(* what a slot of the number table is initialised with *)
Inductive slot_init :=
| IFloat (code : str)              (* PyFloat_FromDouble(<code>) *)
| IInt (e : emitted)               (* M_Consts.emitted: C array element / base-32 text *)
| IBad.                            (* str_to_number raised: generate_num_constants raises *)

Definition is_float (c : numconst) : bool := ptype_eqb (nc_type c) PFloat.
Definition is_small (c : numconst) : bool :=
  negb (is_float c) &&
  match str_to_number (nc_text c) with Some n => bit_length n <=? 63 | None => true end.
Definition is_large (c : numconst) : bool := negb (is_float c) && negb (is_small c).

(* the small constants in sorted order; cur = byte size class reached so far
   (constants are appended to the LAST array) *)
Fixpoint small_slots (cur : Z) (l : list numconst) : list (str * slot_init) :=
  match l with
  | [] => []
  | c :: r =>
      match emit_num cur (nc_text c) with
      | Some (EmitC b v) => (nc_name c, IInt (EmitC b v)) :: small_slots b r
      | _ => (nc_name c, IBad) :: small_slots cur r
      end
  end.
Definition large_slot (c : numconst) : str * slot_init :=
  (nc_name c, match emit_num 1 (nc_text c) with Some (EmitBase32 t) => IInt (EmitBase32 t) | _ => IBad end).

(* slot i of numbertab = i-th element; "#define <name> numbertab[i]" in this order *)
Definition layout (cs : list numconst) : list (str * slot_init) :=
  let s := nc_sort cs in
  map (fun c => (nc_name c, IFloat (nc_code c))) (filter is_float s)
  ++ small_slots 1 (filter is_small s)
  ++ map large_slot (filter is_large s).

(* the C preprocessor: a later #define of the same name replaces the earlier one *)
Fixpoint resolve_from (i : Z) (name : str) (l : list (str * slot_init)) (acc : option Z) : option Z :=
  match l with
  | [] => acc
  | (n, _) :: r => resolve_from (i + 1) name r (if zlist_eqb name n then Some i else acc)
  end.
Definition resolve (name : str) (l : list (str * slot_init)) : option Z := resolve_from 0 name l None.

(* run-time value of an int slot *)
Definition slot_value (s : slot_init) : option Z :=
  match s with IInt e => decode_emitted e | _ => None end.

(* the pool's constants as generate_num_constants sees them (value_code only matters for floats) *)
Definition pool_consts (p : pool) (code_of : nkey -> str) : list numconst :=
  map (fun kn => {| nc_name := snd kn; nc_text := fst (fst kn); nc_type := snd (fst kn);
                    nc_code := code_of (fst kn) |}) (p_index p).

(* end to end: the run-time value of the constant requested under key k *)
Definition const_value (p : pool) (code_of : nkey -> str) (k : nkey) : option Z :=
  match index_find k (p_index p) with
  | None => None
  | Some n =>
      let L := layout (pool_consts p code_of) in
      match resolve n L with
      | None => None
      | Some i => match nth_error L (Z.to_nat i) with Some (_, s) => slot_value s | None => None end
      end
  end.
