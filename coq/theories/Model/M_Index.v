(* Model of the integer-index and two-bound-slice fast paths of Cython:
     Cython/Utility/ObjectHandling.c : GetItemInt (List/Tuple/generic), SetItemInt, DelItemInt,
                                        SliceObject, SliceTupleAndList (__Pyx_crop_slice)
     Cython/Utility/StringTools.c    : GetItemIntUnicode, GetItemIntBytes, Get/SetItemIntByteArray,
                                        PyUnicode_Substring
     Cython/Utility/TypeConversion.c : __Pyx_fits_Py_ssize_t, __Pyx_is_valid_index
     Cython/Compiler/ExprNodes.py    : IndexNode.extra_index_params (wraparound flag),
                                        SliceIndexNode (bound coercion, have_start/have_stop defaults)
   in the configuration CPython / CYTHON_ASSUME_SAFE_MACROS / CYTHON_ASSUME_SAFE_SIZE /
   CYTHON_USE_TYPE_SLOTS / not AVOID_BORROWED_REFS (the default on CPython 3.12, LP64).
   Py_ssize_t is the 64-bit signed type; every C addition/subtraction is wrapped explicitly.
   Definitions only (executable); proofs are in Proof/P_Index.v. *)
From Coq Require Import ZArith List Bool Lia.
From CyVerif Require Import Lib.CInt.
Open Scope Z_scope.

Definition SSZ_MIN : Z := min_int 64 true.
Definition SSZ_MAX : Z := max_int 64 true.
Definition in_ssz (v : Z) : Prop := SSZ_MIN <= v <= SSZ_MAX.
Definition in_sszb (v : Z) : bool := (SSZ_MIN <=? v) && (v <=? SSZ_MAX).
(* result of a Py_ssize_t operation whose mathematical value is v *)
Definition ssz (v : Z) : Z := wrap 64 true v.

(* ------------------------------------------------------------------------------------- *)
(* Specification side: CPython                                                            *)

(* what an index operation on a builtin sequence of length n amounts to *)
Inductive iresult :=
  | Elem (k : Z)            (* element k is read / replaced / deleted *)
  | IndexError
  | OutOfBounds (k : Z).    (* memory outside the item array is touched: undefined behaviour *)

(* o[i], o[i] = v, del o[i] in CPython for list/tuple/str/bytes/bytearray and any integer i *)
Definition py_index (n i : Z) : iresult :=
  if (- n <=? i) && (i <? n) then Elem (if i <? 0 then i + n else i) else IndexError.

(* transcription of list_subscript & co.: PyNumber_AsSsize_t(item, PyExc_IndexError);
   if (i < 0) i += Py_SIZE(self); valid_index(i, Py_SIZE(self)) *)
Definition cpython_subscript (n i : Z) : iresult :=
  if negb (in_sszb i) then IndexError
  else let j := if i <? 0 then ssz (i + n) else i in
       if (0 <=? j) && (j <? n) then Elem j else IndexError.

(* sq_item / sq_ass_item slot of the builtin sequences called with a C index: bounds check
   only, no wrap-around (list_item, tuple_item, list_ass_item, bytearray_getitem ...) *)
Definition sq_slot (n i : Z) : iresult :=
  if (0 <=? i) && (i <? n) then Elem i else IndexError.

(* slice bound as written in the source / seen at run time *)
Inductive bound :=
  | BAbsent                 (* o[:x] -- no expression *)
  | BCInt (v : Z)           (* C integer expression (already a Py_ssize_t value) *)
  | BNone                   (* Python object that is None *)
  | BPyInt (z : Z).         (* Python int object of any magnitude *)

(* the selected elements: first index and count, canonical (0,0) when empty *)
Inductive sresult :=
  | Sel (first count : Z)
  | OverflowError
  | SliceOOB (first count : Z).   (* copies count items from an address outside the array *)

Definition norm_sel (first count : Z) : sresult :=
  if count <=? 0 then Sel 0 0 else Sel first count.

(* _PyEval_SliceIndex: clamp to Py_ssize_t;  PySlice_Unpack defaults for step = 1 *)
Definition clamp_ssz (z : Z) : Z := Z.max SSZ_MIN (Z.min SSZ_MAX z).
Definition py_unpack_start (b : bound) : Z :=
  match b with BAbsent | BNone => 0 | BCInt v => clamp_ssz v | BPyInt z => clamp_ssz z end.
Definition py_unpack_stop (b : bound) : Z :=
  match b with BAbsent | BNone => SSZ_MAX | BCInt v => clamp_ssz v | BPyInt z => clamp_ssz z end.

(* PySlice_AdjustIndices(length, &start, &stop, 1) -> (start', stop', slicelength) *)
Definition py_adjust_bound (n v : Z) : Z :=
  if v <? 0 then (if v + n <? 0 then 0 else v + n)
  else if n <=? v then n else v.
Definition py_slice_adjust (n start stop : Z) : Z * Z * Z :=
  let s := py_adjust_bound n start in
  let e := py_adjust_bound n stop in
  (s, e, if s <? e then e - s else 0).

(* o[start:stop] in CPython: which elements *)
Definition py_slice (n : Z) (bs be : bound) : sresult :=
  match py_slice_adjust n (py_unpack_start bs) (py_unpack_stop be) with
  | (s, _, len) => norm_sel s len
  end.

(* o[start:stop] = v / del o[start:stop] in CPython: position start' matters also when the
   range is empty (insertion point), so no normalisation *)
Definition py_slice_pos (n : Z) (bs be : bound) : sresult :=
  match py_slice_adjust n (py_unpack_start bs) (py_unpack_stop be) with
  | (s, _, len) => Sel s len
  end.

(* ------------------------------------------------------------------------------------- *)
(* Implementation side: index access                                                      *)

(* __Pyx_fits_Py_ssize_t(v, type, is_signed), type of width tw / signedness ts *)
Definition fits_ssz (tw : Z) (ts : bool) (v : Z) : bool :=
  (tw <? 64)
  || ((64 <? tw) && (v <=? SSZ_MAX) && (negb ts || (SSZ_MIN <=? v)))
  || ((tw =? 64) && (ts || (v <=? SSZ_MAX))).

(* __Pyx_is_valid_index: (size_t) i < (size_t) limit *)
Definition is_valid_index (i limit : Z) : bool := wrap 64 false i <? wrap 64 false limit.

(* IndexNode.extra_index_params: the wraparound argument passed to the helpers *)
Definition wa_flag (dir_wraparound idx_signed const_nonneg : bool) : bool :=
  dir_wraparound && idx_signed && negb const_nonneg.

(* what a helper does *)
Inductive access :=
  | Fast (k : Z)        (* direct item-array access ob_item[k] / data[k] *)
  | Generic (i : Z)     (* PyObject_GetItem/SetItem/DelItem(o, PyLong(i)): CPython's protocol *)
  | SqSlot (i : Z)      (* tp_as_sequence->sq_item / sq_ass_item (o, i), a C slot of the builtin type *)
  | SqDispatch (i : Z)  (* the same slot when it is typeobject.c's slot_sq_item / slot_sq_ass_item:
                           calls __getitem__/__setitem__/__delitem__(PyLong(i)), i.e. the full protocol *)
  | Raise.              (* IndexError raised by the helper itself *)

Definition run (n : Z) (a : access) : iresult :=
  match a with
  | Fast k => if (0 <=? k) && (k <? n) then Elem k else OutOfBounds k
  | Generic i => py_index n i
  | SqSlot i => sq_slot n i
  | SqDispatch i => py_index n i
  | Raise => IndexError
  end.

(* __Pyx_GetItemInt_{List,Tuple}_Fast(o, i, wraparound, boundscheck) *)
Definition getitem_listtuple_fast (n i : Z) (wa bc : bool) : access :=
  let size := if wa || bc then n else -1 in
  let wrapped := if wa && (i <? 0) then ssz (i + size) else i in
  if negb bc || is_valid_index wrapped size then Fast wrapped else Generic i.

(* __Pyx_GetItemInt_Unicode_Fast / __Pyx_GetItemInt_ByteArray_Fast (same shape) *)
Definition getitem_unicode_fast (n i : Z) (wa bc : bool) : access :=
  if wa || bc then
    let j := if wa && (i <? 0) then ssz (i + n) else i in
    if negb bc || is_valid_index j n then Fast j else Raise
  else Fast i.

(* __Pyx_GetItemInt_Bytes_Fast *)
Definition getitem_bytes_fast (n i : Z) (wa bc : bool) : access :=
  let j := if wa && (i <? 0) then ssz (i + n) else i in
  if bc && negb (is_valid_index j n) then Raise else Fast j.

(* __Pyx_GetItemInt_wraparound + slot call of the generic helpers.
   disp: the slot is the Python-level dispatcher (heap subclass of list: list.__getitem__ is a
   METH_COEXIST method, so the subclass gets slot_sq_item instead of list_item).
   fix_dwrap = false is the code as it is; true is the proposed repair (an index that is still
   negative after adding the length goes to the generic protocol with the original index). *)
Definition sq_path (fix_dwrap disp : bool) (n i : Z) (wa : bool) : access :=
  let j := if wa && (i <? 0) then ssz (i + n) else i in
  if fix_dwrap && wa && (i <? 0) && (j <? 0) then Generic i
  else if disp then SqDispatch j else SqSlot j.

(* static type of the indexed expression / run-time type of an object-typed one *)
Inductive kind :=
  | KList | KTuple | KStr | KBytes | KByteArray   (* variable declared with that builtin type *)
  | KObjList | KObjTuple                            (* object-typed, exact list / tuple at run time *)
  | KObjMap        (* object-typed; str, bytes, bytearray: mp_subscript, no Py_TPFLAGS_SEQUENCE *)
  | KObjSeq        (* object-typed; tuple subclass: Py_TPFLAGS_SEQUENCE -> sq_item (C slot) first *)
  | KObjSeqPy.     (* object-typed; list subclass: Py_TPFLAGS_SEQUENCE -> sq_item = slot dispatcher *)

(* __Pyx_GetItemInt_Fast(o, i, wraparound, boundscheck) by run-time type *)
Definition getitem_generic_fast (fx : bool) (k : kind) (n i : Z) (wa bc : bool) : access :=
  match k with
  | KObjList | KObjTuple | KList | KTuple => getitem_listtuple_fast n i wa bc
  | KObjSeq => sq_path fx false n i wa
  | KObjSeqPy => sq_path fx true n i wa
  | _ => Generic i
  end.

(* the macro level: o[i] with a C integer index i of type (tw, ts); v is the C value *)
Definition getitem_int (fx : bool) (k : kind) (tw : Z) (ts : bool) (n v : Z) (wa bc : bool) : access :=
  let fits := fits_ssz tw ts v in
  let i := ssz v in                      (* (Py_ssize_t) i *)
  match k with
  | KList | KTuple => if fits then getitem_listtuple_fast n i wa bc else Raise
  | KStr | KByteArray => if fits then getitem_unicode_fast n i wa bc else Raise
  | KBytes => if fits then getitem_bytes_fast n i wa bc else Raise
  | _ => if fits then getitem_generic_fast fx k n i wa bc else Generic v
  end.

(* __Pyx_SetItemInt_Fast / __Pyx_SetItemInt_ByteArray_Fast *)
Definition setitem_int (fx : bool) (k : kind) (tw : Z) (ts : bool) (n v : Z) (wa bc : bool) : access :=
  let fits := fits_ssz tw ts v in
  let i := ssz v in
  match k with
  | KByteArray => if fits then getitem_unicode_fast n i wa bc else Raise
  | KList | KObjList =>
      if fits then
        let j := if negb wa then i else if 0 <=? i then i else ssz (i + n) in
        if negb bc || is_valid_index j n then Fast j else Generic i
      else Generic v
  | KObjSeq => if fits then sq_path fx false n i wa else Generic v
  | KObjSeqPy => if fits then sq_path fx true n i wa else Generic v
  | _ => Generic v         (* mp_ass_subscript(o, PyLong(i), v) or the generic call *)
  end.

(* __Pyx_DelItemInt_Fast: no item-array fast path at all *)
Definition delitem_int (fx : bool) (k : kind) (tw : Z) (ts : bool) (n v : Z) (wa : bool) : access :=
  let fits := fits_ssz tw ts v in
  let i := ssz v in
  match k with
  | KList | KObjList | KObjSeq => if fits then sq_path fx false n i wa else Generic v
  | KObjSeqPy => if fits then sq_path fx true n i wa else Generic v
  | _ => Generic v
  end.

(* the direct-access share: the element index touched by the fast path, if any *)
Definition fast_index (a : access) : option Z :=
  match a with Fast k => Some k | _ => None end.

(* ------------------------------------------------------------------------------------- *)
(* Implementation side: two-bound slices                                                  *)

(* __Pyx_crop_slice(&start, &stop, &length) -> (start', stop', length').
   fix_crop = false is the code as it is; true is the proposed repair
   (`else if (start > length) start = length;`). *)
Definition crop_slice (fix_crop : bool) (n start stop : Z) : Z * Z * Z :=
  let s := if start <? 0 then (let s1 := ssz (start + n) in if s1 <? 0 then 0 else s1)
           else if fix_crop && (n <? start) then n else start in
  let e := if stop <? 0 then ssz (stop + n) else if n <? stop then n else stop in
  (s, e, ssz (e - s)).

(* __Pyx_PyList_GetSlice / __Pyx_PyTuple_GetSlice: copy length' items from ob_item + start'
   when length' > 0 *)
Definition listtuple_getslice (fix_crop : bool) (n start stop : Z) : sresult :=
  match crop_slice fix_crop n start stop with
  | (s, _, len) =>
      if len <=? 0 then Sel 0 0
      else if (0 <=? s) && (s + len <=? n) then Sel s len else SliceOOB s len
  end.

(* __Pyx_PyUnicode_Substring *)
Definition unicode_substring (n start stop : Z) : sresult :=
  let s := if start <? 0 then (let s1 := ssz (start + n) in if s1 <? 0 then 0 else s1) else start in
  let e := if stop <? 0 then ssz (stop + n) else if n <? stop then n else stop in
  if e <=? s then Sel 0 0
  else if (s =? 0) && (e =? n) then norm_sel 0 n
  else let len := ssz (e - s) in
       if (0 <=? s) && (s + len <=? n) then Sel s len else SliceOOB s len.

(* SliceIndexNode.analyse_types: a bound of a slice of a builtin-typed base is coerced to
   Py_ssize_t (None -> default; __Pyx_PyIndex_AsSsize_t raises OverflowError when the int does
   not fit).  fix_clamp = true models the proposed repair (clamp like _PyEval_SliceIndex). *)
Definition coerce_bound (fix_clamp : bool) (dflt : Z) (b : bound) : option Z :=
  match b with
  | BAbsent | BNone => Some dflt
  | BCInt v => Some v
  | BPyInt z => if in_sszb z then Some z else if fix_clamp then Some (clamp_ssz z) else None
  end.

(* base[start:stop] as generated, by static type of the base.
   bytes/bytearray: PySequence_GetSlice(o, start, stop); object-typed: __Pyx_PyObject_GetSlice
   builds slice(start, stop) with the bounds as objects (absent -> None) and calls
   mp_subscript -- both end in CPython's own PySlice_Unpack/AdjustIndices. *)
Definition slice_node (fix_crop fix_clamp : bool) (k : kind) (n : Z) (bs be : bound) : sresult :=
  match k with
  | KObjList | KObjTuple | KObjMap | KObjSeq | KObjSeqPy => py_slice n bs be
  | _ =>
    match coerce_bound fix_clamp 0 bs, coerce_bound fix_clamp SSZ_MAX be with
    | Some s, Some e =>
        match k with
        | KList | KTuple => listtuple_getslice fix_crop n s e
        | KStr => unicode_substring n s e
        | _ => py_slice n (BCInt s) (BCInt e)
        end
    | _, _ => OverflowError
    end
  end.

(* o[a:b] = v and del o[a:b] always go through __Pyx_PyObject_SetSlice / DelSlice, which build
   the slice object like GetSlice and call mp_ass_subscript; for a builtin-typed base the
   bounds have been coerced to Py_ssize_t by analyse_types all the same *)
Definition setslice_node (fix_clamp : bool) (k : kind) (n : Z) (bs be : bound) : sresult :=
  match k with
  | KObjList | KObjTuple | KObjMap | KObjSeq | KObjSeqPy => py_slice_pos n bs be
  | _ =>
    match coerce_bound fix_clamp 0 bs, coerce_bound fix_clamp SSZ_MAX be with
    | Some s, Some e => py_slice_pos n (BCInt s) (BCInt e)
    | _, _ => OverflowError
    end
  end.
