(* Model of the profiling / tracing events emitted by code generated with profile=True or
   linetrace=True (Cython/Utility/Profile.c macros, placed by Cython/Compiler/Nodes.py
   FuncDefNode.generate_function_definitions / GeneratorBodyDefNode / ReturnStatNode and
   ExprNodes.YieldExprNode through the Code.put_trace_* helpers).

   A run of a program is a CALL TREE.  A [node] is one activation of a compiled function
   or, for generators, one resume SEGMENT of the generator body function (the C function
   __pyx_gb_... is entered once per next()/send()/throw()/close()).  Its [items] record, in
   execution order, what happened inside the activation:

     ICall n   an activation nested in this one (a call; or next()/send()/throw()/close() of
               a generator, which runs one segment of it)
     IRet      a `return` statement was executed while a try/finally (or with) block was still
               open: ReturnStatNode emits put_trace_return right there and then jumps to the
               (redirected) return label, i.e. into the finally body
     ILine l   execution reached source line l (a __Pyx_TraceLine marker)

   and the [ekind] says how the activation ended:

     EReturn   a return statement outside try/finally, or falling off the end
               (put_trace_return in ReturnStatNode / "default return value" block)
     ERaise    through the error label (put_trace_exception_propagating; then
               put_trace_unwind / put_trace_return("NULL") in the legacy variant)
     EYield    generator segment suspended at a yield (put_trace_yield)
     EPending  the return whose event was already emitted at an IRet item completes after the
               finally bodies ran: the generated code jumps to the return label, NO event

   Placement facts read from the code (function/generator, both implementations):
     start : __Pyx_TraceStartFunc after the closure set-up and BEFORE argument unpacking
             (so a failing argument conversion is a traced, raising activation);
             generators: __Pyx_TraceStartGen at the first_run label, __Pyx_TraceResumeGen at
             every resume label BEFORE the sent-value NULL test (throw()/close() are reported
             as a resume: the TODO in GeneratorBodyDefNode), and a start+return pair in the
             `default:` branch of the resume switch;
             close() of a generator that was never started runs the body function at
             first_run with a NULL sent value: start, error label, unwind (SCloseUnstarted);
             CPython 3.12 does not run the frame at all in that case.
     legacy implementation (CYTHON_USE_SYS_MONITORING=0, every CPython < 3.13):
             start/resume -> PyTrace_CALL; return/yield/unwind -> PyTrace_RETURN;
             __Pyx_TraceException* are empty (no PyTrace_EXCEPTION is ever sent);
             PyTrace_LINE only with linetrace + CYTHON_TRACE and a trace function.
     sys.monitoring implementation (3.13+): PY_START / PY_RESUME / PY_RETURN / PY_YIELD /
             RAISE followed by PY_UNWIND at the error label / LINE.

   [fx] selects the repaired placement (return event of a return statement inside
   try/finally emitted when the pending return completes).  fx=false is the code as it is. *)
From Coq Require Import List Bool Arith.
Import ListNotations.

Inductive skind := SCall | SGenStart | SResume | SThrow | SCloseUnstarted.
Inductive ekind := EReturn | ERaise | EYield | EPending.

Inductive node := Node (f : nat) (s : skind) (b : items) (e : ekind)
with items :=
| INil
| ICall (n : node) (r : items)
| IRet (r : items)
| ILine (l : nat) (r : items).

(* tools: Legacy = c_profilefunc / c_tracefunc (sys.setprofile, sys.settrace);
          Monitoring = sys.monitoring C-API *)
Inductive tool := Legacy | Monitoring.

Inductive evk :=
| KCall | KRet                                   (* legacy *)
| KStart | KResume | KThrow | KReturn | KYield | KUnwind | KRaise   (* sys.monitoring *)
| KLine (l : nat).

Definition event := (evk * nat)%type.

Inductive evclass := CStart | CEnd | COther.
Definition classify (k : evk) : evclass :=
  match k with
  | KCall | KStart | KResume | KThrow => CStart
  | KRet | KReturn | KYield | KUnwind => CEnd
  | KRaise | KLine _ => COther
  end.

(* ---------- the generated code ---------- *)
Definition start_cy (t : tool) (s : skind) (f : nat) : list event :=
  match t with
  | Legacy => [(KCall, f)]
  | Monitoring =>
      match s with
      | SCall | SGenStart | SCloseUnstarted => [(KStart, f)]
      | SResume | SThrow => [(KResume, f)]
      end
  end.

Definition end_ev (t : tool) (e : ekind) (f : nat) : list event :=
  match t with
  | Legacy => [(KRet, f)]
  | Monitoring =>
      match e with
      | EReturn | EPending => [(KReturn, f)]
      | EYield => [(KYield, f)]
      | ERaise => [(KRaise, f); (KUnwind, f)]
      end
  end.

Definition end_cy (t : tool) (fx : bool) (e : ekind) (f : nat) : list event :=
  match e with
  | EPending => if fx then end_ev t EPending f else []
  | _ => end_ev t e f
  end.

Definition ret_stmt_cy (t : tool) (fx : bool) (f : nat) : list event :=
  if fx then [] else end_ev t EReturn f.

Definition line_ev (lt : bool) (l f : nat) : list event :=
  if lt then [(KLine l, f)] else [].

Fixpoint ev_cy (t : tool) (fx lt : bool) (n : node) : list event :=
  match n with
  | Node f s b e => start_cy t s f ++ evs_cy t fx lt f b ++ end_cy t fx e f
  end
with evs_cy (t : tool) (fx lt : bool) (f : nat) (b : items) : list event :=
  match b with
  | INil => []
  | ICall n r => ev_cy t fx lt n ++ evs_cy t fx lt f r
  | IRet r => ret_stmt_cy t fx f ++ evs_cy t fx lt f r
  | ILine l r => line_ev lt l f ++ evs_cy t fx lt f r
  end.

(* ---------- CPython 3.12 for the same call tree ---------- *)
Definition start_py (t : tool) (s : skind) (f : nat) : list event :=
  match t with
  | Legacy => [(KCall, f)]
  | Monitoring =>
      match s with
      | SCall | SGenStart | SCloseUnstarted => [(KStart, f)]
      | SResume => [(KResume, f)]
      | SThrow => [(KThrow, f)]
      end
  end.

Fixpoint ev_py (t : tool) (lt : bool) (n : node) : list event :=
  match n with
  | Node f s b e =>
      match s with
      | SCloseUnstarted => []       (* gen_close on FRAME_CREATED: the frame never runs *)
      | _ => start_py t s f ++ evs_py t lt f b ++ end_ev t e f
      end
  end
with evs_py (t : tool) (lt : bool) (f : nat) (b : items) : list event :=
  match b with
  | INil => []
  | ICall n r => ev_py t lt n ++ evs_py t lt f r
  | IRet r => evs_py t lt f r
  | ILine l r => line_ev lt l f ++ evs_py t lt f r
  end.

(* ---------- what "balanced and well nested" means ---------- *)
(* the call tree without the details: function ids only *)
Inductive shape := Sh (f : nat) (kids : list shape).

Fixpoint shape_of (n : node) : shape :=
  match n with Node f _ b _ => Sh f (shapes_of b) end
with shapes_of (b : items) : list shape :=
  match b with
  | INil => []
  | ICall n r => shape_of n :: shapes_of r
  | IRet r => shapes_of r
  | ILine _ r => shapes_of r
  end.

(* Stack parser for event sequences.  [cur] = finished children (latest first) of the
   innermost open activation; [stk] = open activations, innermost first, each with the
   children its parent had collected when it started.
   start f : open f.   end f : the innermost open activation must be f; close it.
   other (line / raise) f : f must be the innermost open activation.
   Accepting with [Some forest] = the sequence is a Dyck word with matching function ids and
   [forest] is its nesting structure. *)
Fixpoint parse (evs : list event) (cur : list shape) (stk : list (nat * list shape))
  : option (list shape) :=
  match evs with
  | [] => match stk with [] => Some (rev cur) | _ => None end
  | (k, f) :: r =>
      match classify k with
      | CStart => parse r [] ((f, cur) :: stk)
      | CEnd =>
          match stk with
          | [] => None
          | (g, saved) :: stk' =>
              if Nat.eqb g f then parse r (Sh f (rev cur) :: saved) stk' else None
          end
      | COther =>
          match stk with
          | [] => None
          | (g, _) :: _ => if Nat.eqb g f then parse r cur stk else None
          end
      end
  end.

Definition well_nested (evs : list event) : bool :=
  match parse evs [] [] with Some _ => true | None => false end.

Fixpoint shape_eqb (a b : shape) : bool :=
  match a, b with
  | Sh f ka, Sh g kb =>
      Nat.eqb f g &&
      (fix go (x y : list shape) : bool :=
         match x, y with
         | [], [] => true
         | p :: x', q :: y' => shape_eqb p q && go x' y'
         | _, _ => false
         end) ka kb
  end.

(* nests exactly like the call tree *)
Definition nests_as (evs : list event) (n : node) : bool :=
  match parse evs [] [] with
  | Some [s] => shape_eqb s (shape_of n)
  | _ => false
  end.

Definition count_class (c : evclass) (evs : list event) : nat :=
  length (filter (fun e => match classify (fst e), c with
                           | CStart, CStart | CEnd, CEnd | COther, COther => true
                           | _, _ => false end) evs).

Fixpoint size (n : node) : nat :=
  match n with Node _ _ b _ => S (sizes b) end
with sizes (b : items) : nat :=
  match b with
  | INil => 0
  | ICall n r => size n + sizes r
  | IRet r => sizes r
  | ILine _ r => sizes r
  end.

(* no `return` inside an open try/finally anywhere in the tree *)
Fixpoint clean (n : node) : bool :=
  match n with
  | Node _ _ b e => cleans b && match e with EPending => false | _ => true end
  end
with cleans (b : items) : bool :=
  match b with
  | INil => true
  | ICall n r => clean n && cleans r
  | IRet _ => false
  | ILine _ r => cleans r
  end.

(* no close() of a never-started generator anywhere in the tree *)
Fixpoint started (n : node) : bool :=
  match n with
  | Node _ s b _ => starteds b && match s with SCloseUnstarted => false | _ => true end
  end
with starteds (b : items) : bool :=
  match b with
  | INil => true
  | ICall n r => started n && starteds r
  | IRet r => starteds r
  | ILine _ r => starteds r
  end.

(* documented difference under sys.monitoring: throw()/close() reported as PY_RESUME *)
Definition throw_as_resume (e : event) : event :=
  match e with (KThrow, f) => (KResume, f) | _ => e end.

(* structural sanity of a tree (what the harness generates): EPending needs an earlier IRet *)
Fixpoint has_ret (b : items) : bool :=
  match b with
  | INil => false
  | ICall _ r => has_ret r
  | IRet _ => true
  | ILine _ r => has_ret r
  end.
