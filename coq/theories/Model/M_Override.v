(* Model of Cython/Compiler/Nodes.py: OverrideCheckNode.generate_execution_code (the code at the
   head of the C body of every cpdef method) + CFuncDefNode's split of a cpdef method into a C
   entry point (vtable slot, argument skip_dispatch) and a Python wrapper (method descriptor in
   the immutable type dict, calls the C entry point with skip_dispatch = 1), over a model of
   CPython's classes: linearised MRO per class, one dict per class and per instance, with
   ma_version_tag version tags (CPython contract: every mutation gives the dict a tag that no
   dict had before - a global counter; tag 0 = no dict).  Only the attribute named m is tracked.

   Kinds of dict an instance can have (tp_dictoffset):
     NoDict  - static extension type without __dict__, Python class with __slots__ = ()
     Eager   - extension type declaring `cdef dict __dict__` (or a subclass): tp_new runs PyDict_New
     Managed - ordinary Python subclass (tp_dictoffset = -1): no dict object until the first
               attribute store OR the first (even failing) attribute deletion creates one
               (_PyObjectDict_SetItem makes the dict before PyDict_DelItem raises KeyError). *)
From Coq Require Import ZArith List Bool Lia.
Import ListNotations.
Open Scope Z_scope.

Inductive kind := Ext | Py.
Inductive dictkind := NoDict | Eager | Managed.
(* what the class body says about m: cpdef (only extension types), def returning tag, nothing *)
Inductive mdecl := MCpdef | MDef (tag : Z) | MNone.

Record cls := mkcls {
  ckind : kind;
  cmro : list nat;        (* type.__mro__ without object, head = the class itself *)
  cdecl : mdecl;
  cdecl_dict : bool;      (* the class's own scope declares __dict__ (scope.lookup_here) *)
  cdictk : dictkind
}.
Definition hier := list cls.
Definition dcls := mkcls Py [] MNone false NoDict.
Definition getc (h : hier) (c : nat) : cls := nth c h dcls.
Definition validc (h : hier) (c : nat) : bool := (c <? length h)%nat.
Definition is_py (d : cls) : bool := match ckind d with Py => true | Ext => false end.

(* values that the name m can be bound to: a Python function returning tag n, or the method
   descriptor of extension type k's cpdef wrapper (PyMethodDef entry __pyx_pw_..k_m) *)
Inductive value := Fn (n : Z) | Wrap (k : nat).

Definition init_entry (c : nat) (d : cls) : option value :=
  match cdecl d with MCpdef => Some (Wrap c) | MDef n => Some (Fn n) | MNone => None end.

Record cstate := mkcs { cs_m : option value; cs_ver : Z }.
Record ostate := mkos { os_cls : nat; os_dict : option (option Z * Z) }.
Record world := mkw {
  w_cls : list cstate;
  w_objs : list ostate;
  (* per cpdef C body k: static __pyx_tp_dict_version, __pyx_obj_dict_version *)
  w_cache : list (nat * (Z * Z));
  w_next : Z              (* next fresh version tag *)
}.

Fixpoint init_cls (h : hier) (i : nat) (v : Z) : list cstate :=
  match h with
  | [] => []
  | d :: r => mkcs (init_entry i d) v :: init_cls r (S i) (v + 1)
  end.
Definition w0 (h : hier) : world := mkw (init_cls h 0 1) [] [] (Z.of_nat (length h) + 1).

Fixpoint upd {A} (l : list A) (i : nat) (x : A) : list A :=
  match l, i with
  | [], _ => []
  | _ :: r, O => x :: r
  | y :: r, S j => y :: upd r j x
  end.

(* ---------- Python attribute lookup (PyObject_GenericGetAttr / _PyType_Lookup) ---------- *)
(* cd c = current entry for m in the dict of class c *)
Fixpoint mro_find (cd : nat -> option value) (m : list nat) : option value :=
  match m with
  | [] => None
  | c :: r => match cd c with Some v => Some v | None => mro_find cd r end
  end.
Definition type_lookup (h : hier) (cd : nat -> option value) (c : nat) : option value :=
  mro_find cd (cmro (getc h c)).

Definition in_mro (h : hier) (k c : nat) : bool := existsb (Nat.eqb k) (cmro (getc h c)).

(* what obj.m resolves to *)
Inductive target := TWrap (k : nat) | TFn (n : Z) | TDescrErr | TNoAttr.

(* descriptor binding of a class attribute: functions and method descriptors are non-data
   descriptors; a method descriptor of k only applies to instances of k *)
Definition bind (h : hier) (c : nat) (v : value) : target :=
  match v with
  | Fn n => TFn n
  | Wrap k => if in_mro h k c then TWrap k else TDescrErr
  end.

(* instance dict entry shadows non-data descriptors; inst = entry for m in the instance dict *)
Definition lookup (h : hier) (cd : nat -> option value) (c : nat) (inst : option Z) : target :=
  match inst with
  | Some n => TFn n
  | None => match type_lookup h cd c with Some v => bind h c v | None => TNoAttr end
  end.

Inductive result := RBody (k : nat) | RFn (n : Z) | RTypeError | RAttrError | RInvalid.

(* ---------- the property side: plain Python semantics of the equivalent classes ---------- *)
Record pstate := mkp { p_cls : list (option value); p_objs : list (nat * option Z) }.
Definition p0 (h : hier) : pstate := mkp (map cs_m (init_cls h 0 1)) [].
Definition cd_p (s : pstate) (c : nat) : option value := nth c (p_cls s) None.

(* the class whose C body sits in the vtable slot of class c (= most derived cpdef definition);
   None: not an instance of any type with cpdef m - the typed C caller rejects the argument *)
Fixpoint first_cpdef (h : hier) (m : list nat) : option nat :=
  match m with
  | [] => None
  | c :: r => match cdecl (getc h c) with MCpdef => Some c | _ => first_cpdef h r end
  end.
Definition vslot (h : hier) (c : nat) : option nat := first_cpdef h (cmro (getc h c)).

Definition res_of_target (t : target) : result :=
  match t with
  | TWrap k => RBody k | TFn n => RFn n | TDescrErr => RTypeError | TNoAttr => RAttrError
  end.

(* dispatch_py: the implementation Python attribute lookup selects for obj.m() *)
Definition dispatch_py (h : hier) (s : pstate) (c : nat) (inst : option Z) : result :=
  res_of_target (lookup h (cd_p s) c inst).

(* K.m(obj): class attribute called with an explicit self *)
Definition call_via (h : hier) (cd : nat -> option value) (c oc : nat) : result :=
  match type_lookup h cd c with
  | Some (Fn n) => RFn n
  | Some (Wrap k) => if in_mro h k oc then RBody k else RTypeError
  | None => RAttrError
  end.

Inductive op :=
  | SetClass (c : nat) (v : value)     (* setattr(C, "m", v) *)
  | DelClass (c : nat)                 (* delattr(C, "m") *)
  | New (c : nat)                      (* C() *)
  | SetInst (o : nat) (n : Z)          (* o.m = <function returning n> *)
  | DelInst (o : nat)                  (* del o.m *)
  | CallPy (o : nat)                   (* o.m() from Python *)
  | CallC (o : nat)                    (* o.m() from cdef code through the vtable *)
  | CallVia (c o : nat).               (* C.m(o) from Python *)

Definition has_dict (h : hier) (c : nat) : bool :=
  match cdictk (getc h c) with NoDict => false | _ => true end.

Definition step_py (h : hier) (s : pstate) (o : op) : pstate * option result :=
  match o with
  | SetClass c v =>
      (if validc h c && is_py (getc h c) then mkp (upd (p_cls s) c (Some v)) (p_objs s) else s, None)
  | DelClass c =>
      (if validc h c && is_py (getc h c) then mkp (upd (p_cls s) c None) (p_objs s) else s, None)
  | New c => (if validc h c then mkp (p_cls s) (p_objs s ++ [(c, None)]) else s, None)
  | SetInst oi n =>
      (match nth_error (p_objs s) oi with
       | Some (c, _) => if has_dict h c then mkp (p_cls s) (upd (p_objs s) oi (c, Some n)) else s
       | None => s end, None)
  | DelInst oi =>
      (match nth_error (p_objs s) oi with
       | Some (c, _) => mkp (p_cls s) (upd (p_objs s) oi (c, None))
       | None => s end, None)
  | CallPy oi =>
      (s, Some match nth_error (p_objs s) oi with
               | Some (c, inst) => dispatch_py h s c inst
               | None => RInvalid end)
  | CallC oi =>
      (s, Some match nth_error (p_objs s) oi with
               | Some (c, inst) => match vslot h c with
                                   | Some _ => dispatch_py h s c inst
                                   | None => RInvalid end
               | None => RInvalid end)
  | CallVia c oi =>
      (s, Some match nth_error (p_objs s) oi with
               | Some (oc, _) => if validc h c then call_via h (cd_p s) c oc else RInvalid
               | None => RInvalid end)
  end.

Fixpoint run_py (h : hier) (s : pstate) (ops : list op) : list result :=
  match ops with
  | [] => []
  | o :: r => match snd (step_py h s o) with
              | Some x => x :: run_py h (fst (step_py h s o)) r
              | None => run_py h (fst (step_py h s o)) r
              end
  end.

(* ---------- the implementation side ---------- *)
Definition cs_get (w : world) (c : nat) : cstate := nth c (w_cls w) (mkcs None 0).
Definition cd_w (w : world) (c : nat) : option value := cs_m (cs_get w c).
Definition tp_ver (w : world) (c : nat) : Z := cs_ver (cs_get w c).     (* __Pyx_get_tp_dict_version *)
Definition inst_m (o : ostate) : option Z := match os_dict o with Some (e, _) => e | None => None end.

Definition set_class (w : world) (c : nat) (e : option value) : world :=
  mkw (upd (w_cls w) c (mkcs e (w_next w))) (w_objs w) (w_cache w) (w_next w + 1).

Definition set_obj (w : world) (oi : nat) (o : ostate) : world :=
  mkw (w_cls w) (upd (w_objs w) oi o) (w_cache w) (w_next w + 1).

(* __Pyx_get_object_dict_version: tag of the instance dict, 0 if there is none.  (Instances of
   Python subclasses of extension types are allocated by the extension type's tp_new through
   tp_alloc, not object_new: on CPython 3.12 they start with neither inline values nor a dict,
   and _PyObject_GetDictPtr returns a pointer to NULL until something creates the dict.) *)
Definition read_obj_ver (h : hier) (w : world) (oi : nat) : world * Z :=
  match nth_error (w_objs w) oi with
  | None => (w, 0)
  | Some o => match os_dict o with Some (_, v) => (w, v) | None => (w, 0) end
  end.

Definition VINIT : Z := -1.     (* __PYX_DICT_VERSION_INIT = (PY_UINT64_T) -1 *)
Fixpoint cache_find (l : list (nat * (Z * Z))) (k : nat) : Z * Z :=
  match l with
  | [] => (VINIT, VINIT)
  | (k', p) :: r => if Nat.eqb k' k then p else cache_find r k
  end.
Definition set_cache (w : world) (k : nat) (p : Z * Z) : world :=
  mkw (w_cls w) (w_objs w) ((k, p) :: w_cache w) (w_next w).

(* tp_dictoffset != 0 || HasFeature(IS_ABSTRACT | HEAPTYPE): false = "cannot be overridden" *)
Definition prefilter (h : hier) (c : nat) : bool := has_dict h c || is_py (getc h c).

Definition is_ext (d : cls) : bool := negb (is_py d).
(* fx = repaired variant: the result is cached only for types all of whose bases are immutable
   (static) types - then the dict of type(obj) is the only type dict that can ever change *)
Definition static_bases (h : hier) (c : nat) : bool :=
  forallb (fun b => is_ext (getc h b)) (tl (cmro (getc h c))).

(* GetAttrStr + IsSameCFunction + call; on "not overridden" refresh the cache (cached build) *)
Definition slow_path (cached fx : bool) (h : hier) (w : world) (k oi : nat) (o : ostate) : world * result :=
  let guard := tp_ver w (os_cls o) in
  match lookup h (cd_w w) (os_cls o) (inst_m o) with
  | TWrap k' =>
      if Nat.eqb k' k then
        if cached then
          let tv := tp_ver w (os_cls o) in
          let (w1, ov) := read_obj_ver h w oi in
          (set_cache w1 k (if (guard =? tv) && (negb fx || static_bases h (os_cls o)) then (tv, ov) else (VINIT, VINIT)), RBody k)
        else (w, RBody k)
      else (w, RBody k')        (* bound builtin of another wrapper: its C body, skip_dispatch = 1 *)
  | TFn n => (w, RFn n)
  | TDescrErr => (w, RTypeError)
  | TNoAttr => (w, RAttrError)
  end.

(* C entry point of class k's cpdef m *)
Definition cbody (cached fx : bool) (h : hier) (w : world) (k : nat) (skip : bool) (oi : nat) (o : ostate)
  : world * result :=
  if skip then (w, RBody k)
  else if cdecl_dict (getc h k) || prefilter h (os_cls o) then
    if cached then
      (* __Pyx_object_dict_version_matches: type dict first, instance dict only then *)
      if fst (cache_find (w_cache w) k) =? tp_ver w (os_cls o) then
        let (w1, v) := read_obj_ver h w oi in
        if snd (cache_find (w_cache w) k) =? v then (w1, RBody k)
        else slow_path cached fx h w1 k oi o
      else slow_path cached fx h w k oi o
    else slow_path cached fx h w k oi o
  else (w, RBody k).

(* dispatch_cy for a call from C: vtable slot of the object's type, skip_dispatch = 0 *)
Definition dispatch_cy (cached fx : bool) (h : hier) (w : world) (oi : nat) (o : ostate) : world * result :=
  match vslot h (os_cls o) with
  | Some k => cbody cached fx h w k false oi o
  | None => (w, RInvalid)
  end.

Definition step_cy (cached fx : bool) (h : hier) (w : world) (o : op) : world * option result :=
  match o with
  | SetClass c v =>
      (if validc h c && is_py (getc h c) then set_class w c (Some v) else w, None)
  | DelClass c =>
      (if validc h c && is_py (getc h c) then
         match cd_w w c with Some _ => set_class w c None | None => w end
       else w, None)
  | New c =>
      (if validc h c then
         match cdictk (getc h c) with
         | Eager => mkw (w_cls w) (w_objs w ++ [mkos c (Some (None, w_next w))]) (w_cache w) (w_next w + 1)
         | _ => mkw (w_cls w) (w_objs w ++ [mkos c None]) (w_cache w) (w_next w)
         end
       else w, None)
  | SetInst oi n =>
      (match nth_error (w_objs w) oi with
       | Some o => if has_dict h (os_cls o) then set_obj w oi (mkos (os_cls o) (Some (Some n, w_next w))) else w
       | None => w end, None)
  | DelInst oi =>
      (match nth_error (w_objs w) oi with
       | Some o => match os_dict o with
                   | Some (Some _, _) => set_obj w oi (mkos (os_cls o) (Some (None, w_next w)))
                   | Some (None, _) => w           (* KeyError -> AttributeError, dict unchanged *)
                   | None => match cdictk (getc h (os_cls o)) with
                             | Managed => set_obj w oi (mkos (os_cls o) (Some (None, w_next w)))
                             | _ => w end
                   end
       | None => w end, None)
  | CallPy oi =>
      match nth_error (w_objs w) oi with
      | Some o => match lookup h (cd_w w) (os_cls o) (inst_m o) with
                  | TWrap k => let (w1, r) := cbody cached fx h w k true oi o in (w1, Some r)
                  | t => (w, Some (res_of_target t))
                  end
      | None => (w, Some RInvalid)
      end
  | CallC oi =>
      match nth_error (w_objs w) oi with
      | Some o => let (w1, r) := dispatch_cy cached fx h w oi o in (w1, Some r)
      | None => (w, Some RInvalid)
      end
  | CallVia c oi =>
      match nth_error (w_objs w) oi with
      | Some o =>
          if validc h c then
            match type_lookup h (cd_w w) c with
            | Some (Fn n) => (w, Some (RFn n))
            | Some (Wrap k) => if in_mro h k (os_cls o)
                               then let (w1, r) := cbody cached fx h w k true oi o in (w1, Some r)
                               else (w, Some RTypeError)
            | None => (w, Some RAttrError)
            end
          else (w, Some RInvalid)
      | None => (w, Some RInvalid)
      end
  end.

Fixpoint run_cy (cached fx : bool) (h : hier) (w : world) (ops : list op) : list result :=
  match ops with
  | [] => []
  | o :: r => match snd (step_cy cached fx h w o) with
              | Some x => x :: run_cy cached fx h (fst (step_cy cached fx h w o)) r
              | None => run_cy cached fx h (fst (step_cy cached fx h w o)) r
              end
  end.

Fixpoint exec_cy (cached fx : bool) (h : hier) (w : world) (ops : list op) : world :=
  match ops with
  | [] => w
  | o :: r => exec_cy cached fx h (fst (step_cy cached fx h w o)) r
  end.

(* ---------- well-formedness of hierarchies (decidable) ---------- *)
Definition wf_cls (h : hier) (c : nat) (d : cls) : bool :=
  match cmro d with
  | [] => false
  | c0 :: r => Nat.eqb c0 c && negb (existsb (Nat.eqb c) r)
  end
  && forallb (validc h) (cmro d)
  && (if is_py d then match cdecl d with MCpdef => false | _ => true end
      else forallb (fun b => is_ext (getc h b)) (cmro d)).
Fixpoint wf_from (h : hier) (i : nat) (l : list cls) : bool :=
  match l with [] => true | d :: r => wf_cls h i d && wf_from h (S i) r end.
Definition wf_hier (h : hier) : bool := wf_from h 0 h.

(* the documented restriction: no plain `def m` in an extension type below a cpdef m *)
Definition no_ext_def (h : hier) : bool :=
  forallb (fun d => if is_py d then true else match cdecl d with MDef _ => false | _ => true end) h.

(* histories that mutate only classes without subclasses (nobody else has them in the MRO) *)
Definition is_leaf (h : hier) (c : nat) : bool :=
  forallb (fun d => match cmro d with [] => true | _ :: r => negb (existsb (Nat.eqb c) r) end) h.
Definition leaf_op (h : hier) (o : op) : bool :=
  match o with SetClass c _ | DelClass c => is_leaf h c | _ => true end.
