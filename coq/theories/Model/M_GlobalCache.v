(* Model of Cython/Utility/ObjectHandling.c: __Pyx_GetModuleGlobalName (the per-call-site
   dict-version cache, CYTHON_USE_DICT_VERSIONS) and its uncached variant, over a module
   dict and a builtins dict.  CPython's ma_version_tag contract is part of the dict model:
   every mutation of a dict gives it a version tag that no dict had before (a global counter). *)
From Coq Require Import ZArith List Bool Lia.
Import ListNotations.
Open Scope Z_scope.

Definition name := Z.
Definition value := Z.

(* association-list dicts; lookup returns the current binding *)
Fixpoint dget {V} (d : list (Z * V)) (k : Z) : option V :=
  match d with
  | [] => None
  | (k', v) :: r => if k' =? k then Some v else dget r k
  end.
Definition dset {V} (d : list (Z * V)) (k : Z) (v : V) := (k, v) :: d.
Fixpoint ddel {V} (d : list (Z * V)) (k : Z) : list (Z * V) :=
  match d with
  | [] => []
  | (k', v) :: r => if k' =? k then ddel r k else (k', v) :: ddel r k
  end.

Record world := {
  moddict : list (name * value);
  builtins : list (name * value);
  mod_version : Z;          (* ma_version_tag of the module dict; never 0 for a live dict *)
  next_version : Z;         (* pydict_global_version + 1: the next fresh tag *)
  (* per call site: static __pyx_dict_version (initially 0) / __pyx_dict_cached_value (NULL) *)
  sites : list (Z * (Z * option value))
}.

Definition w0 : world :=
  {| moddict := []; builtins := []; mod_version := 1; next_version := 2; sites := [] |}.

Inductive op :=
  | SetMod (k : name) (v : value) | DelMod (k : name)
  | SetBuiltin (k : name) (v : value) | DelBuiltin (k : name)
  | Lookup (site : Z).      (* a global-name read at call site `site`, whose name is fixed: nm site *)

Inductive result := Found (v : value) | NameError.

Definition site_get (w : world) (i : Z) : Z * option value :=
  match dget (sites w) i with Some c => c | None => (0, None) end.

(* __Pyx_GetBuiltinName *)
Definition builtin_lookup (w : world) (k : name) : result :=
  match dget (builtins w) k with Some v => Found v | None => NameError end.

(* mutation of the module dict: new version tag *)
Definition bump (w : world) (d : list (name * value)) : world :=
  {| moddict := d; builtins := builtins w; mod_version := next_version w;
     next_version := next_version w + 1; sites := sites w |}.
(* mutation of the builtins dict consumes a tag as well (global counter) *)
Definition bump_b (w : world) (b : list (name * value)) : world :=
  {| moddict := moddict w; builtins := b; mod_version := mod_version w;
     next_version := next_version w + 1; sites := sites w |}.

Definition with_sites (w : world) (s : list (Z * (Z * option value))) : world :=
  {| moddict := moddict w; builtins := builtins w; mod_version := mod_version w;
     next_version := next_version w; sites := s |}.

(* #define __Pyx_GetModuleGlobalName(var, name): version test, then cached value / builtins, or
   __Pyx__GetModuleGlobalName which looks the name up and refreshes the cache *)
Definition cache_hit (w : world) (i : Z) : bool := fst (site_get w i) =? mod_version w.

Definition lookup_cached_result (w : world) (i : Z) (k : name) : result :=
  if cache_hit w i then
    match snd (site_get w i) with Some v => Found v | None => builtin_lookup w k end
  else
    match dget (moddict w) k with Some v => Found v | None => builtin_lookup w k end.

Definition lookup_cached_world (w : world) (i : Z) (k : name) : world :=
  if cache_hit w i then w
  else with_sites w (dset (sites w) i (mod_version w, dget (moddict w) k)).

(* CYTHON_USE_DICT_VERSIONS == 0: plain lookup *)
Definition lookup_uncached (w : world) (k : name) : result :=
  match dget (moddict w) k with Some v => Found v | None => builtin_lookup w k end.

(* the language rule: module namespace first, then builtins, else NameError *)
Definition lookup_spec (w : world) (k : name) : result := lookup_uncached w k.

Definition step (cached : bool) (nm : Z -> name) (w : world) (o : op) : world * option result :=
  match o with
  | SetMod k v => (bump w (dset (moddict w) k v), None)
  | DelMod k => (match dget (moddict w) k with
                 | Some _ => bump w (ddel (moddict w) k)
                 | None => w end, None)          (* KeyError: dict not modified *)
  | SetBuiltin k v => (bump_b w (dset (builtins w) k v), None)
  | DelBuiltin k => (match dget (builtins w) k with
                     | Some _ => bump_b w (ddel (builtins w) k)
                     | None => w end, None)
  | Lookup i => if cached then (lookup_cached_world w i (nm i), Some (lookup_cached_result w i (nm i)))
                else (w, Some (lookup_uncached w (nm i)))
  end.

(* run a history, collecting the result of every lookup *)
Fixpoint run (cached : bool) (nm : Z -> name) (w : world) (ops : list op) : list result :=
  match ops with
  | [] => []
  | o :: r => match snd (step cached nm w o) with
              | Some x => x :: run cached nm (fst (step cached nm w o)) r
              | None => run cached nm (fst (step cached nm w o)) r
              end
  end.

(* names of call sites from an association list (for the extracted runner) *)
Definition nm_of (l : list (Z * name)) (i : Z) : name := match dget l i with Some k => k | None => 0 end.
