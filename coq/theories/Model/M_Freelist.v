(* Allocation of extension-type instances with a per-type freelist
   (Cython/Compiler/ModuleNode.py: generate_new_function / _generate_allocation_from_freelist /
   _generate_tpnew_initialisation_function / generate_dealloc_function, and
   Cython/Utility/ExtensionTypes.c: CheckTypeForFreelists, AllocateExtensionType).

   An object is the part of its struct after the PyObject header: the C-typed attributes as words
   ([b_c]) and the object attributes as references ([b_o]: 0 = NULL, 1 = None, anything else = some
   other object).  The freelist is the stack `freelist[0 .. freecount-1]`; its entries keep the
   bytes they had when they were freed.

     tp_new:      if (CYTHON_USE_FREELISTS && freecount > 0 && CHECK_TYPE(t)) {
                      o = freelist[--freecount];  memset(o, 0, sizeof(struct));  PyObject_INIT(o, t);
                  } else o = t->tp_alloc(t, 0);          (PyType_GenericAlloc: zeroed memory)
                  then the initialisation function: every object attribute = None
     tp_dealloc:  every object attribute is cleared (NULL), then
                  if (CYTHON_USE_FREELISTS && freecount < N && CHECK_TYPE(Py_TYPE(o)))
                      freelist[freecount++] = o;  else tp_free(o)

   CHECK_TYPE: without CYTHON_USE_TYPE_SPECS the basicsize must be the struct size and the type must
   not be a heap type / abstract; with type specs the type must be exactly the owner of the freelist.

   [c_memset] is the variant switch: true = the code as it is, false = the tp_new without the memset. *)
From Coq Require Import ZArith List Bool.
Import ListNotations.
Open Scope Z_scope.

Record blk := { b_c : list Z; b_o : list Z }.

(* the type an instance is created with, relative to the class that owns the freelist *)
Inductive tclass :=
| TExact       (* the class itself *)
| TSameSize    (* statically allocated subtype with the same basicsize (cdef subclass without new attributes) *)
| TOther.      (* heap type (Python subclass), other basicsize, abstract *)

Record cfg := {
  c_use_fl : bool;        (* CYTHON_USE_FREELISTS *)
  c_type_specs : bool;    (* CYTHON_USE_TYPE_SPECS *)
  c_memset : bool;        (* the freelist path zeroes the struct *)
  c_cap : nat;            (* @cython.freelist(N) *)
  c_nc : nat;             (* number of C words *)
  c_no : nat              (* number of object attributes *)
}.

Definition zero_blk (c : cfg) : blk := {| b_c := repeat 0 (c_nc c); b_o := repeat 0 (c_no c) |}.

Definition eligible (c : cfg) (t : tclass) : bool :=
  c_use_fl c && match t with TExact => true | TSameSize => negb (c_type_specs c) | TOther => false end.

(* the tp_new initialisation function: object attributes are set to None, C attributes untouched *)
Definition init (c : cfg) (b : blk) : blk := {| b_c := b_c b; b_o := repeat 1 (c_no c) |}.

Definition alloc_raw (c : cfg) (t : tclass) (fl : list blk) : blk * list blk :=
  if eligible c t then
    match fl with
    | b :: fl' => ((if c_memset c then zero_blk c else b), fl')
    | [] => (zero_blk c, [])
    end
  else (zero_blk c, fl).

Definition alloc (c : cfg) (t : tclass) (fl : list blk) : blk * list blk :=
  let (b, fl') := alloc_raw c t fl in (init c b, fl').

Definition dealloc (c : cfg) (t : tclass) (b : blk) (fl : list blk) : list blk :=
  let b' := {| b_c := b_c b; b_o := repeat 0 (length (b_o b)) |} in
  if eligible c t && (length fl <? c_cap c)%nat then b' :: fl else fl.

(* ---- programs over numbered variables *)
Definition store := list (option (tclass * blk)).

Definition sget (s : store) (i : nat) : option (tclass * blk) := nth i s None.

Fixpoint sset (s : store) (i : nat) (v : option (tclass * blk)) : store :=
  match i, s with
  | O, [] => [v]
  | O, _ :: r => v :: r
  | S j, [] => None :: sset [] j v
  | S j, x :: r => x :: sset r j v
  end.

Fixpoint upd (l : list Z) (i : nat) (v : Z) : list Z :=
  match l, i with
  | [], _ => []
  | _ :: r, O => v :: r
  | x :: r, S j => x :: upd r j v
  end.

Inductive op :=
| ONew (slot : nat) (t : tclass)       (* v[slot] = T()   : the new object exists before the old one is released *)
| OSetC (slot f : nat) (v : Z)         (* v[slot].cfield_f = v *)
| OSetO (slot f : nat) (v : Z)         (* v[slot].ofield_f = v *)
| OFree (slot : nat)                   (* del v[slot] *)
| OGet (slot : nat).                   (* observe every attribute of v[slot] *)

Definition release (c : cfg) (old : option (tclass * blk)) (fl : list blk) : list blk :=
  match old with Some (t, b) => dealloc c t b fl | None => fl end.

(* one step: new freelist, new store, observation *)
Definition step (c : cfg) (fl : list blk) (s : store) (o : op) : list blk * store * option (option blk) :=
  match o with
  | ONew i t => let (b, fl1) := alloc c t fl in
                (release c (sget s i) fl1, sset s i (Some (t, b)), None)
  | OSetC i f v => match sget s i with
                   | Some (t, b) => (fl, sset s i (Some (t, {| b_c := upd (b_c b) f v; b_o := b_o b |})), None)
                   | None => (fl, s, None)
                   end
  | OSetO i f v => match sget s i with
                   | Some (t, b) => (fl, sset s i (Some (t, {| b_c := b_c b; b_o := upd (b_o b) f v |})), None)
                   | None => (fl, s, None)
                   end
  | OFree i => (release c (sget s i) fl, sset s i None, None)
  | OGet i => (fl, s, Some (option_map snd (sget s i)))
  end.

Fixpoint run (c : cfg) (fl : list blk) (s : store) (p : list op) : list (option blk) * list blk :=
  match p with
  | [] => ([], fl)
  | o :: r => let '(fl1, s1, ob) := step c fl s o in
              let (tr, flz) := run c fl1 s1 r in
              (match ob with Some x => x :: tr | None => tr end, flz)
  end.

Definition trace (c : cfg) (fl : list blk) (s : store) (p : list op) : list (option blk) := fst (run c fl s p).
Definition final_freelist (c : cfg) (fl : list blk) (s : store) (p : list op) : list blk := snd (run c fl s p).

(* ---- the specification: every new object is zero / None, there is no freelist *)
Definition new_blk (nc no : nat) : blk := {| b_c := repeat 0 nc; b_o := repeat 1 no |}.

Definition step_ref (nc no : nat) (s : store) (o : op) : store * option (option blk) :=
  match o with
  | ONew i t => (sset s i (Some (t, new_blk nc no)), None)
  | OSetC i f v => match sget s i with
                   | Some (t, b) => (sset s i (Some (t, {| b_c := upd (b_c b) f v; b_o := b_o b |})), None)
                   | None => (s, None)
                   end
  | OSetO i f v => match sget s i with
                   | Some (t, b) => (sset s i (Some (t, {| b_c := b_c b; b_o := upd (b_o b) f v |})), None)
                   | None => (s, None)
                   end
  | OFree i => (sset s i None, None)
  | OGet i => (s, Some (option_map snd (sget s i)))
  end.

Fixpoint trace_ref (nc no : nat) (s : store) (p : list op) : list (option blk) :=
  match p with
  | [] => []
  | o :: r => let (s1, ob) := step_ref nc no s o in
              match ob with Some x => x :: trace_ref nc no s1 r | None => trace_ref nc no s1 r end
  end.

(* the object attributes of a trace *)
Definition obj_part (tr : list (option blk)) : list (option (list Z)) := map (option_map b_o) tr.

(* the witness of the variant without the memset: create, modify, free, create again, read *)
Definition witness_prog : list op := [ONew 0 TExact; OSetC 0 0 5; OFree 0; ONew 0 TExact; OGet 0].
Definition mk_cfg (use_fl specs mset : bool) (cap nc no : nat) : cfg :=
  {| c_use_fl := use_fl; c_type_specs := specs; c_memset := mset; c_cap := cap; c_nc := nc; c_no := no |}.
