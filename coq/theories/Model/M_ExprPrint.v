(* C25 model: Cython.CodeWriter.ExpressionWriter as used by EmbedSignature._fmt_expr for
   default values, an independent reader of the printed token list following Python's
   expression grammar, and CalculateQualifiedNamesTransform.
   Executable definitions only; proofs are in Proof/P_ExprPrint.v. *)
From Coq Require Import List NArith Bool Arith.
From CyVerif Require Import Gen.Gen_Prec.
Import ListNotations.
Open Scope list_scope.
Open Scope nat_scope.

Definition text := list N.                       (* code points *)

Fixpoint text_eqb (a b : text) : bool :=
  match a, b with
  | [], [] => true
  | x :: a', y :: b' => N.eqb x y && text_eqb a' b'
  | _, _ => false
  end.

(* ---------------------------------------------------------------- expressions *)
Inductive unop := UNeg | UPos | UInv.
Inductive binop := BAdd | BSub | BMul | BMatMul | BDiv | BFloorDiv | BMod
                 | BLShift | BRShift | BAnd | BOr | BXor | BPow.
Inductive cmpop := CLt | CLe | CGt | CGe | CEq | CNe | CIn | CNotIn | CIs | CIsNot.
Inductive boolop := LAnd | LOr.
Inductive numkind := KInt | KFloat | KImag.

(* The tree EmbedSignature sees (after ConstantFolding: a minus sign applied to a number
   literal has become part of the literal, [ENum k true s]). *)
Inductive expr :=
| EName (s : text)
| ENum (k : numkind) (neg : bool) (s : text)
| EStr (s : text)
| EBytes (s : text)
| ETrue | EFalse | ENone | EEllipsis
| EUn (o : unop) (e : expr)
| ENot (e : expr)
| EBin (o : binop) (a b : expr)
| ECmp (a : expr) (o : cmpop) (b : expr) (rest : cmps)      (* rest = cascade *)
| EBool (o : boolop) (a b : expr)
| ECond (tv c fv : expr)
| ETuple (l : exprs) | EList (l : exprs) | ESet (l : exprs) | EDict (l : items)
| EAttr (e : expr) (n : text)
| ESub (e : expr) (i : expr)
| ECall (fn : expr) (args : exprs)
| ELambda (ps : list text) (body : expr)
with exprs := ENil | ECons (e : expr) (l : exprs)
with items := INil | ICons (k v : expr) (l : items)
with cmps := CNil | CCons (o : cmpop) (e : expr) (l : cmps).

(* ---------------------------------------------------------------- tokens *)
Inductive layout := Tight | Spaced | After | Before.   (* white space only; the reader ignores it *)
Inductive optok := OAdd | OSub | OMul | OMatMul | ODiv | OFloorDiv | OMod | OLShift | ORShift
                 | OBitAnd | OBitOr | OBitXor | OPow | OInv | OLt | OLe | OGt | OGe | OEq | ONe.
Inductive kw := KNot | KAnd | KOr | KIn | KIs | KIf | KElse | KLambda.
Inductive tok :=
| TName (s : text) | TNum (k : numkind) (s : text) | TStr (s : text) | TBytes (s : text)
| TTrue | TFalse | TNone | TEllipsis
| TOp (o : optok) (l : layout) | TKw (k : kw) (l : layout)
| TLpar | TRpar | TLbrk | TRbrk | TLbrace | TRbrace | TComma (l : layout) | TColon | TDot.

(* ---------------------------------------------------------------- precedence tables *)
Definition name_un (o : unop) : text := match o with UNeg => [45%N] | UPos => [43%N] | UInv => [126%N] end.
Definition name_bin (o : binop) : text :=
  match o with
  | BAdd => [43%N] | BSub => [45%N] | BMul => [42%N] | BMatMul => [64%N] | BDiv => [47%N]
  | BFloorDiv => [47%N; 47%N] | BMod => [37%N] | BLShift => [60%N; 60%N] | BRShift => [62%N; 62%N]
  | BAnd => [38%N] | BOr => [124%N] | BXor => [94%N] | BPow => [42%N; 42%N]
  end.
Definition name_cmp (o : cmpop) : text :=
  match o with
  | CLt => [60%N] | CLe => [60%N; 61%N] | CGt => [62%N] | CGe => [62%N; 61%N] | CEq => [61%N; 61%N] | CNe => [33%N; 61%N]
  | CIn => [105%N; 110%N] | CNotIn => [110%N; 111%N; 116%N; 95%N; 105%N; 110%N] | CIs => [105%N; 115%N] | CIsNot => [105%N; 115%N; 95%N; 110%N; 111%N; 116%N]
  end.
Definition name_bool (o : boolop) : text := match o with LAnd => [97%N; 110%N; 100%N] | LOr => [111%N; 114%N] end.

Fixpoint lookup (k : text) (tbl : list (text * nat)) (d : nat) : nat :=
  match tbl with
  | [] => d
  | (k', v) :: tl => if text_eqb k k' then v else lookup k tl d
  end.

(* binop_precedence.get(op, 0) / unop_precedence[op] over the tables dumped from the running code *)
Definition prec_bin (o : binop) : nat := lookup (name_bin o) gen_binop_prec 0.
Definition prec_cmp (o : cmpop) : nat := lookup (name_cmp o) gen_binop_prec 0.
Definition prec_bool (o : boolop) : nat := lookup (name_bool o) gen_binop_prec 0.
Definition prec_un (o : unop) : nat := lookup (name_un o) gen_unop_prec 0.
Definition prec_not : nat := lookup [110%N; 111%N; 116%N] gen_unop_prec 0.
Definition test_prec : nat := gen_test_prec.
Definition atom_prec : nat := gen_atom_prec.

Definition tok_un (o : unop) : optok := match o with UNeg => OSub | UPos => OAdd | UInv => OInv end.
Definition tok_bin (o : binop) : optok :=
  match o with
  | BAdd => OAdd | BSub => OSub | BMul => OMul | BMatMul => OMatMul | BDiv => ODiv
  | BFloorDiv => OFloorDiv | BMod => OMod | BLShift => OLShift | BRShift => ORShift
  | BAnd => OBitAnd | BOr => OBitOr | BXor => OBitXor | BPow => OPow
  end.
Definition cmp_toks (o : cmpop) : list tok :=
  match o with
  | CLt => [TOp OLt Spaced] | CLe => [TOp OLe Spaced] | CGt => [TOp OGt Spaced]
  | CGe => [TOp OGe Spaced] | CEq => [TOp OEq Spaced] | CNe => [TOp ONe Spaced]
  | CIn => [TKw KIn Spaced] | CNotIn => [TKw KNot Before; TKw KIn Spaced]
  | CIs => [TKw KIs Spaced] | CIsNot => [TKw KIs Before; TKw KNot Spaced]
  end.
Definition kw_bool (o : boolop) : kw := match o with LAnd => KAnd | LOr => KOr end.

Definition wrap (b : bool) (ts : list tok) : list tok := if b then TLpar :: ts ++ [TRpar] else ts.

Fixpoint name_toks (ps : list text) : list tok :=
  match ps with
  | [] => []
  | [p] => [TName p]
  | p :: tl => TName p :: TComma After :: name_toks tl
  end.
Definition lambda_head (ps : list text) : list tok :=
  TKw KLambda (match ps with [] => Tight | _ => After end) :: name_toks ps ++ [TColon].

Definition is_single (l : exprs) : bool := match l with ECons _ ENil => true | _ => false end.
Definition tuple_comma (l : exprs) : list tok := if is_single l then [TComma Tight] else [].

(* ---------------------------------------------------------------- the printer as it is
   [top] = self.precedence[-1]: the precedence of the nearest enclosing operator node
   (containers, calls, conditional expressions ... do not push).  operator_enter/exit
   parenthesise when  old_prec > new_prec  (strictly), all operands are visited at the
   operator's own precedence; cascades are not visited; LambdaNode falls to visit_Node
   (allow_unknown_nodes): "...". *)
Fixpoint pr_old (top : nat) (e : expr) : list tok :=
  match e with
  | EName s => [TName s]
  | ENum k neg s => if neg then [TOp OSub Tight; TNum k s] else [TNum k s]
  | EStr s => [TStr s]
  | EBytes s => [TBytes s]
  | ETrue => [TTrue] | EFalse => [TFalse] | ENone => [TNone] | EEllipsis => [TEllipsis]
  | EUn o a => let p := prec_un o in wrap (p <? top) (TOp (tok_un o) Tight :: pr_old p a)
  | ENot a => let p := prec_not in wrap (p <? top) (TKw KNot After :: pr_old p a)
  | EBin o a b =>
      let p := prec_bin o in
      let plain := wrap (p <? top) (pr_old p a ++ [TOp (tok_bin o) Spaced] ++ pr_old p b) in
      (* the parser stores  [..] * n  /  (..) * n  as the display node with a mult_factor, which
         emit_sequence lists among the elements (subexpr_nodes()) *)
      match o, a with
      | BMul, EList l => TLbrk :: seqt_old top l (pr_old top b) ++ [TRbrk]
      | BMul, ETuple l => TLpar :: seqt_old top l (pr_old top b) ++ [TRpar]
      | _, _ => plain
      end
  | ECmp a o b _ => let p := prec_cmp o in
      wrap (p <? top) (pr_old p a ++ cmp_toks o ++ pr_old p b)
  | EBool o a b => let p := prec_bool o in
      wrap (p <? top) (pr_old p a ++ [TKw (kw_bool o) Spaced] ++ pr_old p b)
  | ECond tv c fv => pr_old top tv ++ [TKw KIf Spaced] ++ pr_old top c ++ [TKw KElse Spaced] ++ pr_old top fv
  | ELambda _ _ => [TEllipsis]
  | ETuple l => TLpar :: seq_old top l ++ [TRpar]
  | EList l => TLbrk :: seq_old top l ++ [TRbrk]
  | ESet l => match l with
              | ENil => [TName [115%N; 101%N; 116%N]; TLpar; TRpar]
              | _ => TLbrace :: seq_old top l ++ [TRbrace]
              end
  | EDict l => TLbrace :: items_old top l ++ [TRbrace]
  | EAttr a n => pr_old top a ++ [TDot; TName n]
  | ESub a i => pr_old top a ++ [TLbrk] ++
      (match i with
       | ETuple l => match l with ENil => [TLpar; TRpar] | _ => seq_old top l end
       | EBin BMul (ETuple l) b => seqt_old top l (pr_old top b)     (* index tuple with a mult_factor *)
       | _ => pr_old top i
       end) ++ [TRbrk]
  | ECall fn args => pr_old top fn ++ TLpar :: seq_old top args ++ [TRpar]
  end
with seq_old (top : nat) (l : exprs) : list tok :=
  match l with
  | ENil => []
  | ECons e l' => match l' with
                  | ENil => pr_old top e
                  | _ => pr_old top e ++ [TComma After] ++ seq_old top l'
                  end
  end
with seqt_old (top : nat) (l : exprs) (last : list tok) : list tok :=
  match l with
  | ENil => last
  | ECons e l' => pr_old top e ++ [TComma After] ++ seqt_old top l' last
  end
with items_old (top : nat) (l : items) : list tok :=
  match l with
  | INil => []
  | ICons k v l' => pr_old top k ++ [TColon] ++ pr_old top v ++
                    match l' with INil => [] | _ => [TComma After] ++ items_old top l' end
  end.

(* ---------------------------------------------------------------- the repaired printer
   (proposed_fixes/C25-*.diff): [top] = the lowest precedence allowed without parentheses
   at this position; every operand is visited with the precedence Python's grammar asks for
   at its position (visit_prec). *)
Fixpoint pr_new (top : nat) (e : expr) : list tok :=
  match e with
  | EName s => [TName s]
  | ENum k neg s => if neg then wrap (prec_un UNeg <? top) [TOp OSub Tight; TNum k s] else [TNum k s]
  | EStr s => [TStr s]
  | EBytes s => [TBytes s]
  | ETrue => [TTrue] | EFalse => [TFalse] | ENone => [TNone] | EEllipsis => [TEllipsis]
  | EUn o a => let p := prec_un o in wrap (p <? top) (TOp (tok_un o) Tight :: pr_new p a)
  | ENot a => let p := prec_not in wrap (p <? top) (TKw KNot After :: pr_new p a)
  | EBin o a b => let p := prec_bin o in
      wrap (p <? top)
        (match o with
         | BPow => pr_new (S p) a ++ [TOp OPow Spaced] ++ pr_new (prec_un UNeg) b
         | _ => pr_new p a ++ [TOp (tok_bin o) Spaced] ++ pr_new (S p) b
         end)
  | ECmp a o b r => let p := prec_cmp o in
      wrap (p <? top) (pr_new (S p) a ++ cmp_toks o ++ pr_new (S p) b ++ cmps_new (S p) r)
  | EBool o a b => let p := prec_bool o in
      wrap (p <? top) (pr_new (S p) a ++ [TKw (kw_bool o) Spaced] ++ pr_new p b)
  | ECond tv c fv =>
      wrap (test_prec <? top)
        (pr_new (prec_bool LOr) tv ++ [TKw KIf Spaced] ++ pr_new (prec_bool LOr) c ++
         [TKw KElse Spaced] ++ pr_new test_prec fv)
  | ELambda ps b => wrap (test_prec <? top) (lambda_head ps ++ pr_new test_prec b)
  | ETuple l => TLpar :: seq_new l ++ tuple_comma l ++ [TRpar]
  | EList l => TLbrk :: seq_new l ++ [TRbrk]
  | ESet l => match l with
              | ENil => [TName [115%N; 101%N; 116%N]; TLpar; TRpar]
              | _ => TLbrace :: seq_new l ++ [TRbrace]
              end
  | EDict l => TLbrace :: items_new l ++ [TRbrace]
  | EAttr a n =>
      (match a with
       | ENum KInt _ _ => TLpar :: pr_new test_prec a ++ [TRpar]
       | _ => pr_new atom_prec a
       end) ++ [TDot; TName n]
  | ESub a i => pr_new atom_prec a ++ [TLbrk] ++
      (match i with
       | ETuple l => match l with ENil => [TLpar; TRpar] | _ => seq_new l ++ tuple_comma l end
       | _ => pr_new test_prec i
       end) ++ [TRbrk]
  | ECall fn args => pr_new atom_prec fn ++ TLpar :: seq_new args ++ [TRpar]
  end
with seq_new (l : exprs) : list tok :=
  match l with
  | ENil => []
  | ECons e l' => match l' with
                  | ENil => pr_new test_prec e
                  | _ => pr_new test_prec e ++ [TComma After] ++ seq_new l'
                  end
  end
with items_new (l : items) : list tok :=
  match l with
  | INil => []
  | ICons k v l' => pr_new test_prec k ++ [TColon] ++ pr_new test_prec v ++
                    match l' with INil => [] | _ => [TComma After] ++ items_new l' end
  end
with cmps_new (p : nat) (l : cmps) : list tok :=
  match l with
  | CNil => []
  | CCons o e l' => cmp_toks o ++ pr_new p e ++ cmps_new p l'
  end.

(* writer.write(node): the stack starts as [0] *)
Definition print (fixed : bool) (e : expr) : list tok := if fixed then pr_new 0 e else pr_old 0 e.

(* ---------------------------------------------------------------- text of a token list *)
Definition hexdig (n : N) : N := if (n <? 10)%N then (48 + n)%N else (87 + n)%N.
Definition hex2 (c : N) : text := [hexdig (N.div c 16); hexdig (N.modulo c 16)].
Fixpoint hexn (digits : nat) (c : N) : text :=
  match digits with
  | O => []
  | S d => hexn d (N.div c 16) ++ [hexdig (N.modulo c 16)]
  end.
Definition has (c : N) (s : text) : bool := existsb (N.eqb c) s.
(* CPython unicode_repr / bytes_repr quote choice *)
Definition quote_of (s : text) : N := if has 39 s && negb (has 34 s) then 34%N else 39%N.
(* Latin-1 code points that str.isprintable() rejects; code points >= 256 are taken to be
   printable (the Unicode database is not modelled; see TRUSTED in props/C25.py) *)
Definition str_escape (q c : N) : text :=
  if (c =? q)%N || (c =? 92)%N then [92%N; c]
  else if (c =? 9)%N then [92%N; 116%N] else if (c =? 10)%N then [92%N; 110%N] else if (c =? 13)%N then [92%N; 114%N]
  else if (c <? 32)%N || (c =? 127)%N then 92%N :: 120%N :: hex2 c
  else if (c <? 127)%N then [c]
  else if (c <? 161)%N || (c =? 173)%N then 92%N :: 120%N :: hex2 c
  else [c].
Definition bytes_escape (q c : N) : text :=
  if (c =? q)%N || (c =? 92)%N then [92%N; c]
  else if (c =? 9)%N then [92%N; 116%N] else if (c =? 10)%N then [92%N; 110%N] else if (c =? 13)%N then [92%N; 114%N]
  else if (c <? 32)%N || (127 <=? c)%N then 92%N :: 120%N :: hex2 c
  else [c].
Definition repr_str (s : text) : text :=
  let q := quote_of s in q :: flat_map (str_escape q) s ++ [q].
Definition repr_bytes (s : text) : text :=
  let q := quote_of s in 98%N :: q :: flat_map (bytes_escape q) s ++ [q].

Definition op_text (o : optok) : text :=
  match o with
  | OAdd => [43%N] | OSub => [45%N] | OMul => [42%N] | OMatMul => [64%N] | ODiv => [47%N]
  | OFloorDiv => [47%N; 47%N] | OMod => [37%N] | OLShift => [60%N; 60%N] | ORShift => [62%N; 62%N]
  | OBitAnd => [38%N] | OBitOr => [124%N] | OBitXor => [94%N] | OPow => [42%N; 42%N] | OInv => [126%N]
  | OLt => [60%N] | OLe => [60%N; 61%N] | OGt => [62%N] | OGe => [62%N; 61%N] | OEq => [61%N; 61%N] | ONe => [33%N; 61%N]
  end.
Definition kw_text (k : kw) : text :=
  match k with
  | KNot => [110%N; 111%N; 116%N] | KAnd => [97%N; 110%N; 100%N] | KOr => [111%N; 114%N] | KIn => [105%N; 110%N] | KIs => [105%N; 115%N]
  | KIf => [105%N; 102%N] | KElse => [101%N; 108%N; 115%N; 101%N] | KLambda => [108%N; 97%N; 109%N; 98%N; 100%N; 97%N]
  end.
Definition lay (l : layout) (s : text) : text :=
  match l with
  | Tight => s | Spaced => 32%N :: s ++ [32%N] | After => s ++ [32%N] | Before => 32%N :: s
  end.
Definition tok_text (x : tok) : text :=
  match x with
  | TName s => s | TNum _ s => s | TStr s => repr_str s | TBytes s => repr_bytes s
  | TTrue => [84%N; 114%N; 117%N; 101%N] | TFalse => [70%N; 97%N; 108%N; 115%N; 101%N] | TNone => [78%N; 111%N; 110%N; 101%N] | TEllipsis => [46%N; 46%N; 46%N]
  | TOp o l => lay l (op_text o) | TKw k l => lay l (kw_text k)
  | TLpar => [40%N] | TRpar => [41%N] | TLbrk => [91%N] | TRbrk => [93%N]
  | TLbrace => [123%N] | TRbrace => [125%N] | TComma l => lay l [44%N] | TColon => [58%N; 32%N] | TDot => [46%N]
  end.
Definition render (ts : list tok) : text := flat_map tok_text ts.

(* ---------------------------------------------------------------- the reader
   Recursive descent over the token list, one level per rule of Python's expression grammar
   (independent of the printer and of the generated table):
     0 test: lambdef | or_test ['if' or_test 'else' test]      1 or_test (Cython: right nested)
     2 and_test   3 not_test   4 comparison (chain)   5 |   6 ^   7 &   8 << >>   9 + -
     10 * @ / // %   11 factor (+ - ~)   12 power: primary ['**' factor]   13 primary
   Fuel bounds the recursion depth; running out of it is the explicit result [OutOfFuel]. *)
Inductive res (A : Type) := Ok (a : A) (rest : list tok) | Err | OutOfFuel.
Arguments Ok {A}. Arguments Err {A}. Arguments OutOfFuel {A}.
Definition bind {A B : Type} (r : res A) (k : A -> list tok -> res B) : res B :=
  match r with Ok a rest => k a rest | Err => Err | OutOfFuel => OutOfFuel end.

Definition binop_of_tok (o : optok) : option (binop * nat) :=
  match o with
  | OBitOr => Some (BOr, 5) | OBitXor => Some (BXor, 6) | OBitAnd => Some (BAnd, 7)
  | OLShift => Some (BLShift, 8) | ORShift => Some (BRShift, 8)
  | OAdd => Some (BAdd, 9) | OSub => Some (BSub, 9)
  | OMul => Some (BMul, 10) | OMatMul => Some (BMatMul, 10) | ODiv => Some (BDiv, 10)
  | OFloorDiv => Some (BFloorDiv, 10) | OMod => Some (BMod, 10)
  | _ => None
  end.
Definition unop_of_tok (o : optok) : option unop :=
  match o with OSub => Some UNeg | OAdd => Some UPos | OInv => Some UInv | _ => None end.
Definition cmpop_of (ts : list tok) : option (cmpop * list tok) :=
  match ts with
  | TOp OLt _ :: r => Some (CLt, r) | TOp OLe _ :: r => Some (CLe, r)
  | TOp OGt _ :: r => Some (CGt, r) | TOp OGe _ :: r => Some (CGe, r)
  | TOp OEq _ :: r => Some (CEq, r) | TOp ONe _ :: r => Some (CNe, r)
  | TKw KIn _ :: r => Some (CIn, r)
  | TKw KNot _ :: TKw KIn _ :: r => Some (CNotIn, r)
  | TKw KIs _ :: TKw KNot _ :: r => Some (CIsNot, r)
  | TKw KIs _ :: r => Some (CIs, r)
  | _ => None
  end.
(* a minus sign directly in front of a number literal is part of the literal (ConstantFolding) *)
Definition mk_un (u : unop) (a : expr) : expr :=
  match u, a with
  | UNeg, ENum KImag false s => EUn u a          (* not folded: UnopNode over ImagNode *)
  | UNeg, ENum k false s => ENum k true s
  | _, _ => EUn u a
  end.
Fixpoint pnames (ts : list tok) : list text * list tok :=
  match ts with
  | TName n :: TComma _ :: ts' => let (l, r) := pnames ts' in (n :: l, r)
  | TName n :: ts' => ([n], ts')
  | _ => ([], ts)
  end.
Definition closer (ts : list tok) : bool :=
  match ts with
  | [] => true | TRpar :: _ => true | TRbrk :: _ => true | TRbrace :: _ => true
  | _ => false
  end.

Fixpoint parse (f : nat) (L : nat) (ts : list tok) {struct f} : res expr :=
  match f with
  | O => OutOfFuel
  | S f' =>
    match L with
    | 0 =>
      match ts with
      | TKw KLambda _ :: ts1 =>
          let (ps, ts2) := pnames ts1 in
          match ts2 with
          | TColon :: ts3 => bind (parse f' 0 ts3) (fun b r => Ok (ELambda ps b) r)
          | _ => Err
          end
      | _ =>
          bind (parse f' 1 ts) (fun c r =>
            match r with
            | TKw KIf _ :: r1 =>
                bind (parse f' 1 r1) (fun cnd r2 =>
                  match r2 with
                  | TKw KElse _ :: r3 => bind (parse f' 0 r3) (fun fv r4 => Ok (ECond c cnd fv) r4)
                  | _ => Err
                  end)
            | _ => Ok c r
            end)
      end
    | 1 =>
      bind (parse f' 2 ts) (fun a r =>
        match r with
        | TKw KOr _ :: r1 => bind (parse f' 1 r1) (fun b r2 => Ok (EBool LOr a b) r2)
        | _ => Ok a r
        end)
    | 2 =>
      bind (parse f' 3 ts) (fun a r =>
        match r with
        | TKw KAnd _ :: r1 => bind (parse f' 2 r1) (fun b r2 => Ok (EBool LAnd a b) r2)
        | _ => Ok a r
        end)
    | 3 =>
      match ts with
      | TKw KNot _ :: ts1 => bind (parse f' 3 ts1) (fun a r => Ok (ENot a) r)
      | _ => parse f' 4 ts
      end
    | 4 =>
      bind (parse f' 5 ts) (fun a r =>
        match cmpop_of r with
        | Some (o, r1) =>
            bind (parse f' 5 r1) (fun b r2 =>
              bind (pcmps f' r2) (fun cs r3 => Ok (ECmp a o b cs) r3))
        | None => Ok a r
        end)
    | 11 =>
      match ts with
      | TOp o _ :: ts1 =>
          match unop_of_tok o with
          | Some u => bind (parse f' 11 ts1) (fun a r => Ok (mk_un u a) r)
          | None => parse f' 12 ts
          end
      | _ => parse f' 12 ts
      end
    | 12 =>
      bind (parse f' 13 ts) (fun a r =>
        match r with
        | TOp OPow _ :: r1 => bind (parse f' 11 r1) (fun b r2 => Ok (EBin BPow a b) r2)
        | _ => Ok a r
        end)
    | 13 => bind (atom f' ts) (fun a r => postfix f' a r)
    | _ => (* 5 .. 10: left associative chains; anything above 13 is not a level *)
      if L <=? 10 then bind (parse f' (S L) ts) (fun a r => loop f' L a r) else Err
    end
  end
with loop (f : nat) (L : nat) (acc : expr) (ts : list tok) {struct f} : res expr :=
  match f with
  | O => OutOfFuel
  | S f' =>
    match ts with
    | TOp o _ :: ts1 =>
        match binop_of_tok o with
        | Some (b, lv) =>
            if lv =? L then bind (parse f' (S L) ts1) (fun x r => loop f' L (EBin b acc x) r)
            else Ok acc ts
        | None => Ok acc ts
        end
    | _ => Ok acc ts
    end
  end
with pcmps (f : nat) (ts : list tok) {struct f} : res cmps :=
  match f with
  | O => OutOfFuel
  | S f' =>
    match cmpop_of ts with
    | Some (o, r1) =>
        bind (parse f' 5 r1) (fun b r2 => bind (pcmps f' r2) (fun cs r3 => Ok (CCons o b cs) r3))
    | None => Ok CNil ts
    end
  end
with pseq (f : nat) (ts : list tok) {struct f} : res exprs :=
  match f with
  | O => OutOfFuel
  | S f' =>
    if closer ts then Ok ENil ts
    else bind (parse f' 0 ts) (fun e r =>
           match r with
           | TComma _ :: r1 => bind (pseq f' r1) (fun l r2 => Ok (ECons e l) r2)
           | _ => Ok (ECons e ENil) r
           end)
  end
with pitems (f : nat) (ts : list tok) {struct f} : res items :=
  match f with
  | O => OutOfFuel
  | S f' =>
    if closer ts then Ok INil ts
    else bind (parse f' 0 ts) (fun k r =>
           match r with
           | TColon :: r1 =>
               bind (parse f' 0 r1) (fun v r2 =>
                 match r2 with
                 | TComma _ :: r3 => bind (pitems f' r3) (fun l r4 => Ok (ICons k v l) r4)
                 | _ => Ok (ICons k v INil) r2
                 end)
           | _ => Err
           end)
  end
with atom (f : nat) (ts : list tok) {struct f} : res expr :=
  match f with
  | O => OutOfFuel
  | S f' =>
    match ts with
    | TName s :: r => Ok (EName s) r
    | TNum k s :: r => Ok (ENum k false s) r
    | TStr s :: r => Ok (EStr s) r
    | TBytes s :: r => Ok (EBytes s) r
    | TTrue :: r => Ok ETrue r
    | TFalse :: r => Ok EFalse r
    | TNone :: r => Ok ENone r
    | TEllipsis :: r => Ok EEllipsis r
    | TLpar :: r1 =>
        if closer r1 then match r1 with TRpar :: r2 => Ok (ETuple ENil) r2 | _ => Err end
        else bind (parse f' 0 r1) (fun e r2 =>
          match r2 with
          | TRpar :: r3 => Ok e r3
          | TComma _ :: r3 =>
              bind (pseq f' r3) (fun l r4 =>
                match r4 with TRpar :: r5 => Ok (ETuple (ECons e l)) r5 | _ => Err end)
          | _ => Err
          end)
    | TLbrk :: r1 =>
        bind (pseq f' r1) (fun l r2 =>
          match r2 with TRbrk :: r3 => Ok (EList l) r3 | _ => Err end)
    | TLbrace :: r1 =>
        if closer r1 then match r1 with TRbrace :: r2 => Ok (EDict INil) r2 | _ => Err end
        else bind (parse f' 0 r1) (fun k r2 =>
          match r2 with
          | TColon :: r3 =>
              bind (parse f' 0 r3) (fun v r4 =>
                match r4 with
                | TComma _ :: r5 =>
                    bind (pitems f' r5) (fun l r6 =>
                      match r6 with TRbrace :: r7 => Ok (EDict (ICons k v l)) r7 | _ => Err end)
                | TRbrace :: r5 => Ok (EDict (ICons k v INil)) r5
                | _ => Err
                end)
          | TComma _ :: r3 =>
              bind (pseq f' r3) (fun l r4 =>
                match r4 with TRbrace :: r5 => Ok (ESet (ECons k l)) r5 | _ => Err end)
          | TRbrace :: r3 => Ok (ESet (ECons k ENil)) r3
          | _ => Err
          end)
    | _ => Err
    end
  end
with postfix (f : nat) (acc : expr) (ts : list tok) {struct f} : res expr :=
  match f with
  | O => OutOfFuel
  | S f' =>
    match ts with
    | TDot :: TName n :: r => postfix f' (EAttr acc n) r
    | TLbrk :: r1 =>
        bind (parse f' 0 r1) (fun i r2 =>
          match r2 with
          | TRbrk :: r3 => postfix f' (ESub acc i) r3
          | TComma _ :: r3 =>
              bind (pseq f' r3) (fun l r4 =>
                match r4 with
                | TRbrk :: r5 => postfix f' (ESub acc (ETuple (ECons i l))) r5
                | _ => Err
                end)
          | _ => Err
          end)
    | TLpar :: r1 =>
        bind (pseq f' r1) (fun l r2 =>
          match r2 with TRpar :: r3 => postfix f' (ECall acc l) r3 | _ => Err end)
    | _ => Ok acc ts
    end
  end.

Inductive reparsed := RExpr (e : expr) | RError | RTrailing | ROutOfFuel.
Definition reparse (fuel : nat) (ts : list tok) : reparsed :=
  match parse fuel 0 ts with
  | Ok e [] => RExpr e
  | Ok _ (_ :: _) => RTrailing
  | Err => RError
  | OutOfFuel => ROutOfFuel
  end.

(* structural equality, for the driver and for computed witnesses *)
Definition unop_eqb (a b : unop) : bool :=
  match a, b with UNeg, UNeg | UPos, UPos | UInv, UInv => true | _, _ => false end.
Definition binop_eqb (a b : binop) : bool :=
  match a, b with
  | BAdd, BAdd | BSub, BSub | BMul, BMul | BMatMul, BMatMul | BDiv, BDiv | BFloorDiv, BFloorDiv
  | BMod, BMod | BLShift, BLShift | BRShift, BRShift | BAnd, BAnd | BOr, BOr | BXor, BXor
  | BPow, BPow => true
  | _, _ => false
  end.
Definition cmpop_eqb (a b : cmpop) : bool :=
  match a, b with
  | CLt, CLt | CLe, CLe | CGt, CGt | CGe, CGe | CEq, CEq | CNe, CNe | CIn, CIn
  | CNotIn, CNotIn | CIs, CIs | CIsNot, CIsNot => true
  | _, _ => false
  end.
Definition boolop_eqb (a b : boolop) : bool :=
  match a, b with LAnd, LAnd | LOr, LOr => true | _, _ => false end.
Definition numkind_eqb (a b : numkind) : bool :=
  match a, b with KInt, KInt | KFloat, KFloat | KImag, KImag => true | _, _ => false end.
Fixpoint names_eqb (a b : list text) : bool :=
  match a, b with
  | [], [] => true
  | x :: a', y :: b' => text_eqb x y && names_eqb a' b'
  | _, _ => false
  end.
Fixpoint expr_eqb (x y : expr) : bool :=
  match x, y with
  | EName a, EName b => text_eqb a b
  | ENum k n a, ENum k' n' b => numkind_eqb k k' && Bool.eqb n n' && text_eqb a b
  | EStr a, EStr b => text_eqb a b
  | EBytes a, EBytes b => text_eqb a b
  | ETrue, ETrue | EFalse, EFalse | ENone, ENone | EEllipsis, EEllipsis => true
  | EUn o a, EUn o' b => unop_eqb o o' && expr_eqb a b
  | ENot a, ENot b => expr_eqb a b
  | EBin o a b, EBin o' a' b' => binop_eqb o o' && expr_eqb a a' && expr_eqb b b'
  | ECmp a o b r, ECmp a' o' b' r' => cmpop_eqb o o' && expr_eqb a a' && expr_eqb b b' && cmps_eqb r r'
  | EBool o a b, EBool o' a' b' => boolop_eqb o o' && expr_eqb a a' && expr_eqb b b'
  | ECond a b c, ECond a' b' c' => expr_eqb a a' && expr_eqb b b' && expr_eqb c c'
  | ETuple l, ETuple l' | EList l, EList l' | ESet l, ESet l' => exprs_eqb l l'
  | EDict l, EDict l' => items_eqb l l'
  | EAttr a n, EAttr a' n' => expr_eqb a a' && text_eqb n n'
  | ESub a i, ESub a' i' => expr_eqb a a' && expr_eqb i i'
  | ECall a l, ECall a' l' => expr_eqb a a' && exprs_eqb l l'
  | ELambda p b, ELambda p' b' => names_eqb p p' && expr_eqb b b'
  | _, _ => false
  end
with exprs_eqb (x y : exprs) : bool :=
  match x, y with
  | ENil, ENil => true
  | ECons a l, ECons a' l' => expr_eqb a a' && exprs_eqb l l'
  | _, _ => false
  end
with items_eqb (x y : items) : bool :=
  match x, y with
  | INil, INil => true
  | ICons k v l, ICons k' v' l' => expr_eqb k k' && expr_eqb v v' && items_eqb l l'
  | _, _ => false
  end
with cmps_eqb (x y : cmps) : bool :=
  match x, y with
  | CNil, CNil => true
  | CCons o a l, CCons o' a' l' => cmpop_eqb o o' && expr_eqb a a' && cmps_eqb l l'
  | _, _ => false
  end.

(* well-formed trees: what the compiler's parser + ConstantFolding hand to the printer *)
Definition not_plain_num (e : expr) : bool :=
  match e with ENum KImag _ _ => true | ENum _ false _ => false | _ => true end.
Fixpoint wf (e : expr) : bool :=
  match e with
  | EUn o a => wf a && match o with UNeg => not_plain_num a | _ => true end
  | ENot a => wf a
  | EBin _ a b => wf a && wf b
  | ECmp a _ b r => wf a && wf b && wf_cmps r
  | EBool _ a b => wf a && wf b
  | ECond a b c => wf a && wf b && wf c
  | ETuple l | EList l => wf_seq l
  | ESet l => wf_seq l && match l with ENil => false | _ => true end
  | EDict l => wf_items l
  | EAttr a _ => wf a
  | ESub a i => wf a && wf i
  | ECall a l => wf a && wf_seq l
  | ELambda _ b => wf b
  | ENum KImag true _ => false         (* ConstantFolding folds the sign into int and float literals only *)
  | _ => true
  end
with wf_seq (l : exprs) : bool :=
  match l with ENil => true | ECons e l' => wf e && wf_seq l' end
with wf_items (l : items) : bool :=
  match l with INil => true | ICons k v l' => wf k && wf v && wf_items l' end
with wf_cmps (l : cmps) : bool :=
  match l with CNil => true | CCons _ e l' => wf e && wf_cmps l' end.

(* ---------------------------------------------------------------- qualified names
   Scopes that CalculateQualifiedNamesTransform walks: def functions, lambdas, classes.
   [glob] = the name is declared "global" in the enclosing function scope. *)
Inductive skind := KFunc | KLam | KClass.
Inductive scope := Scope (k : skind) (name : text) (glob : bool) (children : scopes)
with scopes := SNil | SCons (s : scope) (l : scopes).

Definition qname := list text.          (* joined with "." *)
Definition locals_t : text := [60%N; 108%N; 111%N; 99%N; 97%N; 108%N; 115%N; 62%N].
Definition lambda_t : text := [60%N; 108%N; 97%N; 109%N; 98%N; 100%N; 97%N; 62%N].
Definition sname (k : skind) (name : text) : text := match k with KLam => lambda_t | _ => name end.

(* The language rule (CPython compile.c compiler_set_qualname): a scope declared global in
   its parent is unqualified; otherwise parent.qualname [+ "<locals>" if the parent is a
   function or lambda] + name.  [parent] = None at module level. *)
Definition rule_qualname (parent : option (skind * qname)) (k : skind) (name : text) (glob : bool) : qname :=
  match parent with
  | None => [sname k name]
  | Some (pk, pq) =>
      match pk with
      | KClass => pq ++ [sname k name]
      | _ => if glob then [sname k name] else pq ++ [locals_t; sname k name]
      end
  end.
(* all (path, qualname) pairs of a scope forest under the language rule; a path is the list
   of child indexes from the module *)
Fixpoint rule_walk (parent : option (skind * qname)) (s : scope) : list qname :=
  match s with
  | Scope k name glob ch =>
      let q := rule_qualname parent k name glob in
      q :: rule_walks (Some (k, q)) ch
  end
with rule_walks (parent : option (skind * qname)) (l : scopes) : list qname :=
  match l with
  | SNil => []
  | SCons s l' => rule_walk parent s ++ rule_walks parent l'
  end.

(* The transform: [st] = self.qualified_name on entry; [infunc] = current_env() is a
   function scope (is_local_scope).  [fixed] selects the repaired visit_DefNode /
   visit_FuncDefNode that honour a "global" declaration also for def functions (classes
   always did, through _append_entry on the global entry found by lookup_here). *)
Definition cy_node_qualname (fixed : bool) (st : qname) (infunc : bool) (k : skind) (name : text) (glob : bool) : qname :=
  match k with
  | KClass => if infunc && glob then [name] else st ++ [name]
  | KLam => st ++ [lambda_t]
  | KFunc => if fixed && infunc && glob then [name] else st ++ [name]
  end.
Definition cy_child_state (fixed : bool) (st : qname) (infunc : bool) (k : skind) (name : text) (glob : bool) : qname :=
  match k with
  | KClass => if infunc && glob then [name] else st ++ [name]
  | KLam => st ++ [lambda_t; locals_t]
  | KFunc => (if fixed && infunc && glob then [name] else st ++ [name]) ++ [locals_t]
  end.
Fixpoint cy_walk (fixed : bool) (st : qname) (infunc : bool) (s : scope) : list qname :=
  match s with
  | Scope k name glob ch =>
      cy_node_qualname fixed st infunc k name glob ::
      cy_walks fixed (cy_child_state fixed st infunc k name glob)
               (match k with KClass => false | _ => true end) ch
  end
with cy_walks (fixed : bool) (st : qname) (infunc : bool) (l : scopes) : list qname :=
  match l with
  | SNil => []
  | SCons s l' => cy_walk fixed st infunc s ++ cy_walks fixed st infunc l'
  end.
Definition cy_module (fixed : bool) (l : scopes) : list qname := cy_walks fixed [] false l.
Definition rule_module (l : scopes) : list qname := rule_walks None l.
