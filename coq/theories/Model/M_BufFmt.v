(* C17 -- model of Cython/Utility/Buffer.c: __Pyx_BufFmt_CheckString and helpers.  The item checker
   (first part) works on the FLAT member list of the expected type (a scalar, or the scalar members
   of a struct with their absolute offsets); nested struct dtypes (trees of __Pyx_TypeInfo /
   __Pyx_StructField, the ctx->head stack of (field, parent_offset) frames) and __pyx_typeinfo_cmp
   are modelled in the last two sections.  Executable definitions only.

   Format string = list of byte values; the C string ends at the first 0 (or at the end of the
   list): position = remaining suffix, [] = the terminating NUL.  A read beyond the NUL is the
   explicit result OOB, a dereference of ctx->head == NULL is NullDeref, signed overflow of the
   C int repeat count is IntOvf, running out of loop fuel is OutOfFuel.

   LP64 / x86-64 SysV tables (sizes, alignments), little-endian.  size_t offsets are unbounded Z
   (assumption: no wrap of fmt_offset, i.e. format strings shorter than 2^27 characters); the
   one size_t wrap the code relies on (--enc_count at 0) is explicit. *)
From Coq Require Import ZArith List Bool.
Import ListNotations.
Open Scope Z_scope.

(* ---- expected type (Buffer.py get_type_information_cname, flat part) ---- *)
(* a scalar __Pyx_TypeInfo: typegroup, size, arraysize[0..ndim-1] (fields == NULL) *)
Record leaf := mkleaf { l_group : Z; l_size : Z; l_arr : list Z }.
(* the stream of (member, offset) the checker walks: a scalar dtype is the one-element list
   [(leaf, 0)] (ctx->root), a flat struct its __Pyx_StructField array; ti_size = sizeof(dtype) *)
Record tinfo := mktinfo { ti_fields : list (leaf * Z); ti_size : Z; ti_flags : Z }.

(* ---- proposed repairs (BUILDING Findings step 3): false = code as it is ---- *)
Record fixes := mkfixes {
  fx_name : bool;   (* F19: `:name` skipping stops at NUL and raises ValueError *)
  fx_arrws : bool;  (* F20: whitespace inside an array shape advances the pointer *)
  fx_null : bool    (* ProcessTypeChunk / parse_array test ctx->head == NULL *)
}.
Definition fx_none := mkfixes false false false.
Definition fx_all := mkfixes true true true.

Inductive res (A : Type) :=
| Ok (a : A)
| Err            (* ValueError raised, NULL / -1 returned *)
| OOB            (* read beyond the terminating NUL *)
| NullDeref      (* ctx->head->field with ctx->head == NULL *)
| IntOvf         (* signed overflow of the C int in __Pyx_BufFmt_ParseNumber (UB) *)
| OutOfFuel.
Arguments Ok {A} a. Arguments Err {A}. Arguments OOB {A}. Arguments NullDeref {A}.
Arguments IntOvf {A}. Arguments OutOfFuel {A}.

Definition bind {A B} (r : res A) (f : A -> res B) : res B :=
  match r with Ok a => f a | Err => Err | OOB => OOB | NullDeref => NullDeref
             | IntOvf => IntOvf | OutOfFuel => OutOfFuel end.

(* __Pyx_BufFmt_Context; hd = remaining members, [] <-> ctx->head == NULL *)
Record ctx := mkctx {
  hd : list (leaf * Z); off : Z; ncnt : Z; ecnt : Z; salign : Z;
  cplx : bool; etype : Z; npm : Z; epm : Z; iva : bool }.

Definition init (ti : tinfo) : ctx :=
  mkctx (ti_fields ti) 0 1 0 0 false 0 64 64 false.

(* ---- character tables ---- *)
Definition in_list (c : Z) (l : list Z) : bool := existsb (Z.eqb c) l.
Definition b2z (b : bool) : Z := if b then 2 else 1.   (* (is_complex ? 2 : 1) *)

Definition native_size (ch : Z) (z : bool) : Z :=
  if in_list ch [63; 99; 98; 66; 115; 112] then 1            (* ? c b B s p *)
  else if in_list ch [104; 72] then 2                        (* h H *)
  else if in_list ch [105; 73] then 4                        (* i I *)
  else if in_list ch [108; 76; 113; 81] then 8               (* l L q Q *)
  else if ch =? 102 then 4 * b2z z                           (* f *)
  else if ch =? 100 then 8 * b2z z                           (* d *)
  else if ch =? 103 then 16 * b2z z                          (* g *)
  else if in_list ch [79; 80] then 8                         (* O P *)
  else 0.                                                    (* error set, returns 0 *)

Definition standard_size (ch : Z) (z : bool) : Z :=
  if in_list ch [63; 99; 98; 66; 115; 112] then 1
  else if in_list ch [104; 72] then 2
  else if in_list ch [105; 73; 108; 76] then 4               (* i I l L *)
  else if in_list ch [113; 81] then 8
  else if ch =? 102 then 4 * b2z z
  else if ch =? 100 then 8 * b2z z
  else if ch =? 103 then 0                                   (* g: error set, returns 0 *)
  else if in_list ch [79; 80] then 8
  else 0.

(* __Pyx_BufFmt_TypeCharToAlignment and ...ToPadding coincide on x86-64 *)
Definition alignment (ch : Z) : Z :=
  if in_list ch [63; 99; 98; 66; 115; 112] then 1
  else if in_list ch [104; 72] then 2
  else if in_list ch [105; 73] then 4
  else if in_list ch [108; 76; 113; 81] then 8
  else if ch =? 102 then 4
  else if ch =? 100 then 8
  else if ch =? 103 then 16
  else if in_list ch [79; 80] then 8
  else 0.
Definition padding (ch : Z) : Z := alignment ch.

Definition type_group (ch : Z) (z : bool) : Z :=
  if ch =? 99 then 72                                        (* c -> 'H' *)
  else if in_list ch [98; 104; 105; 108; 113; 115; 112] then 73   (* 'I' *)
  else if in_list ch [63; 66; 72; 73; 76; 81] then 85        (* 'U' *)
  else if in_list ch [102; 100; 103] then (if z then 67 else 82)  (* 'C' / 'R' *)
  else if ch =? 79 then 79
  else if ch =? 80 then 80
  else 0.

Definition is_digit (c : Z) : bool := (48 <=? c) && (c <=? 57).
Definition INT_MAX : Z := 2147483647.
Definition SIZE_MOD : Z := 18446744073709551616.

(* ---- __Pyx_BufFmt_ParseNumber: count accumulated in a C int ---- *)
Fixpoint pn_loop (acc : Z) (ts : list Z) : res (Z * list Z) :=
  match ts with
  | d :: r => if is_digit d then
                let a := acc * 10 + (d - 48) in
                if INT_MAX <? a then IntOvf else pn_loop a r
              else Ok (acc, ts)
  | [] => Ok (acc, ts)
  end.

(* None = first char is not a digit (returns -1) *)
Definition parse_number (ts : list Z) : res (option (Z * list Z)) :=
  match ts with
  | d :: r => if is_digit d then bind (pn_loop (d - 48) r) (fun p => Ok (Some p)) else Ok None
  | [] => Ok None
  end.

(* __Pyx_BufFmt_ExpectNumber *)
Definition expect_number (ts : list Z) : res (Z * list Z) :=
  bind (parse_number ts) (fun o => match o with Some p => Ok p | None => Err end).

(* canonical decimal rendering of a count (what str(n), struct and numpy write into a format):
   most significant digit first, no leading zero except for 0 itself.  The fuel log2 n + 1 always
   suffices (Proof/P_BufFmtCount.v, decimal_dval). *)
Fixpoint dec_aux (fuel : nat) (n : Z) (acc : list Z) : list Z :=
  match fuel with
  | O => acc
  | S f => let acc' := (48 + n mod 10) :: acc in
           if n <? 10 then acc' else dec_aux f (n / 10) acc'
  end.
Definition decimal (n : Z) : list Z := dec_aux (S (Z.to_nat (Z.log2 n))) n [].

(* ---- __Pyx_BufFmt_ProcessTypeChunk ---- *)
Definition align_up (o al : Z) : Z := if o mod al =? 0 then o else o + (al - o mod al).

(* "type->size != size || type->typegroup != group" not rescued by the char special case
   (flat types: the 'C'-with-fields descent never applies) *)
Definition leaf_ok (l : leaf) (size group : Z) : bool :=
  (l_size l =? size) && ((l_group l =? group) || (l_group l =? 72) || (group =? 72)).

Definition is_native (pm : Z) : bool := (pm =? 64) || (pm =? 94).

(* the do { } while (ctx->enc_count) loop; structural on the remaining members.
   returns (head, fmt_offset, enc_count, struct_alignment) *)
Fixpoint chunk_loop (et : Z) (z : bool) (pm group arrsz : Z)
         (h : list (leaf * Z)) (o cnt sal : Z) : res (list (leaf * Z) * Z * Z * Z) :=
  match h with
  | [] => NullDeref   (* not reached: the loop continues only while head != NULL *)
  | (l, fo) :: rest =>
    let size := if is_native pm then native_size et z else standard_size et z in
    let al := alignment et in
    if (pm =? 64) && (al =? 0) then Err else
    let o1 := if pm =? 64 then align_up o al else o in
    let sal1 := if (pm =? 64) && (sal =? 0) then padding et else sal in
    if negb (leaf_ok l size group) then Err
    else if negb (o1 =? fo) then Err
    else
      let o2 := o1 + size + (if arrsz =? 0 then 0 else (arrsz - 1) * size) in
      let cnt1 := if cnt =? 0 then SIZE_MOD - 1 else cnt - 1 in
      match rest with
      | [] => if cnt1 =? 0 then Ok ([], o2, cnt1, sal1) else Err
      | _ :: _ => if cnt1 =? 0 then Ok (rest, o2, cnt1, sal1)
                  else chunk_loop et z pm group arrsz rest o2 cnt1 sal1
      end
  end.

Definition process_chunk (fx : fixes) (c : ctx) : res ctx :=
  if etype c =? 0 then Ok c else
  match hd c with
  | [] => if fx_null fx then Err else NullDeref
  | (l, _) :: _ =>
    let a0 := nth 0 (l_arr l) 0 in
    let ndim := Z.of_nat (length (l_arr l)) in
    (* array validation: (is_valid_array, enc_count, arraysize) or error *)
    let av : res (bool * Z * Z) :=
      if a0 =? 0 then Ok (iva c, ecnt c, 1) else
      let isstr := (etype c =? 115) || (etype c =? 112) in
      let iva1 := if isstr then (ndim =? 1) else iva c in
      if isstr && negb (ecnt c =? a0) then Err
      else if negb iva1 then Err
      else Ok (false, 1, fold_left Z.mul (l_arr l) 1 mod SIZE_MOD) in
    bind av (fun '(iva1, cnt, arrsz) =>
    bind (chunk_loop (etype c) (cplx c) (epm c) (type_group (etype c) (cplx c)) arrsz
                     (hd c) (off c) cnt (salign c))
         (fun '(h, o, cnt1, sal) =>
            Ok (mkctx h o (ncnt c) cnt1 sal false 0 (npm c) (epm c) iva1)))
  end.

(* ---- __pyx_buffmt_parse_array ---- *)
Definition is_arr_space (c : Z) : bool := in_list c [32; 12; 13; 10; 9; 11].

Fixpoint parr_loop (fx : fixes) (fuel : nat) (arr : list Z) (ts : list Z) (i : nat)
  : res (list Z * nat) :=
  match fuel with
  | O => OutOfFuel
  | S fuel' =>
    match ts with
    | [] => Ok (ts, i)
    | ch :: r =>
      if ch =? 41 then Ok (ts, i)                       (* ')' *)
      else if is_arr_space ch then
        (if fx_arrws fx then parr_loop fx fuel' arr r i  (* repaired: ++ts *)
         else parr_loop fx fuel' arr ts i)               (* as is: `continue` without advancing *)
      else
        bind (expect_number ts) (fun '(number, ts1) =>
          if (Nat.ltb i (length arr)) && negb (number =? nth i arr 0) then Err
          else match ts1 with
               | 44 :: r1 => parr_loop fx fuel' arr r1 (S i)
               | 41 :: _ => parr_loop fx fuel' arr ts1 (S i)
               | _ => Err
               end)
    end
  end.

(* ts = the characters after '(' *)
Definition parse_array (fx : fixes) (fuel : nat) (ts : list Z) (c : ctx) : res (list Z * ctx) :=
  if negb (ncnt c =? 1) then Err else
  bind (process_chunk fx c) (fun c1 =>
    match hd c1 with
    | [] => if fx_null fx then Err else NullDeref       (* ctx->head->field->type->ndim *)
    | (l, _) :: _ =>
      bind (parr_loop fx fuel (l_arr l) ts 0) (fun '(ts1, i) =>
        if negb (Nat.eqb i (length (l_arr l))) then Err
        else match ts1 with
             | [] => Err                                 (* unexpected end *)
             | _ :: r => Ok (r, mkctx (hd c1) (off c1) 1 (ecnt c1) (salign c1) (cplx c1)
                                      (etype c1) (npm c1) (epm c1) true)
             end)
    end).

(* ---- `:name:` skipping: ts = the characters after the opening ':' ---- *)
Fixpoint skip_name (fx : fixes) (ts : list Z) : res (list Z) :=
  match ts with
  | [] => if fx_name fx then Err else OOB      (* the name-skipping while loop reaches the NUL *)
  | ch :: r => if ch =? 58 then Ok r else skip_name fx r
  end.

(* ---- repetition of a T{...} body: for (i = 0; i != struct_count; ++i) ---- *)
Fixpoint iter_pos {A} (p : positive) (f : A -> res A) (a : A) : res A :=
  match p with
  | xH => f a
  | xO q => bind (iter_pos q f a) (iter_pos q f)
  | xI q => bind (f a) (fun b => bind (iter_pos q f b) (iter_pos q f))
  end.
Definition iter_z {A} (n : Z) (f : A -> res A) (a : A) : res A :=
  match n with Zpos p => iter_pos p f a | _ => Ok a end.

Definition type_chars : list Z :=
  [63; 99; 98; 66; 104; 72; 105; 73; 108; 76; 113; 81; 102; 100; 103; 79; 112].

(* new type character ch (already past an optional 'Z'): pool or start a new chunk *)
Definition type_char (fx : fixes) (ch : Z) (gotz : bool) (pool_ok : bool) (c : ctx) : res ctx :=
  if pool_ok && (etype c =? ch) && Bool.eqb gotz (cplx c) && (epm c =? npm c) && negb (iva c) then
    Ok (mkctx (hd c) (off c) 1 (ecnt c + ncnt c) (salign c) (cplx c) (etype c) (npm c) (epm c) (iva c))
  else
    bind (process_chunk fx c) (fun c1 =>
      Ok (mkctx (hd c1) (off c1) 1 (ncnt c1) (salign c1) gotz ch (npm c1) (npm c1) (iva c1))).

(* ---- __Pyx_BufFmt_CheckString; one unit of fuel per iteration of while(1) ---- *)
Fixpoint check_string (fx : fixes) (fuel : nat) (ts : list Z) (c : ctx) : res (list Z * ctx) :=
  match fuel with
  | O => OutOfFuel
  | S fuel' =>
    match ts with
    | [] =>                                                     (* case 0 *)
      if negb (etype c =? 0) && (match hd c with [] => true | _ => false end) then Err
      else bind (process_chunk fx c) (fun c1 =>
             match hd c1 with [] => Ok (ts, c1) | _ => Err end)
    | ch :: r =>
      if in_list ch [32; 13; 10] then check_string fx fuel' r c
      else if ch =? 60 then                                     (* '<' on little-endian *)
        check_string fx fuel' r (mkctx (hd c) (off c) (ncnt c) (ecnt c) (salign c) (cplx c)
                                       (etype c) 61 (epm c) (iva c))
      else if in_list ch [62; 33] then Err                      (* '>' '!' *)
      else if in_list ch [61; 64; 94] then                      (* '=' '@' '^' *)
        check_string fx fuel' r (mkctx (hd c) (off c) (ncnt c) (ecnt c) (salign c) (cplx c)
                                       (etype c) ch (epm c) (iva c))
      else if ch =? 84 then                                     (* 'T' *)
        match r with
        | 123 :: r2 =>
          let count := ncnt c in
          let sal0 := salign c in
          bind (process_chunk fx (mkctx (hd c) (off c) 1 (ecnt c) (salign c) (cplx c)
                                        (etype c) (npm c) (epm c) (iva c))) (fun c1 =>
          let c2 := mkctx (hd c1) (off c1) (ncnt c1) 0 0 (cplx c1) 0 (npm c1) (epm c1) (iva c1) in
          bind (iter_z count (fun st => check_string fx fuel' r2 (snd st)) (r2, c2))
               (fun '(ts1, c3) =>
                  let c4 := if sal0 =? 0 then c3 else
                    mkctx (hd c3) (off c3) (ncnt c3) (ecnt c3) sal0 (cplx c3) (etype c3)
                          (npm c3) (epm c3) (iva c3) in
                  check_string fx fuel' ts1 c4))
        | _ => Err
        end
      else if ch =? 125 then                                    (* closing brace *)
        let al := salign c in
        bind (process_chunk fx c) (fun c1 =>
          let o1 := if negb (al =? 0) && negb (off c1 mod al =? 0)
                    then off c1 + (al - off c1 mod al) else off c1 in
          Ok (r, mkctx (hd c1) o1 (ncnt c1) (ecnt c1) (salign c1) (cplx c1) 0
                       (npm c1) (epm c1) (iva c1)))
      else if ch =? 120 then                                    (* 'x' *)
        bind (process_chunk fx c) (fun c1 =>
          check_string fx fuel' r (mkctx (hd c1) (off c1 + ncnt c1) 1 0 (salign c1) (cplx c1) 0
                                         (npm c1) (npm c1) (iva c1)))
      else if ch =? 90 then                                     (* 'Z' + f/d/g *)
        match r with
        | ch2 :: r2 => if in_list ch2 [102; 100; 103]
                       then bind (type_char fx ch2 true true c) (fun c1 => check_string fx fuel' r2 c1)
                       else Err
        | [] => Err
        end
      else if in_list ch type_chars then
        bind (type_char fx ch false true c) (fun c1 => check_string fx fuel' r c1)
      else if ch =? 115 then                                    (* 's' never pools *)
        bind (type_char fx ch false false c) (fun c1 => check_string fx fuel' r c1)
      else if ch =? 58 then                                     (* ':' *)
        bind (skip_name fx r) (fun r1 => check_string fx fuel' r1 c)
      else if ch =? 40 then                                     (* '(' *)
        bind (parse_array fx fuel' r c) (fun '(r1, c1) => check_string fx fuel' r1 c1)
      else                                                      (* count (or unknown char) *)
        bind (expect_number ts) (fun '(number, r1) =>
          check_string fx fuel' r1 (mkctx (hd c) (off c) number (ecnt c) (salign c) (cplx c)
                                          (etype c) (npm c) (epm c) (iva c)))
    end
  end.

(* the C string: bytes up to the first NUL *)
Fixpoint cstr (s : list Z) : list Z :=
  match s with [] => [] | ch :: r => if ch =? 0 then [] else ch :: cstr r end.

(* __Pyx__GetBufferAndValidate after PyObject_GetBuffer and the ndim test:
   Ok tt = acquisition succeeds, Err = ValueError *)
Definition check_fuel (fx : fixes) (fuel : nat) (s : list Z) (ti : tinfo) (itemsize : Z) : res unit :=
  bind (check_string fx fuel (cstr s) (init ti)) (fun _ =>
    if itemsize =? ti_size ti then Ok tt else Err).

Definition check (fx : fixes) (s : list Z) (ti : tinfo) (itemsize : Z) : res unit :=
  check_fuel fx (S (length s)) s ti itemsize.

(* ======================= specification: struct-module layout rules ======================= *)
Inductive tcode := Cc | Cb | CB | Ch | CH | Ci | CI | Cl | CL | Cq | CQ | Cbool
                 | Cf | Cd | Cg | CZf | CZd | CZg.
Inductive kind := KChar | KInt | KUInt | KReal | KComplex.

Definition code_kind (t : tcode) : kind :=
  match t with
  | Cc => KChar
  | Cb | Ch | Ci | Cl | Cq => KInt
  | CB | CH | CI | CL | CQ | Cbool => KUInt
  | Cf | Cd | Cg => KReal
  | CZf | CZd | CZg => KComplex
  end.

(* native (LP64) and standard sizes; 0 = the struct module defines no such size *)
Definition code_nsize (t : tcode) : Z :=
  match t with
  | Cc | Cb | CB | Cbool => 1 | Ch | CH => 2 | Ci | CI => 4 | Cl | CL | Cq | CQ => 8
  | Cf => 4 | Cd => 8 | Cg => 16 | CZf => 8 | CZd => 16 | CZg => 32
  end.
Definition code_ssize (t : tcode) : Z :=
  match t with
  | Cc | Cb | CB | Cbool => 1 | Ch | CH => 2 | Ci | CI | Cl | CL => 4 | Cq | CQ => 8
  | Cf => 4 | Cd => 8 | Cg => 0 | CZf => 8 | CZd => 16 | CZg => 0
  end.
(* native alignment (a complex is aligned like its component) *)
Definition code_align (t : tcode) : Z :=
  match t with
  | Cc | Cb | CB | Cbool => 1 | Ch | CH => 2 | Ci | CI => 4 | Cl | CL | Cq | CQ => 8
  | Cf | CZf => 4 | Cd | CZd => 8 | Cg | CZg => 16
  end.

Definition code_chars (t : tcode) : list Z :=
  match t with
  | Cc => [99] | Cb => [98] | CB => [66] | Ch => [104] | CH => [72] | Ci => [105] | CI => [73]
  | Cl => [108] | CL => [76] | Cq => [113] | CQ => [81] | Cbool => [63]
  | Cf => [102] | Cd => [100] | Cg => [103] | CZf => [90; 102] | CZd => [90; 100] | CZg => [90; 103]
  end.

(* byte-order / size / alignment modes *)
Inductive mode := MNative     (* '@' native sizes, native alignment *)
                | MStd        (* '=' '<' standard sizes, no alignment *)
                | MUnaligned  (* '^' (PEP 3118) native sizes, no alignment *)
                | MBig.       (* '>' '!' big-endian: never matches a little-endian native type *)
Definition mode_char (m : mode) (big_bang : bool) : Z :=
  match m with MNative => 64 | MStd => if big_bang then 60 else 61 | MUnaligned => 94
             | MBig => if big_bang then 33 else 62 end.

Inductive tok :=
| TWs (c : Z)                       (* one of ' ' '\r' '\n' *)
| TMode (m : mode) (alt : bool)
| TName (n : list Z)                (* :n: *)
| TItem (digits : list Z) (t : tcode)
| TPad (digits : list Z).

Definition dval (acc : Z) (ds : list Z) : Z := fold_left (fun a d => a * 10 + (d - 48)) ds acc.
Definition count_of (ds : list Z) : Z := match ds with [] => 1 | _ => dval 0 ds end.

Definition render_tok (t : tok) : list Z :=
  match t with
  | TWs c => [c]
  | TMode m alt => [mode_char m alt]
  | TName n => 58 :: n ++ [58]
  | TItem ds t => ds ++ code_chars t
  | TPad ds => ds ++ [120]
  end.
Definition render_body (b : list tok) : list Z := concat (map render_tok b).

(* a format of the fragment: a plain item sequence, or one flat T{...} record *)
Inductive fmt := FPlain (body : list tok) | FRec (pre body post : list tok).
Definition render (f : fmt) : list Z :=
  match f with
  | FPlain b => render_body b
  | FRec pre b post => render_body pre ++ [84; 123] ++ render_body b ++ [125] ++ render_body post
  end.
Definition fmt_toks (f : fmt) : list tok :=
  match f with FPlain b => b | FRec pre b post => pre ++ b ++ post end.

(* an element of a layout: kind, size, offset *)
Definition item := (kind * Z * Z)%type.

Definition msize (m : mode) (t : tcode) : Z :=
  match m with MStd | MBig => code_ssize t | _ => code_nsize t end.
Definition malign (m : mode) (t : tcode) (o : Z) : Z :=
  match m with MNative => align_up o (code_align t) | _ => o end.

Definition items_at (k : kind) (sz o : Z) (n : Z) : list item :=
  map (fun i => (k, sz, o + Z.of_nat i * sz)) (seq 0 (Z.to_nat n)).

(* struct-module layout of a token sequence: None = not a valid native little-endian layout
   (big-endian, or a type without a standard size in a standard-size mode) *)
Fixpoint layout (toks : list tok) (m : mode) (o : Z) : option (list item * Z) :=
  match toks with
  | [] => Some ([], o)
  | TWs _ :: r | TName _ :: r => layout r m o
  | TMode m' _ :: r => match m' with MBig => None | _ => layout r m' o end
  | TPad ds :: r => layout r m (o + count_of ds)
  | TItem ds t :: r =>
    let sz := msize m t in
    if sz =? 0 then None else
    let o1 := malign m t o in
    match layout r m (o1 + count_of ds * sz) with
    | Some (l, e) => Some (items_at (code_kind t) sz o1 (count_of ds) ++ l, e)
    | None => None
    end
  end.

(* the expected type as a layout *)
Definition group_kind (g : Z) : option kind :=
  if g =? 72 then Some KChar else if g =? 73 then Some KInt else if g =? 85 then Some KUInt
  else if g =? 82 then Some KReal else if g =? 67 then Some KComplex else None.

(* element-wise agreement: same size and offset, same kind except that C char matches b/B *)
Definition kind_compat (a b : kind) : bool :=
  match a, b with
  | KChar, (KChar | KInt | KUInt) | (KInt | KUInt), KChar => true
  | KInt, KInt | KUInt, KUInt | KReal, KReal | KComplex, KComplex => true
  | _, _ => false
  end.
Definition item_matches (it : item) (f : leaf * Z) : bool :=
  let '(k, sz, o) := it in
  match group_kind (l_group (fst f)) with
  | Some k' => kind_compat k k' && (sz =? l_size (fst f)) && (o =? snd f)
  | None => false
  end.
Fixpoint layout_matches (l : list item) (fs : list (leaf * Z)) : bool :=
  match l, fs with
  | [], [] => true
  | it :: l', f :: fs' => item_matches it f && layout_matches l' fs'
  | _, _ => false
  end.

Definition spec_accept (f : fmt) (ti : tinfo) (itemsize : Z) : bool :=
  match layout (fmt_toks f) MNative 0 with
  | Some (l, _) => layout_matches l (ti_fields ti) && (itemsize =? ti_size ti)
  | None => false
  end.

(* executable, count-independent form of layout_matches (items_at (..) n ++ ..) used by the
   proof and by the extracted oracle: consume k members at consecutive offsets *)
Fixpoint consume (k : Z) (kd : kind) (sz o : Z) (h : list (leaf * Z)) : option (list (leaf * Z) * Z) :=
  match h with
  | [] => None
  | f :: r => if item_matches (kd, sz, o) f
              then (if k =? 1 then Some (r, o + sz) else consume (k - 1) kd sz (o + sz) r)
              else None
  end.
Fixpoint smatch (toks : list tok) (m : mode) (o : Z) (h : list (leaf * Z)) : option (list (leaf * Z) * Z) :=
  match toks with
  | [] => Some (h, o)
  | TWs _ :: r | TName _ :: r => smatch r m o h
  | TMode m' _ :: r => match m' with MBig => None | _ => smatch r m' o h end
  | TPad ds :: r => smatch r m (o + count_of ds) h
  | TItem ds t :: r =>
    let sz := msize m t in
    if sz =? 0 then None else
    match consume (count_of ds) (code_kind t) sz (malign m t o) h with
    | Some (h', o') => smatch r m o' h'
    | None => None
    end
  end.

(* ======================= nested struct dtypes: the struct stack ======================= *)
(* __Pyx_TypeInfo as a tree: a scalar (fields == NULL), or typegroup 'S' with sizeof(struct) and its
   __Pyx_StructField array (member type info, offsetof(struct, member)); the {NULL, NULL, 0}
   terminator is the end of the list.  Buffer.py asserts len(fields) > 0. *)
Inductive ttype :=
| TLeaf (l : leaf)
| TStruct (size : Z) (fs : list (ttype * Z)).

(* __Pyx_BufFmt_StackElem: (field, parent_offset); field = pointer into a __Pyx_StructField array =
   the remaining members, current one first ([] = the terminator).  The stack: top (ctx->head)
   first, the last element is stack[0] = (&ctx->root, 0); [] <-> ctx->head == NULL *)
Definition frame := (list (ttype * Z) * Z)%type.
Definition stack := list frame.

(* __Pyx_BufFmt_Init: while (type->typegroup == 'S') push (type->fields, parent_offset 0) *)
Fixpoint init_push (t : ttype) (st : stack) : res stack :=
  match t with
  | TLeaf _ => Ok st
  | TStruct _ fs =>
    match fs with
    | [] => NullDeref                    (* type = type->fields->type = NULL; type->typegroup *)
    | (t1, _) :: _ => init_push t1 ((fs, 0) :: st)
    end
  end.
Definition s_init (t : ttype) : res stack := init_push t [([(t, 0)], 0)].

(* "++ctx->head; head->field = field->type->fields; head->parent_offset = parent_offset" for the
   member type t found at absolute offset a.  The code as it is pushes ONE frame and breaks
   (deep = false); the proposed repair keeps descending while the first member is a struct *)
Fixpoint push_sub (deep : bool) (t : ttype) (a : Z) (st : stack) : stack :=
  match t with
  | TLeaf _ => st
  | TStruct _ fs =>
    match fs with
    | [] => st
    | (t1, o1) :: _ => let st' := (fs, a) :: st in
                       if deep then push_sub deep t1 (a + o1) st' else st'
    end
  end.

(* after "ctx->head->field = ++field": fs = the members from the new field on.  None = terminator
   reached (pop).  po = ctx->head->parent_offset, gpo = (ctx->head - 1)->parent_offset;
   grand = true is the variant that takes the sub-struct offset from the grandparent frame
   (refutation witness only; the code uses ctx->head->parent_offset) *)
Fixpoint next_in (deep grand : bool) (fs : list (ttype * Z)) (po gpo : Z) (below : stack) : option stack :=
  match fs with
  | [] => None
  | (TLeaf _, _) :: _ => Some ((fs, po) :: below)
  | (TStruct _ [], _) :: r => next_in deep grand r po gpo below          (* empty struct: continue *)
  | (TStruct sz sub, fo) :: _ =>
    Some (push_sub deep (TStruct sz sub) ((if grand then gpo else po) + fo) ((fs, po) :: below))
  end.

(* the while (1) loop at the end of one member check: move to the next member, pushing or popping *)
Fixpoint s_advance (deep grand : bool) (st : stack) : stack :=
  match st with
  | [] => []
  | (fs, po) :: below =>
    match below with
    | [] => []                                   (* field == &ctx->root: ctx->head = NULL *)
    | (_, gpo) :: _ =>
      match next_in deep grand (tl fs) po gpo below with
      | Some st' => st'
      | None => s_advance deep grand below        (* field->type == NULL: --ctx->head; continue *)
      end
    end
  end.

(* what one iteration of the do-loop reads: type = ctx->head->field->type and
   offset = ctx->head->parent_offset + field->offset.  A struct in this position (only possible
   without the deep descent) is compared like a scalar of typegroup 'S' (83) *)
Definition s_cur (st : stack) : option (leaf * Z) :=
  match st with
  | ((TLeaf l, fo) :: _, po) :: _ => Some (l, po + fo)
  | ((TStruct sz _, fo) :: _, po) :: _ => Some (mkleaf 83 sz [], po + fo)
  | _ => None
  end.

(* the member stream the checker walks: chunk_loop reads the current member and its offset and
   advances, nothing else, so the checker on a tree is the flat checker on this stream *)
Fixpoint walk_from (fuel : nat) (deep grand : bool) (st : stack) : res (list (leaf * Z)) :=
  match st with
  | [] => Ok []
  | _ => match fuel with
         | O => OutOfFuel
         | S f => match s_cur st with
                  | None => NullDeref
                  | Some x => bind (walk_from f deep grand (s_advance deep grand st))
                                   (fun l => Ok (x :: l))
                  end
         end
  end.

Fixpoint tnodes (t : ttype) : nat :=
  match t with
  | TLeaf _ => 1%nat
  | TStruct _ fs => S ((fix go (l : list (ttype * Z)) : nat :=
                          match l with [] => O | (t1, _) :: r => (tnodes t1 + go r)%nat end) fs)
  end.

Definition walk (deep grand : bool) (t : ttype) : res (list (leaf * Z)) :=
  bind (s_init t) (walk_from (tnodes t) deep grand).

Definition t_size (t : ttype) : Z := match t with TLeaf l => l_size l | TStruct sz _ => sz end.

Definition check_tree (fx : fixes) (deep grand : bool) (s : list Z) (t : ttype) (itemsize : Z) : res unit :=
  bind (walk deep grand t) (fun l => check fx s (mktinfo l (t_size t) 0) itemsize).

(* specification side: absolute offsets by structural recursion (C layout: the offset of a nested
   member is the sum of the offsetof()s on the path) *)
Fixpoint flatten (t : ttype) (a : Z) : list (leaf * Z) :=
  match t with
  | TLeaf l => [(l, a)]
  | TStruct _ fs => (fix go (l : list (ttype * Z)) : list (leaf * Z) :=
                       match l with [] => [] | (t1, o1) :: r => flatten t1 (a + o1) ++ go r end) fs
  end.
Definition flat_ti (t : ttype) : tinfo := mktinfo (flatten t 0) (t_size t) 0.

(* ======================= __pyx_typeinfo_cmp (Buffer.c TypeInfoCompare) ======================= *)
(* used by __Pyx_ValidateAndInit_memviewslice when the exporter is itself a Cython memoryview: if the
   declared type info "equals" the exporter's, the format string is not parsed at all.
   __Pyx_TypeInfo with all compared members: size, typegroup, is_unsigned, arraysize[0..ndim-1], flags,
   fields (None = NULL).  (The a == b pointer shortcut is subsumed: the comparison is reflexive.) *)
Inductive cinfo :=
| CInfo (size group uns : Z) (arr : list Z) (flags : Z) (fields : option (list (cinfo * Z))).

Fixpoint zlist_eqb (a b : list Z) : bool :=
  match a, b with
  | [], [] => true
  | x :: a', y :: b' => (x =? y) && zlist_eqb a' b'
  | _, _ => false
  end.
(* for (i = 0; i < a->ndim; i++) a->arraysize[i] != b->arraysize[i]  (b->arraysize is zero-filled) *)
Fixpoint arr_prefix_eqb (a b : list Z) : bool :=
  match a with
  | [] => true
  | x :: a' => (x =? nth 0 b 0) && arr_prefix_eqb a' (tl b)
  end.
Definition is_none {A} (o : option A) : bool := match o with None => true | Some _ => false end.

(* fixh = false: the code as it is ("special case for chars": return a->size == b->size);
   fixh = true: the proposed repair (the special case only waives typegroup / signedness of two
   scalars with the same number of dimensions; the dimensions are then compared as usual) *)
Fixpoint ticmp (fixh : bool) (a b : cinfo) {struct a} : bool :=
  match a, b with
  | CInfo sa ga ua aa fa fsa, CInfo sb gb ub ab fb fsb =>
    let ndim_eq := Nat.eqb (length aa) (length ab) in
    let base_eq := (sa =? sb) && (ga =? gb) && (ua =? ub) && ndim_eq in
    let is_h := (ga =? 72) || (gb =? 72) in
    let cont :=                                   (* the part after the first test *)
      if negb (arr_prefix_eqb aa ab) then false
      else if ga =? 83 then
        if negb (fa =? fb) then false
        else match fsa, fsb with
             | None, None => true
             | Some la, Some lb =>
               (fix go (la : list (cinfo * Z)) (lb : list (cinfo * Z)) : bool :=
                  match la, lb with
                  | [], [] => true
                  | (ta, oa) :: ra, (tb, ob) :: rb => (oa =? ob) && ticmp fixh ta tb && go ra rb
                  | _, _ => false
                  end) la lb
             | _, _ => false
             end
      else true in
    if base_eq then cont
    else if fixh then
      (if is_h && (sa =? sb) && ndim_eq && is_none fsa && is_none fsb then cont else false)
    else (if is_h then (sa =? sb) else false)
  end.

(* specification: the scalar members with absolute offsets *)
Definition cleaf := (Z * Z * Z * list Z * Z)%type.     (* group, size, is_unsigned, dims, offset *)
Fixpoint cflat (a : cinfo) (o : Z) : list cleaf :=
  match a with
  | CInfo s g u arr fl fs =>
    match fs with
    | Some l => if g =? 83 then
                  (fix go (l : list (cinfo * Z)) : list cleaf :=
                     match l with [] => [] | (t, fo) :: r => cflat t (o + fo) ++ go r end) l
                else [(g, s, u, arr, o)]
    | None => [(g, s, u, arr, o)]
    end
  end.
(* same size, dimensions and offset; same typegroup and signedness unless one of them is C char *)
Definition cleaf_compat (x y : cleaf) : bool :=
  let '(gx, sx, ux, dx, ox) := x in
  let '(gy, sy, uy, dy, oy) := y in
  (sx =? sy) && zlist_eqb dx dy && (ox =? oy) && (((gx =? gy) && (ux =? uy)) || (gx =? 72) || (gy =? 72)).
Fixpoint forall2b {A} (f : A -> A -> bool) (l1 l2 : list A) : bool :=
  match l1, l2 with
  | [], [] => true
  | x :: r1, y :: r2 => f x y && forall2b f r1 r2
  | _, _ => false
  end.
Definition cinfo_compat (a b : cinfo) : bool := forall2b cleaf_compat (cflat a 0) (cflat b 0).
