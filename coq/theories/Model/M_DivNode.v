(* Model of the code-generation decisions of ExprNodes.DivNode / ModNode for C numeric operands
   (analyse_operation, generate_evaluation_code, generate_div_warning_code, calculate_result_code)
   and of the statement they emit, on top of the helper models of M_CMath; plus the
   divmod_int helper of Utility/Builtins.c that Builtin._generate_divmod_function selects for
   divmod() on two C integers.

   analyse_operation:
       zerodivision_check = cdivision is None and not directives[cdivision]
                            and (not operand2.has_constant_result() or operand2.constant_result == 0)
       min_division_check = cdivision is None and not directives[cdivision] and operator != '%'
                            and type.is_int and type.signed
                            and (not operand2.has_constant_result() or operand2.constant_result == -1)
   generate_evaluation_code (C integers):
       cdivision = directives[cdivision] or not type.signed          (when still None)
   calculate_result_code:
       cdivision -> (a / b) resp. (a % b);  else __Pyx_div_T(a, b, has_constant_result) *)
From Coq Require Import ZArith List Bool Lia.
From CyVerif Require Import Lib.CInt Model.M_CMath.
Open Scope Z_scope.

(* What the compiler knows about the divisor expression when DivNode.analyse_operation runs. *)
Inductive divisor :=
| DRun              (* constant_result is not_a_constant: variables, calls, enum / const / extern names *)
| DNum (c : Z)      (* numeric constant_result: literal, DEF name, folded constant expression,
                       negated literal, char and bool literals *)
| DOpaque.          (* has_constant_result() holds but the constant is not a number: a type cast of a
                       constant carries its C code string (TypecastNode.calculate_constant_result) *)

Definition has_constant_result (d : divisor) : bool :=
  match d with DRun => false | _ => true end.

(* code variants:
   zc = true  : the clause `or operand2.constant_result == 0` is present (the code as it is);
        false : zerodivision_check = ... and not operand2.has_constant_result()   (clause dropped)
   oq = false : a non-numeric constant is compared with == 0 / == -1 as it is (never equal);
        true  : repaired, a constant that is not a number is treated as unknown *)
Record variant := { zc : bool; oq : bool }.
Definition as_is : variant := {| zc := true; oq := false |}.
Definition repaired : variant := {| zc := true; oq := true |}.

(* `not operand2.has_constant_result() or operand2.constant_result == v` *)
Definition may_equal (v : variant) (d : divisor) (x : Z) : bool :=
  match d with
  | DRun => true
  | DNum c => c =? x
  | DOpaque => oq v
  end.

(* configuration of one node: the cdivision directive in effect at the node, and node.cdivision
   preset to True (cython.cdiv / cython.cmod, C++ operator) *)
Record dcfg := { cdir : bool; cforced : bool }.
Definition py_cfg : dcfg := {| cdir := false; cforced := false |}.

Definition zerodivision_check (v : variant) (c : dcfg) (d : divisor) : bool :=
  negb (cforced c) && negb (cdir c)
  && match d with DNum k => zc v && (k =? 0) | _ => may_equal v d 0 end.

Definition min_division_check (v : variant) (c : dcfg) (is_mod s : bool) (d : divisor) : bool :=
  negb (cforced c) && negb (cdir c) && negb is_mod && s && may_equal v d (-1).

(* self.cdivision after generate_evaluation_code / ModNode.analyse_operation, C integer type *)
Definition c_operator (c : dcfg) (s : bool) : bool := cforced c || cdir c || negb s.

(* the four code-generation decisions, as they can be read off the generated C of one node:
   zero test present, MIN test present, plain C operator (no helper), b_is_constant argument *)
Definition decisions (v : variant) (c : dcfg) (is_mod s : bool) (d : divisor)
  : bool * bool * bool * bool :=
  (zerodivision_check v c d, min_division_check v c is_mod s d, c_operator c s, has_constant_result d).

(* run-time meaning of the emitted statement for operand values a, b of the result type (w, s) *)
Definition div_stmt (v : variant) (c : dcfg) (w : Z) (s : bool) (d : divisor) (a b : Z) : outcome :=
  if zerodivision_check v c d && (b =? 0) then ZeroDivisionError
  else if min_division_check v c false s d && (b =? -1) && (a =? min_int w s) then OverflowError
  else if div_ub w s a b then UB               (* the C division is executed: b = 0 or MIN / -1 *)
  else if c_operator c s then Value (cdiv_c w s a b)
  else Value (div_int w s (has_constant_result d) a b).

Definition mod_stmt (v : variant) (c : dcfg) (w : Z) (s : bool) (d : divisor) (a b : Z) : outcome :=
  if zerodivision_check v c d && (b =? 0) then ZeroDivisionError
  else if c_operator c s then (if div_ub w s a b then UB else Value (cmod_c w s a b))
  else if b =? 0 then UB                       (* __Pyx_mod_T evaluates a % 0 *)
  else Value (mod_int w s (has_constant_result d) a b).

(* the constant the compiler saw is the value the divisor has at run time *)
Definition divisor_value (d : divisor) (b : Z) : Prop :=
  match d with DNum c => b = c | _ => True end.

(* __Pyx_divmod_int_T(a, b) of Utility/Builtins.c (T = the operand type of higher rank):
   q and r of the returned ctuple; the helper carries its own zero test.
   guard = false: the code as it is; true: repaired, MIN / -1 raises OverflowError as a // b does *)
Definition divmod_q (guard : bool) (w : Z) (s : bool) (a b : Z) : outcome :=
  if b =? 0 then ZeroDivisionError
  else if a =? 0 then Value 0
  else if guard && s && (b =? -1) && (a =? min_int w s) then OverflowError
  else if div_ub w s a b then UB
  else if xorb (a <? 0) (b <? 0) then
    let q := wrap w s (Z.quot a b) in
    let r := wrap w s (a - wrap w s (q * b)) in
    Value (wrap w s (q - adapt_python true r b))
  else Value (wrap w s (Z.quot a b)).

Definition divmod_r (guard : bool) (w : Z) (s : bool) (a b : Z) : outcome :=
  if b =? 0 then ZeroDivisionError
  else if a =? 0 then Value 0
  else if guard && s && (b =? -1) && (a =? min_int w s) then OverflowError
  else if div_ub w s a b then UB
  else if xorb (a <? 0) (b <? 0) then
    let q := wrap w s (Z.quot a b) in
    let r := wrap w s (a - wrap w s (q * b)) in
    Value (wrap w s (r + wrap w s (adapt_python true r b * b)))
  else Value (wrap w s (Z.rem a b)).
