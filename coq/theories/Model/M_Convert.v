(* C33 -- model of the Python <-> C/C++ value conversions generated from
   Cython/Utility/CppConvert.pyx, Cython/Utility/CConvert.pyx, the ctuple/struct utilities of
   Cython/Compiler/PyrexTypes.py and the string helpers of Cython/Utility/TypeConversion.c.
   Executable definitions only.

   Python values: pyval (builtin containers, scalars, PIter = a generator without len, PObj = any
   other object).  C values: cval.  std::pair / struct / ctuple / C array / vector / std::list
   values are all CSeq (positional); std::set / unordered_set = CSet (insertion ordered list
   without duplicates: an abstract set, the iteration order of the real containers is not
   observable through a Python set); std::map / unordered_map = CMap (association list with
   distinct keys).  Scalar ints are modelled by their range check only (C05 proves the real
   helper equal to it); doubles are opaque bit patterns. *)
From Coq Require Import ZArith NArith List Bool.
From CyVerif Require Import Lib.CInt.
From CyVerif Require Model.M_IntFmt.     (* the RFC 3629 table utf8_ref and the strict decoder of C18, not imported *)
Import ListNotations.
Open Scope Z_scope.

Inductive exc :=
| TypeError | ValueError | OverflowError | AttributeError
| UnicodeEncodeError | UnicodeDecodeError      (* subclasses of ValueError *)
| SystemError           (* a C-API call made while an exception is pending *)
| IndexTooMany          (* IndexError too many values found during array assignment *)
| IndexNotEnough        (* IndexError not enough values found during array assignment *)
| Unmodelled.           (* outside the model (ill-typed C value, float -> C int via nb_int, ...) *)

Inductive res (A : Type) := Ok (a : A) | Err (e : exc).
Arguments Ok {A} a.
Arguments Err {A} e.

Definition bind {A B} (r : res A) (f : A -> res B) : res B :=
  match r with Ok a => f a | Err e => Err e end.
Definition rmap {A B} (f : A -> B) (r : res A) : res B :=
  match r with Ok a => Ok (f a) | Err e => Err e end.

Inductive pyval :=
| PNone | PObj
| PBool (b : bool) | PInt (z : Z) | PFloat (d : Z)
| PBytes (b : list N) | PByteArray (b : list N) | PStr (s : list N)
| PList (l : list pyval) | PTuple (l : list pyval) | PSet (l : list pyval)
| PDict (kv : list (pyval * pyval))
| PIter (l : list pyval).

Inductive cval :=
| CInt (z : Z) | CDouble (d : Z) | CBytes (b : list N)
| CSeq (l : list cval) | CSet (l : list cval) | CMap (kv : list (cval * cval))
| CUnion (k : nat) (v : cval).

(* ---------- generic helpers ---------- *)

Fixpoint mapM {A B} (f : A -> res B) (l : list A) : res (list B) :=
  match l with
  | [] => Ok []
  | x :: r => match f x with
              | Err e => Err e
              | Ok y => match mapM f r with Ok ys => Ok (y :: ys) | Err e => Err e end
              end
  end.

Fixpoint list_eqb {A} (eqb : A -> A -> bool) (a b : list A) : bool :=
  match a, b with
  | [], [] => true
  | x :: xs, y :: ys => eqb x y && list_eqb eqb xs ys
  | _, _ => false
  end.

(* `for item in o` over the builtin iterables *)
Definition iter_items (v : pyval) : res (list pyval) :=
  match v with
  | PList l | PTuple l | PSet l | PIter l => Ok l
  | PDict kv => Ok (map fst kv)
  | PStr s => Ok (map (fun c => PStr [c]) s)
  | PBytes b | PByteArray b => Ok (map (fun x => PInt (Z.of_N x)) b)
  | _ => Err TypeError
  end.

(* len(o): None = TypeError *)
Definition py_len (v : pyval) : option nat :=
  match v with
  | PList l | PTuple l | PSet l => Some (length l)
  | PDict kv => Some (length kv)
  | PStr s => Some (length s)
  | PBytes b | PByteArray b => Some (length b)
  | _ => None
  end.

(* PySequence_Check + items *)
Definition seq_items (v : pyval) : res (list pyval) :=
  match v with
  | PList l | PTuple l => Ok l
  | PStr s => Ok (map (fun c => PStr [c]) s)
  | PBytes b | PByteArray b => Ok (map (fun x => PInt (Z.of_N x)) b)
  | _ => Err TypeError
  end.

Definition mapping_check (v : pyval) : bool :=
  match v with
  | PDict _ | PList _ | PTuple _ | PStr _ | PBytes _ | PByteArray _ => true
  | _ => false
  end.

(* ---------- the container loops of CppConvert.pyx, generic in the element converters ---------- *)
Section Generic.
  Context {X Y : Type}.
  Variable conv : pyval -> res X.
  Variable convY : pyval -> res Y.
  Variable eqb : X -> X -> bool.

  (* vector.from_py / list.from_py: for item in o: v.push_back(<X>item) *)
  Definition seq_from_py (v : pyval) : res (list X) := bind (iter_items v) (mapM conv).

  (* set.from_py: for item in o: s.insert(<X>item) *)
  Definition set_insert (x : X) (acc : list X) : list X :=
    if existsb (eqb x) acc then acc else acc ++ [x].
  Fixpoint set_loop (items : list pyval) (acc : list X) : res (list X) :=
    match items with
    | [] => Ok acc
    | it :: r => match conv it with
                 | Err e => Err e
                 | Ok x => set_loop r (set_insert x acc)
                 end
    end.
  Definition set_from_py (v : pyval) : res (list X) :=
    bind (iter_items v) (fun items => set_loop items []).

  (* map.from_py: for key, value in o.items(): m.insert(pair(<X>key, <Y>value));
     std::map::insert keeps the first entry of a key *)
  Definition dict_items (v : pyval) : res (list (pyval * pyval)) :=
    match v with PDict kv => Ok kv | _ => Err AttributeError end.
  Definition map_insert (k : X) (y : Y) (acc : list (X * Y)) : list (X * Y) :=
    if existsb (fun p => eqb k (fst p)) acc then acc else acc ++ [(k, y)].
  Fixpoint map_loop (kvs : list (pyval * pyval)) (acc : list (X * Y)) : res (list (X * Y)) :=
    match kvs with
    | [] => Ok acc
    | (k, v) :: r =>
        match conv k with
        | Err e => Err e
        | Ok ck => match convY v with
                   | Err e => Err e
                   | Ok cv => map_loop r (map_insert ck cv acc)
                   end
        end
    end.
  Definition map_from_py (v : pyval) : res (list (X * Y)) :=
    bind (dict_items v) (fun kvs => map_loop kvs []).

  (* pair.from_py: x, y = o; pair(<X>x, <Y>y) *)
  Definition unpack2 (v : pyval) : res (pyval * pyval) :=
    match iter_items v with
    | Err e => Err e
    | Ok [a; b] => Ok (a, b)
    | Ok _ => Err ValueError
    end.
  Definition pair_from_py (v : pyval) : res (X * Y) :=
    match unpack2 v with
    | Err e => Err e
    | Ok (a, b) => match conv a with
                   | Err e => Err e
                   | Ok x => match convY b with Err e => Err e | Ok y => Ok (x, y) end
                   end
    end.

  (* carray.from_py (CConvert.pyx): len pre-check, then enumerate with a break at `length` *)
  Fixpoint arr_loop (n : nat) (items : list pyval) : res (list X) :=
    match items, n with
    | [], O => Ok []
    | [], S _ => Err IndexNotEnough
    | _ :: _, O => Err IndexTooMany
    | it :: r, S m => match conv it with
                      | Err e => Err e
                      | Ok x => match arr_loop m r with Ok xs => Ok (x :: xs) | Err e => Err e end
                      end
    end.
  Definition arr_run (n : nat) (v : pyval) : res (list X) :=
    match iter_items v with
    | Err e => Err e
    | Ok [] => match n with O => Ok [] | S _ => Err IndexTooMany end
        (* the loop variable keeps its initial value `length`; `i += 1` then reports "too many" *)
    | Ok items => arr_loop n items
    end.
  Definition arr_from_py (n : nat) (v : pyval) : res (list X) :=
    match py_len v with
    | Some m => if Nat.eqb m n then arr_run n v
                else if Nat.leb n m then Err IndexTooMany else Err IndexNotEnough
    | None => arr_run n v
    end.
End Generic.

(* ---------- Python side containers built by the to_py functions ---------- *)

Fixpoint hashable (v : pyval) : bool :=
  match v with
  | PNone | PObj | PBool _ | PInt _ | PFloat _ | PBytes _ | PStr _ => true
  | PTuple l => forallb hashable l
  | _ => false
  end.

(* equality of hashable values produced at one C type (there, Python == is structural) *)
Fixpoint pyeqb (a b : pyval) : bool :=
  match a, b with
  | PNone, PNone => true
  | PBool x, PBool y => Bool.eqb x y
  | PInt x, PInt y => Z.eqb x y
  | PFloat x, PFloat y => Z.eqb x y
  | PBytes x, PBytes y => list_eqb N.eqb x y
  | PStr x, PStr y => list_eqb N.eqb x y
  | PTuple x, PTuple y =>
      (fix go (x y : list pyval) : bool :=
         match x, y with
         | [], [] => true
         | u :: us, w :: ws => pyeqb u w && go us ws
         | _, _ => false
         end) x y
  | _, _ => false
  end.

Definition pyset_add (v : pyval) (acc : list pyval) : res (list pyval) :=
  if hashable v then Ok (if existsb (pyeqb v) acc then acc else acc ++ [v]) else Err TypeError.

(* o[k] = v: replaces the value of an existing key in place, else appends *)
Fixpoint dict_set (k v : pyval) (d : list (pyval * pyval)) : list (pyval * pyval) :=
  match d with
  | [] => [(k, v)]
  | (k', v') :: r => if pyeqb k k' then (k', v) :: r else (k', v') :: dict_set k v r
  end.

Section ToPy.
  Context {X Y : Type}.
  Variable conv : X -> res pyval.
  Variable convY : Y -> res pyval.

  (* set.to_py: {v for v in s} *)
  Fixpoint pyset_loop (l : list X) (acc : list pyval) : res (list pyval) :=
    match l with
    | [] => Ok acc
    | x :: r => match conv x with
                | Err e => Err e
                | Ok v => match pyset_add v acc with Err e => Err e | Ok acc' => pyset_loop r acc' end
                end
    end.

  (* map.to_py: o[kv.first] = kv.second -- the value is converted first, then the key *)
  Fixpoint pydict_loop (l : list (X * Y)) (acc : list (pyval * pyval)) : res (list (pyval * pyval)) :=
    match l with
    | [] => Ok acc
    | (k, y) :: r =>
        match convY y with
        | Err e => Err e
        | Ok pv => match conv k with
                   | Err e => Err e
                   | Ok pk => if hashable pk then pydict_loop r (dict_set pk pv acc) else Err TypeError
                   end
        end
    end.
End ToPy.

(* ---------- strings: TypeConversion.c ---------- *)

Inductive stype := SBytes | SByteArray | SUnicode.          (* c_string_type *)
Inductive senc := ENone | EAscii | EUtf8 | ELatin1.          (* c_string_encoding ('' / ascii / utf8 / other 8-bit) *)
Record scfg := { sc_type : stype; sc_enc : senc }.

(* Text is a list of code points (N).  CPython's codecs are the documented contract:
   utf-8 = the RFC 3629 table (M_IntFmt.utf8_ref, the reference encoder of C18) for every code
   point below 0x110000 that is not a surrogate, UnicodeEncodeError otherwise; decoding = the
   strict decoder M_IntFmt.utf8_decode (shortest form only, no surrogates, <= U+10FFFF);
   ascii = identity below 128, Unicode{En,De}codeError otherwise. *)
Definition zs (l : list N) : list Z := map Z.of_N l.
Definition ns (l : list Z) : list N := map Z.to_N l.

Open Scope N_scope.
Definition is_surrogate (c : N) : bool := (0xD800 <=? c) && (c <=? 0xDFFF).
Definition encodable (c : N) : bool := (c <? 0x110000) && negb (is_surrogate c).
Definition utf8_enc1 (c : N) : option (list N) :=
  if encodable c then Some (ns (M_IntFmt.utf8_ref (Z.of_N c))) else None.
Fixpoint utf8_encode (s : list N) : res (list N) :=
  match s with
  | [] => Ok []
  | c :: r => match utf8_enc1 c with
              | None => Err UnicodeEncodeError
              | Some bs => match utf8_encode r with Ok t => Ok (bs ++ t) | Err e => Err e end
              end
  end.
Definition utf8_decode (b : list N) : res (list N) :=
  match M_IntFmt.utf8_decode (zs b) with
  | Some l => Ok (ns l)
  | None => Err UnicodeDecodeError
  end.
Definition all_ascii (s : list N) : bool := forallb (fun c => c <? 0x80) s.

(* a CPython str object (PEP 393): the storage kind and the ascii flag are functions of the
   largest code point *)
Definition maxchar (s : list N) : N := fold_right N.max 0 s.
Inductive ukind := K1BYTE | K2BYTE | K4BYTE.
Definition kind_of (s : list N) : ukind :=
  if maxchar s <? 0x100 then K1BYTE else if maxchar s <? 0x10000 then K2BYTE else K4BYTE.
Definition is_ascii (s : list N) : bool := maxchar s <? 0x80.          (* PyUnicode_IS_ASCII(o) *)
Close Scope N_scope.

Record codec := { cd_enc : list N -> res (list N); cd_dec : list N -> res (list N) }.
Definition ascii_codec : codec :=
  {| cd_enc := fun s => if all_ascii s then Ok s else Err UnicodeEncodeError;
     cd_dec := fun b => if all_ascii b then Ok b else Err UnicodeDecodeError |}.
Definition utf8_codec : codec := {| cd_enc := utf8_encode; cd_dec := utf8_decode |}.

Definition str_accepts_unicode (e : senc) : bool :=
  match e with EAscii | EUtf8 => true | _ => false end.
(* the specification: CPython's s.encode(E) where str objects are accepted at all *)
Definition encode_with (e : senc) (s : list N) : res (list N) :=
  match e with
  | EAscii => cd_enc ascii_codec s
  | EUtf8 => cd_enc utf8_codec s
  | _ => Err TypeError          (* falls through to PyBytes_AsStringAndSize: expected bytes, str found *)
  end.

(* PyUnicode_AsUTF8AndSize / PyUnicode_AsUTF8: the UTF-8 form cached in the object (for an ASCII
   object the character data itself); UnicodeEncodeError for lone surrogates *)
Definition py_as_utf8 (s : list N) : res (list N) := utf8_encode s.

(* __Pyx_PyUnicode_AsStringAndSize(o, &length): the bytes the returned pointer addresses, up to
   the terminating NUL the object appends, and the value stored in *length.
     ascii, full API   : if (PyUnicode_IS_ASCII(o)) { *length = PyUnicode_GET_LENGTH(o); return PyUnicode_AsUTF8(o); }
                         else { PyUnicode_AsASCIIString(o); return NULL; }
     ascii, limited API: result = PyUnicode_AsUTF8AndSize(o, length);
                         [checked: if (!result) return NULL;]      <- missing in the code as it is
                         if (PyUnicode_GetLength(o) != *length) { PyUnicode_AsASCIIString(o); return NULL; }
     utf8              : return PyUnicode_AsUTF8AndSize(o, length);
   Limited false = CYTHON_COMPILING_IN_LIMITED_API, the code as it is: when PyUnicode_AsUTF8AndSize
   fails (lone surrogate) the post-check still runs and PyUnicode_AsASCIIString is called with the
   codec error pending -> SystemError.  Limited true = with the NULL check (proposed fix). *)
Inductive api := Full | Limited (checked : bool).
Definition unicode_asas (a : api) (e : senc) (s : list N) : res (list N * nat) :=
  match e with
  | EUtf8 => rmap (fun b => (b, length b)) (py_as_utf8 s)
  | EAscii =>
      match a with
      | Limited checked =>
        match py_as_utf8 s with
        | Err x => if checked then Err x else Err SystemError
        | Ok b => if Nat.eqb (length s) (length b) then Ok (b, length b) else Err UnicodeEncodeError
        end
      | Full =>
        if is_ascii s then rmap (fun b => (b, length s)) (py_as_utf8 s)
        else Err UnicodeEncodeError
      end
  | _ => Err TypeError
  end.

(* __Pyx_PyObject_AsStringAndSize: (buffer, length) *)
Definition obj_asas (a : api) (sc : scfg) (v : pyval) : res (list N * nat) :=
  match v with
  | PStr s => if str_accepts_unicode (sc_enc sc) then unicode_asas a (sc_enc sc) s
              else Err TypeError        (* PyBytes_AsStringAndSize: expected bytes, str found *)
  | PByteArray b | PBytes b => Ok (b, length b)
  | _ => Err TypeError
  end.
(* what a (pointer, length) user such as std::string(data, length) sees; a length beyond the
   buffer (a read past the terminating NUL) is outside the model *)
Definition sized (p : list N * nat) : res (list N) :=
  if Nat.leb (snd p) (length (fst p)) then Ok (firstn (snd p) (fst p)) else Err Unmodelled.
Definition as_string_and_size_l (a : api) (sc : scfg) (v : pyval) : res (list N) :=
  bind (obj_asas a sc v) sized.
Definition as_string_and_size : scfg -> pyval -> res (list N) := as_string_and_size_l Full.

Definition decode_with (e : senc) (b : list N) : res (list N) :=
  match e with
  | EAscii => cd_dec ascii_codec b
  | EUtf8 => cd_dec utf8_codec b
  | ELatin1 => Ok b
  | ENone => Err Unmodelled      (* rejected at compile time *)
  end.
(* __Pyx_PyObject_FromStringAndSize under c_string_type *)
Definition from_string_and_size (sc : scfg) (b : list N) : res pyval :=
  match sc_type sc with
  | SBytes => Ok (PBytes b)
  | SByteArray => Ok (PByteArray b)
  | SUnicode => rmap PStr (decode_with (sc_enc sc) b)
  end.

(* std::string: length based in both directions *)
Definition string_from_py_l (a : api) (sc : scfg) (v : pyval) : res cval :=
  rmap CBytes (as_string_and_size_l a sc v).
Definition string_from_py : scfg -> pyval -> res cval := string_from_py_l Full.
Definition string_to_py (sc : scfg) (c : cval) : res pyval :=
  match c with CBytes b => from_string_and_size sc b | _ => Err Unmodelled end.

(* char* / unsigned char*: __Pyx_PyObject_AsString drops the length (the C value is the pointer:
   the whole buffer), __Pyx_PyObject_FromString uses strlen *)
Fixpoint until_nul (b : list N) : list N :=
  match b with
  | [] => []
  | x :: r => if N.eqb x 0 then [] else x :: until_nul r
  end.
Definition charp_from_py_l (a : api) (sc : scfg) (v : pyval) : res cval :=
  rmap (fun p => CBytes (fst p)) (obj_asas a sc v).
Definition charp_from_py : scfg -> pyval -> res cval := charp_from_py_l Full.
Definition charp_to_py (sc : scfg) (c : cval) : res pyval :=
  match c with CBytes b => from_string_and_size sc (until_nul b) | _ => Err Unmodelled end.
Definition charp_roundtrip_l (a : api) (sc : scfg) (v : pyval) : res pyval :=
  bind (charp_from_py_l a sc v) (charp_to_py sc).
Definition string_roundtrip_l (a : api) (sc : scfg) (v : pyval) : res pyval :=
  bind (string_from_py_l a sc v) (string_to_py sc).
Definition charp_roundtrip : scfg -> pyval -> res pyval := charp_roundtrip_l Full.
Definition string_roundtrip : scfg -> pyval -> res pyval := string_roundtrip_l Full.
(* strlen(p) / s.size() of the converted argument *)
Definition charp_strlen_l (a : api) (sc : scfg) (v : pyval) : res pyval :=
  rmap (fun p => PInt (Z.of_nat (length (until_nul (fst p))))) (obj_asas a sc v).
Definition string_size_l (a : api) (sc : scfg) (v : pyval) : res pyval :=
  rmap (fun b => PInt (Z.of_nat (length b))) (as_string_and_size_l a sc v).

(* ---------- C types ---------- *)

Inductive leaf := LInt (w : Z) (sg : bool) | LDouble | LString | LCharp.   (* std::string, [const] [unsigned] char* *)

(* FNil / FCons are the member lists of TStruct / TUnion / TCTuple (kept inside the same
   inductive so that plain structural recursion and induction apply). *)
Inductive ctype :=
| TLeaf (l : leaf)
| TVector (t : ctype) | TCppList (t : ctype)
| TSet (t : ctype) | TUSet (t : ctype)
| TMap (k v : ctype) | TUMap (k v : ctype)
| TPair (a b : ctype)
| TArray (n : nat) (t : ctype)
| TStruct (fs : ctype) | TUnion (fs : ctype) | TCTuple (fs : ctype)
| FNil | FCons (name : list N) (t : ctype) (rest : ctype).

Fixpoint field_names (fs : ctype) : list (list N) :=
  match fs with FCons n _ r => n :: field_names r | _ => [] end.
Fixpoint nfields (fs : ctype) : nat :=
  match fs with FCons _ _ r => S (nfields r) | _ => O end.

(* element types usable as set elements / map keys in this model: no set / map / union inside,
   so that C++ equality of two values is structural equality of their model values *)
Fixpoint rigid (t : ctype) : bool :=
  match t with
  | TLeaf _ => true
  | TVector e | TCppList e | TArray _ e => rigid e
  | TPair a b => rigid a && rigid b
  | TStruct fs | TCTuple fs => rigid fs
  | FNil => true
  | FCons _ ft r => rigid ft && rigid r
  | _ => false
  end.

Fixpoint ceqb (a b : cval) : bool :=
  match a, b with
  | CInt x, CInt y => Z.eqb x y
  | CDouble x, CDouble y => Z.eqb x y
  | CBytes x, CBytes y => list_eqb N.eqb x y
  | CSeq x, CSeq y =>
      (fix go (x y : list cval) : bool :=
         match x, y with
         | [], [] => true
         | u :: us, w :: ws => ceqb u w && go us ws
         | _, _ => false
         end) x y
  | _, _ => false
  end.

(* scalar leaves *)
Definition int_from_py (w : Z) (sg : bool) (v : pyval) : res cval :=
  match v with
  | PInt z => if in_rangeb w sg z then Ok (CInt z) else Err OverflowError
  | PBool b => Ok (CInt (if b then 1 else 0))
  | PFloat _ => Err Unmodelled     (* accepted through nb_int: C05 finding, not re-modelled here *)
  | PObj => Err Unmodelled
  | _ => Err TypeError
  end.
Definition double_from_py (v : pyval) : res cval :=
  match v with
  | PFloat d => Ok (CDouble d)
  | PInt _ | PBool _ | PObj => Err Unmodelled   (* int -> double rounding is not modelled *)
  | _ => Err TypeError
  end.
Definition leaf_from_py (sc : scfg) (l : leaf) (v : pyval) : res cval :=
  match l with
  | LInt w sg => int_from_py w sg v
  | LDouble => double_from_py v
  | LString => string_from_py sc v
  | LCharp => charp_from_py sc v
  end.
Definition leaf_to_py (sc : scfg) (l : leaf) (c : cval) : res pyval :=
  match l, c with
  | LInt _ _, CInt z => Ok (PInt z)
  | LDouble, CDouble d => Ok (PFloat d)
  | LString, _ => string_to_py sc c
  | LCharp, _ => charp_to_py sc c
  | _, _ => Err Unmodelled
  end.

(* struct: obj[name] for every member first (KeyError -> ValueError), conversions afterwards *)
Definition key_is (name : list N) (k : pyval) : bool :=
  match k with PStr s => list_eqb N.eqb s name | _ => false end.
Fixpoint dict_get (name : list N) (d : list (pyval * pyval)) : option pyval :=
  match d with
  | [] => None
  | (k, v) :: r => if key_is name k then Some v else dict_get name r
  end.
Definition getitem_str (name : list N) (v : pyval) : res pyval :=
  match v with
  | PDict d => match dict_get name d with Some x => Ok x | None => Err ValueError end
  | _ => Err TypeError           (* list/tuple/str/bytes indices must be integers *)
  end.
Definition lookup_all (names : list (list N)) (v : pyval) : res (list pyval) :=
  mapM (fun n => getitem_str n v) names.

Definition as_cseq (r : res cval) : res (list cval) :=
  match r with Ok (CSeq l) => Ok l | Ok _ => Err Unmodelled | Err e => Err e end.

Fixpoint from_py (sc : scfg) (t : ctype) (v : pyval) {struct t} : res cval :=
  match t with
  | TLeaf l => leaf_from_py sc l v
  | TVector e | TCppList e => rmap CSeq (seq_from_py (from_py sc e) v)
  | TSet e | TUSet e =>
      if rigid e then rmap CSet (set_from_py (from_py sc e) ceqb v) else Err Unmodelled
  | TMap k e | TUMap k e =>
      if rigid k then rmap CMap (map_from_py (from_py sc k) (from_py sc e) ceqb v) else Err Unmodelled
  | TPair a b => rmap (fun p => CSeq [fst p; snd p]) (pair_from_py (from_py sc a) (from_py sc b) v)
  | TArray n e => rmap CSeq (arr_from_py (from_py sc e) n v)
  | TStruct fs =>
      if mapping_check v
      then bind (lookup_all (field_names fs) v) (fun vals => from_py sc fs (PTuple vals))
      else Err TypeError
  | TCTuple fs =>
      match seq_items v with
      | Err e => Err e
      | Ok items => if Nat.eqb (length items) (nfields fs) then from_py sc fs (PTuple items)
                    else Err TypeError
      end
  | TUnion fs =>
      match v with
      | PDict d =>
          (fix go (fs : ctype) (idx : nat) : res cval :=
             match fs with
             | FCons n ft r =>
                 match dict_get n d with
                 | Some x => match from_py sc ft x with
                             | Err e => Err e
                             | Ok c => if Nat.eqb (length d) 1 then Ok (CUnion idx c) else Err ValueError
                             end
                 | None => go r (S idx)
                 end
             | _ => Err ValueError
             end) fs O
      | PList _ | PTuple _ => Err ValueError
      | PStr _ | PBytes _ | PByteArray _ => Err Unmodelled
      | _ => Err TypeError
      end
  | FNil => match v with PTuple [] => Ok (CSeq []) | _ => Err Unmodelled end
  | FCons _ ft rest =>
      match v with
      | PTuple (x :: xs) =>
          match from_py sc ft x with
          | Err e => Err e
          | Ok c => rmap (fun cs => CSeq (c :: cs)) (as_cseq (from_py sc rest (PTuple xs)))
          end
      | _ => Err Unmodelled
      end
  end.

Definition as_ptuple (r : res pyval) : res (list pyval) :=
  match r with Ok (PTuple l) => Ok l | Ok _ => Err Unmodelled | Err e => Err e end.

Fixpoint nth_name (fs : ctype) (k : nat) : option (list N * ctype) :=
  match fs, k with
  | FCons n ft _, O => Some (n, ft)
  | FCons _ _ r, S k' => nth_name r k'
  | _, _ => None
  end.

Fixpoint to_py (sc : scfg) (t : ctype) (c : cval) {struct t} : res pyval :=
  match t with
  | TLeaf l => leaf_to_py sc l c
  | TVector e | TCppList e | TArray _ e =>
      match c with CSeq l => rmap PList (mapM (to_py sc e) l) | _ => Err Unmodelled end
  | TSet e | TUSet e =>
      match c with CSet l => rmap PSet (pyset_loop (to_py sc e) l []) | _ => Err Unmodelled end
  | TMap k e | TUMap k e =>
      match c with
      | CMap kv => rmap PDict (pydict_loop (to_py sc k) (to_py sc e) kv [])
      | _ => Err Unmodelled
      end
  | TPair a b =>
      match c with
      | CSeq [x; y] => bind (to_py sc a x) (fun px => bind (to_py sc b y) (fun py => Ok (PTuple [px; py])))
      | _ => Err Unmodelled
      end
  | TStruct fs =>
      rmap (fun vals => PDict (combine (map PStr (field_names fs)) vals)) (as_ptuple (to_py sc fs c))
  | TCTuple fs => to_py sc fs c
  | TUnion fs =>
      match c with
      | CUnion k x =>
          (fix go (fs : ctype) (idx : nat) : res pyval :=
             match fs with
             | FCons n ft r =>
                 match go r (S idx) with
                 | Err e => Err e
                 | Ok (PDict d) =>
                     if Nat.eqb idx k
                     then rmap (fun p => PDict ((PStr n, p) :: d)) (to_py sc ft x)
                     else Ok (PDict ((PStr n, PObj) :: d))   (* reinterpreted storage: not modelled *)
                 | Ok _ => Err Unmodelled
                 end
             | _ => Ok (PDict [])
             end) fs O
      | _ => Err Unmodelled
      end
  | FNil => match c with CSeq [] => Ok (PTuple []) | _ => Err Unmodelled end
  | FCons _ ft rest =>
      match c with
      | CSeq (x :: xs) =>
          match to_py sc ft x with
          | Err e => Err e
          | Ok p => rmap (fun ps => PTuple (p :: ps)) (as_ptuple (to_py sc rest (CSeq xs)))
          end
      | _ => Err Unmodelled
      end
  end.

(* def f(o): cdef T x = o; return x *)
Definition roundtrip (sc : scfg) (t : ctype) (v : pyval) : res pyval :=
  bind (from_py sc t v) (to_py sc t).
