(* Model of the sharing classification of prange / parallel blocks and of its run-time meaning.

   Code modelled (Cython/Compiler):
     TypeInference.py  MarkParallelAssignments.mark_assignment / visit_ParallelStatNode
                         -> per parallel node: assignments { entry : in-place operator or None }, last form wins,
                            error when two consecutive in-place forms of one node disagree
     FlowControl.py    visit_ParallelRangeNode / visit_NameNode / visit_InPlaceAssignmentNode
                         -> "Cannot read reduction variable in loop body" (not inside an in-place statement)
     Nodes.py          ParallelStatNode.analyse_sharing_attributes / propagate_var_privatization,
                       ParallelRangeNode.analyse_expressions (target entry, merge of nested pranges into
                       the outermost prange), ParallelRangeNode.generate_loop (clause per private:
                       op in "+*-&^|" and not the target -> reduction(op:x), else firstprivate+lastprivate),
                       ParallelWithBlockNode.generate_execution_code (firstprivate of block privates)
   and the OpenMP meaning of the emitted clauses (reduction: private copy initialised with the
   identity of the operator, partial results combined with the operator -- with + for the - operator;
   lastprivate: value of the sequentially last iteration; firstprivate: copy of the original). *)
From Coq Require Import ZArith List Bool Lia.
From CyVerif Require Import Lib.CInt.
Import ListNotations.
Open Scope Z_scope.

Definition var := nat.

(* ---- syntax of the modelled loop bodies ------------------------------------------------------ *)

(* in-place operators: the six OpenMP reduction operators and three that are not *)
Inductive iop := OAdd | OMul | OSub | OAnd | OXor | OOr | OShl | OShr | OFdiv.

Definition iop_eqb (a b : iop) : bool :=
  match a, b with
  | OAdd, OAdd | OMul, OMul | OSub, OSub | OAnd, OAnd | OXor, OXor | OOr, OOr
  | OShl, OShl | OShr, OShr | OFdiv, OFdiv => true
  | _, _ => false
  end.

(* generate_loop:  if op and op in "+*-&^|"  -- the operator string, in source order *)
Definition omp_ops : list iop := [OAdd; OMul; OSub; OAnd; OXor; OOr].
Definition omp_reduction_op (o : iop) : bool := existsb (iop_eqb o) omp_ops.

Inductive bop := BAdd | BSub | BMul | BAnd | BOr | BXor | BLt | BEq.
Inductive expr := EC (c : Z) | EV (x : var) | EB (b : bop) (e1 e2 : expr).

(* SLoop false x n b = "for x in range(n): b";  SLoop true x n b = nested "for x in prange(n): b" *)
Inductive stmt :=
| SSkip
| SSeq (a b : stmt)
| SAssign (x : var) (e : expr)
| SInplace (x : var) (o : iop) (e : expr)
| SIf (c : expr) (th el : stmt)
| SLoop (par : bool) (x : var) (n : expr) (body : stmt).

(* the outermost prange, optionally closely nested in "with parallel():" after the statements r_pre *)
Record region := { r_pre : option stmt; r_tgt : var; r_body : stmt }.

(* ---- MarkParallelAssignments ------------------------------------------------------------------- *)

Definition alist := list (var * option iop).          (* a dict in insertion order *)

Fixpoint aget (al : alist) (x : var) : option (option iop) :=
  match al with
  | [] => None
  | (y, v) :: r => if Nat.eqb y x then Some v else aget r x
  end.

Fixpoint aset (al : alist) (x : var) (v : option iop) : alist :=
  match al with
  | [] => [(x, v)]
  | (y, u) :: r => if Nat.eqb y x then (y, v) :: r else (y, u) :: aset r x v
  end.

Definition aupdate (al new : alist) : alist := fold_left (fun acc p => aset acc (fst p) (snd p)) new al.
Definition akeys (al : alist) : list var := map fst al.
Definition amem (al : alist) (x : var) : bool := match aget al x with Some _ => true | None => false end.

Inductive cerr := EInconsistent | EReadReduction | EOuterPrivate | EBlockReduction | EUnsupportedOp.

(* repairs proposed in /verif/proposed_fixes/C37-*.diff; all false = the code as it is
     fx_ops : analyse_sharing_attributes rejects an in-place operator that is not in "+*-&^|"
     fx_nest: merging a nested prange into the outermost one checks operator consistency
     fx_rhs : only the target of an in-place statement may read a reduction variable *)
Record fixes := { fx_ops : bool; fx_nest : bool; fx_rhs : bool }.
Definition no_fixes : fixes := {| fx_ops := false; fx_nest := false; fx_rhs := false |}.
Definition all_fixes : fixes := {| fx_ops := true; fx_nest := true; fx_rhs := true |}.

(* mark_assignment: the stored operator is replaced; two different truthy operators are an error *)
Definition mark (x : var) (op : option iop) (acc : alist * list cerr) : alist * list cerr :=
  let (al, errs) := acc in
  let errs' := match aget al x, op with
               | Some (Some p), Some n => if iop_eqb p n then errs else EInconsistent :: errs
               | _, _ => errs
               end in
  (aset al x op, errs').

(* assignments recorded in ONE parallel node: nested prange bodies belong to their own node *)
Fixpoint marks (st : stmt) (acc : alist * list cerr) : alist * list cerr :=
  match st with
  | SSkip => acc
  | SSeq a b => marks b (marks a acc)
  | SAssign x _ => mark x None acc
  | SInplace x o _ => mark x (Some o) acc
  | SIf _ t e => marks e (marks t acc)
  | SLoop false x _ b => marks b (mark x None (mark x None acc))
  | SLoop true _ _ _ => acc
  end.

Definition node_marks (st : stmt) : alist := fst (marks st ([], [])).
Definition node_errs (st : stmt) : list cerr := snd (marks st ([], [])).

(* nested prange nodes in the order in which their analyse_expressions completes (post-order) *)
Fixpoint nested (st : stmt) : list (var * stmt) :=
  match st with
  | SSeq a b => nested a ++ nested b
  | SIf _ t e => nested t ++ nested e
  | SLoop false _ _ b => nested b
  | SLoop true x _ b => nested b ++ [(x, b)]
  | _ => []
  end.

(* ParallelRangeNode.analyse_expressions: assignments[target] = None, then the body is analysed
   (each nested prange does  outermost.assignments.update(node.assignments)  when it completes) *)
Definition node_assignments (tgt : var) (body : stmt) : alist := aset (node_marks body) tgt None.

(* operators that disagree between the outermost prange (as merged so far) and a nested one *)
Definition merge_errs (acc new : alist) : list cerr :=
  flat_map (fun p => match snd p, aget acc (fst p) with
                     | Some o, Some (Some q) => if iop_eqb o q then [] else [EInconsistent]
                     | _, _ => []
                     end) new.

Definition final_merge (tgt : var) (body : stmt) : alist * list cerr :=
  fold_left (fun st nb => let na := node_assignments (fst nb) (snd nb) in
                          (aupdate (fst st) na, snd st ++ merge_errs (fst st) na))
            (nested body) (node_assignments tgt body, []).

Definition final_assignments (tgt : var) (body : stmt) : alist := fst (final_merge tgt body).

(* ---- FlowControl: reading a reduction variable ------------------------------------------------- *)

Fixpoint expr_vars (e : expr) : list var :=
  match e with
  | EC _ => []
  | EV x => [x]
  | EB _ a b => expr_vars a ++ expr_vars b
  end.

Definition mem (x : var) (l : list var) : bool := existsb (Nat.eqb x) l.
Definition reads_any (red : list var) (e : expr) : bool := existsb (fun x => mem x red) (expr_vars e).

(* variables of a node whose recorded form is in-place (any operator) at Mark time *)
Definition inplace_vars (al : alist) : list var :=
  flat_map (fun p => match snd p with Some _ => [fst p] | None => [] end) al.

(* true = some NameNode outside an in-place statement reads a variable of the active reduction set;
   visit_InPlaceAssignmentNode sets in_inplace_assignment for BOTH sides (rhs = false), the repair
   only for the target (rhs = true) *)
Fixpoint reads_bad (rhs : bool) (red : list var) (st : stmt) : bool :=
  match st with
  | SSkip => false
  | SSeq a b => reads_bad rhs red a || reads_bad rhs red b
  | SAssign _ e => reads_any red e
  | SInplace _ _ e => rhs && reads_any red e
  | SIf c t e => reads_any red c || reads_bad rhs red t || reads_bad rhs red e
  | SLoop false _ n b => reads_any red n || reads_bad rhs red b
  | SLoop true _ n b =>
      let red' := red ++ inplace_vars (node_marks b) in
      reads_any red' n || reads_bad rhs red' b
  end.

Definition has_unsupported (al : alist) : bool :=
  existsb (fun p => match snd p with Some o => negb (omp_reduction_op o) | None => false end) al.

(* ---- analyse_sharing_attributes + generate_loop ------------------------------------------------ *)

Inductive clause :=
| CRed (o : iop)       (* reduction(o:x) on the parallel pragma *)
| CFirstLast           (* firstprivate(x) lastprivate(x) on the for pragma *)
| CBlockPriv           (* firstprivate(x) on the enclosing "omp parallel" of a with-parallel block *)
| CShared.             (* no clause *)

Definition clause_eqb (a b : clause) : bool :=
  match a, b with
  | CRed o, CRed p => iop_eqb o p
  | CFirstLast, CFirstLast | CBlockPriv, CBlockPriv | CShared, CShared => true
  | _, _ => false
  end.

Definition block_marks (r : region) : alist :=
  match r_pre r with Some p => node_marks p | None => [] end.

Definition classify (r : region) (x : var) : clause :=
  match aget (final_assignments (r_tgt r) (r_body r)) x with
  | Some op =>
      if Nat.eqb x (r_tgt r) then CFirstLast
      else match op with
           | Some o => if omp_reduction_op o then CRed o else CFirstLast
           | None => CFirstLast
           end
  | None => if amem (block_marks r) x then CBlockPriv else CShared
  end.

Definition opt_errs (c : bool) (e : cerr) : list cerr := if c then [e] else [].

Definition region_errors (fx : fixes) (r : region) : list cerr :=
  let fa := final_assignments (r_tgt r) (r_body r) in
  let bm := block_marks r in
  (* inconsistent operators inside one node: the block, the outer prange, every nested prange *)
  (match r_pre r with Some p => node_errs p | None => [] end)
  ++ node_errs (r_body r)
  ++ flat_map (fun nb => node_errs (snd nb)) (nested (r_body r))
  ++ (if fx_nest fx then snd (final_merge (r_tgt r) (r_body r)) else [])
  (* FlowControl *)
  ++ opt_errs (reads_bad (fx_rhs fx) (inplace_vars (node_marks (r_body r))) (r_body r)) EReadReduction
  (* every prange node looks at its own assignments; the outermost one after the merges *)
  ++ opt_errs (fx_ops fx && (has_unsupported fa ||
                             existsb (fun nb => has_unsupported (node_assignments (fst nb) (snd nb)))
                                     (nested (r_body r)))) EUnsupportedOp
  (* prange closely nested in a parallel block assigning one of the block's privates *)
  ++ opt_errs (existsb (amem bm) (akeys fa)) EOuterPrivate
  (* in-place form directly in the parallel block *)
  ++ opt_errs (negb (Nat.eqb (length (inplace_vars bm)) 0)) EBlockReduction.

(* ---- run-time meaning --------------------------------------------------------------------------- *)

Section Sem.
  Variable w : Z.          (* width and signedness of the C type shared by all variables *)
  Variable sg : bool.
  Definition W (z : Z) : Z := wrap w sg z.

  Definition env := var -> Z.
  Definition upd (e : env) (x : var) (v : Z) : env := fun y => if Nat.eqb y x then v else e y.

  Definition bin (b : bop) (x y : Z) : Z :=
    match b with
    | BAdd => W (x + y) | BSub => W (x - y) | BMul => W (x * y)
    | BAnd => W (Z.land x y) | BOr => W (Z.lor x y) | BXor => W (Z.lxor x y)
    | BLt => b2z (x <? y) | BEq => b2z (x =? y)
    end.

  Fixpoint eval (e : env) (ex : expr) : Z :=
    match ex with
    | EC c => W c
    | EV x => e x
    | EB b a c => bin b (eval e a) (eval e c)
    end.

  (* x o= v *)
  Definition act (o : iop) (acc v : Z) : Z :=
    match o with
    | OAdd => W (acc + v) | OMul => W (acc * v) | OSub => W (acc - v)
    | OAnd => W (Z.land acc v) | OXor => W (Z.lxor acc v) | OOr => W (Z.lor acc v)
    | OShl => W (Z.shiftl acc v) | OShr => W (Z.shiftr acc v)
    | OFdiv => if v =? 0 then acc else W (acc / v)
    end.

  (* OpenMP combiner and initialiser of reduction(o:x); reduction(-:x) combines with + *)
  Definition mop (o : iop) (a b : Z) : Z :=
    match o with OSub => W (a + b) | _ => act o a b end.
  Definition ident (o : iop) : Z :=
    match o with OMul => 1 | OAnd => W (-1) | _ => 0 end.

  Fixpoint iter (n : nat) (k : Z) (f : Z -> env -> env) (e : env) : env :=
    match n with O => e | S m => iter m (k + 1) f (f k e) end.

  Fixpoint exec (st : stmt) (e : env) : env :=
    match st with
    | SSkip => e
    | SSeq a b => exec b (exec a e)
    | SAssign x a => upd e x (eval e a)
    | SInplace x o a => upd e x (act o (e x) (eval e a))
    | SIf c t f => if eval e c =? 0 then exec f e else exec t e
    | SLoop _ x n b => iter (Z.to_nat (eval e n)) 0 (fun k e' => exec b (upd e' x (W k))) e
    end.

  Section Loop.
    Variable cls : var -> clause.
    Variable tgt : var.
    Variable body : stmt.

    (* target = (T)(start + step * i); body *)
    Definition exec_iter (v : Z) (e : env) : env := exec body (upd e tgt (W v)).

    (* the sequential loop over the iteration values idxs *)
    Definition seq_run (idxs : list Z) (e0 : env) : env := fold_left (fun e v => exec_iter v e) idxs e0.

    (* private copies of a thread entering the region *)
    Definition priv_init (e0 : env) : env :=
      fun x => match cls x with CRed o => ident o | _ => e0 x end.

    (* one thread executes its iterations in the order given; also the state right after the
       iteration whose value is lastv (where lastprivate copies out), if the thread ran it *)
    Fixpoint thr_steps (chunk : list Z) (lastv : Z) (e : env) (acc : option env) : env * option env :=
      match chunk with
      | [] => (e, acc)
      | v :: r => let e' := exec_iter v e in
                  thr_steps r lastv e' (if v =? lastv then Some e' else acc)
      end.
    Definition thr_run (chunk : list Z) (lastv : Z) (e0 : env) : env * option env :=
      thr_steps chunk lastv (priv_init e0) None.

    Fixpoint first_some (l : list (option env)) : option env :=
      match l with
      | [] => None
      | Some e :: _ => Some e
      | None :: r => first_some r
      end.

    (* the whole region under an arbitrary assignment of iterations to threads *)
    Definition par_exec (chunks : list (list Z)) (lastv : Z) (e0 : env) : env :=
      let runs := map (fun ch => thr_run ch lastv e0) chunks in
      fun x => match cls x with
               | CRed o => fold_left (mop o) (map (fun r => fst r x) runs) (e0 x)
               | CFirstLast => match first_some (map snd runs) with
                               | Some e' => e' x
                               | None => e0 x
                               end
               | _ => e0 x
               end.
  End Loop.

  (* region with an enclosing parallel block: every thread first runs the block statements on its
     firstprivate copies; block privates are not copied out *)
  Definition region_seq (r : region) (idxs : list Z) (e0 : env) : env :=
    let e1 := match r_pre r with Some p => exec p e0 | None => e0 end in
    seq_run (r_tgt r) (r_body r) idxs e1.

  Definition region_par (r : region) (chunks : list (list Z)) (lastv : Z) (e0 : env) : env :=
    let cls := classify r in
    let e1 := match r_pre r with Some p => exec p e0 | None => e0 end in
    let res := par_exec cls (r_tgt r) (r_body r) chunks lastv e1 in
    fun x => match cls x with CBlockPriv => e0 x | _ => res x end.

  (* ---- the body forms for which the classification is sound --------------------------------------
     D = lastprivate variables definitely assigned earlier in the same iteration *)
  Section WF.
    Variable cls : var -> clause.

    Definition var_ok (D : list var) (x : var) : bool :=
      match cls x with
      | CShared | CBlockPriv => true
      | CFirstLast => mem x D
      | CRed _ => false
      end.

    Fixpoint expr_ok (D : list var) (e : expr) : bool :=
      match e with
      | EC _ => true
      | EV x => var_ok D x
      | EB _ a b => expr_ok D a && expr_ok D b
      end.

    Fixpoint wf (D : list var) (st : stmt) : option (list var) :=
      match st with
      | SSkip => Some D
      | SSeq a b => match wf D a with Some D1 => wf D1 b | None => None end
      | SAssign x e => if clause_eqb (cls x) CFirstLast && expr_ok D e then Some (x :: D) else None
      | SInplace x o e =>
          if omp_reduction_op o && clause_eqb (cls x) (CRed o) && expr_ok D e then Some D else None
      | SIf c t f =>
          if expr_ok D c
          then match wf D t, wf D f with Some _, Some _ => Some D | _, _ => None end
          else None
      | SLoop _ x n b =>
          if expr_ok D n && clause_eqb (cls x) CFirstLast
          then match wf (x :: D) b with Some _ => Some D | None => None end
          else None
      end.
  End WF.

  Definition region_wf (fx : fixes) (r : region) : option (list var) :=
    match region_errors fx r with
    | [] => if clause_eqb (classify r (r_tgt r)) CFirstLast
            then wf (classify r) [r_tgt r] (r_body r) else None
    | _ => None
    end.
End Sem.
