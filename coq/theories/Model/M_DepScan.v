(* C46, second region: how the dependency GRAPH is extracted from sources.
   Model of the logic (not the regular expressions) of
     Cython/Build/Dependencies.py: parse_dependencies   (what is recorded per matched statement)
     Cython/Build/Dependencies.py: DependencyTree.find_pxd, package
   Definitions only; proofs in Proof/P_DepScan.v.

   A Python str is a list of characters; character 0 is '.', every other number stands for a
   character that is not a dot (for names: a \w character). *)
From Coq Require Import List Arith Bool.
Import ListNotations.

Definition str := list nat.
Definition DOT : nat := 0.

(* s.split('.') *)
Fixpoint split_dots (s : str) : list str :=
  match s with
  | [] => [[]]
  | c :: r =>
      if Nat.eqb c DOT then [] :: split_dots r
      else match split_dots r with
           | [] => [[c]]
           | h :: t => (c :: h) :: t
           end
  end.

(* '.'.join(l) *)
Fixpoint join_dots (l : list str) : str :=
  match l with
  | [] => []
  | x :: r => match r with [] => x | _ :: _ => x ++ DOT :: join_dots r end
  end.

(* s.endswith('.') *)
Fixpoint ends_with_dot (s : str) : bool :=
  match s with
  | [] => false
  | c :: r => match r with [] => Nat.eqb c DOT | _ :: _ => ends_with_dot r end
  end.

(* s[0] == '.'   (s is never empty: the regular expression groups are [\w.]+) *)
Definition starts_with_dot (s : str) : bool :=
  match s with c :: _ => Nat.eqb c DOT | [] => false end.

Fixpoint str_eqb (a b : str) : bool :=
  match a, b with
  | [], [] => true
  | x :: a', y :: b' => Nat.eqb x y && str_eqb a' b'
  | _, _ => false
  end.

(* ---------------------------------------------------------------------------------------------
   parse_dependencies: one entry per match of dependency_regex, in source order *)
Inductive stmt :=
| SFrom (from : str) (names : list str)   (* from <from> cimport n1 [as a1], n2 ...   ([] for '*') *)
| SCimport (mods : list str)              (* cimport m1, m2, ...   (the comma list the regex captured) *)
| SExtern (file : str)                    (* cdef extern from "file" *)
| SInclude (file : str).                  (* include "file" *)

(* the separator between <from> and a cimported name when the "package.name" candidate is built.
   SepEndsWithDot is the code:   sep = '' if cimport_from.endswith('.') else '.'
   SepOnlyOneDot is a variant (sep = '' if cimport_from == '.' else '.') kept for its refutation. *)
Inductive sep_rule := SepEndsWithDot | SepOnlyOneDot.

Definition sep_of (r : sep_rule) (from : str) : str :=
  match r with
  | SepEndsWithDot => if ends_with_dot from then [] else [DOT]
  | SepOnlyOneDot => if str_eqb from [DOT] then [] else [DOT]
  end.

Definition from_candidates (r : sep_rule) (from : str) (names : list str) : list str :=
  from :: map (fun w => from ++ sep_of r from ++ w) names.

Record scanned := mkScanned { sc_cimports : list str; sc_includes : list str; sc_externs : list str }.

Definition scan_stmt (r : sep_rule) (s : stmt) (acc : scanned) : scanned :=
  match s with
  | SFrom from names => mkScanned (sc_cimports acc ++ from_candidates r from names) (sc_includes acc) (sc_externs acc)
  | SCimport mods => mkScanned (sc_cimports acc ++ mods) (sc_includes acc) (sc_externs acc)
  | SExtern f => mkScanned (sc_cimports acc) (sc_includes acc) (sc_externs acc ++ [f])
  | SInclude f => mkScanned (sc_cimports acc) (sc_includes acc ++ [f]) (sc_externs acc)
  end.

Definition scan (r : sep_rule) (l : list stmt) : scanned :=
  fold_left (fun acc s => scan_stmt r s acc) l (mkScanned [] [] []).

(* ---------------------------------------------------------------------------------------------
   package(filename): the chain of directories above the file that are packages, outermost first.
   `dirs` = the ancestors of the file from the innermost directory outwards, each with its name
   and whether it contains an __init__ file. *)
Fixpoint package_rev (dirs : list (str * bool)) : list str :=
  match dirs with
  | (name, true) :: up => name :: package_rev up
  | _ => []
  end.
Definition package_of (dirs : list (str * bool)) : list str := rev (package_rev dirs).

(* ---------------------------------------------------------------------------------------------
   find_pxd(module, filename): the qualified names handed to Context.find_pxd_file, in order.
   None = the `return None` of the IndexError branch (more leading dots than packages). *)
Fixpoint strip_levels (pkg_rev mp : list str) {struct mp} : option (list str * list str) :=
  match mp with
  | [] :: mp' => match pkg_rev with [] => None | _ :: p' => strip_levels p' mp' end
  | _ => Some (pkg_rev, mp)
  end.

Definition drop_trailing_empty (mp : list str) : list str :=
  match rev mp with [] :: r => rev r | _ => mp end.

(* dots_only_fixed = false: the code as it is.  true: the repair of finding
   bare_dots_package_off_by_one (the '' that split() leaves after the last dot of "." / ".." is not
   a level). *)
Definition find_pxd_cands (dots_only_fixed : bool) (module : str) (pkg : list str) : option (list str) :=
  let rel := starts_with_dot module in
  let mp0 := split_dots module in
  let mp1 := if rel then tl mp0 else mp0 in
  let mp2 := if rel && dots_only_fixed then drop_trailing_empty mp1 else mp1 in
  match strip_levels (rev pkg) mp2 with
  | None => None
  | Some (p, m) =>
      let relative := join_dots (rev p ++ m) in
      Some (if rel then [relative] else [relative; module])
  end.

(* find_pxd over a file system: fs q = "Context.find_pxd_file(q) finds a file" *)
Definition find_pxd (dots_only_fixed : bool) (fs : str -> bool) (module : str) (pkg : list str) : option str :=
  match find_pxd_cands dots_only_fixed module pkg with
  | None => None
  | Some c => find fs c
  end.

(* ---------------------------------------------------------------------------------------------
   The specification side: Python's / the Cython compiler's import rule.
   A (c)import statement has a relative level (number of leading dots) and a module path. *)
Definition render (level : nat) (path : list str) : str := repeat DOT level ++ join_dots path.

(* qualified name meant by (level, path) inside package pkg; None = "relative cimport beyond main
   package" (level > number of enclosing packages) *)
Definition import_rule (level : nat) (path pkg : list str) : option (list str) :=
  match level with
  | 0 => Some path
  | S k => if k <? length pkg then Some (firstn (length pkg - k) pkg ++ path) else None
  end.

(* the .pxd the compiler opens: relative levels by the rule; level 0 is absolute under
   language_level 3 (absolute_import) and "package of the importing module first, then absolute"
   under language_level 2 (ModuleScope.find_module / Context.find_module) *)
Definition compiler_resolve (ll3 : bool) (fs : str -> bool) (level : nat) (path pkg : list str) : option str :=
  match level with
  | 0 => if ll3 then find fs [join_dots path] else find fs [join_dots (pkg ++ path); join_dots path]
  | S _ => match import_rule level path pkg with
           | Some q => find fs [join_dots q]
           | None => None
           end
  end.

(* witnesses *)
Definition w_pkg : list str := [[1]; [2]].                (* package p.q of the importing module *)
Definition w_name : str := [3].                           (* "s" *)
(* from .. cimport s  inside p.q: the rule says p.s *)
Definition w_seed_expected : str := join_dots [[1]; [3]].
