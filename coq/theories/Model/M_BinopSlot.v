(* C28 — operator dispatch of extension types vs Python classes (definitions only).

   Two executable models of `L <op> R` / `L <op>= R`:
     world WPy : CPython 3.12 — Objects/abstract.c binary_op1 / binary_iop1 composed with
                 Objects/typeobject.c SLOT1BINFULL (slot_nb_<op>), every class a Python class;
     world WCy : the same binary_op1 composed with Cython's BinopSlot template
                 (Cython/Utility/ExtensionTypes.c, instantiated by ModuleNode.generate_binop_function)
                 for the cdef classes B, T(B), CS(T), U, with PS(T) a *Python* subclass of the
                 extension type T (its slot comes from CPython's update_one_slot: slot wrappers vs
                 METH_COEXIST method descriptors).
   Methods are abstract: each defined method logs (class, kind, self-is-lft-operand) and returns
   NotImplemented or a value tagged with its identity.  *)
From Coq Require Import List Bool.
Import ListNotations.

Inductive cls := cB | cT | cCS | cPS | cU.           (* base of T, T, cdef subclass, Python subclass, unrelated *)
Inductive kind := kOp | kRop | kIop.                 (* __op__, __rop__, __iop__ *)
Inductive mstate := Undef | RetNI | RetVal.          (* not defined / returns NotImplemented / returns a value *)
Inductive world := WPy | WCy.

Definition cls_eqb (a b : cls) : bool :=
  match a, b with cB, cB | cT, cT | cCS, cCS | cPS, cPS | cU, cU => true | _, _ => false end.

Definition parent (c : cls) : option cls :=
  match c with cT => Some cB | cCS => Some cT | cPS => Some cT | _ => None end.
Definition chain (c : cls) : list cls :=              (* the MRO without object *)
  match c with cB => [cB] | cT => [cT; cB] | cCS => [cCS; cT; cB] | cPS => [cPS; cT; cB] | cU => [cU] end.
Definition issub (a b : cls) : bool := existsb (cls_eqb b) (chain a).

Inductive slot := SNone | SPy | SCy (c : cls).        (* NULL / slot_nb_<op> / the BinopSlot function generated for c *)
Definition slot_eqb (a b : slot) : bool :=
  match a, b with SNone, SNone => true | SPy, SPy => true | SCy x, SCy y => cls_eqb x y | _, _ => false end.
Definition is_some (s : slot) : bool := match s with SNone => false | _ => true end.

(* what a type's MRO lookup of a dunder name finds *)
Inductive entry :=
| ENone
| EFun (c : cls) (k : kind)      (* Python function, or the METH_COEXIST method descriptor of a cdef class: the user method itself *)
| EWrap (c : cls) (k : kind).    (* slot wrapper around c's BinopSlot function (wrap_binaryfunc_l / _r) *)
Definition entry_eqb (a b : entry) : bool :=
  match a, b with
  | ENone, ENone => true
  | EFun c k, EFun c' k' | EWrap c k, EWrap c' k' =>
      cls_eqb c c' && match k, k' with kOp, kOp | kRop, kRop | kIop, kIop => true | _, _ => false end
  | _, _ => false end.

Inductive res := NI | Val (c : cls) (k : kind) | Fuel.
Definition ev := (cls * kind * bool)%type.            (* method of class, kind, self is the lft operand *)
Definition M := (list ev * res)%type.
Definition opnd := (bool * cls)%type.                 (* is-lft-operand, type *)
Definition ty (x : opnd) : cls := snd x.

Definition orelse (a : M) (k : unit -> M) : M :=
  match snd a with NI => let b := k tt in (fst a ++ fst b, snd b) | _ => a end.

Section Model.
  Variable w : world.
  Variable st : cls -> kind -> mstate.
  Variable upy : bool.     (* the unrelated class U is a Python class also in world WCy *)
  Variable fx : bool.     (* proposed template repair: never take the reflected branch for same-type operands *)

  Definition defd (c : cls) (k : kind) : bool := match st c k with Undef => false | _ => true end.
  Definition is_py (c : cls) : bool :=
    match w with WPy => true | WCy => match c with cPS => true | cU => upy | _ => false end end.
  (* generate_binop_function runs iff the class itself defines __op__ or __rop__ *)
  Definition own_slot (c : cls) : bool := defd c kOp || defd c kRop.

  Definition entry_of (c : cls) (k : kind) : entry :=
    if is_py c then (if defd c k then EFun c k else ENone)
    else match k with
         | kIop => if defd c k then EFun c k else ENone
         | _ => if own_slot c then (if defd c k then EFun c k else EWrap c k) else ENone
         end.
  Fixpoint lookup_in (l : list cls) (k : kind) : entry :=
    match l with [] => ENone | c :: r => match entry_of c k with ENone => lookup_in r k | e => e end end.
  Definition lookup (c : cls) (k : kind) : entry := lookup_in (chain c) k.

  (* typeobject.c update_one_slot for a heap type, names __op__ then __rop__ *)
  Definition upd (acc : option cls * bool * bool) (d : entry) : option cls * bool * bool :=
    let '(sp, ug, g) := acc in
    match d with
    | ENone => acc
    | EWrap c _ => match sp with
                   | None => (Some c, ug, true)
                   | Some c' => if cls_eqb c c' then (sp, ug, true) else (sp, true, true)
                   end
    | EFun _ _ => (sp, true, true)
    end.
  Definition py_slot (c : cls) : slot :=
    let '(sp, ug, g) := upd (upd (None, false, false) (lookup c kOp)) (lookup c kRop) in
    match sp, ug with
    | Some x, false => SCy x
    | _, _ => if g then SPy else SNone
    end.
  Fixpoint cy_slot_in (l : list cls) : slot :=       (* own function, else inherited by PyType_Ready *)
    match l with [] => SNone | c :: r => if own_slot c then SCy c else cy_slot_in r end.
  Definition binslot (c : cls) : slot := if is_py c then py_slot c else cy_slot_in (chain c).
  Definition base_slot (c : cls) : slot := match parent c with None => SNone | Some p => binslot p end.

  Definition user (c : cls) (k : kind) (self : opnd) : M :=
    ([(c, k, fst self)], match st c k with RetVal => Val c k | _ => NI end).

  Section Rec.
    Variable rec : slot -> opnd -> opnd -> M.

    Definition call_entry (d : entry) (x y : opnd) : M :=
      match d with
      | ENone => ([], NI)
      | EFun c k => user c k x
      | EWrap c kOp => rec (SCy c) x y
      | EWrap c _ => rec (SCy c) y x
      end.

    (* method_is_overloaded(lft, rgt, name) *)
    Definition overloaded (l r : opnd) : bool :=
      match lookup (ty r) kRop with
      | ENone => false
      | a => match lookup (ty l) kRop with ENone => true | b => negb (entry_eqb a b) end
      end.

    (* SLOT1BINFULL *)
    Definition slot_py (s o : opnd) : M :=
      let do_other := negb (cls_eqb (ty s) (ty o)) && slot_eqb (binslot (ty o)) SPy in
      let tail (d : bool) : M := if d then call_entry (lookup (ty o) kRop) o s else ([], NI) in
      if slot_eqb (binslot (ty s)) SPy then
        let main (d : bool) : M :=
          let r := call_entry (lookup (ty s) kOp) s o in
          match snd r with
          | NI => if cls_eqb (ty o) (ty s) then r else orelse r (fun _ => tail d)
          | _ => r
          end in
        if do_other && issub (ty o) (ty s) && overloaded s o
        then orelse (call_entry (lookup (ty o) kRop) o s) (fun _ => main false)
        else main do_other
      else tail do_other.

    (* Cython/Utility/ExtensionTypes.c  BinopSlot, instantiated for class c *)
    Definition cy_binop (c : cls) (lft rgt : opnd) : M :=
      let ol := defd c kOp in
      let orr := defd c kRop in
      let same := cls_eqb (ty lft) (ty rgt) in
      let is_self (x : opnd) (leftpos : bool) : bool :=
        if fx && same then leftpos
        else same || slot_eqb (binslot (ty x)) (SCy c) || issub (ty x) c in
      let call_left (_ : unit) : M := if ol then user c kOp lft else rec (base_slot c) lft rgt in
      let call_right (_ : unit) : M := if orr then user c kRop rgt else rec (base_slot c) lft rgt in
      let msl := is_self lft true in
      let msr0 := if ol then false else is_self rgt false in
      let final (msr : bool) : M := if msr then call_right tt else ([], NI) in
      let msr_late := if ol then is_self rgt false else msr0 in
      if msl then
        if orr && negb ol && msr0
        then orelse (call_right tt) (fun _ => orelse (call_left tt) (fun _ => ([], NI)))
        else orelse (call_left tt) (fun _ => final msr_late)
      else final msr_late.
  End Rec.

  Fixpoint call_slot (fuel : nat) (s : slot) (v x : opnd) : M :=
    match fuel with
    | O => ([], Fuel)
    | S f => match s with
             | SNone => ([], NI)
             | SPy => slot_py (call_slot f) v x
             | SCy c => cy_binop (call_slot f) c v x
             end
    end.

  Definition FUEL : nat := 12.

  (* Objects/abstract.c binary_op1 *)
  Definition binary_op1 (v x : opnd) : M :=
    let slotv := binslot (ty v) in
    let slotw := if cls_eqb (ty x) (ty v) then SNone
                 else let s := binslot (ty x) in if slot_eqb s slotv then SNone else s in
    if is_some slotv then
      if is_some slotw && issub (ty x) (ty v)
      then orelse (call_slot FUEL slotw v x) (fun _ => call_slot FUEL slotv v x)
      else orelse (call_slot FUEL slotv v x) (fun _ => call_slot FUEL slotw v x)
    else call_slot FUEL slotw v x.
End Model.

(* ---------------------------------------------------------------- finite configurations *)
Definition cst := (mstate * mstate)%type.                            (* __op__, __rop__ *)
Definition bcfg := (cst * cst * cst * cst * cst * bool)%type.        (* B, T, CS, PS, U, U-is-Python *)
Definition icfg := (mstate * mstate * mstate * mstate * mstate)%type.  (* __iop__ of B, T, CS, PS, U *)

Definition bc_upy (bc : bcfg) : bool := snd bc.
Definition mkst (bc : bcfg) (ic : icfg) (c : cls) (k : kind) : mstate :=
  let '(b, t, s, p, u, _) := bc in
  let '(ib, it, is_, ip, iu) := ic in
  let pick (x : cst) (i : mstate) := match k with kOp => fst x | kRop => snd x | kIop => i end in
  match c with cB => pick b ib | cT => pick t it | cCS => pick s is_ | cPS => pick p ip | cU => pick u iu end.
Definition ic0 : icfg := (Undef, Undef, Undef, Undef, Undef).

Inductive fres := FTypeError | FVal (c : cls) (k : kind) | FNotImplementedObject | FFuel.
Definition out := (list ev * fres)%type.
Definition finish (m : M) : out :=
  (fst m, match snd m with NI => FTypeError | Val c k => FVal c k | Fuel => FFuel end).

(* Only classes in the MRO of an operand type are ever consulted (lookups walk chain(type(x)),
   base-slot delegation walks parents): the configuration is normalised accordingly, which keeps the
   exhaustive proofs small.  The correspondence run feeds un-normalised configurations. *)
Definition relevant (L R c : cls) : bool := existsb (cls_eqb c) (chain L ++ chain R).
Definition keep (L R c : cls) (x : cst) : cst := if relevant L R c then x else (Undef, Undef).
Definition norm (L R : cls) (bc : bcfg) : bcfg :=
  let '(b, t, s, p, u, y) := bc in
  (keep L R cB b, keep L R cT t, keep L R cCS s, keep L R cPS p, keep L R cU u,
   if relevant L R cU then y else false).

(* L <op> R *)
Definition run_bin (w : world) (fx : bool) (bc : bcfg) (L R : cls) : M :=
  let nb := norm L R bc in
  binary_op1 w (mkst nb ic0) (bc_upy nb) fx (true, L) (false, R).

(* the in-place slot of type(L): nearest __iop__ in the MRO (slot inherited, or slot_nb_inplace_<op>) *)
Definition iop_part (bc : bcfg) (ic : icfg) (L : cls) : M :=
  match lookup WPy (mkst bc ic) false L kIop with
  | EFun c k => user (mkst bc ic) c k (true, L)
  | _ => ([], NI)
  end.
(* PyNumber_InPlaceAdd's sq_inplace_concat step: a heap subtype of an extension type that defines
   __iadd__ inherits the C function also as sq_inplace_concat (same name, same wrapper) *)
Definition sq_concat_applies (w : world) (isadd : bool) (bc : bcfg) (ic : icfg) (L : cls) : bool :=
  match w with
  | WPy => false
  | WCy => isadd && is_py WCy (bc_upy bc) L &&
           match lookup WPy (mkst bc ic) false L kIop with
           | EFun c _ => negb (is_py WCy (bc_upy bc) c)
           | _ => false
           end
  end.

Definition run (w : world) (fx isadd inplace : bool) (bc : bcfg) (ic : icfg) (L R : cls) : out :=
  if inplace then
    let m := orelse (iop_part bc ic L) (fun _ => run_bin w fx bc L R) in
    match snd m with
    | NI => if sq_concat_applies w isadd bc ic L
            then let m2 := iop_part bc ic L in
                 (fst m ++ fst m2, match snd m2 with NI => FNotImplementedObject | Val c k => FVal c k | Fuel => FFuel end)
            else finish m
    | _ => finish m
    end
  else finish (run_bin w fx bc L R).

(* ---------------------------------------------------------------- exception classes (where WPy and WCy may differ) *)
Definition related (L R : cls) : bool :=
  match L, R with cU, cU => true | cU, _ => false | _, cU => false | _, _ => true end.
Definition slots_of (bc : bcfg) (L R : cls) : list slot :=
  let nb := norm L R bc in
  map (binslot WCy (mkst nb ic0) (bc_upy nb)) (chain L ++ chain R).
(* two different nb_<op> slot functions occur in the operands' inheritance chains *)
Definition multi_slot (bc : bcfg) (L R : cls) : bool :=
  let l := slots_of bc L R in
  existsb (fun a => existsb (fun b => is_some a && is_some b && negb (slot_eqb a b)) l) l.
Definition any_rop (bc : bcfg) (L : cls) : bool :=
  existsb (fun c => defd (mkst bc ic0) c kRop) (chain L).
Definition any_slot (bc : bcfg) (L R : cls) : bool := existsb is_some (slots_of bc L R).

(* class 1 (current template only): operands of the same type, and the type's chain defines a
   reflected method or carries two slot functions *)
Definition exc_same_type (fx : bool) (bc : bcfg) (L R : cls) : bool :=
  cls_eqb L R && negb fx && ((any_rop bc L && any_slot bc L R) || multi_slot bc L R).
(* class 2: different but related operand types (subclass / siblings) with two slot functions *)
Definition exc_multi_slot (bc : bcfg) (L R : cls) : bool :=
  related L R && negb (cls_eqb L R) && multi_slot bc L R.
Definition exc_bin (fx : bool) (bc : bcfg) (L R : cls) : bool :=
  exc_same_type fx bc L R || exc_multi_slot bc L R.
Definition exc_inplace (fx isadd : bool) (bc : bcfg) (ic : icfg) (L R : cls) : bool :=
  exc_bin fx bc L R || sq_concat_applies WCy isadd bc ic L.

(* ---------------------------------------------------------------- c_api_binop_methods=True (legacy, differential only) *)
(* the slot is the user's __op__ itself, called with (lft, rgt) whichever operand is the instance;
   __rop__ is never used by the slot *)
Definition capi_slot_in (st : cls -> kind -> mstate) (l : list cls) : option cls :=
  find (fun c => defd st c kOp) l.
Definition run_capi (bc : bcfg) (L R : cls) : out :=
  let st := mkst bc ic0 in
  let sv := capi_slot_in st (chain L) in
  let sw := if cls_eqb L R then None else
            match capi_slot_in st (chain R), sv with
            | Some a, Some b => if cls_eqb a b then None else Some a
            | x, _ => x end in
  let call (s : option cls) : M := match s with None => ([], NI) | Some c => user st c kOp (true, L) end in
  finish (match sv with
          | Some _ => if (match sw with Some _ => true | None => false end) && issub R L
                      then orelse (call sw) (fun _ => call sv)
                      else orelse (call sv) (fun _ => call sw)
          | None => call sw end).

(* ================================================================ rich comparison
   classes: T (optionally @total_ordering), X a subclass of T (Python or cdef), U an opaque unrelated
   class whose six methods log and answer with one outcome for orderings, one for ==/!=.
   world WPy: do_richcompare + slot_tp_richcompare + object_richcompare (+ functools.total_ordering);
   world WCy: do_richcompare + ModuleNode.generate_richcmp_function. *)
Inductive rcls := rT | rX | rU.
Inductive cop := LT | LE | EQ | NE | GT | GE.
Inductive cstate := CU | CN | CTr | CFa.            (* undefined / NotImplemented / True / False *)
Inductive rres := RNI | RB (b : bool) | RTypeErr | RFuel.
Definition rev := (rcls * cop * bool)%type.
Definition RM := (list rev * rres)%type.
Definition ropnd := (bool * rcls)%type.

Definition rcls_eqb (a b : rcls) : bool := match a, b with rT, rT | rX, rX | rU, rU => true | _, _ => false end.
Definition cop_eqb (a b : cop) : bool :=
  match a, b with LT, LT | LE, LE | EQ, EQ | NE, NE | GT, GT | GE, GE => true | _, _ => false end.
Definition swap (o : cop) : cop := match o with LT => GT | LE => GE | EQ => EQ | NE => NE | GT => LT | GE => LE end.
Definition all_cop := [LT; LE; EQ; NE; GT; GE].
Definition root_pref := [LT; LE; GT; GE].           (* max() of the method names *)
Definition rsub (a b : rcls) : bool := match a, b with rX, rT => true | _, _ => rcls_eqb a b end.
Definition rchain (c : rcls) : list rcls := match c with rT => [rT] | rX => [rX; rT] | rU => [rU] end.

Definition rbind (a : RM) (k : rres -> RM) : RM := let b := k (snd a) in (fst a ++ fst b, snd b).
Definition rret (r : rres) : RM := ([], r).
Definition rnot (r : rres) : rres := match r with RB b => RB (negb b) | x => x end.

(* (negate root result, 0 = nothing / 1 = `or self == other` / 2 = `and self != other`)  functools + ModuleNode.TOTAL_ORDERING *)
Definition derive (root op : cop) : bool * nat :=
  match root, op with
  | LT, GT => (true, 2) | LT, LE => (false, 1) | LT, GE => (true, 0)
  | LE, GE => (true, 1) | LE, LT => (false, 2) | LE, GT => (true, 0)
  | GT, LT => (true, 2) | GT, GE => (false, 1) | GT, LE => (true, 0)
  | GE, LE => (true, 1) | GE, GT => (false, 2) | GE, LT => (true, 0)
  | _, _ => (false, 0)
  end.
Definition is_ordering (o : cop) : bool := match o with EQ | NE => false | _ => true end.

Section RichCmp.
  Variable w : world.
  Variable tst xst : cop -> cstate.
  Variable tord : bool.        (* @total_ordering on T *)
  Variable xpy : bool.         (* X is a Python subclass (else cdef subclass) *)
  Variable uord ueq : cstate.  (* U's answers *)
  Variable nefix : bool.       (* candidate repair (not proposed): synthesised != goes through Py_TYPE(o1)->tp_richcompare *)

  Definition rst (c : rcls) (m : cop) : cstate := match c with rT => tst m | rX => xst m | rU => CU end.
  Definition rdef (c : rcls) (m : cop) : bool := match rst c m with CU => false | _ => true end.
  Definition r_is_py (c : rcls) : bool := match w with WPy => true | WCy => match c with rX => xpy | _ => false end end.
  Definition ruser (c : rcls) (m : cop) (s : ropnd) : RM :=
    ([(c, m, fst s)], match rst c m with CTr => RB true | CFa => RB false | _ => RNI end).
  Definition root : option cop := find (rdef rT) root_pref.
  Definition any_def (c : rcls) : bool := existsb (rdef c) all_cop.
  (* comp_entry of Cython's generated function for cdef class c: nearest definition in the cdef chain *)
  Definition comp (c : rcls) (m : cop) : option rcls := find (fun x => negb (r_is_py x) && rdef x m) (rchain c).

  Inductive rreq := QDo (v x : ropnd) (op : cop) | QTp (c : rcls) (s o : ropnd) (op : cop).

  Fixpoint rev_ (fuel : nat) (q : rreq) : RM :=
    match fuel with O => rret RFuel | S f =>
    match q with
    | QDo v x op =>                                          (* Objects/object.c do_richcompare *)
        let first := negb (rcls_eqb (snd v) (snd x)) && rsub (snd x) (snd v) in
        let refl := fun _ : unit => rev_ f (QTp (snd x) x v (swap op)) in
        let fwd := fun _ : unit => rev_ f (QTp (snd v) v x op) in
        let dflt := rret (match op with EQ => RB false | NE => RB true | _ => RTypeErr end) in
        let step (a : RM) (k : unit -> RM) : RM := rbind a (fun r => match r with RNI => k tt | _ => rret r end) in
        if first then step (refl tt) (fun _ => step (fwd tt) (fun _ => dflt))
        else step (fwd tt) (fun _ => step (refl tt) (fun _ => dflt))
    | QTp c s o op =>
        let object_rc (op : cop) : RM :=                      (* object_richcompare, distinct objects *)
          match op with
          | NE => rbind (rev_ f (QTp (snd s) s o EQ)) (fun r => rret (rnot r))
          | _ => rret RNI
          end in
        match c with
        | rU => ([(rU, op, fst s)], match (if is_ordering op then uord else ueq) with CTr => RB true | CFa => RB false | _ => RNI end)
        | _ =>
          if r_is_py c then
            match w with
            | WPy =>                                          (* slot_tp_richcompare: MRO lookup of the dunder *)
                match find (fun x => rdef x op) (rchain c) with
                | Some x => ruser x op s
                | None =>
                    match (if tord && is_ordering op then root else None) with
                    | Some r =>                               (* functools: _<op>_from_<root> *)
                        let '(neg, comb) := derive r op in
                        rbind (rev_ f (QTp (snd s) s o r)) (fun a =>
                          match a with
                          | RB b => let b' := if neg then negb b else b in
                                    match comb with
                                    | 1 => if b' then rret (RB true) else rev_ f (QDo s o EQ)
                                    | 2 => if b' then rev_ f (QDo s o NE) else rret (RB false)
                                    | _ => rret (RB b')
                                    end
                          | other => rret other
                          end)
                    | None => object_rc op
                    end
                end
            | WCy =>                                          (* Python subclass X of the extension type T *)
                if rdef rX op then ruser rX op s else rev_ f (QTp rT s o op)
            end
          else
            (* cdef class: nearest class in the chain with a generated function, else object's *)
            match find any_def (rchain c) with
            | None => object_rc op
            | Some g =>
                let tor := tord && rcls_eqb g rT in
                let src := find (fun m => match comp g m with Some _ => true | None => false end) root_pref in
                let has m := match comp g m with Some _ => true | None => false end in
                let tor := tor && (match src with Some _ => true | None => false end) && (has EQ || has NE) in
                match comp g op with
                | Some d => ruser d op s
                | None =>
                  match (if tor && is_ordering op then src else None) with
                  | Some r =>
                      let '(neg, comb) := derive r op in
                      rbind (match comp g r with Some d => ruser d r s | None => rret RNI end) (fun a =>
                        match a with
                        | RB b => let b' := if neg then negb b else b in
                                  let eqcall (inv : bool) : RM :=
                                    let m := if has EQ then EQ else NE in
                                    let inv := if has EQ then inv else negb inv in
                                    rbind (match comp g m with Some d => ruser d m s | None => rret RNI end)
                                          (fun e => rret (if inv then rnot e else e)) in
                                  match comb with
                                  | 1 => if b' then rret (RB true) else eqcall false
                                  | 2 => if b' then eqcall true else rret (RB false)
                                  | _ => rret (RB b')
                                  end
                        | other => rret other
                        end)
                  | None =>
                      match op with
                      | NE => if has EQ then
                                if nefix then rbind (rev_ f (QTp (snd s) s o EQ)) (fun r => rret (rnot r))
                                else rbind (match comp g EQ with Some d => ruser d EQ s | None => rret RNI end) (fun r => rret (rnot r))
                              else rret RNI
                      | _ => rret RNI
                      end
                  end
                end
            end
        end
    end end.

  Definition rc_run (L R : rcls) (op : cop) : RM := rev_ 14 (QDo (true, L) (false, R) op).
End RichCmp.
