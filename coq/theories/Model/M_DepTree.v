(* Model of Cython/Build/Dependencies.py: DependencyTree.transitive_merge /
   transitive_merge_helper (the memoised, cycle-aware transitive closure used by
   all_dependencies), newest_dependency and the rebuild decision of cythonize().

   Python text being modelled (Dependencies.py):

     def transitive_merge(self, node, extract, merge):
         seen = self._transitive_cache[extract, merge]          # one dict per tree, shared
         return self.transitive_merge_helper(node, extract, merge, seen, {}, self.cimported_files)[0]

     def transitive_merge_helper(self, node, extract, merge, seen, stack, outgoing):
         if node in seen:  return seen[node], None
         deps = extract(node)
         if node in stack: return deps, node
         try:
             stack[node] = len(stack)
             loop = None
             for next in outgoing(node):
                 sub_deps, sub_loop = self.transitive_merge_helper(next, ..., seen, stack, outgoing)
                 if sub_loop is not None:
                     if loop is not None and stack[loop] < stack[sub_loop]: pass
                     else: loop = sub_loop
                 deps = merge(deps, sub_deps)
             if loop == node: loop = None
             if loop is None: seen[node] = deps
             return deps, loop
         finally:
             del stack[node]

   Nodes (file names) are natural numbers; `outgoing` maps a node to the *list* of its
   successors in iteration order; `extract` maps a node to a finite set of items (files),
   sets are duplicate-free-agnostic lists compared extensionally; merge is set union.
   `seen` (dict) is an association list, assignment conses in front (lookup = first match);
   `stack` (dict node -> depth index) is an association list; `del stack[node]` after the
   loop restores the caller's dict, which is what passing the caller's value does here.
   The recursion is fuelled; running out of fuel and a failing `stack[...]` subscription are
   explicit results. *)
From Coq Require Import List Arith Bool ZArith.
Import ListNotations.

Definition node := nat.
Definition nset := list nat.
Definition cache := list (node * nset).      (* seen *)
Definition stk := list (node * nat).         (* stack: node -> depth index *)

Fixpoint mem (x : nat) (l : nset) : bool :=
  match l with [] => false | y :: t => if Nat.eqb x y then true else mem x t end.

(* set.union(a, b) *)
Definition union (a b : nset) : nset := a ++ filter (fun x => negb (mem x a)) b.

Fixpoint lookup {A : Type} (k : node) (l : list (node * A)) : option A :=
  match l with
  | [] => None
  | (k', v) :: t => if Nat.eqb k k' then Some v else lookup k t
  end.

Inductive result :=
| Ok (deps : nset) (loop : option node) (seen : cache)
| OutOfFuel
| KeyError.            (* stack[loop] / stack[sub_loop] on a missing key *)

(* the `if sub_loop is not None: ...` statement; None = KeyError *)
Definition choose_loop (stack : stk) (loop sub_loop : option node) : option (option node) :=
  match sub_loop with
  | None => Some loop
  | Some sl =>
    match loop with
    | None => Some (Some sl)
    | Some l =>
      match lookup l stack with
      | None => None
      | Some dl =>
        match lookup sl stack with
        | None => None
        | Some ds => if Nat.ltb dl ds then Some loop else Some (Some sl)
        end
      end
    end
  end.

(* the `for next in outgoing(node)` loop, the recursive call abstracted as [rec] *)
Fixpoint children (rec : node -> cache -> result) (stack : stk) (l : list node)
         (deps : nset) (loop : option node) (seen : cache) : result :=
  match l with
  | [] => Ok deps loop seen
  | c :: tl =>
    match rec c seen with
    | Ok sub_deps sub_loop seen1 =>
      match choose_loop stack loop sub_loop with
      | None => KeyError
      | Some loop1 => children rec stack tl (union deps sub_deps) loop1 seen1
      end
    | e => e
    end
  end.

Definition opt_is (o : option node) (n : node) : bool :=
  match o with Some l => Nat.eqb l n | None => false end.

Section Graph.
  Variable outgoing : node -> list node.
  Variable extract : node -> nset.

  Fixpoint tmh (fuel : nat) (n : node) (seen : cache) (stack : stk) : result :=
    match fuel with
    | O => OutOfFuel
    | S f =>
      match lookup n seen with
      | Some d => Ok d None seen
      | None =>
        let deps := extract n in
        match lookup n stack with
        | Some _ => Ok deps (Some n) seen
        | None =>
          let stack1 := (n, length stack) :: stack in
          match children (fun c s => tmh f c s stack1) stack1 (outgoing n) deps None seen with
          | Ok deps1 loop1 seen1 =>
            let loop2 := if opt_is loop1 n then None else loop1 in
            match loop2 with
            | None => Ok deps1 None ((n, deps1) :: seen1)
            | Some _ => Ok deps1 loop2 seen1
            end
          | e => e
          end
        end
      end
    end.

  (* transitive_merge: fresh stack, the tree's shared cache *)
  Definition transitive_merge (fuel : nat) (seen : cache) (q : node) : result :=
    tmh fuel q seen [].

  (* a sequence of all_dependencies() calls on one tree *)
  Inductive qresult :=
  | QOk (answers : list nset) (seen : cache)
  | QFail.        (* some query ended in OutOfFuel / KeyError *)

  Fixpoint run_queries (fuel : nat) (seen : cache) (qs : list node) : qresult :=
    match qs with
    | [] => QOk [] seen
    | q :: tl =>
      match transitive_merge fuel seen q with
      | Ok d _ seen1 =>
        match run_queries fuel seen1 tl with
        | QOk ds seen2 => QOk (d :: ds) seen2
        | QFail => QFail
        end
      | _ => QFail
      end
    end.
End Graph.

(* fuel used by the check and shown sufficient: one frame per distinct stacked node + 1 *)
Definition fuel_for (nodes : list node) : nat := S (length nodes).

(* ---------- timestamps and the rebuild decision ---------- *)
(* newest_dependency: max([...]) over all_dependencies; max([]) raises ValueError = None.
   Only the timestamp component of the (timestamp, filename) pairs enters the decision. *)
Definition newest (ts : nat -> Z) (deps : nset) : option Z :=
  match deps with
  | [] => None
  | d :: t => Some (fold_left (fun acc x => Z.max acc (ts x)) t (ts d))
  end.

(* cythonize():
     if c_timestamp < deps.timestamp(source): dep_timestamp = deps.timestamp(source)
     else: dep_timestamp, dep = deps.newest_dependency(source)
     if force or c_timestamp < dep_timestamp: <compile>
   c_timestamp is -1 when the C file is missing / not generated by this Cython. *)
Definition rebuild_decision (force : bool) (c_ts : Z) (ts : nat -> Z) (source : nat)
           (deps : nset) : option bool :=
  if Z.ltb c_ts (ts source) then Some true       (* force or True *)
  else match newest ts deps with
       | None => None
       | Some d => Some (force || Z.ltb c_ts d)
       end.

(* concrete graphs for the driver: adjacency / extract tables as association lists *)
Definition tab_fun (t : list (node * list nat)) (n : node) : list nat :=
  match lookup n t with Some l => l | None => [] end.

Definition run_table (out ext : list (node * list nat)) (fuel : nat) (qs : list node) : qresult :=
  run_queries (tab_fun out) (tab_fun ext) fuel [] qs.

Definition helper_table (out ext : list (node * list nat)) (fuel : nat) (n : node)
           (seen : cache) (stack : stk) : result :=
  tmh (tab_fun out) (tab_fun ext) fuel n seen stack.

(* ---------- finding from_cimport_submodule_untracked: the witness project ----------
   0 = m.pyx  containing  "from pk cimport q0",   1 = pk/__init__.pxd,   2 = pk/q0.pxd.
   The compiler reads all three files when it compiles m.pyx.  cimported_files(m.pyx) as the
   tree computes it: tracked = false is the code as it is (parse_dependencies records only "pk":
   dependency_after_from_regex is anchored with ^ under re.MULTILINE and searched from the middle
   of the statement's line, so it never sees the names that follow "cimport" on that line);
   tracked = true is the scanner after proposed_fixes/C46-from_cimport_submodule_untracked.diff. *)
Definition wit_out (tracked : bool) (n : node) : list node :=
  match n with
  | O => if tracked then [1; 2] else [1]
  | _ => []
  end.
Definition wit_ext (tracked : bool) (n : node) : nset := n :: wit_out tracked n.
Definition wit_files_read : nset := [0; 1; 2].

(* cythonize's decision for m.pyx on a fresh tree *)
Definition wit_rebuild (tracked : bool) (c_ts : Z) (ts : nat -> Z) : option bool :=
  match run_queries (wit_out tracked) (wit_ext tracked) (fuel_for [0; 1; 2]) [] [0] with
  | QOk [d] _ => rebuild_decision false c_ts ts 0 d
  | _ => None
  end.

(* ---------- example graphs used by the non-vacuity statement of Prop/C46.v ---------- *)
Definition ex_out (n : node) : list node :=
  match n with 0 => [1; 2] | 1 => [3] | 2 => [3; 2] | 3 => [1; 3] | _ => [] end.
Definition ex_ext (n : node) : nset := [n].
Definition ex_cyc (n : node) : list node :=
  match n with 0 => [1] | 1 => [2] | 2 => [3] | 3 => [0] | _ => [] end.
