(* Model of Cython/Build/Dependencies.py : strip_string_literals(code, prefix).

   Characters are code points (N).  The three compiled regular expressions _FIND_TOKEN,
   _FIND_STRING_TOKEN, _FIND_FSTRING_TOKEN are modelled by [find rx] = leftmost match of the
   alternation, scanning from the current position ([try_at] = the alternatives tried at one
   position, in the order of the pattern; quantifiers '+' are greedy = [span_eq]).

   The two mutually recursive closures parse_code / parse_string are defunctionalised into one
   loop [run] over an explicit call stack:
     cctx  = the chain of callers of the running parse_code frame
             (CTop: the call parse_code(0), in_fstring=False; every other call has in_fstring=True)
     MCode = a parse_code frame is running        (start = charpos, see below)
     MStr  = a parse_string frame is running      (rpend = code[start:charpos], reversed)
   One iteration of [run] = one iteration of the `while charpos != -1` loop of the running frame
   (including the `return` into the caller when the loop is left by `break`).  A return value
   of -1 makes every caller leave its loop without further output, hence [finish].
   In parse_code the text code[start:charpos] is always appended verbatim before `start` is
   reassigned, so the model emits it as soon as it is scanned.

   new_code  = reversed list of items: a character or a label (Lab k = f"{prefix}{k}_")
   literals  = reversed list of literal bodies (label k -> k-th body), counter = s_cnt.
   [fixp] selects the f-string prefix pattern of _FIND_TOKEN:
     false: (?P<fstring> f )?            -- the code as it is
     true : (?P<fstring> [fF][rR]? )?    -- proposed repair (proposed_fixes/C47-fstring_prefix_not_lowercase_f.diff)
   [fixe] selects what parse_code passes as is_fstring after it skipped an empty triple-quoted literal
   (a run of 6k+j quotes, j = 1,3,4,5, preceded by f):
     false: token['fstring']            -- the code as it is: the f prefix of the empty literal is
                                           carried over to the literal opened by the remaining j quotes
     true : None                        -- proposed repair (proposed_fixes/C47-fstring_flag_after_empty_triple.diff) *)
From Coq Require Import NArith List Bool.
Import ListNotations.
Open Scope N_scope.

Definition ch := N.
Definition c_sq : ch := 39.    (* single quote *)
Definition c_dq : ch := 34.    (* double quote *)
Definition c_bs : ch := 92.    (* \ *)
Definition c_hash : ch := 35.  (* # *)
Definition c_f : ch := 102.
Definition c_F : ch := 70.
Definition c_r : ch := 114.
Definition c_R : ch := 82.
Definition c_lb : ch := 123.   (* { *)
Definition c_rb : ch := 125.   (* } *)
Definition c_nl : ch := 10.
Definition c_us : ch := 95.    (* _ *)

Definition is_quote (c : ch) : bool := (c =? c_sq) || (c =? c_dq).
Definition is_brace (c : ch) : bool := (c =? c_lb) || (c =? c_rb).
Definition is_f (fixp : bool) (c : ch) : bool := (c =? c_f) || (fixp && (c =? c_F)).
Definition is_r (c : ch) : bool := (c =? c_r) || (c =? c_R).

(* greedy  c+ / c*  at the head of l : (run, rest) *)
Fixpoint span_eq (c : ch) (l : list ch) : list ch * list ch :=
  match l with
  | x :: t => if x =? c then let (run, r) := span_eq c t in (x :: run, r) else ([], l)
  | [] => ([], [])
  end.

(* code.find('\n', end) : (text before the newline, text from the newline on ([] = not found)) *)
Fixpoint span_nl (l : list ch) : list ch * list ch :=
  match l with
  | x :: t => if x =? c_nl then ([], l) else let (b, r) := span_nl t in (x :: b, r)
  | [] => ([], [])
  end.

Inductive token :=
| TComment                                         (* (?P<comment> [#]) *)
| TBrace (b : ch)                                  (* (?P<brace> [{}]) *)
| TBraces (b : ch) (run : list ch)                 (* (?P<braces> [{]+ | [}]+) *)
| TEscape (bs : list ch) (q : ch)                  (* (?P<escape> [\\]+)(?P<escaped_quote> quote) *)
| TQuote (pre : list ch) (q : ch) (run : list ch). (* (?P<fstring> f)? (?P<quote> sq+ | dq+) *)

Inductive rx := RxCode | RxStr | RxFStr.

(* (?P<fstring> ..)? (?P<quote> sq+ | dq+)  tried at the head of l *)
Definition match_quote (fixp : bool) (l : list ch) : option (token * list ch) :=
  match l with
  | [] => None
  | c :: t =>
    if is_quote c then let (run, r) := span_eq c l in Some (TQuote [] c run, r)
    else if is_f fixp c then
      match t with
      | q :: _ =>
        if is_quote q then let (run, r) := span_eq q t in Some (TQuote [c] q run, r)
        else if fixp && is_r q then
          match t with
          | _ :: ((q2 :: _) as t2) =>
            if is_quote q2 then let (run, r) := span_eq q2 t2 in Some (TQuote [c; q] q2 run, r)
            else None
          | _ => None
          end
        else None
      | [] => None
      end
    else None
  end.

(* [\\]+ quote  tried at the head of l (head is a backslash) *)
Definition match_escape (l : list ch) : option (token * list ch) :=
  let (bs, r) := span_eq c_bs l in
  match r with
  | q :: r' => if is_quote q then Some (TEscape bs q, r') else None
  | [] => None
  end.

Definition try_at (r : rx) (fixp : bool) (l : list ch) : option (token * list ch) :=
  match l with
  | [] => None
  | c :: t =>
    match r with
    | RxCode =>
      if c =? c_hash then Some (TComment, t)
      else if is_brace c then Some (TBrace c, t)
      else match_quote fixp l
    | RxStr =>
      if c =? c_bs then match_escape l else match_quote false l
    | RxFStr =>
      if is_brace c then let (run, r') := span_eq c l in Some (TBraces c run, r')
      else if c =? c_bs then match_escape l else match_quote false l
    end
  end.

(* pattern.search(code, charpos): (skipped text, token, text after the token) *)
Fixpoint find (r : rx) (fixp : bool) (l : list ch) : option (list ch * token * list ch) :=
  match l with
  | [] => None
  | c :: t =>
    match try_at r fixp l with
    | Some (tok, rest) => Some ([], tok, rest)
    | None =>
      match find r fixp t with
      | Some (sk, tok, rest) => Some (c :: sk, tok, rest)
      | None => None
      end
    end
  end.

Inductive item := Ch (c : ch) | Lab (k : N).

Record state := mkst { s_out : list item; s_lits : list (list ch); s_cnt : N }.

Definition emit (cs : list ch) (s : state) : state :=
  mkst (rev_append (map Ch cs) (s_out s)) (s_lits s) (s_cnt s).
(* append_new_label(literal) *)
Definition emit_label (lit : list ch) (s : state) : state :=
  let k := N.succ (s_cnt s) in mkst (Lab k :: s_out s) (lit :: s_lits s) k.
Definition emit_label_ne (lit : list ch) (s : state) : state :=
  match lit with [] => s | _ => emit_label lit s end.

Inductive cctx :=
| CTop
| CFromStr (q : ch) (triple : bool) (parent : cctx)   (* called from an f-string's parse_string *)
| CFromCode (parent : cctx).                           (* called from parse_code at a nested '{' *)

Inductive mode :=
| MCode (c : cctx)
| MStr (q : ch) (triple : bool) (isf : bool) (parent : cctx) (rpend : list ch).

Inductive result :=
| Done (items : list item) (lits : list (list ch))
| OutOfFuel
| Stuck.      (* a token kind the running regex cannot produce *)

Definition finish (s : state) : result := Done (rev (s_out s)) (rev (s_lits s)).

Definition in_fstring (c : cctx) : bool := match c with CTop => false | _ => true end.
Definition nonempty (l : list ch) : bool := match l with [] => false | _ => true end.
Definition qlen (triple : bool) : nat := if triple then 3%nat else 1%nat.

Fixpoint run (fuel : nat) (fixp fixe : bool) (m : mode) (rest : list ch) (s : state) : result :=
  match fuel with
  | O => OutOfFuel
  | S fuel =>
    match m with
    | MCode c =>
      match find RxCode fixp rest with
      | None => finish (emit rest s)                       (* new_code.append(code[start:]); -1 *)
      | Some (sk, tok, rest') =>
        match tok with
        | TQuote pre q qrun =>
          let n := length qrun in
          let n' := if Nat.ltb n 6 then n else Nat.modulo n 6 in
          if Nat.eqb n' 0 || Nat.eqb n' 2 then
            run fuel fixp fixe (MCode c) rest' (emit (sk ++ pre ++ qrun) s)
          else
            let extra := (n' - (if Nat.eqb n' 1 then 1 else 3))%nat in   (* len(quote) - 3 if > 3 *)
            let keep := (n - extra)%nat in
            run fuel fixp fixe (MStr q (negb (Nat.eqb n' 1)) (nonempty pre && negb (fixe && Nat.leb 6 n)) c (rev (skipn keep qrun)))
                rest' (emit (sk ++ pre ++ firstn keep qrun) s)
        | TComment =>
          let (body, after) := span_nl rest' in
          let s2 := emit_label body (emit (sk ++ [c_hash]) s) in
          match after with
          | [] => finish s2                                                 (* EOF *)
          | _ => run fuel fixp fixe (MCode c) after s2
          end
        | TBrace b =>
          let s1 := emit (sk ++ [b]) s in
          match c with
          | CTop => run fuel fixp fixe (MCode c) rest' s1                        (* not in_fstring *)
          | CFromStr q triple p =>
            if b =? c_rb then run fuel fixp fixe (MStr q triple true p []) rest' s1
            else run fuel fixp fixe (MCode (CFromCode c)) rest' s1
          | CFromCode p =>
            if b =? c_rb then run fuel fixp fixe (MCode p) rest' s1
            else run fuel fixp fixe (MCode (CFromCode c)) rest' s1
          end
        | _ => Stuck
        end
      end
    | MStr q triple isf p rpend =>
      match find (if isf then RxFStr else RxStr) false rest with
      | None => finish (emit_label (rev_append rpend rest) s)   (* unclosed literal; -1 *)
      | Some (sk, tok, rest') =>
        match tok with
        | TEscape bs c =>
          if Nat.even (length bs) && (c =? q)
          then run fuel fixp fixe (MStr q triple isf p (rev_append (sk ++ bs) rpend)) (c :: rest') s
          else run fuel fixp fixe (MStr q triple isf p (rev_append (sk ++ bs ++ [c]) rpend)) rest' s
        | TBraces b brun =>
          if negb isf then Stuck
          else if Nat.even (length brun) || negb (b =? c_lb)
          then run fuel fixp fixe (MStr q triple isf p (rev_append (sk ++ brun) rpend)) rest' s
          else
            let s1 := emit_label_ne (rev_append rpend (sk ++ removelast brun)) s in
            run fuel fixp fixe (MCode (CFromStr q triple p)) rest' (emit [c_lb] s1)
        | TQuote pre c qrun =>
          if (c =? q) && Nat.leb (qlen triple) (length qrun)
          then
            let s1 := emit_label_ne (rev_append rpend (sk ++ pre)) s in
            run fuel fixp fixe (MCode p) (skipn (qlen triple) qrun ++ rest')
                (emit (firstn (qlen triple) qrun) s1)
          else run fuel fixp fixe (MStr q triple isf p (rev_append (sk ++ pre ++ qrun) rpend)) rest' s
        | _ => Stuck
        end
      end
    end
  end.

Definition init_state : state := mkst [] [] 0.

Definition strip (fixp fixe : bool) (code : list ch) : result :=
  run (S (length code)) fixp fixe (MCode CTop) code init_state.

(* ---------- rendering: the join of new_code and the literals dict ---------- *)
Fixpoint uint_chars (u : Decimal.uint) : list ch :=
  match u with
  | Decimal.Nil => []
  | Decimal.D0 u => 48 :: uint_chars u | Decimal.D1 u => 49 :: uint_chars u
  | Decimal.D2 u => 50 :: uint_chars u | Decimal.D3 u => 51 :: uint_chars u
  | Decimal.D4 u => 52 :: uint_chars u | Decimal.D5 u => 53 :: uint_chars u
  | Decimal.D6 u => 54 :: uint_chars u | Decimal.D7 u => 55 :: uint_chars u
  | Decimal.D8 u => 56 :: uint_chars u | Decimal.D9 u => 57 :: uint_chars u
  end.
Definition dec (k : N) : list ch := uint_chars (N.to_uint k).
Definition label (prefix : list ch) (k : N) : list ch := prefix ++ dec k ++ [c_us].

Fixpoint render (prefix : list ch) (items : list item) : list ch :=
  match items with
  | [] => []
  | Ch c :: t => c :: render prefix t
  | Lab k :: t => label prefix k ++ render prefix t
  end.

(* the dict {label: literal} in insertion order, numbering from k *)
Fixpoint dict_from (prefix : list ch) (k : N) (lits : list (list ch)) : list (list ch * list ch) :=
  match lits with
  | [] => []
  | l :: t => (label prefix k, l) :: dict_from prefix (N.succ k) t
  end.
Definition dict (prefix : list ch) (lits : list (list ch)) := dict_from prefix 1 lits.

(* ---------- substituting the literals back, on items ---------- *)
Fixpoint subst (lits : list (list ch)) (items : list item) : option (list ch) :=
  match items with
  | [] => Some []
  | Ch c :: t => option_map (cons c) (subst lits t)
  | Lab k :: t =>
    match k with
    | 0 => None
    | _ => match nth_error lits (N.to_nat (N.pred k)), subst lits t with
           | Some l, Some r => Some (l ++ r)
           | _, _ => None
           end
    end
  end.

(* ---------- substituting back on the text:  re.sub(prefix + [0-9]+_ , lambda m: literals[m.group()], text)
   None = KeyError ---------- *)
Definition is_digit (c : ch) : bool := (48 <=? c) && (c <=? 57).

Fixpoint strip_prefix (p l : list ch) : option (list ch) :=
  match p with
  | [] => Some l
  | x :: p' => match l with y :: l' => if x =? y then strip_prefix p' l' else None | [] => None end
  end.

Fixpoint span_digits (l : list ch) : list ch * list ch :=
  match l with
  | x :: t => if is_digit x then let (d, r) := span_digits t in (x :: d, r) else ([], l)
  | [] => ([], [])
  end.

(* prefix [0-9]+ _  at the head of l: the matched text *)
Definition match_label (prefix l : list ch) : option (list ch) :=
  match strip_prefix prefix l with
  | None => None
  | Some l1 =>
    let (d, r) := span_digits l1 in
    match d, r with
    | _ :: _, u :: _ => if u =? c_us then Some (prefix ++ d ++ [c_us]) else None
    | _, _ => None
    end
  end.

Fixpoint list_eqb (a b : list ch) : bool :=
  match a, b with
  | [], [] => true
  | x :: a', y :: b' => (x =? y) && list_eqb a' b'
  | _, _ => false
  end.

Fixpoint lookup (d : list (list ch * list ch)) (key : list ch) : option (list ch) :=
  match d with
  | [] => None
  | (k, v) :: t => if list_eqb k key then Some v else lookup t key
  end.

(* [skip] characters of the current match remain to be dropped *)
Fixpoint subst_text (prefix : list ch) (d : list (list ch * list ch)) (skip : nat) (text : list ch)
  : option (list ch) :=
  match text with
  | [] => Some []
  | c :: t =>
    match skip with
    | S k => subst_text prefix d k t
    | O =>
      match match_label prefix text with
      | Some key =>
        match lookup d key, subst_text prefix d (length key - 1) t with
        | Some v, Some r => Some (v ++ r)
        | _, _ => None
        end
      | None => option_map (cons c) (subst_text prefix d O t)
      end
    end
  end.

(* ---------- classification of the input characters by the output ---------- *)
(* (c, false) = character kept in the stripped text, (c, true) = character moved into a literal *)
Fixpoint classify (lits : list (list ch)) (items : list item) : option (list (ch * bool)) :=
  match items with
  | [] => Some []
  | Ch c :: t => option_map (cons (c, false)) (classify lits t)
  | Lab k :: t =>
    match k with
    | 0 => None
    | _ => match nth_error lits (N.to_nat (N.pred k)), classify lits t with
           | Some l, Some r => Some (map (fun c => (c, true)) l ++ r)
           | _, _ => None
           end
    end
  end.

(* ---------- reference tokenizer (Python's lexical rules for string literals and comments,
   character by character; a raw newline inside a single-quoted literal and an unterminated
   literal are tolerated and count as literal body).  None = the text contains a string
   literal with an f-string prefix (f F fr rf ... directly before the quote): outside the
   fragment covered by the completeness theorem. ---------- *)
Inductive rstate :=
| RCode (pf : nat)      (* 0 | 1: previous char is f/F | 2: previous two chars are [fF][rR] *)
| RStr (q : ch) (triple : bool) (esc : bool)
| RComment.

Definition next_pf (pf : nat) (c : ch) : nat :=
  if (c =? c_f) || (c =? c_F) then 1%nat
  else if is_r c && Nat.eqb pf 1 then 2%nat else 0%nat.

Definition kept (c : ch) : ch * bool := (c, false).
Definition body (c : ch) : ch * bool := (c, true).

Fixpoint refc (st : rstate) (l : list ch) : option (list (ch * bool)) :=
  match l with
  | [] => Some []
  | c :: t =>
    match st with
    | RCode pf =>
      if c =? c_hash then option_map (cons (kept c)) (refc RComment t)
      else if is_quote c then
        if negb (Nat.eqb pf 0) then None
        else
          match t with
          | c2 :: c3 :: t3 =>
            if (c2 =? c) && (c3 =? c)
            then option_map (fun r => kept c :: kept c2 :: kept c3 :: r) (refc (RStr c true false) t3)
            else option_map (cons (kept c)) (refc (RStr c false false) t)
          | _ => option_map (cons (kept c)) (refc (RStr c false false) t)
          end
      else option_map (cons (kept c)) (refc (RCode (next_pf pf c)) t)
    | RComment =>
      if c =? c_nl then option_map (cons (kept c)) (refc (RCode 0) t)
      else option_map (cons (body c)) (refc RComment t)
    | RStr q triple esc =>
      if esc then option_map (cons (body c)) (refc (RStr q triple false) t)
      else if c =? c_bs then option_map (cons (body c)) (refc (RStr q triple true) t)
      else if c =? q then
        if triple then
          match t with
          | c2 :: c3 :: t3 =>
            if (c2 =? q) && (c3 =? q)
            then option_map (fun r => kept c :: kept c2 :: kept c3 :: r) (refc (RCode 0) t3)
            else option_map (cons (body c)) (refc st t)
          | _ => option_map (cons (body c)) (refc st t)
          end
        else option_map (cons (kept c)) (refc (RCode 0) t)
      else option_map (cons (body c)) (refc st t)
    end
  end.

Definition ref_classify (code : list ch) := refc (RCode 0) code.
