(* Sequence unpacking as the compiler generates it (ExprNodes.SequenceNode.generate_assignment_code and the
   C helpers it calls), next to a declarative reference of Python's unpacking (language reference 7.2,
   UNPACK_SEQUENCE / UNPACK_EX of CPython 3.12, including the numbers that appear in its messages).

   Values.  An iterable value has a header (its kind as the generated type tests see it, an identity,
   whether its next-calls are observable, how the iterator ends after its items), a [store] (the ob_item
   array that PyTuple_GET_ITEM / PyList_GET_ITEM read: only meaningful for tuples, lists and tuple
   subclasses) and [items] (what iter(v) yields before it ends).  For an exact tuple/list Python itself
   guarantees store = items, a StopIteration ending and no observable next-calls (predicate wf); a tuple
   subclass may override __iter__, so its store and items are independent.

   Code paths modelled (names of the generating methods / C helpers):
   - cy_fast     generate_special_parallel_unpacking_code: size = GET_SIZE(sequence); size != n ->
                 (size > n ? TooMany(n) : NeedMore(size)); else item copy by index 0..n-1
   - cy_generic  generate_generic_parallel_unpacking_code(terminate=True): PyObject_GetIter, for index in
                 0..n-1: item = iternext(it), NULL -> unpacking_failed: __Pyx_IterFinish()==0 ?
                 NeedMore(index) : propagate; then __Pyx_IternextUnpackEndCheck(iternext(it), n): item ->
                 TooMany(n), else __Pyx_IterFinish()
   - cy_par      generate_parallel_assignment_code: which of the two runs, from the static type of the
                 right-hand side (stype) and the PyTuple_CheckExact / PyList_CheckExact tests
   - cy_star     generate_starred_assignment_code: generic loop (terminate=False) over the targets left of
                 the star, PySequence_List of the rest, length guard [len < n_right -> NeedMore(n_left+len)],
                 right targets taken from the end by index len-(i+1) while ob_size is decremented
   - cy_tuple2   ObjectHandling.c:__Pyx_unpack_tuple2(is_tuple=0, has_known_size=0) as called from
                 Optimize.c:__Pyx_dict_iter_next for [for k, v in obj.items()] on a non-dict:
                 PyTuple_Check (subclasses included; flag exact_check = the proposed PyTuple_CheckExact)
   - assign      SequenceNode.generate_assignment_code on nested targets: unpack the whole level into temps,
                 then assign the targets left to right, recursing into nested sequence targets.
   An index outside the store is an explicit outcome (COutOfBounds), a value list of the wrong length
   an explicit AStuck; both are proved unreachable. *)
From Coq Require Import ZArith List Bool Arith.
Import ListNotations.

Inductive kind := KTuple | KList | KTupleSub | KOther.
Inductive ending := EndStop | EndRaise.
(* static type of the right-hand side at the top level: unknown object / list / tuple / another builtin type *)
Inductive stype := SObj | SList | STuple | SBuiltin.

Record hdr := { h_kind : kind; h_id : nat; h_logs : bool; h_end : ending }.

Inductive val :=
| VAtom (z : Z)
| VSeq (h : hdr) (store : list val) (items : list val).

Definition exactb (k : kind) : bool := match k with KTuple | KList => true | _ => false end.
Definition list_hdr : hdr := {| h_kind := KList; h_id := 0; h_logs := false; h_end := EndStop |}.
Definition new_list (l : list val) : val := VSeq list_hdr l l.

Inductive event := EvNext (id : nat) | EvBind (x : nat) (v : val).

(* the compiled code's errors: TypeError (not iterable), ValueError "need more than <got> values",
   ValueError "too many values (expected <n>)", the iterator's own exception, a read outside ob_item *)
Inductive cexn := CTypeError | CNeedMore (got : nat) | CTooMany (expected : nat) | CIterExc (id : nat)
                | COutOfBounds.
(* CPython's: "not enough values to unpack (expected [at least] <e>, got <g>)", "too many values ..." *)
Inductive rexn := RTypeError | RNotEnough (expected : nat) (atleast : bool) (got : nat)
                | RTooMany (expected : nat) | RIterExc (id : nat).

Inductive res (E : Type) := Err (e : E) | Vals (l : list val).
Arguments Err {E} e.
Arguments Vals {E} l.

Fixpoint collect (l : list (option val)) : option (list val) :=
  match l with
  | [] => Some []
  | None :: _ => None
  | Some x :: r => match collect r with Some r' => Some (x :: r') | None => None end
  end.

(* ------------------------------------------------------------------------------------------------ *)
(* the generated code                                                                                *)
(* ------------------------------------------------------------------------------------------------ *)
Inductive loopres := LoopOk (vals rest : list val) | LoopShort (index : nat).

(* for (index = i; ...; index++) { item = iternext(it); if (!item) goto unpacking_failed; *temps[index] = item } *)
Fixpoint gen_loop (k index : nat) (its acc : list val) : loopres :=
  match k with
  | O => LoopOk (rev acc) its
  | S k' => match its with
            | [] => LoopShort index
            | x :: r => gen_loop k' (S index) r (x :: acc)
            end
  end.

(* unpacking_failed: if (__Pyx_IterFinish() == 0) __Pyx_RaiseNeedMoreValuesError(index); *)
Definition iter_end (h : hdr) (index : nat) : cexn :=
  match h_end h with EndStop => CNeedMore index | EndRaise => CIterExc (h_id h) end.

Definition cy_generic (h : hdr) (n : nat) (its : list val) : nat * res cexn :=
  match gen_loop n 0 its [] with
  | LoopShort index => (S index, Err (iter_end h index))
  | LoopOk vals rest =>
      match rest with
      | _ :: _ => (S n, Err (CTooMany n))
      | [] => (S n, match h_end h with EndStop => Vals vals | EndRaise => Err (CIterExc (h_id h)) end)
      end
  end.

(* item = GET_ITEM(sequence, i) for i in 0..n-1 *)
Definition copy_items (store : list val) (n : nat) : res cexn :=
  match collect (map (nth_error store) (seq 0 n)) with
  | Some l => Vals l
  | None => Err COutOfBounds
  end.

Definition cy_fast (n : nat) (store : list val) : nat * res cexn :=
  let size := length store in
  if negb (Nat.eqb size n)
  then (if Nat.ltb n size then (0, Err (CTooMany n)) else (0, Err (CNeedMore size)))
  else (0, copy_items store n).

Definition cy_par (st : stype) (n : nat) (v : val) : nat * res cexn :=
  match v with
  | VAtom _ => (0, Err CTypeError)
  | VSeq h store items =>
      let fast := match st with
                  | SObj => exactb (h_kind h)
                  | SList | STuple => true
                  | SBuiltin => false
                  end in
      if fast then cy_fast n store else cy_generic h n items
  end.

(* [guard_le] = false is the tree (len < n_right); true is the off-by-one variant (len <= n_right),
   kept to state that the guard is tight *)
Definition cy_star_g (guard_le : bool) (nl nr : nat) (v : val) : nat * res cexn :=
  match v with
  | VAtom _ => (0, Err CTypeError)
  | VSeq h store items =>
      (* with no left target PySequence_List(rhs) copies an exact list/tuple from its store *)
      let src := if Nat.eqb nl 0 && exactb (h_kind h) then store else items in
      match gen_loop nl 0 src [] with
      | LoopShort index => (S index, Err (iter_end h index))
      | LoopOk lvals rest =>
          let calls := nl + S (length rest) in
          match h_end h with
          | EndRaise => (calls, Err (CIterExc (h_id h)))
          | EndStop =>
              let len := length rest in
              if (if guard_le then Nat.leb len nr else Nat.ltb len nr)
              then (calls, Err (CNeedMore (nl + len)))
              else
                (* i-th right target from the end: PyList_GET_ITEM(list, len-(i+1)); ob_size-- *)
                match collect (map (fun i => nth_error rest (len - (i + 1))) (seq 0 nr)) with
                | None => (calls, Err COutOfBounds)
                | Some rrev =>
                    (calls, Vals (lvals ++ new_list (firstn (len - nr) rest) :: rev rrev))
                end
          end
      end
  end.
Definition cy_star := cy_star_g false.

Definition cy_unpack (st : stype) (nl : nat) (star : option nat) (v : val) : nat * res cexn :=
  match star with None => cy_par st nl v | Some nr => cy_star nl nr v end.

(* __Pyx_UnpackTupleError(t, 2): size < 2 ? NeedMore(size) : TooMany(2) *)
Definition cy_tuple2 (exact_check : bool) (v : val) : nat * res cexn :=
  match v with
  | VAtom _ => (0, Err CTypeError)
  | VSeq h store items =>
      let is_tuple := match h_kind h with
                      | KTuple => true
                      | KTupleSub => negb exact_check
                      | _ => false
                      end in
      if is_tuple then
        let size := length store in
        if Nat.eqb size 2 then (0, copy_items store 2)
        else if Nat.ltb size 2 then (0, Err (CNeedMore size)) else (0, Err (CTooMany 2))
      else cy_generic h 2 items
  end.

(* ------------------------------------------------------------------------------------------------ *)
(* reference: Python's unpacking, by the number of items                                              *)
(* ------------------------------------------------------------------------------------------------ *)
Definition ref_unpack (nl : nat) (star : option nat) (v : val) : nat * res rexn :=
  match v with
  | VAtom _ => (0, Err RTypeError)
  | VSeq h _ items =>
      let n := length items in
      let stop (r : res rexn) :=
        match h_end h with EndStop => r | EndRaise => Err (RIterExc (h_id h)) end in
      match star with
      | None =>
          if Nat.ltb n nl then (S n, stop (Err (RNotEnough nl false n)))
          else if Nat.eqb n nl then (S n, stop (Vals items))
          else (S nl, Err (RTooMany nl))
      | Some nr =>
          if Nat.ltb n nl then (S n, stop (Err (RNotEnough (nl + nr) true n)))
          else (S n, stop (if Nat.ltb n (nl + nr) then Err (RNotEnough (nl + nr) true n)
                           else Vals (firstn nl items
                                      ++ new_list (firstn (n - nl - nr) (skipn nl items))
                                      :: skipn (n - nr) items)))
      end
  end.

Definition erase (e : rexn) : cexn :=
  match e with
  | RTypeError => CTypeError
  | RNotEnough _ _ got => CNeedMore got
  | RTooMany n => CTooMany n
  | RIterExc i => CIterExc i
  end.

Definition map_res {E1 E2} (f : E1 -> E2) (r : nat * res E1) : nat * res E2 :=
  (fst r, match snd r with Err e => Err (f e) | Vals l => Vals l end).

(* ------------------------------------------------------------------------------------------------ *)
(* nested targets                                                                                     *)
(* ------------------------------------------------------------------------------------------------ *)
(* TSeq ls None rs     = the plain target list ls ++ rs
   TSeq ls (Some x) rs = ls, *x, rs *)
Inductive target := TName (x : nat) | TSeq (ls : list target) (star : option nat) (rs : list target).

Inductive ares (E : Type) := ADone | AExc (e : E) | AStuck.
Arguments ADone {E}.
Arguments AExc {E} e.
Arguments AStuck {E}.

Definition emit (v : val) (calls : nat) : list event :=
  match v with
  | VSeq h _ _ => if h_logs h then repeat (EvNext (h_id h)) calls else []
  | VAtom _ => []
  end.

Section Assign.
  Context {E : Type}.

  Section Level.
    Variable rec : target -> val -> list event * ares E.
    (* assign the targets left to right from the unpacked temps; stops at the first exception *)
    Fixpoint seq_assign (ts : list target) (vs : list val) : list event * ares E :=
      match ts, vs with
      | [], [] => ([], ADone)
      | t1 :: ts', v1 :: vs' =>
          let (ev, a) := rec t1 v1 in
          match a with
          | ADone => let (ev2, a2) := seq_assign ts' vs' in (ev ++ ev2, a2)
          | _ => (ev, a)
          end
      | _, _ => ([], AStuck)
      end.

    Definition assign_level (unp : nat -> option nat -> val -> nat * res E)
               (ls : list target) (star : option nat) (rs : list target) (v : val)
      : list event * ares E :=
      let nl := match star with None => length ls + length rs | Some _ => length ls end in
      let (calls, r) := unp nl (option_map (fun _ => length rs) star) v in
      let ev0 := emit v calls in
      match r with
      | Err e => (ev0, AExc e)
      | Vals vals =>
          let (ev1, a1) := seq_assign ls (firstn (length ls) vals) in
          match a1 with
          | ADone =>
              match star, skipn (length ls) vals with
              | None, vals' => let (ev2, a2) := seq_assign rs vals' in (ev0 ++ ev1 ++ ev2, a2)
              | Some x, sv :: rv =>
                  let (ev2, a2) := seq_assign rs rv in (ev0 ++ ev1 ++ EvBind x sv :: ev2, a2)
              | Some _, [] => (ev0 ++ ev1, AStuck)
              end
          | _ => (ev0 ++ ev1, a1)
          end
      end.
  End Level.

  Variable unpack : stype -> nat -> option nat -> val -> nat * res E.

  Fixpoint assign (st : stype) (t : target) (v : val) {struct t} : list event * ares E :=
    match t with
    | TName x => ([EvBind x v], ADone)
    | TSeq ls star rs => assign_level (assign SObj) (unpack st) ls star rs v
    end.

  (* the same with another unpack function at the outermost level *)
  Definition assign_top (utop : nat -> option nat -> val -> nat * res E) (t : target) (v : val)
    : list event * ares E :=
    match t with
    | TName x => ([EvBind x v], ADone)
    | TSeq ls star rs => assign_level (assign SObj) utop ls star rs v
    end.
End Assign.

Definition cy_assign (st : stype) (t : target) (v : val) := assign cy_unpack st t v.
Definition ref_assign (t : target) (v : val) := assign (fun _ => ref_unpack) SObj t v.
(* for k, v in obj.items(): the pair is unpacked by __Pyx_unpack_tuple2, nested targets by the usual code *)
Definition cy_items_assign (exact_check : bool) (t : target) (v : val) :=
  assign_top cy_unpack (fun _ _ => cy_tuple2 exact_check) t v.

Definition map_a {E1 E2} (f : E1 -> E2) (r : list event * ares E1) : list event * ares E2 :=
  (fst r, match snd r with ADone => ADone | AExc e => AExc (f e) | AStuck => AStuck end).
