(* C29 - automatic pickling of extension types.
   Model of AnalyseDeclarationsTransform._inject_pickle_methods (ParseTreeTransforms.py),
   _calculate_pickle_checksums, the generated __reduce_cython__ / __pyx_unpickle_<C> /
   __pyx_unpickle_<C>__set_state / __setstate_cython__, and the run-time installation done by
   __Pyx_setup_reduce, __Pyx_CheckUnpickleChecksum and __Pyx_UpdateUnpickledDict
   (Utility/ExtensionTypes.c).  Executable definitions only. *)
From Coq Require Import ZArith List Bool.
Import ListNotations.

(* ---------- names: code point lists, compared as Python compares str ---------- *)
Definition name := list N.

Fixpoint name_leb (a b : name) : bool :=
  match a, b with
  | [], _ => true
  | _ :: _, [] => false
  | x :: a1, y :: b1 =>
      if N.ltb x y then true else if N.ltb y x then false else name_leb a1 b1
  end.

Fixpoint name_eqb (a b : name) : bool :=
  match a, b with
  | [], [] => true
  | x :: a1, y :: b1 => N.eqb x y && name_eqb a1 b1
  | _, _ => false
  end.

(* "__dict__" and "__weakref__" *)
Definition dict_name : name := [95;95;100;105;99;116;95;95]%N.
Definition weakref_name : name := [95;95;119;101;97;107;114;101;102;95;95]%N.

(* ---------- class descriptions ---------- *)
(* KObj: any Python object attribute.  KC conv struct ptr: a C attribute; conv = the type coerces
   to AND from a Python object; struct = is_struct_or_union; ptr = CPtrType (char* ...). *)
Inductive kind := KObj | KC (conv is_struct is_ptr : bool).

Record member := { m_name : name; m_kind : kind }.

Record cls := {
  c_id : N;
  c_members : list member;      (* scope.var_entries in declaration order *)
  c_cinit : bool;               (* defines __cinit__ *)
  c_reduce : bool;              (* defines __reduce__ or __reduce_ex__ *)
  c_getstate : bool;            (* defines __getstate__ *)
  c_setstate : bool;            (* defines __setstate__ *)
  c_auto : option bool          (* auto_pickle directive in effect for the class *)
}.

(* A hierarchy is the class followed by its bases up to the root: cls, cls.base_type, ... *)
Definition hierarchy := list cls.

(* Names found by scope.lookup() in the enclosing module scope (lookup, not lookup_here, is
   what the transform calls).  fx_lookup = repaired variant that ignores them. *)
Record modenv := { g_cinit : bool; g_reduce : bool }.

Record flags := {
  fx_lookup : bool;     (* module-level names do not count as class methods *)
  fx_ptr : bool;        (* pointer members are not picklable *)
  fx_pad : bool         (* checksum padding repeats the last checksum (list, not string) *)
}.

Definition special (n : name) : bool := name_eqb n weakref_name || name_eqb n dict_name.

Definition own_members (c : cls) : list member :=
  filter (fun m => negb (special (m_name m))) (c_members c).

Definition gather (h : hierarchy) : list member := flat_map own_members h.

(* list.sort(key=name): stable; insertion of x before the first element that is >= x *)
Fixpoint insert_m (x : member) (l : list member) : list member :=
  match l with
  | [] => [x]
  | y :: r => if name_leb (m_name x) (m_name y) then x :: l else y :: insert_m x r
  end.

Fixpoint sort_m (l : list member) : list member :=
  match l with
  | [] => []
  | x :: r => insert_m x (sort_m r)
  end.

Definition all_members (h : hierarchy) : list member := sort_m (gather h).
Definition all_names (h : hierarchy) : list name := map m_name (all_members h).

(* ---------- eligibility ---------- *)
Inductive reason := RCinit | RNonPy | RStruct.

Inductive decision :=
| NoInject                                   (* nothing generated *)
| InjectRaise (r : reason) (culprits : list name)   (* both methods raise TypeError(msg) *)
| InjectPickle (ms : list member).           (* real methods over these members, in this order *)

Definition is_obj (k : kind) : bool := match k with KObj => true | _ => false end.
Definition non_py (f : flags) (k : kind) : bool :=
  match k with
  | KObj => false
  | KC conv _ ptr => negb conv || (fx_ptr f && ptr)
  end.
Definition is_struct (k : kind) : bool :=
  match k with KC _ s _ => s | KObj => false end.

Definition head_auto (h : hierarchy) : option bool :=
  match h with c :: _ => c_auto c | [] => None end.

Definition decide_on (f : flags) (e : modenv) (h : hierarchy) : decision :=
  let ms := all_members h in
  let cinit := existsb c_cinit h || (negb (fx_lookup f) && g_cinit e) in
  let np := filter (fun m => non_py f (m_kind m)) ms in
  let st := filter (fun m => is_struct (m_kind m)) ms in
  let forced := match head_auto h with Some true => true | _ => false end in
  if cinit then InjectRaise RCinit []
  else match np with
       | _ :: _ => InjectRaise RNonPy (map m_name np)
       | [] => match st with
               | _ :: _ => if forced then InjectPickle ms else InjectRaise RStruct (map m_name st)
               | [] => InjectPickle ms
               end
       end.

Definition reduce_in_scope (f : flags) (e : modenv) (h : hierarchy) : bool :=
  existsb c_reduce h || (negb (fx_lookup f) && g_reduce e).

Definition decide (f : flags) (e : modenv) (h : hierarchy) : decision :=
  match h with
  | [] => NoInject
  | c :: bs =>
      if reduce_in_scope f e h then NoInject
      else match c_auto c with
           | Some false => NoInject      (* "old behaviour of not doing anything" *)
           | _ => decide_on f e h
           end
  end.

(* auto_pickle(True) turns a refusal into a compile-time error *)
Definition compile_error (f : flags) (e : modenv) (h : hierarchy) : bool :=
  match head_auto h, decide f e h with
  | Some true, InjectRaise _ _ => true
  | _, _ => false
  end.

(* ---------- the base-class walk of _inject_pickle_methods, as the loop is written ----------
     cls = node.entry.type; cinit = None; inherited_reduce = None
     while cls is not None:
         all_members.extend(e for e in cls.scope.var_entries if e.name not in (__weakref__, __dict__))
         cinit = cinit or cls.scope.lookup_here(__cinit__)
         inherited_reduce = inherited_reduce or cls.scope.lookup_here(__reduce__) or ...(__reduce_ex__)
         cls = cls.base_type
   A scope selector says which class scope a lookup of one loop step consults, given the class
   being compiled (node) and the class of the step (k).  The code uses the class of the step for
   both lookups (sel_cls); sel_node is the own-scope-only variant (lookup in node.scope). *)
Record wstate := { w_members : list member; w_cinit : bool; w_reduce : bool }.

Definition scope_sel := cls -> cls -> cls.
Definition sel_cls : scope_sel := fun _ k => k.
Definition sel_node : scope_sel := fun node _ => node.

Definition walk_step (sc sr : scope_sel) (node : cls) (w : wstate) (k : cls) : wstate :=
  {| w_members := w_members w ++ own_members k;
     w_cinit := w_cinit w || c_cinit (sc node k);
     w_reduce := w_reduce w || c_reduce (sr node k) |}.

Definition walk (sc sr : scope_sel) (node : cls) (h : hierarchy) : wstate :=
  fold_left (walk_step sc sr node) h {| w_members := []; w_cinit := false; w_reduce := false |}.

(* what follows the loop: refusal precedence __cinit__ > unconvertible member > struct *)
Definition decide_core (f : flags) (forced cinit : bool) (ms : list member) : decision :=
  let np := filter (fun m => non_py f (m_kind m)) ms in
  let st := filter (fun m => is_struct (m_kind m)) ms in
  if cinit then InjectRaise RCinit []
  else match np with
       | _ :: _ => InjectRaise RNonPy (map m_name np)
       | [] => match st with
               | _ :: _ => if forced then InjectPickle ms else InjectRaise RStruct (map m_name st)
               | [] => InjectPickle ms
               end
       end.

(* visit_CClassDefNode gate (own __reduce__/__reduce_ex__), then _inject_pickle_methods in the
   order of the source: auto_pickle False, the walk, the sort, inherited_reduce, the refusals *)
Definition decide_walk (sc sr : scope_sel) (f : flags) (e : modenv) (h : hierarchy) : decision :=
  match h with
  | [] => NoInject
  | node :: _ =>
      if c_reduce node || (negb (fx_lookup f) && g_reduce e) then NoInject
      else match c_auto node with
           | Some false => NoInject
           | au =>
               let w := walk sc sr node h in
               let ms := sort_m (w_members w) in
               if w_reduce w then NoInject
               else decide_core f (match au with Some true => true | _ => false end)
                                (w_cinit w || (negb (fx_lookup f) && g_cinit e)) ms
           end
  end.

(* selector by number for the driver: 0 = the code, 1 = __cinit__ looked up in node.scope only,
   2 = __reduce__ looked up in node.scope only *)
Definition decide_walk_n (n : nat) : flags -> modenv -> hierarchy -> decision :=
  match n with
  | O => decide_walk sel_cls sel_cls
  | S O => decide_walk sel_node sel_cls
  | _ => decide_walk sel_cls sel_node
  end.

Definition clear_cinit (k : cls) : cls :=
  {| c_id := c_id k; c_members := c_members k; c_cinit := false; c_reduce := c_reduce k;
     c_getstate := c_getstate k; c_setstate := c_setstate k; c_auto := c_auto k |}.

(* what the compiler of ANOTHER module sees of a cimported class: the .pxd declares the attributes
   only, so no method of that level is visible to lookup_here *)
Definition pxd_view (k : cls) : cls :=
  {| c_id := c_id k; c_members := c_members k; c_cinit := false; c_reduce := false;
     c_getstate := false; c_setstate := false; c_auto := c_auto k |}.

(* ---------- run-time installation (__Pyx_setup_reduce) ---------- *)
(* called for every type that has __reduce_cython__.  A __getstate__ other than object's
   anywhere in the MRO leaves __reduce__ alone; otherwise __reduce__ is object's or an
   inherited __reduce_cython__ (a user __reduce__/__reduce_ex__ implies NoInject), so it is
   replaced. *)
Definition installed (h : hierarchy) : bool := negb (existsb c_getstate h).

Inductive rmethod :=
| RDefault                      (* object.__reduce_ex__: CPython's own rules *)
| RUser                         (* a user-written __reduce__/__reduce_ex__ *)
| RRaise (r : reason) (culprits : list name)
| RPickle (owner : hierarchy).  (* generated reduce of the class heading [owner] *)

Fixpoint effective_reduce (f : flags) (e : modenv) (h : hierarchy) : rmethod :=
  match h with
  | [] => RDefault
  | c :: bs =>
      if c_reduce c then RUser
      else match decide f e h with
           | NoInject => effective_reduce f e bs
           | InjectRaise r ns => if installed h then RRaise r ns else effective_reduce f e bs
           | InjectPickle _ => if installed h then RPickle h else effective_reduce f e bs
           end
  end.

Inductive smethod := SNone | SUser | SRaise | SSet (owner : hierarchy).

(* __setstate__ is replaced when __reduce__ was, and no __setstate__ other than a generated one
   is visible *)
Fixpoint effective_setstate (f : flags) (e : modenv) (h : hierarchy) : smethod :=
  match h with
  | [] => SNone
  | c :: bs =>
      if c_setstate c then SUser
      else match decide f e h with
           | NoInject => effective_setstate f e bs
           | InjectRaise _ _ =>
               if installed h && negb (existsb c_setstate bs) then SRaise else effective_setstate f e bs
           | InjectPickle _ =>
               if installed h && negb (existsb c_setstate bs) then SSet h else effective_setstate f e bs
           end
  end.

(* ---------- checksums ---------- *)
Definition pad3 (f : flags) (cs : list Z) : option (list Z) :=
  match cs with
  | [a; b; c] => Some cs
  | [a; b] => if fx_pad f then Some [a; b; b] else None      (* '0x...0x...' : syntax error *)
  | [a] => if fx_pad f then Some [a; a; a] else None
  | _ => None
  end.

Section Dynamic.
(* Python values are opaque atoms (the pickling of the values themselves is the pickle
   module's business), except None and the instance dict which the generated code inspects. *)
Variable atom : Type.
Variable cv : Type.                          (* C attribute values *)
Variable to_py : kind -> cv -> atom.         (* C -> Python conversion (never None) *)
Variable from_py : kind -> atom -> option cv.  (* Python -> C conversion, None = exception *)
Variable czero : cv.                         (* zero-initialised C attribute *)
Variable atom_truth : atom -> bool.
Variable hash : nat -> list name -> Z.       (* 0 sha256, 1 sha1, 2 md5: first 7 hex digits *)

Inductive pv := PNone | PAtom (a : atom) | PDict (d : list (atom * atom)).
(* SDangling: a C pointer attribute that was pointed into the buffer of a state item (char* from a
   bytes object owned by the state tuple only): undefined content once the state is released *)
Inductive sval := SObj (v : pv) | SC (c : cv) | SDangling.

Record pytype := { t_hier : hierarchy; t_pydict : bool (* Python subclass with __dict__ *) }.

Definition has_dict (t : pytype) : bool :=
  t_pydict t || existsb (fun c => existsb (fun m => name_eqb (m_name m) dict_name) (c_members c)) (t_hier t).

Record obj := { o_type : pytype; o_slots : list (name * sval); o_dict : option (list (atom * atom)) }.

Fixpoint get (s : list (name * sval)) (n : name) : option sval :=
  match s with
  | [] => None
  | (k, v) :: r => if name_eqb k n then Some v else get r n
  end.

Definition set_slot (o : obj) (n : name) (v : sval) : obj :=
  {| o_type := o_type o; o_slots := (n, v) :: o_slots o; o_dict := o_dict o |}.

Definition default_of (k : kind) : sval := match k with KObj => SObj PNone | KC _ _ _ => SC czero end.

Definition new_obj (t : pytype) : obj :=
  {| o_type := t;
     o_slots := map (fun m => (m_name m, default_of (m_kind m))) (all_members (t_hier t));
     o_dict := if has_dict t then Some [] else None |}.

Inductive err :=
| EType (r : reason) (culprits : list name)  (* TypeError with the refusal message *)
| EPickle                                    (* pickle.PickleError: incompatible checksums *)
| EIndex                                     (* state tuple too short *)
| EConv (n : name)                           (* conversion of a state item failed *)
| ENoDict                                    (* AttributeError: object has no __dict__ *)
| EDictUpdate                                (* dict.update(non-mapping) *)
| EAttr (n : name)                           (* object lacks a member slot (ill-formed object) *)
| EUB                                        (* reads through a dangling pointer: undefined *)
| EOther.                                    (* outside the model: user methods, CPython default *)

Inductive res (A : Type) := Ok (a : A) | Err (e : err).
Arguments Ok {A} a.
Arguments Err {A} e.

Definition accepted (avail : list nat) (f : flags) (ns : list name) : option (list Z) :=
  pad3 f (map (fun a => hash a ns) avail).

(* --- __reduce_cython__ --- *)
Definition item_of (m : member) (v : sval) : pv :=
  match v with
  | SObj p => p
  | SC c => PAtom (to_py (m_kind m) c)
  | SDangling => PNone      (* never used: read_state stops with EUB *)
  end.

Fixpoint read_state (ms : list member) (o : obj) : res (list pv) :=
  match ms with
  | [] => Ok []
  | m :: r =>
      match get (o_slots o) (m_name m) with
      | None => Err (EAttr (m_name m))
      | Some SDangling => Err EUB
      | Some v => match read_state r o with
                  | Ok l => Ok (item_of m v :: l)
                  | Err e => Err e
                  end
      end
  end.

Definition not_none (p : pv) : bool := match p with PNone => false | _ => true end.

Definition any_notnone (ms : list member) (st : list pv) : bool :=
  existsb (fun mp => is_obj (m_kind (fst mp)) && not_none (snd mp)) (combine ms st).

(* the value returned by __reduce__: callable __pyx_unpickle_<owner>, (type, checksum, state|None)
   and optionally a third item handed to __setstate__ *)
Record rvalue := { rv_owner : hierarchy; rv_type : pytype; rv_chk : Z;
                   rv_arg_state : option (list pv); rv_state : option (list pv) }.

Definition reduce_cython (owner : hierarchy) (o : obj) : res rvalue :=
  let ms := all_members owner in
  match read_state ms o with
  | Err e => Err e
  | Ok st =>
      let chk := hash 0 (map m_name ms) in
      match o_dict o with
      | Some (kv :: d) =>
          Ok {| rv_owner := owner; rv_type := o_type o; rv_chk := chk; rv_arg_state := None;
                rv_state := Some (st ++ [PDict (kv :: d)]) |}
      | _ =>
          if any_notnone ms st
          then Ok {| rv_owner := owner; rv_type := o_type o; rv_chk := chk; rv_arg_state := None;
                     rv_state := Some st |}
          else Ok {| rv_owner := owner; rv_type := o_type o; rv_chk := chk; rv_arg_state := Some st;
                     rv_state := None |}
      end
  end.

Definition reduce (f : flags) (e : modenv) (o : obj) : res rvalue :=
  match effective_reduce f e (t_hier (o_type o)) with
  | RPickle owner => reduce_cython owner o
  | RRaise r ns => Err (EType r ns)
  | RDefault | RUser => Err EOther
  end.

(* --- __pyx_unpickle_<C>__set_state --- *)
Definition conv_in (m : member) (p : pv) : option sval :=
  match m_kind m with
  | KObj => Some (SObj p)
  | KC _ _ true =>
      match p with
      | PAtom a => match from_py (m_kind m) a with Some _ => Some SDangling | None => None end
      | _ => None
      end
  | k => match p with
         | PAtom a => match from_py k a with Some c => Some (SC c) | None => None end
         | _ => None            (* None / dict are not convertible to a C value *)
         end
  end.

Fixpoint assign (ms : list member) (i : nat) (st : list pv) (o : obj) : res obj :=
  match ms with
  | [] => Ok o
  | m :: r =>
      match nth_error st i with
      | None => Err EIndex
      | Some p => match conv_in m p with
                  | None => Err (EConv (m_name m))
                  | Some v => assign r (S i) st (set_slot o (m_name m) v)
                  end
      end
  end.

Definition truthy (p : pv) : bool :=
  match p with PNone => false | PAtom a => atom_truth a | PDict d => match d with [] => false | _ => true end end.

Definition dict_has (d : list (atom * atom)) (eqb : atom -> atom -> bool) (k : atom) : bool :=
  existsb (fun kv => eqb (fst kv) k) d.

Variable atom_eqb : atom -> atom -> bool.

(* dict.update: entries of d2 win *)
Definition dict_update (d d2 : list (atom * atom)) : list (atom * atom) :=
  d2 ++ filter (fun kv => negb (dict_has d2 atom_eqb (fst kv))) d.

Definition update_dict (o : obj) (st : list pv) (n : nat) : res obj :=
  if Nat.leb (length st) n then Ok o
  else match nth_error st n with
       | None => Ok o
       | Some p =>
           if truthy p then
             match o_dict o with
             | None => Err ENoDict
             | Some d => match p with
                         | PDict d2 => Ok {| o_type := o_type o; o_slots := o_slots o;
                                             o_dict := Some (dict_update d d2) |}
                         | _ => Err EDictUpdate
                         end
             end
           else Ok o
       end.

Definition set_state (owner : hierarchy) (o : obj) (st : list pv) : res obj :=
  let ms := all_members owner in
  match assign ms 0 st o with
  | Err e => Err e
  | Ok o1 => update_dict o1 st (length ms)
  end.

(* --- __pyx_unpickle_<C>(type, checksum, state) --- *)
Definition unpickle (avail : list nat) (f : flags) (owner : hierarchy) (t : pytype) (chk : Z)
           (st : option (list pv)) : res obj :=
  match accepted avail f (all_names owner) with
  | None => Err EOther      (* the module did not compile *)
  | Some acc =>
      if existsb (Z.eqb chk) acc then
        match st with
        | None => Ok (new_obj t)
        | Some s => set_state owner (new_obj t) s
        end
      else Err EPickle
  end.

(* --- what pickle.load / copy._reconstruct do with a reduce value (CPython contract):
       obj = callable(args...); if state is not None: obj.__setstate__(state) --- *)
Definition load (avail : list nat) (f : flags) (e : modenv) (rv : rvalue) : res obj :=
  match unpickle avail f (rv_owner rv) (rv_type rv) (rv_chk rv) (rv_arg_state rv) with
  | Err er => Err er
  | Ok o =>
      match rv_state rv with
      | None => Ok o
      | Some st =>
          match effective_setstate f e (t_hier (o_type o)) with
          | SSet owner => set_state owner o st
          | SRaise => Err EOther
          | SUser | SNone => Err EOther
          end
      end
  end.

(* loading a pickle written by another build of the module: only (checksum, state items)
   travel; owner and type are the ones of the loading side *)
Definition load_into (avail : list nat) (f : flags) (e : modenv) (owner : hierarchy) (t : pytype)
           (rv : rvalue) : res obj :=
  load avail f e {| rv_owner := owner; rv_type := t; rv_chk := rv_chk rv;
                    rv_arg_state := rv_arg_state rv; rv_state := rv_state rv |}.

End Dynamic.

Arguments Ok {A} a.
Arguments Err {A} e.
Arguments PNone {atom}.
Arguments PAtom {atom} a.
Arguments PDict {atom} d.
Arguments SObj {atom cv} v.
Arguments SC {atom cv} c.
Arguments SDangling {atom cv}.
