(* M_Gen -- the generator / coroutine object of Cython/Utility/Coroutine.c as a state machine
   (prefix cy_), and CPython 3.12 Objects/genobject.c + the SEND / CLEANUP_THROW bytecodes (prefix py_).
   Executable definitions only.

   The BODY is an arbitrary resumable computation  step : L -> input -> outcome L  over an
   arbitrary type L of suspension points (label + saved locals).  A sub-iterator is an
   arbitrary object = the coinductive record of its methods' behaviours.

   One C function per definition:
     cy_body        generated body function (GeneratorBodyDefNode): resume switch, first-run
                    check of the sent value, user code (= step), epilogue with the PEP 479
                    replacement, resume_label = -1, __Pyx_Coroutine_clear
     cy_send_ex     __Pyx_Coroutine_SendEx (+ __Pyx_Coroutine_AlreadyTerminatedError)
     cy_finish_delegation   __Pyx_Coroutine_FinishDelegation / _SendToDelegate tail
     cy_send        __Pyx_Coroutine_AmSend + __Pyx_Coroutine_Send / __Pyx_Generator_Next
     cy_close_iter  __Pyx_Coroutine_CloseIter
     cy_close       __Pyx_Coroutine_Close (+ _Close_Method)
     cy_throw       __Pyx__Coroutine_Throw
     cy_del         __Pyx_Coroutine_del
   Flags in [fixes] select the repaired variants (proposed_fixes/C23-*.diff). *)
From Coq Require Import ZArith List Bool.
From CyVerif Require Import Lib.CInt.
Import ListNotations.
Open Scope Z_scope.

Inductive val := VNone | VInt (z : Z).

(* exception = kind (+ payload).  Message codes: ERuntime 0 "generator raised StopIteration",
   1 "generator ignored GeneratorExit", 2 "cannot reuse already awaited coroutine";
   EType 0 "can't send non-None value to a just-started generator";
   EValue 0 "generator already executing"; EAttr = missing send method *)
Inductive exc :=
| EStopIter (v : val) | EGenExit | ERuntime (m : Z) | EType (m : Z) | EValue (m : Z)
| EAttr | EUser (id : Z).

Inductive input := ISend (v : val) | IThrow (e : exc).
Inductive sres := SYield (v : val) | SErr (e : exc).

CoInductive subiter : Type := SubIter {
  si_next  : sres * subiter;                        (* tp_iternext (= am_send None) *)
  si_send  : option (val -> sres * subiter);        (* method send, if present *)
  si_throw : option (exc -> sres * subiter);        (* method throw, if present *)
  si_close : option (option exc * subiter) }.       (* method close: None = returned *)

Inductive outcome (L : Type) :=
| OYield (v : val) (k : L)                          (* yield v, suspend at k *)
| ODelegate (v : val) (it : subiter) (k : L)        (* yield from / await: first value v, suspend at k delegating to it *)
| OReturn (v : val)
| ORaise (e : exc).
Arguments OYield {L}. Arguments ODelegate {L}. Arguments OReturn {L}. Arguments ORaise {L}.

(* ThrowNC: __Pyx__Coroutine_Throw / _gen_throw with close_on_genexit = 0 (the async generator layer) *)
Inductive op := Next | Send (v : val) | Throw (e : exc) | Close | Del | ThrowNC (e : exc).
Inductive result :=
| RYield (v : val) | RRaise (e : exc) | RNone     (* close()/del returned *)
| RUnraisable (e : exc)                           (* del: reported through sys.unraisablehook *)
| RWarn.                                          (* del of a never-awaited coroutine *)

Definition is_none (v : val) : bool := match v with VNone => true | _ => false end.
Definition is_stopiter (e : exc) : bool := match e with EStopIter _ => true | _ => false end.
Definition is_genexit (e : exc) : bool := match e with EGenExit => true | _ => false end.
(* StopAsyncIteration: exception class 8 of the harness *)
Definition EStopAsync : exc := EUser (-2).
Definition is_stopasync (e : exc) : bool := match e with EUser id => id =? -2 | _ => false end.

(* PEP 479: __Pyx_Generator_Replace_StopIteration / CPython's STOPITERATION_ERROR intrinsic *)
Definition pep479 (agen : bool) (e : exc) : exc :=
  match e with
  | EStopIter _ => ERuntime 0
  | EUser id => if (id =? -2) && agen then ERuntime 3 else e   (* "async generator raised StopAsyncIteration" *)
  | _ => e
  end.

(* value sent to the sub-iterator: None -> tp_iternext, else the send method *)
Definition sub_send (it : subiter) (v : val) : sres * subiter :=
  if is_none v then si_next it
  else match si_send it with Some f => f v | None => (SErr EAttr, it) end.

Record fixes := { fx_first_send : bool; fx_throw_si_fresh : bool; fx_close_ret : bool;
                  fx_si_at_yf : bool; fx_ag_fresh_del : bool }.
Definition fx_none := {| fx_first_send := false; fx_throw_si_fresh := false; fx_close_ret := false; fx_si_at_yf := false;
                         fx_ag_fresh_del := false |}.
Definition fx_all := {| fx_first_send := true; fx_throw_si_fresh := true; fx_close_ret := true; fx_si_at_yf := true;
                        fx_ag_fresh_del := true |}.

Inductive rlabel (L : Type) := RFresh | RAt (k : L) | RDone.
Arguments RFresh {L}. Arguments RAt {L}. Arguments RDone {L}.
Record cstate (L : Type) := CState { c_label : rlabel L; c_running : bool; c_yf : option subiter }.
Arguments CState {L}. Arguments c_label {L}. Arguments c_running {L}. Arguments c_yf {L}.

Inductive pstate (L : Type) :=
| PCreated | PSuspended (k : L) (yf : option subiter) | PExecuting | PCompleted.
Arguments PCreated {L}. Arguments PSuspended {L}. Arguments PExecuting {L}. Arguments PCompleted {L}.

(* argument of a resumption: a value, or NULL with the given exception set *)
Inductive sendarg := AVal (v : val) | AExc (e : exc).
(* PYGEN_NEXT / PYGEN_RETURN / PYGEN_ERROR *)
Inductive gres := GNext (v : val) | GReturn (v : val) | GError (e : exc).

Section Machines.
Variable L : Type.
Variable start : L.
Variable step : L -> input -> outcome L.
Variable coro : bool.     (* coroutine object instead of generator *)
Variable agen : bool.     (* async generator object (then coro = false) *)

Definition log := list (L * input).      (* resumptions of user code, in order *)

(* ======================= Cython ======================= *)
Section Cy.
Variable fx : fixes.

Definition c_set_label (s : cstate L) (l : rlabel L) := CState l (c_running s) (c_yf s).
Definition c_set_running (s : cstate L) (b : bool) := CState (c_label s) b (c_yf s).
Definition c_set_yf (s : cstate L) (y : option subiter) := CState (c_label s) (c_running s) y.

(* body epilogue: error label (PEP 479), resume_label = -1, __Pyx_Coroutine_clear *)
Definition cy_exit_error (s : cstate L) (e : exc) : gres * cstate L :=
  (GError (pep479 agen e), CState RDone (c_running s) None).

Definition cy_run_user (s : cstate L) (k : L) (i : input) : gres * cstate L * log :=
  match step k i with
  | OYield v k' => (GNext v, c_set_label s (RAt k'), [(k, i)])
  | ODelegate v it k' => (GNext v, CState (RAt k') (c_running s) (Some it), [(k, i)])
  | OReturn v => (GReturn v, CState RDone (c_running s) None, [(k, i)])
  | ORaise e => (cy_exit_error s e, [(k, i)])
  end.

Definition cy_body (s : cstate L) (a : sendarg) : gres * cstate L * log :=
  match c_label s with
  | RFresh =>
      match a with
      | AVal VNone => cy_run_user s start (ISend VNone)
      | AVal _ => (cy_exit_error s (EType 0), [])
      | AExc e => (cy_exit_error s e, [])
      end
  | RAt k => cy_run_user s k (match a with AVal v => ISend v | AExc e => IThrow e end)
  | RDone => (GError (ERuntime 99), s, [])      (* unreachable: guarded by cy_send_ex *)
  end.

Definition cy_send_ex (s : cstate L) (a : sendarg) (closing : bool) : gres * cstate L * log :=
  match c_label s with
  | RDone =>
      (* __Pyx_Coroutine_AlreadyTerminatedError *)
      if coro && negb closing then (GError (ERuntime 2), s, [])
      else match a with
           | AVal _ => (GError (if agen then EStopAsync else EStopIter VNone), s, [])
           | AExc e => (GError e, s, [])
           end
  | _ => cy_body s a
  end.

(* repaired variants guard the first resumption before calling the body *)
Definition cy_send_ex_guard (s : cstate L) (a : sendarg) (closing : bool) : gres * cstate L * log :=
  match c_label s, a with
  | RFresh, AVal (VInt _) =>
      if fx_first_send fx then (GError (EType 0), s, []) else cy_send_ex s a closing
  | RFresh, AExc e =>
      if fx_throw_si_fresh fx then (GError e, CState RDone (c_running s) None, [])
      else cy_send_ex s a closing
  | _, _ => cy_send_ex s a closing
  end.

(* result of a finished delegation step: StopIteration value or the exception *)
Definition arg_of_sub_error (e : exc) : sendarg :=
  match e with EStopIter v => AVal v | _ => AExc e end.

(* an exception raised AT the yield-from point by the machinery itself (throw() without a
   throw method on the sub-iterator, failing close() of the sub-iterator) *)
Definition arg_at_yf (e : exc) : sendarg :=
  if fx_si_at_yf fx then arg_of_sub_error e else AExc e.

Definition unrun (x : gres * cstate L * log) : gres * cstate L * log :=
  let '(r, s, l) := x in (r, c_set_running s false, l).

(* __Pyx_Coroutine_AmSend / __Pyx_Generator_Next *)
Definition cy_amsend (s : cstate L) (v : val) : gres * cstate L * log :=
  if c_running s then (GError (EValue 0), s, [])
  else
    let s1 := c_set_running s true in
    match c_yf s1 with
    | Some it =>
        match sub_send it v with
        | (SYield y, it') => (GNext y, CState (c_label s1) false (Some it'), [])
        | (SErr e, it') =>
            (* FinishDelegation: Undelegate, fetch the StopIteration value, resume *)
            unrun (cy_send_ex (c_set_yf s1 None) (arg_of_sub_error e) false)
        end
    | None => unrun (cy_send_ex_guard s1 (AVal v) false)
    end.

(* __Pyx__Coroutine_MethodReturnFromResult *)
Definition result_of_gres (r : gres) : result :=
  match r with
  | GNext v => RYield v
  | GReturn v => RRaise (if agen then EStopAsync else EStopIter v)
  | GError e => RRaise e
  end.

(* __Pyx_Coroutine_CloseIter: None = ok *)
Definition cy_close_iter (it : subiter) : option exc * subiter :=
  match si_close it with
  | None => (None, it)
  | Some (r, it') => (r, it')
  end.

(* __Pyx_Coroutine_Close *)
Definition cy_close (s : cstate L) : gres * cstate L * log :=
  if c_running s then (GError (EValue 0), s, [])
  else
    let s1 := c_set_running s true in
    let '(err, s2) :=
      match c_yf s1 with
      | Some it => let '(r, it') := cy_close_iter it in (r, c_set_yf s1 None)
      | None => (None, s1)
      end in
    let a := match err with None => AExc EGenExit | Some e => arg_at_yf e end in
    let '(r, s3, l) := cy_send_ex s2 a true in
    let s4 := c_set_running s3 false in
    match r with
    | GError e => if is_genexit e || is_stopiter e then (GReturn VNone, s4, l) else (GError e, s4, l)
    | GReturn v => if is_none v || fx_close_ret fx then (GReturn VNone, s4, l) else (GError (ERuntime 1), s4, l)
    | GNext _ => (GError (ERuntime 1), s4, l)
    end.

(* __Pyx__Coroutine_Throw *)
Definition cy_throw (close_on_genexit : bool) (s : cstate L) (e : exc) : gres * cstate L * log :=
  if c_running s then (GError (EValue 0), s, [])
  else
    let s1 := c_set_running s true in
    match c_yf s1 with
    | Some it =>
        if is_genexit e && close_on_genexit then
          let '(err, it') := cy_close_iter it in
          let s2 := c_set_yf s1 None in
          match err with
          | Some e' => unrun (cy_send_ex s2 (arg_at_yf e') false)       (* propagate_exception *)
          | None => unrun (cy_send_ex s2 (AExc e) false)                 (* throw_here *)
          end
        else
          match si_throw it with
          | None => unrun (cy_send_ex (c_set_yf s1 None) (arg_at_yf e) false)   (* no throw attribute: throw_here *)
          | Some f =>
              match f e with
              | (SYield y, it') => (GNext y, CState (c_label s1) false (Some it'), [])
              | (SErr e', it') => unrun (cy_send_ex (c_set_yf s1 None) (arg_of_sub_error e') false)
              end
          end
    | None => unrun (cy_send_ex_guard s1 (AExc e) false)
    end.

(* __Pyx_Coroutine_del: tp_finalize *)
Definition cy_del (s : cstate L) : result * cstate L * log :=
  match c_label s with
  | RDone => (RNone, s, [])
  | RFresh => if coro || (agen && negb (fx_ag_fresh_del fx)) then (RWarn, s, []) else (RNone, s, [])
  | RAt _ =>
      let '(r, s', l) := cy_close s in
      match r with GError e => (RUnraisable e, s', l) | _ => (RNone, s', l) end
  end.

Definition cy_op (s : cstate L) (o : op) : result * cstate L * log :=
  match o with
  | Next => let '(r, s', l) := cy_amsend s VNone in (result_of_gres r, s', l)
  | Send v => let '(r, s', l) := cy_amsend s v in (result_of_gres r, s', l)
  | Throw e => let '(r, s', l) := cy_throw true s e in (result_of_gres r, s', l)
  | ThrowNC e => let '(r, s', l) := cy_throw false s e in (result_of_gres r, s', l)
  | Close => let '(r, s', l) := cy_close s in
             (match r with GError e => RRaise e | _ => RNone end, s', l)
  | Del => cy_del s
  end.
End Cy.

(* ======================= CPython 3.12 ======================= *)

(* gen_send_ex2 *)
Definition py_send_ex (s : pstate L) (a : sendarg) (closing : bool) : gres * pstate L * log :=
  match s with
  | PExecuting => (GError (EValue 0), s, [])
  | PCompleted =>
      if coro && negb closing then (GError (ERuntime 2), s, [])
      else match a with
           | AVal _ => (GReturn VNone, s, [])
           | AExc e => (GError e, s, [])
           end
  | PCreated =>
      match a with
      | AVal VNone =>
          match step start (ISend VNone) with
          | OYield v k' => (GNext v, PSuspended k' None, [(start, ISend VNone)])
          | ODelegate v it k' => (GNext v, PSuspended k' (Some it), [(start, ISend VNone)])
          | OReturn v => (GReturn v, PCompleted, [(start, ISend VNone)])
          | ORaise e => (GError (pep479 agen e), PCompleted, [(start, ISend VNone)])
          end
      | AVal _ => (GError (EType 0), s, [])
      | AExc e => (GError e, PCompleted, [])    (* raised at RETURN_GENERATOR: no handler, no PEP 479 wrapper *)
      end
  | PSuspended k _ =>
      let i := match a with AVal v => ISend v | AExc e => IThrow e end in
      match step k i with
      | OYield v k' => (GNext v, PSuspended k' None, [(k, i)])
      | ODelegate v it k' => (GNext v, PSuspended k' (Some it), [(k, i)])
      | OReturn v => (GReturn v, PCompleted, [(k, i)])
      | ORaise e => (GError (pep479 agen e), PCompleted, [(k, i)])
      end
  end.

(* an exception set while the frame is suspended in SEND: CLEANUP_THROW turns StopIteration
   into the value of the yield-from expression *)
Definition py_arg_at_yf (e : exc) : sendarg :=
  match e with EStopIter v => AVal v | _ => AExc e end.

(* resuming a frame suspended in a yield-from with a value: the SEND instruction *)
Definition py_send (s : pstate L) (v : val) : gres * pstate L * log :=
  match s with
  | PSuspended k (Some it) =>
      match sub_send it v with
      | (SYield y, it') => (GNext y, PSuspended k (Some it'), [])
      | (SErr e, it') => py_send_ex (PSuspended k None) (py_arg_at_yf e) false
      end
  | _ => py_send_ex s (AVal v) false
  end.

(* gen_close_iter *)
Definition py_close_iter (it : subiter) : option exc * subiter :=
  match si_close it with
  | None => (None, it)
  | Some (r, it') => (r, it')
  end.

(* _gen_throw *)
Definition py_throw (close_on_genexit : bool) (s : pstate L) (e : exc) : gres * pstate L * log :=
  match s with
  | PSuspended k (Some it) =>
      if is_genexit e && close_on_genexit then
        let '(err, it') := py_close_iter it in
        match err with
        | Some e' => py_send_ex (PSuspended k None) (py_arg_at_yf e') false
        | None => py_send_ex (PSuspended k None) (AExc e) false
        end
      else
        match si_throw it with
        | None => py_send_ex (PSuspended k None) (py_arg_at_yf e) false
        | Some f =>
            match f e with
            | (SYield y, it') => (GNext y, PSuspended k (Some it'), [])
            | (SErr e', it') => py_send_ex (PSuspended k None) (py_arg_at_yf e') false
            end
        end
  | _ => py_send_ex s (AExc e) false
  end.

(* gen_close *)
Definition py_close (s : pstate L) : gres * pstate L * log :=
  match s with
  | PCreated => (GReturn VNone, PCompleted, [])
  | PCompleted => (GReturn VNone, s, [])
  | _ =>
      let '(err, s1) :=
        match s with
        | PSuspended k (Some it) => let '(r, it') := py_close_iter it in (r, PSuspended k None)
        | _ => (None, s)
        end in
      let a := match err with None => AExc EGenExit | Some e => py_arg_at_yf e end in
      let '(r, s2, l) := py_send_ex s1 a true in
      match r with
      | GNext _ => (GError (ERuntime 1), s2, l)
      | GReturn _ => (GReturn VNone, s2, l)       (* StopIteration(value) is cleared *)
      | GError e => if is_genexit e || is_stopiter e then (GReturn VNone, s2, l) else (GError e, s2, l)
      end
  end.

(* _PyGen_Finalize *)
Definition py_del (s : pstate L) : result * pstate L * log :=
  match s with
  | PCompleted => (RNone, s, [])
  | PCreated => if coro then (RWarn, s, [])
                else let '(r, s', l) := py_close s in (RNone, s', l)
  | _ =>
      let '(r, s', l) := py_close s in
      match r with GError e => (RUnraisable e, s', l) | _ => (RNone, s', l) end
  end.

Definition py_op (s : pstate L) (o : op) : result * pstate L * log :=
  match o with
  | Next => let '(r, s', l) := py_send s VNone in (result_of_gres r, s', l)
  | Send v => let '(r, s', l) := py_send s v in (result_of_gres r, s', l)
  | Throw e => let '(r, s', l) := py_throw true s e in (result_of_gres r, s', l)
  | ThrowNC e => let '(r, s', l) := py_throw false s e in (result_of_gres r, s', l)
  | Close => let '(r, s', l) := py_close s in
             (match r with GError e => RRaise e | _ => RNone end, s', l)
  | Del => py_del s
  end.

(* ======================= histories ======================= *)
(* Del ends the object's life: the run stops there (no state survives). *)
Fixpoint run_cy (fx : fixes) (s : cstate L) (h : list op) : list (result * log) * option (cstate L) :=
  match h with
  | [] => ([], Some s)
  | Del :: _ => let '(r, _, l) := cy_op fx s Del in ([(r, l)], None)
  | o :: h' => let '(r, s', l) := cy_op fx s o in
               let '(t, f) := run_cy fx s' h' in ((r, l) :: t, f)
  end.

Fixpoint run_py (s : pstate L) (h : list op) : list (result * log) * option (pstate L) :=
  match h with
  | [] => ([], Some s)
  | Del :: _ => let '(r, _, l) := py_op s Del in ([(r, l)], None)
  | o :: h' => let '(r, s', l) := py_op s o in
               let '(t, f) := run_py s' h' in ((r, l) :: t, f)
  end.

(* state correspondence: Cython struct fields -> CPython frame state *)
Definition abs (s : cstate L) : pstate L :=
  if c_running s then PExecuting
  else match c_label s with
       | RFresh => PCreated
       | RAt k => PSuspended k (c_yf s)
       | RDone => PCompleted
       end.

Definition cwf (s : cstate L) : Prop :=
  match c_label s with RAt _ => True | _ => c_yf s = None end.

Definition c_init : cstate L := CState RFresh false None.
Definition p_init : pstate L := PCreated.

End Machines.

(* ======================= concrete bodies given as data ======================= *)
(* A table row  (label, input class) -> outcome;  classes: 0 send None, 1 send non-None,
   2 GeneratorExit, 3 StopIteration, 4 RuntimeError, 5 TypeError, 6 ValueError,
   7 AttributeError, 10+i user exception i, 20 close() call (scripted objects), -1 default. *)
Definition NONE_CODE : Z := -1000000.
Definition RECV_CODE : Z := -2000000.
Definition FUEL_ID : Z := 999999.

Record row := Row { r_label : Z; r_cls : Z; r_tag : Z; r_a : Z; r_b : Z }.
(* kind 0 list iterator over sp_vals; 1 nested generator of the same implementation started at
   sp_k0; 2 nested CPython generator; 3 scripted object at label sp_k0 with capabilities
   sp_caps (1 send, 2 throw, 4 close) *)
Record subspec := SubSpec { sp_kind : Z; sp_k0 : Z; sp_caps : Z; sp_vals : list Z }.
Record table := Table { t_rows : list row; t_subs : list subspec }.

Definition exc_cls (e : exc) : Z :=
  match e with
  | EGenExit => 2 | EStopIter _ => 3 | ERuntime _ => 4 | EType _ => 5 | EValue _ => 6
  | EAttr => 7 | EUser id => 10 + id
  end.
Definition in_cls (i : input) : Z :=
  match i with ISend VNone => 0 | ISend (VInt _) => 1 | IThrow e => exc_cls e end.

Definition val_of_code (a : Z) : val := if a =? NONE_CODE then VNone else VInt a.
Definition val_of_spec (a : Z) (i : input) : val :=
  if a =? RECV_CODE then match i with ISend v => v | IThrow _ => VNone end
  else val_of_code a.
Definition exc_of_spec (a b : Z) (i : input) : exc :=
  if a =? -2 then match i with IThrow e => e | ISend _ => EUser 9 end
  else if a =? 2 then EGenExit
  else if a =? 3 then EStopIter (val_of_code b)
  else EUser (a - 10).

Fixpoint find_row (rows : list row) (k c : Z) : option row :=
  match rows with
  | [] => None
  | r :: t => if (r_label r =? k) && (r_cls r =? c) then Some r else find_row t k c
  end.
Definition lookup (tbl : table) (k : Z) (c : Z) : option row :=
  match find_row (t_rows tbl) k c with
  | Some r => Some r
  | None => find_row (t_rows tbl) k (-1)
  end.

CoFixpoint list_sub (l : list val) : subiter :=
  SubIter (match l with
           | [] => (SErr (EStopIter VNone), list_sub [])
           | v :: t => (SYield v, list_sub t)
           end) None None None.

(* exhausted nesting depth of the executable instance: explicit marker *)
CoFixpoint fuel_sub : subiter := SubIter (SErr (EUser FUEL_ID), fuel_sub) None None None.

Definition sres_of_result (r : result) : sres :=
  match r with RYield v => SYield v | RRaise e => SErr e | _ => SErr (EUser FUEL_ID) end.
Definition close_of_result (r : result) : option exc :=
  match r with RRaise e => Some e | _ => None end.

Section GenSub.
Variable start : Z.
Variable step : Z -> input -> outcome Z.
Variable coro : bool.
Variable fx : fixes.

CoFixpoint cy_gen_sub (s : cstate Z) : subiter :=
  SubIter
    (let x := cy_op Z start step coro false fx s Next in (sres_of_result (fst (fst x)), cy_gen_sub (snd (fst x))))
    (Some (fun v => let x := cy_op Z start step coro false fx s (Send v) in
                    (sres_of_result (fst (fst x)), cy_gen_sub (snd (fst x)))))
    (Some (fun e => let x := cy_op Z start step coro false fx s (Throw e) in
                    (sres_of_result (fst (fst x)), cy_gen_sub (snd (fst x)))))
    (Some (let x := cy_op Z start step coro false fx s Close in
           (close_of_result (fst (fst x)), cy_gen_sub (snd (fst x))))).

CoFixpoint py_gen_sub (s : pstate Z) : subiter :=
  SubIter
    (let x := py_op Z start step coro false s Next in (sres_of_result (fst (fst x)), py_gen_sub (snd (fst x))))
    (Some (fun v => let x := py_op Z start step coro false s (Send v) in
                    (sres_of_result (fst (fst x)), py_gen_sub (snd (fst x)))))
    (Some (fun e => let x := py_op Z start step coro false s (Throw e) in
                    (sres_of_result (fst (fst x)), py_gen_sub (snd (fst x)))))
    (Some (let x := py_op Z start step coro false s Close in
           (close_of_result (fst (fst x)), py_gen_sub (snd (fst x))))).
End GenSub.

(* scripted object: every method call is a table lookup at the object's label *)
Definition DEAD : Z := -1.
Definition scr_resp (tbl : table) (k : Z) (i : input) : sres * Z :=
  match lookup tbl k (in_cls i) with
  | Some r =>
      if r_tag r =? 0 then (SYield (val_of_spec (r_a r) i), r_b r)
      else if r_tag r =? 2 then (SErr (EStopIter (val_of_spec (r_a r) i)), DEAD)
      else if r_tag r =? 3 then (SErr (exc_of_spec (r_a r) (r_b r) i), k)
      else (SErr (EStopIter VNone), DEAD)
  | None => match i with ISend _ => (SErr (EStopIter VNone), DEAD) | IThrow e => (SErr e, k) end
  end.
Definition scr_close (tbl : table) (k : Z) : option exc * Z :=
  match lookup tbl k 20 with
  | Some r =>
      if r_tag r =? 0 then (None, r_b r)
      else if r_tag r =? 3 then (Some (exc_of_spec (r_a r) (r_b r) (ISend VNone)), k)
      else (None, DEAD)
  | None => (None, k)
  end.
CoFixpoint scr_sub (tbl : table) (caps : Z) (k : Z) : subiter :=
  SubIter
    (let x := scr_resp tbl k (ISend VNone) in (fst x, scr_sub tbl caps (snd x)))
    (if Z.testbit caps 0 then Some (fun v => let x := scr_resp tbl k (ISend v) in (fst x, scr_sub tbl caps (snd x))) else None)
    (if Z.testbit caps 1 then Some (fun e => let x := scr_resp tbl k (IThrow e) in (fst x, scr_sub tbl caps (snd x))) else None)
    (if Z.testbit caps 2 then Some (let x := scr_close tbl k in (fst x, scr_sub tbl caps (snd x))) else None).

Section TableBody.
Variable tbl : table.
Variable coro : bool.
Variable fx : fixes.
Variable impl_py : bool.        (* the machine that runs nested generators of kind 1 *)

(* sub-iterator factory, given the step function of nested generators (None: depth exhausted) *)
Definition mk_sub (inner : option (Z -> input -> outcome Z)) (id : Z) : subiter :=
  match nth_error (t_subs tbl) (Z.to_nat id) with
  | None => fuel_sub
  | Some sp =>
      if sp_kind sp =? 0 then list_sub (map val_of_code (sp_vals sp))
      else if sp_kind sp =? 3 then scr_sub tbl (sp_caps sp) (sp_k0 sp)
      else match inner with
           | None => fuel_sub
           | Some st =>
               if (sp_kind sp =? 2) || impl_py
               then py_gen_sub (sp_k0 sp) st coro (p_init Z)
               else cy_gen_sub (sp_k0 sp) st coro fx (c_init Z)
           end
  end.

(* user code at label k with input i; a yield-from whose sub-iterator finishes at once
   continues in the same resumption (bounded by fuel; exhaustion = explicit marker) *)
Fixpoint tstep_fuel (inner : option (Z -> input -> outcome Z)) (fuel : nat) (k : Z) (i : input)
  : outcome Z :=
  match lookup tbl k (in_cls i) with
  | None => match i with ISend _ => OReturn VNone | IThrow e => ORaise e end
  | Some r =>
      if r_tag r =? 0 then OYield (val_of_spec (r_a r) i) (r_b r)
      else if r_tag r =? 2 then OReturn (val_of_spec (r_a r) i)
      else if r_tag r =? 3 then ORaise (exc_of_spec (r_a r) (r_b r) i)
      else
        match fuel with
        | O => ORaise (EUser FUEL_ID)
        | S fuel' =>
            match si_next (mk_sub inner (r_a r)) with
            | (SYield y, it') => ODelegate y it' (r_b r)
            | (SErr (EStopIter v), _) => tstep_fuel inner fuel' (r_b r) (ISend v)
            | (SErr e, _) => tstep_fuel inner fuel' (r_b r) (IThrow e)
            end
        end
  end.

Fixpoint tstep (d : nat) : Z -> input -> outcome Z :=
  tstep_fuel (match d with O => None | S d' => Some (tstep d') end) 64%nat.
End TableBody.

Definition run_table_cy (tbl : table) (coro : bool) (fx : fixes) (d : nat) (k0 : Z) (h : list op)
  : list (result * list (Z * input)) :=
  fst (run_cy Z k0 (tstep tbl coro fx false d) coro false fx (c_init Z) h).
Definition run_table_py (tbl : table) (coro : bool) (d : nat) (k0 : Z) (h : list op)
  : list (result * list (Z * input)) :=
  fst (run_py Z k0 (tstep tbl coro fx_all true d) coro false (p_init Z) h).
(* result of an operation on an object that is currently running (re-entrant call) *)
Definition running_probe_cy (coro : bool) (fx : fixes) (o : op) : result :=
  fst (fst (cy_op Z 0 (fun _ _ => OReturn VNone) coro false fx (CState (RAt 0) true None) o)).
