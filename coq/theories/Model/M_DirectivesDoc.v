(* C41 -- the DOCUMENTED meaning of directive strings and of directive scoping, stated
   independently of the code's data structures:
   - directive texts: docs/src/userguide/source_files_and_compilation.rst ("Compiler directives",
     "name=value,..." lists, whitespace not considered) and the docstrings of
     Options.parse_directive_value / parse_directive_list / normalise_encoding_name;
     settings are mathematical maps (functions), a later assignment overrides an earlier one;
   - scoping: "a directive set by decorator or with-block applies to the enclosed code, overriding
     the file header; the header overrides options (command line / cythonize); options override
     the defaults". *)
From Coq Require Import ZArith NArith List Bool.
From CyVerif Require Import Model.M_Directives.
Import ListNotations.
Open Scope N_scope.

(* ---------- texts ---------- *)

(* case-insensitive (ASCII) comparison of a text with a lower-case word *)
Fixpoint ci_eq (s w : str) : bool :=
  match s, w with
  | [], [] => true
  | c :: s', x :: w' => ((c =? x) || ((65 <=? c) && (c <=? 90) && (c + 32 =? x))) && ci_eq s' w'
  | _, _ => false
  end.

Definition doc_bool (relaxed : bool) (text : str) : option bool :=
  if str_eqb text w_true then Some true
  else if str_eqb text w_false then Some false
  else if relaxed && (ci_eq text w_ltrue || ci_eq text w_yes) then Some true
  else if relaxed && (ci_eq text w_lfalse || ci_eq text w_no) then Some false
  else None.

Section DocParse.
  Variable types : list (str * dtype).
  Variable defaults : list str.
  Variable digit_val : N -> option N.
  Variable codec_class : str -> N.

  (* "ascii"/"us-ascii" -> ascii; "utf8"/"utf-8"/"default" -> utf8 in any letter case; a name the
     codec registry resolves to the ascii / utf8 codec -> that; any other name is kept (it may
     exist at runtime); a name the registry chokes on has no documented value *)
  Definition doc_encoding (text : str) : option str :=
    match text with
    | [] => Some []
    | _ =>
      if ci_eq text [117; 116; 102; 56] || ci_eq text [117; 116; 102; 45; 56]
         || ci_eq text [100; 101; 102; 97; 117; 108; 116] then Some [117; 116; 102; 56]
      else if ci_eq text [97; 115; 99; 105; 105] || ci_eq text [117; 115; 45; 97; 115; 99; 105; 105]
           then Some [97; 115; 99; 105; 105]
      else if codec_class text =? 3 then None
      else if codec_class text =? 1 then Some [97; 115; 99; 105; 105]
      else if codec_class text =? 2 then Some [117; 116; 102; 56]
      else Some text
    end.

  (* None = the text has no documented value for this directive: it must be rejected *)
  Definition doc_value (relaxed : bool) (name text : str) : option value :=
    match lookup_type name types with
    | Some TBool => option_map VBool (doc_bool relaxed text)
    | Some TInt => option_map VInt (py_int digit_val text)
    | Some TStr => Some (VStr text)
    | Some (TEnum args amap) =>
        let v := match assoc text amap with Some a => a | None => text end in
        if mem v args then Some (VStr v) else None
    | Some TEncoding => option_map VStr (doc_encoding text)
    | _ => None
    end.

  (* settings as mathematical maps *)
  Definition smap := str -> option value.
  Definition upd (k : str) (v : value) (f : smap) : smap :=
    fun k' => if str_eqb k' k then Some v else f k'.

  (* name.all : every directive of the table whose name starts with "name." *)
  Definition all_targets (name : str) : list str :=
    if ends_with [46; 97; 108; 108] name then filter (starts_with (drop_last 3 name)) defaults else [].

  Fixpoint doc_assign_all (relaxed : bool) (text : str) (targets : list str) (f : smap) : option smap :=
    match targets with
    | [] => Some f
    | d :: r => match doc_value relaxed d text with
                | Some v => doc_assign_all relaxed text r (upd d v f)
                | None => None
                end
    end.

  (* one item "name = value" of the comma separated list *)
  Definition doc_item (relaxed ignore_unknown : bool) (f : smap) (item0 : str) : option smap :=
    let item := strip item0 in
    match item with
    | [] => Some f                                   (* empty items are skipped *)
    | _ =>
      match cut_at 61 item with
      | None => None                                 (* Expected "=" *)
      | Some (n0, v0) =>
        let name := strip n0 in
        let text := strip v0 in
        if mem name defaults then
          if is_list_type types name then             (* list directives accumulate the raw texts *)
            match f name with
            | Some (VList l) => Some (upd name (VList (l ++ [text])) f)
            | Some _ => None
            | None => Some (upd name (VList [text]) f)
            end
          else match doc_value relaxed name text with
               | Some v => Some (upd name v f)
               | None => None
               end
        else
          match all_targets name with
          | [] => if ignore_unknown then Some f else None     (* Unknown option *)
          | ts => doc_assign_all relaxed text ts f
          end
      end
    end.

  Fixpoint doc_items (relaxed ignore_unknown : bool) (f : smap) (items : list str) : option smap :=
    match items with
    | [] => Some f
    | it :: r => match doc_item relaxed ignore_unknown f it with
                 | Some f' => doc_items relaxed ignore_unknown f' r
                 | None => None
                 end
    end.

  Definition doc_list (relaxed ignore_unknown : bool) (cur : smap) (s : str) : option smap :=
    doc_items relaxed ignore_unknown cur (split_on 44 s).
End DocParse.

(* ---------- scoping ---------- *)
Section DocScope.
  Variable scopes : list (str * list str).
  Variable immediate : list str.

  Definition legal_here (d : str) (k : kind) : bool := scope_ok scopes d (scope_name k).

  Fixpoint first_setting (d : str) (k : kind) (sets : list (str * value)) : option value :=
    match sets with
    | [] => None
    | (n, v) :: r => if str_eqb d n && legal_here n k then Some v else first_setting d k r
    end.

  Fixpoint last_setting (d : str) (k : kind) (sets : list (str * value)) (acc : option value) : option value :=
    match sets with
    | [] => acc
    | (n, v) :: r => last_setting d k r (if str_eqb d n && legal_here n k then Some v else acc)
    end.

  (* the explicit setting a node makes for the code it encloses: decorators -- the one written
     first wins, and decorators that describe only the decorated object itself (immediate ones)
     do not reach its contents; a with item -- its (last) setting; only legal settings count *)
  Definition explicit_for_contents (k : kind) (sets : list (str * value)) (d : str) : option value :=
    match k with
    | KProbe => None
    | KWith => last_setting d k sets None
    | _ => if mem d immediate then None else first_setting d k sets
    end.

  Definition or_else (a b : option value) : option value :=
    match a with Some v => Some v | None => b end.

  (* value in effect for the contents of the node at path p (child indices), given the value
     [outer] in effect around the forest: the innermost enclosing explicit setting, else outer.
     Only the nodes ON the path are inspected. *)
  Fixpoint spec_at (d : str) (outer : option value) (forest : list tree) (p : list nat)
    : option (option value) :=
    match p with
    | [] => None
    | i :: q =>
        match nth_error forest i with
        | None => None
        | Some (Node k sets ch) =>
            let here := or_else (explicit_for_contents k sets d) outer in
            match q with
            | [] => Some here
            | _ => spec_at d here ch q
            end
        end
    end.

  (* module level: header comment (if legal at module level), else options, else default *)
  (* (header: the directive comment settings in order of appearance; a later one overrides) *)
  Definition header_setting (d : str) (header : dict) : option value :=
    if scope_ok scopes d [109; 111; 100; 117; 108; 101] then get d (rev header) else None.

  Definition module_value (defaults options header : dict) (d : str) : option value :=
    or_else (header_setting d header) (or_else (get d (rev options)) (get d defaults)).
End DocScope.

(* ---------- the documented directive tables ----------
   Which decorators describe only the decorated object, and where a directive may appear, are
   part of the documented behaviour (docs/src/userguide/source_files_and_compilation.rst,
   "Compiler directives" / "Locally": the listed behaviour directives can be set by header, option,
   decorator or with statement and apply to all the enclosed code; the signature / type
   declaration decorators -- cfunc, ccall, cclass, inline, returns, exceptval, final, internal,
   freelist, no_gc ... -- describe the function or class they are written on).  The tables below
   are written from that documentation, NOT generated: Prop/C41.v proves (finite, by computation)
   that the tables of the running compiler coincide with them. *)
Definition doc_immediate : list str :=
  [[99; 102; 117; 110; 99] (* cfunc *);
   [99; 99; 97; 108; 108] (* ccall *);
   [99; 99; 108; 97; 115; 115] (* cclass *);
   [100; 97; 116; 97; 99; 108; 97; 115; 115; 101; 115; 46; 100; 97; 116; 97; 99; 108; 97; 115; 115] (* dataclasses.dataclass *);
   [117; 102; 117; 110; 99] (* ufunc *);
   [105; 110; 108; 105; 110; 101] (* inline *);
   [101; 120; 99; 101; 112; 116; 118; 97; 108] (* exceptval *);
   [114; 101; 116; 117; 114; 110; 115] (* returns *);
   [119; 105; 116; 104; 95; 103; 105; 108] (* with_gil *);
   [102; 114; 101; 101; 108; 105; 115; 116] (* freelist *);
   [110; 111; 95; 103; 99] (* no_gc *);
   [110; 111; 95; 103; 99; 95; 99; 108; 101; 97; 114] (* no_gc_clear *);
   [116; 121; 112; 101; 95; 118; 101; 114; 115; 105; 111; 110; 95; 116; 97; 103] (* type_version_tag *);
   [102; 105; 110; 97; 108] (* final *);
   [97; 117; 116; 111; 95; 112; 105; 99; 107; 108; 101] (* auto_pickle *);
   [105; 110; 116; 101; 114; 110; 97; 108] (* internal *);
   [99; 111; 108; 108; 101; 99; 116; 105; 111; 110; 95; 116; 121; 112; 101] (* collection_type *);
   [116; 111; 116; 97; 108; 95; 111; 114; 100; 101; 114; 105; 110; 103] (* total_ordering *);
   [116; 101; 115; 116; 95; 102; 97; 105; 108; 95; 105; 102; 95; 112; 97; 116; 104; 95; 101; 120; 105; 115; 116; 115] (* test_fail_if_path_exists *);
   [116; 101; 115; 116; 95; 97; 115; 115; 101; 114; 116; 95; 112; 97; 116; 104; 95; 101; 120; 105; 115; 116; 115] (* test_assert_path_exists *);
   [116; 101; 115; 116; 95; 98; 111; 100; 121; 95; 110; 101; 101; 100; 115; 95; 101; 120; 99; 101; 112; 116; 105; 111; 110; 95; 104; 97; 110; 100; 108; 105; 110; 103] (* test_body_needs_exception_handling *)].

Definition doc_behaviour : list str :=
  [[98; 111; 117; 110; 100; 115; 99; 104; 101; 99; 107] (* boundscheck *);
   [119; 114; 97; 112; 97; 114; 111; 117; 110; 100] (* wraparound *);
   [99; 100; 105; 118; 105; 115; 105; 111; 110] (* cdivision *);
   [99; 100; 105; 118; 105; 115; 105; 111; 110; 95; 119; 97; 114; 110; 105; 110; 103; 115] (* cdivision_warnings *);
   [110; 111; 110; 101; 99; 104; 101; 99; 107] (* nonecheck *);
   [105; 110; 105; 116; 105; 97; 108; 105; 122; 101; 100; 99; 104; 101; 99; 107] (* initializedcheck *);
   [111; 118; 101; 114; 102; 108; 111; 119; 99; 104; 101; 99; 107] (* overflowcheck *);
   [111; 118; 101; 114; 102; 108; 111; 119; 99; 104; 101; 99; 107; 46; 102; 111; 108; 100] (* overflowcheck.fold *);
   [101; 109; 98; 101; 100; 115; 105; 103; 110; 97; 116; 117; 114; 101] (* embedsignature *);
   [101; 109; 98; 101; 100; 115; 105; 103; 110; 97; 116; 117; 114; 101; 46; 102; 111; 114; 109; 97; 116] (* embedsignature.format *);
   [98; 105; 110; 100; 105; 110; 103] (* binding *);
   [97; 108; 119; 97; 121; 115; 95; 97; 108; 108; 111; 119; 95; 107; 101; 121; 119; 111; 114; 100; 115] (* always_allow_keywords *);
   [97; 108; 108; 111; 119; 95; 110; 111; 110; 101; 95; 102; 111; 114; 95; 101; 120; 116; 101; 110; 115; 105; 111; 110; 95; 97; 114; 103; 115] (* allow_none_for_extension_args *);
   [112; 114; 111; 102; 105; 108; 101] (* profile *);
   [108; 105; 110; 101; 116; 114; 97; 99; 101] (* linetrace *);
   [105; 110; 102; 101; 114; 95; 116; 121; 112; 101; 115] (* infer_types *);
   [105; 110; 102; 101; 114; 95; 116; 121; 112; 101; 115; 46; 118; 101; 114; 98; 111; 115; 101] (* infer_types.verbose *);
   [97; 110; 110; 111; 116; 97; 116; 105; 111; 110; 95; 116; 121; 112; 105; 110; 103] (* annotation_typing *);
   [99; 112; 111; 119] (* cpow *);
   [99; 95; 97; 112; 105; 95; 98; 105; 110; 111; 112; 95; 109; 101; 116; 104; 111; 100; 115] (* c_api_binop_methods *);
   [117; 110; 114; 97; 105; 115; 97; 98; 108; 101; 95; 116; 114; 97; 99; 101; 98; 97; 99; 107; 115] (* unraisable_tracebacks *);
   [97; 117; 116; 111; 95; 99; 112; 100; 101; 102] (* auto_cpdef *);
   [99; 97; 108; 108; 115; 112; 101; 99] (* callspec *);
   [102; 97; 115; 116; 95; 103; 101; 116; 97; 116; 116; 114] (* fast_getattr *);
   [112; 121; 50; 95; 105; 109; 112; 111; 114; 116] (* py2_import *);
   [114; 101; 109; 111; 118; 101; 95; 117; 110; 114; 101; 97; 99; 104; 97; 98; 108; 101] (* remove_unreachable *);
   [115; 104; 111; 119; 95; 112; 101; 114; 102; 111; 114; 109; 97; 110; 99; 101; 95; 104; 105; 110; 116; 115] (* show_performance_hints *);
   [111; 112; 116; 105; 109; 105; 122; 101; 46; 105; 110; 108; 105; 110; 101; 95; 100; 101; 102; 110; 111; 100; 101; 95; 99; 97; 108; 108; 115] (* optimize.inline_defnode_calls *);
   [111; 112; 116; 105; 109; 105; 122; 101; 46; 117; 110; 112; 97; 99; 107; 95; 109; 101; 116; 104; 111; 100; 95; 99; 97; 108; 108; 115] (* optimize.unpack_method_calls *);
   [111; 112; 116; 105; 109; 105; 122; 101; 46; 117; 110; 112; 97; 99; 107; 95; 109; 101; 116; 104; 111; 100; 95; 99; 97; 108; 108; 115; 95; 105; 110; 95; 112; 121; 105; 110; 105; 116] (* optimize.unpack_method_calls_in_pyinit *);
   [111; 112; 116; 105; 109; 105; 122; 101; 46; 117; 115; 101; 95; 115; 119; 105; 116; 99; 104] (* optimize.use_switch *);
   [119; 97; 114; 110; 46; 117; 110; 100; 101; 99; 108; 97; 114; 101; 100] (* warn.undeclared *);
   [119; 97; 114; 110; 46; 117; 110; 114; 101; 97; 99; 104; 97; 98; 108; 101] (* warn.unreachable *);
   [119; 97; 114; 110; 46; 109; 97; 121; 98; 101; 95; 117; 110; 105; 110; 105; 116; 105; 97; 108; 105; 122; 101; 100] (* warn.maybe_uninitialized *);
   [119; 97; 114; 110; 46; 117; 110; 117; 115; 101; 100] (* warn.unused *);
   [119; 97; 114; 110; 46; 117; 110; 117; 115; 101; 100; 95; 97; 114; 103] (* warn.unused_arg *);
   [119; 97; 114; 110; 46; 117; 110; 117; 115; 101; 100; 95; 114; 101; 115; 117; 108; 116] (* warn.unused_result *);
   [119; 97; 114; 110; 46; 109; 117; 108; 116; 105; 112; 108; 101; 95; 100; 101; 99; 108; 97; 114; 97; 116; 111; 114; 115] (* warn.multiple_declarators *);
   [119; 97; 114; 110; 46; 100; 101; 112; 114; 101; 99; 97; 116; 101; 100; 46; 68; 69; 70] (* warn.deprecated.DEF *);
   [119; 97; 114; 110; 46; 100; 101; 112; 114; 101; 99; 97; 116; 101; 100; 46; 73; 70] (* warn.deprecated.IF *)].

Definition doc_scopes : list (str * list str) :=
  [([97; 117; 116; 111; 95; 112; 105; 99; 107; 108; 101] (* auto_pickle *), [[109; 111; 100; 117; 108; 101] (* module *); [99; 99; 108; 97; 115; 115] (* cclass *)]);
   ([102; 105; 110; 97; 108] (* final *), [[99; 99; 108; 97; 115; 115] (* cclass *); [102; 117; 110; 99; 116; 105; 111; 110] (* function *)]);
   ([99; 99; 111; 109; 112; 108; 101; 120] (* ccomplex *), [[109; 111; 100; 117; 108; 101] (* module *)]);
   ([99; 111; 108; 108; 101; 99; 116; 105; 111; 110; 95; 116; 121; 112; 101] (* collection_type *), [[99; 99; 108; 97; 115; 115] (* cclass *)]);
   ([110; 111; 103; 105; 108] (* nogil *), [[102; 117; 110; 99; 116; 105; 111; 110] (* function *); [119; 105; 116; 104; 32; 115; 116; 97; 116; 101; 109; 101; 110; 116] (* with statement *)]);
   ([103; 105; 108] (* gil *), [[119; 105; 116; 104; 32; 115; 116; 97; 116; 101; 109; 101; 110; 116] (* with statement *)]);
   ([119; 105; 116; 104; 95; 103; 105; 108] (* with_gil *), [[102; 117; 110; 99; 116; 105; 111; 110] (* function *)]);
   ([99; 114; 105; 116; 105; 99; 97; 108; 95; 115; 101; 99; 116; 105; 111; 110] (* critical_section *), [[102; 117; 110; 99; 116; 105; 111; 110] (* function *); [119; 105; 116; 104; 32; 115; 116; 97; 116; 101; 109; 101; 110; 116] (* with statement *)]);
   ([105; 110; 108; 105; 110; 101] (* inline *), [[102; 117; 110; 99; 116; 105; 111; 110] (* function *)]);
   ([99; 102; 117; 110; 99] (* cfunc *), [[102; 117; 110; 99; 116; 105; 111; 110] (* function *); [119; 105; 116; 104; 32; 115; 116; 97; 116; 101; 109; 101; 110; 116] (* with statement *)]);
   ([99; 99; 97; 108; 108] (* ccall *), [[102; 117; 110; 99; 116; 105; 111; 110] (* function *); [119; 105; 116; 104; 32; 115; 116; 97; 116; 101; 109; 101; 110; 116] (* with statement *)]);
   ([114; 101; 116; 117; 114; 110; 115] (* returns *), [[102; 117; 110; 99; 116; 105; 111; 110] (* function *)]);
   ([101; 120; 99; 101; 112; 116; 118; 97; 108] (* exceptval *), [[102; 117; 110; 99; 116; 105; 111; 110] (* function *)]);
   ([108; 111; 99; 97; 108; 115] (* locals *), [[102; 117; 110; 99; 116; 105; 111; 110] (* function *)]);
   ([115; 116; 97; 116; 105; 99; 109; 101; 116; 104; 111; 100] (* staticmethod *), [[102; 117; 110; 99; 116; 105; 111; 110] (* function *)]);
   ([110; 111; 95; 103; 99; 95; 99; 108; 101; 97; 114] (* no_gc_clear *), [[99; 99; 108; 97; 115; 115] (* cclass *)]);
   ([110; 111; 95; 103; 99] (* no_gc *), [[99; 99; 108; 97; 115; 115] (* cclass *)]);
   ([105; 110; 116; 101; 114; 110; 97; 108] (* internal *), [[99; 99; 108; 97; 115; 115] (* cclass *)]);
   ([99; 99; 108; 97; 115; 115] (* cclass *), [[99; 108; 97; 115; 115] (* class *); [99; 99; 108; 97; 115; 115] (* cclass *); [119; 105; 116; 104; 32; 115; 116; 97; 116; 101; 109; 101; 110; 116] (* with statement *)]);
   ([97; 117; 116; 111; 116; 101; 115; 116; 100; 105; 99; 116] (* autotestdict *), [[109; 111; 100; 117; 108; 101] (* module *)]);
   ([97; 117; 116; 111; 116; 101; 115; 116; 100; 105; 99; 116; 46; 97; 108; 108] (* autotestdict.all *), [[109; 111; 100; 117; 108; 101] (* module *)]);
   ([97; 117; 116; 111; 116; 101; 115; 116; 100; 105; 99; 116; 46; 99; 100; 101; 102] (* autotestdict.cdef *), [[109; 111; 100; 117; 108; 101] (* module *)]);
   ([115; 101; 116; 95; 105; 110; 105; 116; 105; 97; 108; 95; 112; 97; 116; 104] (* set_initial_path *), [[109; 111; 100; 117; 108; 101] (* module *)]);
   ([116; 101; 115; 116; 95; 97; 115; 115; 101; 114; 116; 95; 112; 97; 116; 104; 95; 101; 120; 105; 115; 116; 115] (* test_assert_path_exists *), [[102; 117; 110; 99; 116; 105; 111; 110] (* function *); [99; 108; 97; 115; 115] (* class *); [99; 99; 108; 97; 115; 115] (* cclass *)]);
   ([116; 101; 115; 116; 95; 102; 97; 105; 108; 95; 105; 102; 95; 112; 97; 116; 104; 95; 101; 120; 105; 115; 116; 115] (* test_fail_if_path_exists *), [[102; 117; 110; 99; 116; 105; 111; 110] (* function *); [99; 108; 97; 115; 115] (* class *); [99; 99; 108; 97; 115; 115] (* cclass *)]);
   ([116; 101; 115; 116; 95; 97; 115; 115; 101; 114; 116; 95; 99; 95; 99; 111; 100; 101; 95; 104; 97; 115] (* test_assert_c_code_has *), [[109; 111; 100; 117; 108; 101] (* module *)]);
   ([116; 101; 115; 116; 95; 102; 97; 105; 108; 95; 105; 102; 95; 99; 95; 99; 111; 100; 101; 95; 104; 97; 115] (* test_fail_if_c_code_has *), [[109; 111; 100; 117; 108; 101] (* module *)]);
   ([116; 101; 115; 116; 95; 98; 111; 100; 121; 95; 110; 101; 101; 100; 115; 95; 101; 120; 99; 101; 112; 116; 105; 111; 110; 95; 104; 97; 110; 100; 108; 105; 110; 103] (* test_body_needs_exception_handling *), [[119; 105; 116; 104; 32; 115; 116; 97; 116; 101; 109; 101; 110; 116] (* with statement *)]);
   ([102; 114; 101; 101; 108; 105; 115; 116] (* freelist *), [[99; 99; 108; 97; 115; 115] (* cclass *)]);
   ([102; 111; 114; 109; 97; 108; 95; 103; 114; 97; 109; 109; 97; 114] (* formal_grammar *), [[109; 111; 100; 117; 108; 101] (* module *)]);
   ([101; 109; 105; 116; 95; 99; 111; 100; 101; 95; 99; 111; 109; 109; 101; 110; 116; 115] (* emit_code_comments *), [[109; 111; 100; 117; 108; 101] (* module *)]);
   ([99; 95; 115; 116; 114; 105; 110; 103; 95; 116; 121; 112; 101] (* c_string_type *), [[109; 111; 100; 117; 108; 101] (* module *)]);
   ([99; 95; 115; 116; 114; 105; 110; 103; 95; 101; 110; 99; 111; 100; 105; 110; 103] (* c_string_encoding *), [[109; 111; 100; 117; 108; 101] (* module *)]);
   ([116; 121; 112; 101; 95; 118; 101; 114; 115; 105; 111; 110; 95; 116; 97; 103] (* type_version_tag *), [[109; 111; 100; 117; 108; 101] (* module *); [99; 99; 108; 97; 115; 115] (* cclass *)]);
   ([108; 97; 110; 103; 117; 97; 103; 101; 95; 108; 101; 118; 101; 108] (* language_level *), [[109; 111; 100; 117; 108; 101] (* module *)]);
   ([111; 108; 100; 95; 115; 116; 121; 108; 101; 95; 103; 108; 111; 98; 97; 108; 115] (* old_style_globals *), [[109; 111; 100; 117; 108; 101] (* module *)]);
   ([110; 112; 95; 112; 121; 116; 104; 114; 97; 110] (* np_pythran *), [[109; 111; 100; 117; 108; 101] (* module *)]);
   ([112; 114; 101; 108; 105; 109; 105; 110; 97; 114; 121; 95; 108; 97; 116; 101; 95; 105; 110; 99; 108; 117; 100; 101; 115; 95; 99; 121; 50; 56] (* preliminary_late_includes_cy28 *), [[109; 111; 100; 117; 108; 101] (* module *)]);
   ([102; 97; 115; 116; 95; 103; 105; 108] (* fast_gil *), [[109; 111; 100; 117; 108; 101] (* module *)]);
   ([105; 116; 101; 114; 97; 98; 108; 101; 95; 99; 111; 114; 111; 117; 116; 105; 110; 101] (* iterable_coroutine *), [[109; 111; 100; 117; 108; 101] (* module *); [102; 117; 110; 99; 116; 105; 111; 110] (* function *)]);
   ([116; 114; 97; 115; 104; 99; 97; 110] (* trashcan *), [[99; 99; 108; 97; 115; 115] (* cclass *)]);
   ([116; 111; 116; 97; 108; 95; 111; 114; 100; 101; 114; 105; 110; 103] (* total_ordering *), [[99; 108; 97; 115; 115] (* class *); [99; 99; 108; 97; 115; 115] (* cclass *)]);
   ([100; 97; 116; 97; 99; 108; 97; 115; 115; 101; 115; 46; 100; 97; 116; 97; 99; 108; 97; 115; 115] (* dataclasses.dataclass *), [[99; 108; 97; 115; 115] (* class *); [99; 99; 108; 97; 115; 115] (* cclass *)]);
   ([99; 112; 112; 95; 108; 111; 99; 97; 108; 115] (* cpp_locals *), [[109; 111; 100; 117; 108; 101] (* module *); [102; 117; 110; 99; 116; 105; 111; 110] (* function *); [99; 99; 108; 97; 115; 115] (* cclass *)]);
   ([117; 102; 117; 110; 99] (* ufunc *), [[102; 117; 110; 99; 116; 105; 111; 110] (* function *)]);
   ([108; 101; 103; 97; 99; 121; 95; 105; 109; 112; 108; 105; 99; 105; 116; 95; 110; 111; 101; 120; 99; 101; 112; 116] (* legacy_implicit_noexcept *), [[109; 111; 100; 117; 108; 101] (* module *)]);
   ([99; 95; 99; 111; 109; 112; 105; 108; 101; 95; 103; 117; 97; 114; 100] (* c_compile_guard *), [[102; 117; 110; 99; 116; 105; 111; 110] (* function *)]);
   ([99; 111; 110; 116; 114; 111; 108; 95; 102; 108; 111; 119; 46; 100; 111; 116; 95; 111; 117; 116; 112; 117; 116] (* control_flow.dot_output *), [[109; 111; 100; 117; 108; 101] (* module *)]);
   ([99; 111; 110; 116; 114; 111; 108; 95; 102; 108; 111; 119; 46; 100; 111; 116; 95; 97; 110; 110; 111; 116; 97; 116; 101; 95; 100; 101; 102; 115] (* control_flow.dot_annotate_defs *), [[109; 111; 100; 117; 108; 101] (* module *)]);
   ([102; 114; 101; 101; 116; 104; 114; 101; 97; 100; 105; 110; 103; 95; 99; 111; 109; 112; 97; 116; 105; 98; 108; 101] (* freethreading_compatible *), [[109; 111; 100; 117; 108; 101] (* module *)]);
   ([115; 117; 98; 105; 110; 116; 101; 114; 112; 114; 101; 116; 101; 114; 115; 95; 99; 111; 109; 112; 97; 116; 105; 98; 108; 101] (* subinterpreters_compatible *), [[109; 111; 100; 117; 108; 101] (* module *)])].

Definition subset (a b : list str) : bool := forallb (fun x => mem x b) a.
Definition same_set (a b : list str) : bool := subset a b && subset b a.

Definition restricted_scope (scopes : list (str * list str)) (d : str) : bool :=
  match lookup_scopes d scopes with Some (_ :: _) => true | _ => false end.

(* the immediate set of a compiler: exactly the documented signature / type decorators; no
   behaviour directive is in it (nor among the names dropped on inheritance); and structurally,
   only a directive whose use is restricted to particular scopes can be immediate -- a directive
   available everywhere configures code generation for everything it encloses *)
Definition immediate_table_ok (immediate : list str) (scopes : list (str * list str))
           (non_inherited : list str) : bool :=
  same_set immediate doc_immediate
  && forallb (fun d => negb (mem d immediate) && negb (mem d non_inherited)) doc_behaviour
  && forallb (restricted_scope scopes) immediate.

Definition scopes_table_ok (scopes : list (str * list str)) : bool :=
  forallb (fun e => match lookup_scopes (fst e) doc_scopes with
                    | Some l => same_set (snd e) l | None => false end) scopes
  && forallb (fun e => match lookup_scopes (fst e) scopes with Some _ => true | None => false end) doc_scopes.

Definition doc_scope_ok : str -> str -> bool := scope_ok doc_scopes.
