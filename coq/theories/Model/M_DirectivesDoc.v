(* C41 -- the DOCUMENTED meaning of directive strings and of directive scoping, stated
   independently of the code's data structures:
   - directive texts: docs/src/userguide/source_files_and_compilation.rst ("Compiler directives",
     "name=value,..." lists, whitespace not considered) and the docstrings of
     Options.parse_directive_value / parse_directive_list / normalise_encoding_name;
     settings are mathematical maps (functions), a later assignment overrides an earlier one;
   - scoping: "a directive set by decorator or with-block applies to the enclosed code, overriding
     the file header; the header overrides options (command line / cythonize); options override
     the defaults". *)
From Coq Require Import ZArith NArith List Bool.
From CyVerif Require Import Model.M_Directives.
Import ListNotations.
Open Scope N_scope.

(* ---------- texts ---------- *)

(* case-insensitive (ASCII) comparison of a text with a lower-case word *)
Fixpoint ci_eq (s w : str) : bool :=
  match s, w with
  | [], [] => true
  | c :: s', x :: w' => ((c =? x) || ((65 <=? c) && (c <=? 90) && (c + 32 =? x))) && ci_eq s' w'
  | _, _ => false
  end.

Definition doc_bool (relaxed : bool) (text : str) : option bool :=
  if str_eqb text w_true then Some true
  else if str_eqb text w_false then Some false
  else if relaxed && (ci_eq text w_ltrue || ci_eq text w_yes) then Some true
  else if relaxed && (ci_eq text w_lfalse || ci_eq text w_no) then Some false
  else None.

Section DocParse.
  Variable types : list (str * dtype).
  Variable defaults : list str.
  Variable digit_val : N -> option N.
  Variable codec_class : str -> N.

  (* "ascii"/"us-ascii" -> ascii; "utf8"/"utf-8"/"default" -> utf8 in any letter case; a name the
     codec registry resolves to the ascii / utf8 codec -> that; any other name is kept (it may
     exist at runtime); a name the registry chokes on has no documented value *)
  Definition doc_encoding (text : str) : option str :=
    match text with
    | [] => Some []
    | _ =>
      if ci_eq text [117; 116; 102; 56] || ci_eq text [117; 116; 102; 45; 56]
         || ci_eq text [100; 101; 102; 97; 117; 108; 116] then Some [117; 116; 102; 56]
      else if ci_eq text [97; 115; 99; 105; 105] || ci_eq text [117; 115; 45; 97; 115; 99; 105; 105]
           then Some [97; 115; 99; 105; 105]
      else if codec_class text =? 3 then None
      else if codec_class text =? 1 then Some [97; 115; 99; 105; 105]
      else if codec_class text =? 2 then Some [117; 116; 102; 56]
      else Some text
    end.

  (* None = the text has no documented value for this directive: it must be rejected *)
  Definition doc_value (relaxed : bool) (name text : str) : option value :=
    match lookup_type name types with
    | Some TBool => option_map VBool (doc_bool relaxed text)
    | Some TInt => option_map VInt (py_int digit_val text)
    | Some TStr => Some (VStr text)
    | Some (TEnum args amap) =>
        let v := match assoc text amap with Some a => a | None => text end in
        if mem v args then Some (VStr v) else None
    | Some TEncoding => option_map VStr (doc_encoding text)
    | _ => None
    end.

  (* settings as mathematical maps *)
  Definition smap := str -> option value.
  Definition upd (k : str) (v : value) (f : smap) : smap :=
    fun k' => if str_eqb k' k then Some v else f k'.

  (* name.all : every directive of the table whose name starts with "name." *)
  Definition all_targets (name : str) : list str :=
    if ends_with [46; 97; 108; 108] name then filter (starts_with (drop_last 3 name)) defaults else [].

  Fixpoint doc_assign_all (relaxed : bool) (text : str) (targets : list str) (f : smap) : option smap :=
    match targets with
    | [] => Some f
    | d :: r => match doc_value relaxed d text with
                | Some v => doc_assign_all relaxed text r (upd d v f)
                | None => None
                end
    end.

  (* one item "name = value" of the comma separated list *)
  Definition doc_item (relaxed ignore_unknown : bool) (f : smap) (item0 : str) : option smap :=
    let item := strip item0 in
    match item with
    | [] => Some f                                   (* empty items are skipped *)
    | _ =>
      match cut_at 61 item with
      | None => None                                 (* Expected "=" *)
      | Some (n0, v0) =>
        let name := strip n0 in
        let text := strip v0 in
        if mem name defaults then
          if is_list_type types name then             (* list directives accumulate the raw texts *)
            match f name with
            | Some (VList l) => Some (upd name (VList (l ++ [text])) f)
            | Some _ => None
            | None => Some (upd name (VList [text]) f)
            end
          else match doc_value relaxed name text with
               | Some v => Some (upd name v f)
               | None => None
               end
        else
          match all_targets name with
          | [] => if ignore_unknown then Some f else None     (* Unknown option *)
          | ts => doc_assign_all relaxed text ts f
          end
      end
    end.

  Fixpoint doc_items (relaxed ignore_unknown : bool) (f : smap) (items : list str) : option smap :=
    match items with
    | [] => Some f
    | it :: r => match doc_item relaxed ignore_unknown f it with
                 | Some f' => doc_items relaxed ignore_unknown f' r
                 | None => None
                 end
    end.

  Definition doc_list (relaxed ignore_unknown : bool) (cur : smap) (s : str) : option smap :=
    doc_items relaxed ignore_unknown cur (split_on 44 s).
End DocParse.

(* ---------- scoping ---------- *)
Section DocScope.
  Variable scopes : list (str * list str).
  Variable immediate : list str.

  Definition legal_here (d : str) (k : kind) : bool := scope_ok scopes d (scope_name k).

  Fixpoint first_setting (d : str) (k : kind) (sets : list (str * value)) : option value :=
    match sets with
    | [] => None
    | (n, v) :: r => if str_eqb d n && legal_here n k then Some v else first_setting d k r
    end.

  Fixpoint last_setting (d : str) (k : kind) (sets : list (str * value)) (acc : option value) : option value :=
    match sets with
    | [] => acc
    | (n, v) :: r => last_setting d k r (if str_eqb d n && legal_here n k then Some v else acc)
    end.

  (* the explicit setting a node makes for the code it encloses: decorators -- the one written
     first wins, and decorators that describe only the decorated object itself (immediate ones)
     do not reach its contents; a with item -- its (last) setting; only legal settings count *)
  Definition explicit_for_contents (k : kind) (sets : list (str * value)) (d : str) : option value :=
    match k with
    | KProbe => None
    | KWith => last_setting d k sets None
    | _ => if mem d immediate then None else first_setting d k sets
    end.

  Definition or_else (a b : option value) : option value :=
    match a with Some v => Some v | None => b end.

  (* value in effect for the contents of the node at path p (child indices), given the value
     [outer] in effect around the forest: the innermost enclosing explicit setting, else outer.
     Only the nodes ON the path are inspected. *)
  Fixpoint spec_at (d : str) (outer : option value) (forest : list tree) (p : list nat)
    : option (option value) :=
    match p with
    | [] => None
    | i :: q =>
        match nth_error forest i with
        | None => None
        | Some (Node k sets ch) =>
            let here := or_else (explicit_for_contents k sets d) outer in
            match q with
            | [] => Some here
            | _ => spec_at d here ch q
            end
        end
    end.

  (* module level: header comment (if legal at module level), else options, else default *)
  (* (header: the directive comment settings in order of appearance; a later one overrides) *)
  Definition header_setting (d : str) (header : dict) : option value :=
    if scope_ok scopes d [109; 111; 100; 117; 108; 101] then get d (rev header) else None.

  Definition module_value (defaults options header : dict) (d : str) : option value :=
    or_else (header_setting d header) (or_else (get d (rev options)) (get d defaults)).
End DocScope.
