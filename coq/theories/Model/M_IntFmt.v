(* Model of Cython/Utility/TypeConversion.c: CIntToPyUnicode (__Pyx__PyUnicode_From_<T> for the
   format characters d/o/x/X and __Pyx_uchar_PyUnicode_From_<T> for 'c'), COrdinalToPyUnicode
   (__Pyx_PyUnicode_FromOrdinal_Padded) and of StringTools.c: BuildPyUnicode
   (__Pyx_PyUnicode_BuildFromAscii, CPython branch), instantiated at a C integer type of width
   w bits and signedness s.  sizeof(T) = ceil(w/8).  Characters are code points (Z).

   The stack buffer `char digits[sizeof(T)*3+2]` is only ever written downwards from its end
   through the pre-decremented pointer dpos and read from dpos upwards, so it is represented by
   its capacity, the index dpos and the list of bytes digits[dpos..end); a write at an index
   below 0 is the explicit error ErrBufferOverflow.  Table look-ups outside a table, the C
   assert, reads past `clength` and fuel exhaustion are explicit errors too.

   py_format_int / py_format_char are the specification: CPython's format(v, spec) for the
   specs the fast path accepts (Objects/longobject.c long_to_decimal_string / long_format_binary:
   digits by repeated division; Python/formatter_unicode.c: sign, fill and '>' / '=' alignment). *)
From Coq Require Import ZArith List Bool Lia.
From CyVerif Require Import Lib.CInt.
Import ListNotations.
Open Scope Z_scope.

(* ---------- tables (CIntToDigits) ---------- *)
Definition zseq (n : nat) : list Z := map Z.of_nat (seq 0 n).

(* "00010203...": entry i holds the two base-b digits of i *)
Definition pairs_table (b : Z) : list Z :=
  flat_map (fun i => [48 + i / b; 48 + i mod b]) (zseq (Z.to_nat (b * b))).
Definition DIGIT_PAIRS_10 : list Z := pairs_table 10.
Definition DIGIT_PAIRS_8 : list Z := pairs_table 8.
Definition DIGITS_HEX : list Z :=
  [48;49;50;51;52;53;54;55;56;57;97;98;99;100;101;102;
   48;49;50;51;52;53;54;55;56;57;65;66;67;68;69;70].

Definition tbl_get (t : list Z) (i : Z) : option Z :=
  if i <? 0 then None else nth_error t (Z.to_nat i).

(* ---------- outcomes ---------- *)
Inductive err := ErrBufferOverflow | ErrTableIndex | ErrOutOfFuel | ErrAssert | ErrReadOutside
               | ErrWriteOutside.
Inductive result := Text (chars : list Z) | Err (e : err).

Definition sizeof (w : Z) : Z := (w + 7) / 8.
Definition buf_size (w : Z) : Z := sizeof w * 3 + 2.        (* char digits[sizeof(T)*3+2] *)
Definition loop_fuel (w : Z) : nat := S (Z.to_nat w).

(* one pass through the switch inside the do-while *)
Inductive sres := SOk (remaining dpos : Z) (buf : list Z) (last_one_off : bool) | SErr (e : err).

(* case 'o' / case 'd':  digit_pos = abs((int)(remaining % (b*b))); remaining = (T)(remaining / (b*b));
   dpos -= 2; memcpy(dpos, TABLE + digit_pos*2, 2); last_one_off = (digit_pos < b).
   C '%' and '/' truncate (Z.rem / Z.quot); the usual arithmetic conversions do not change the
   value since b*b and the operand fit the promoted type. *)
Definition pair_step (w : Z) (s : bool) (b : Z) (table : list Z) (remaining dpos : Z)
           (buf : list Z) : sres :=
  let digit_pos := Z.abs (wrap 32 true (Z.rem remaining (b * b))) in
  let remaining' := wrap w s (Z.quot remaining (b * b)) in
  let dpos' := dpos - 2 in
  if dpos' <? 0 then SErr ErrBufferOverflow else
  match tbl_get table (digit_pos * 2), tbl_get table (digit_pos * 2 + 1) with
  | Some c1, Some c2 => SOk remaining' dpos' (c1 :: c2 :: buf) (digit_pos <? b)
  | _, _ => SErr ErrTableIndex
  end.

(* case 'x':  *(--dpos) = hex_digits[abs((int)(remaining % 16))]; remaining = (T)(remaining / 16) *)
Definition hex_step (w : Z) (s : bool) (hexoff : Z) (remaining dpos : Z) (buf : list Z)
           (loo : bool) : sres :=
  let d := Z.abs (wrap 32 true (Z.rem remaining 16)) in
  let dpos' := dpos - 1 in
  if dpos' <? 0 then SErr ErrBufferOverflow else
  match tbl_get DIGITS_HEX (hexoff + d) with
  | Some c => SOk (wrap w s (Z.quot remaining 16)) dpos' (c :: buf) loo
  | None => SErr ErrTableIndex
  end.

Inductive lres := LDone (dpos : Z) (buf : list Z) (last_one_off : bool) | LErr (e : err).

(* do { switch (format_char) {...} } while (remaining != 0);   'o'=111 'd'=100 'x'=120 *)
Fixpoint digits_loop (fuel : nat) (w : Z) (s : bool) (fc hexoff : Z) (remaining dpos : Z)
         (buf : list Z) (loo : bool) : lres :=
  match fuel with
  | O => LErr ErrOutOfFuel
  | S fuel' =>
    let st :=
      if fc =? 111 then pair_step w s 8 DIGIT_PAIRS_8 remaining dpos buf
      else if fc =? 100 then pair_step w s 10 DIGIT_PAIRS_10 remaining dpos buf
      else if fc =? 120 then hex_step w s hexoff remaining dpos buf loo
      else SErr ErrAssert                                       (* default: assert(0) *)
    in
    match st with
    | SErr e => LErr e
    | SOk remaining' dpos' buf' loo' =>
      if remaining' =? 0 then LDone dpos' buf' loo'
      else digits_loop fuel' w s fc hexoff remaining' dpos' buf' loo'
    end
  end.

(* __Pyx_PyUnicode_BuildFromAscii(ulength, chars, clength, prepend_sign, padding_char), CPython
   branch: PyUnicode_New(ulength, 127); positions [0,uoffset) get the sign and the padding when
   uoffset > 0, positions uoffset+i get chars[i] for i < clength. *)
Definition build_from_ascii (ulength : Z) (chars : list Z) (clength : Z) (prepend_sign : bool)
           (padding_char : Z) : result :=
  let uoffset := ulength - clength in
  if (clength <? 0) || (Z.of_nat (length chars) <? clength) then Err ErrReadOutside
  else if uoffset <? 0 then Err ErrWriteOutside
  else
    let prefix :=
      if 0 <? uoffset then
        (if prepend_sign then 45 :: repeat padding_char (Z.to_nat (uoffset - 1))
         else repeat padding_char (Z.to_nat uoffset))
      else [] in
    Text (prefix ++ firstn (Z.to_nat clength) chars).

(* __Pyx__PyUnicode_From_<T>(value, width, padding_char, format_char) *)
Definition cint_to_unicode (w : Z) (s : bool) (value width padding_char format_char : Z) : result :=
  let size := buf_size w in
  let hexoff := if format_char =? 88 then 16 else 0 in          (* 'X': hex_digits += 16 *)
  let fc := if format_char =? 88 then 120 else format_char in
  match digits_loop (loop_fuel w) w s fc hexoff value size [] false with
  | LErr e => Err e
  | LDone dpos buf loo =>
    (* assert(!last_one_off || *dpos == '0');  dpos += last_one_off; *)
    let after :=
      if loo then match buf with c :: rest => if c =? 48 then Some rest else None | [] => None end
      else Some buf in
    match after with
    | None => Err ErrAssert
    | Some buf1 =>
      let dpos1 := dpos + b2z loo in
      let length0 := size - dpos1 in
      if s && (value <=? -1) then                               (* !is_unsigned && value <= neg_one *)
        if (padding_char =? 32) || (width <=? length0 + 1) then
          if dpos1 - 1 <? 0 then Err ErrBufferOverflow else
          let buf2 := 45 :: buf1 in
          let length1 := length0 + 1 in
          let ulength := Z.max (length0 + 1) width in
          if ulength =? 1 then match buf2 with c :: _ => Text [c] | [] => Err ErrReadOutside end
          else build_from_ascii ulength buf2 length1 false padding_char
        else
          let ulength := Z.max (length0 + 1) width in
          if ulength =? 1 then match buf1 with c :: _ => Text [c] | [] => Err ErrReadOutside end
          else build_from_ascii ulength buf1 length0 true padding_char
      else
        let ulength := Z.max length0 width in
        if ulength =? 1 then match buf1 with c :: _ => Text [c] | [] => Err ErrReadOutside end
        else build_from_ascii ulength buf1 length0 false padding_char
    end
  end.

(* ---------- specification: CPython's format(v, spec) ---------- *)
Definition digit_char (upper : bool) (d : Z) : Z :=
  if d <? 10 then 48 + d else (if upper then 55 else 87) + d.

(* digits by repeated division, most significant first; "0" for 0 *)
Fixpoint digs (fuel : nat) (b : Z) (upper : bool) (n : Z) : list Z :=
  match fuel with
  | O => []
  | S f => (if n / b =? 0 then [] else digs f b upper (n / b)) ++ [digit_char upper (n mod b)]
  end.
Definition py_digits (b : Z) (upper : bool) (n : Z) : list Z :=
  digs (S (Z.to_nat (Z.log2 n))) b upper n.

Definition fmt_base (fc : Z) : Z := if fc =? 100 then 10 else if fc =? 111 then 8 else 16.
Definition fmt_upper (fc : Z) : bool := fc =? 88.

(* format(v, f"{fill}{align}{width}{type}") with align '>' when fill = ' ' (the default for
   numbers) and '=' (sign-aware, what the '0' flag selects) otherwise *)
Definition py_format_int (v width fill fc : Z) : list Z :=
  let ds := py_digits (fmt_base fc) (fmt_upper fc) (Z.abs v) in
  let sign := if v <? 0 then [45] else [] in
  let npad := Z.to_nat (width - Z.of_nat (length sign + length ds)) in
  if fill =? 32 then repeat fill npad ++ sign ++ ds else sign ++ repeat fill npad ++ ds.

(* value of a digit string (Horner) and validity of its characters *)
Definition digit_val (c : Z) : Z :=
  if c <? 58 then c - 48 else if c <? 91 then c - 55 else c - 87.
Definition parse_base (b : Z) (l : list Z) : Z := fold_left (fun acc c => acc * b + digit_val c) l 0.
Definition is_digit_of (b : Z) (upper : bool) (c : Z) : bool :=
  let d := digit_val c in (0 <=? d) && (d <? b) && (c =? digit_char upper d).

(* ---------- the 'c' format ---------- *)
(* CAbort: a byte >= 0x80 is written into a PyUnicode_New(n, 127) string (PyUnicode_WRITE's assert
   fires unless NDEBUG; with NDEBUG the string object is corrupt) *)
(* CBufferOverflow (byte-level model only): a write/memset outside `char chars[256]` *)
Inductive cres := CText (chars : list Z) | COverflowError | CValueError | CUnicodeDecodeError | CAbort
                | CBufferOverflow.

(* the test in __Pyx_uchar_PyUnicode_From_<T>; true = value accepted.
   fixed = false is the text as it is:
     !(is_unsigned || value == 0 || value > 0) ||
     !(sizeof(value) <= 2 || value & ~(T)0x01fffff || __Pyx_CheckUnicodeValue((int) value))
   fixed = true is the proposed repair:  ... || (!(value & ~(T)0x01fffff) && __Pyx_Check...) *)
Definition uchar_accepts (fixed : bool) (w : Z) (s : bool) (value : Z) : bool :=
  let c1 := negb s || (value =? 0) || (0 <? value) in
  let high := negb (Z.land value (Z.lnot 2097151) =? 0) in
  let chk := wrap 32 true value <=? 1114111 in
  let c2 := if fixed then (sizeof w <=? 2) || (negb high && chk)
            else (sizeof w <=? 2) || high || chk in
  c1 && c2.

(* PyUnicode_FromOrdinal *)
Definition from_ordinal (iv : Z) : cres :=
  if (0 <=? iv) && (iv <=? 1114111) then CText [iv] else CValueError.

(* __Pyx_PyUnicode_FromOrdinal_Padded(int value, ulength, padding_char), ulength >= 2 *)
Definition from_ordinal_padded (iv ulength pad : Z) : cres :=
  let plen := ulength - 1 in
  let pads := repeat pad (Z.to_nat plen) in
  if (plen <=? 250) && ((iv <? 55296) || (57343 <? iv)) then
    if iv <=? 255 then CText (pads ++ [iv mod 256])          (* chars[ulength-1] = (char) value; Latin-1 *)
    else if iv <? 65536 then CText (pads ++ [iv])            (* well-formed 2/3 byte UTF-8 *)
    else                                                     (* 4 bytes: only bits 0..20 are encoded *)
      let cp := iv mod 2097152 in
      if (65536 <=? cp) && (cp <=? 1114111) then CText (pads ++ [cp]) else CUnicodeDecodeError
  else if iv <=? 127 then                                    (* BuildFromAscii(ulength, {(char)value}, 1, 0, pad) *)
    (let c := iv mod 256 in if 127 <? c then CAbort else CText (pads ++ [c]))
  else match from_ordinal iv with
       | CText l => CText (pads ++ l)
       | e => e
       end.

(* __Pyx_uchar_PyUnicode_From_<T>(value, width, padding_char) *)
Definition uchar_to_unicode (fixed : bool) (w : Z) (s : bool) (value width pad : Z) : cres :=
  if negb (uchar_accepts fixed w s value) then COverflowError
  else
    let iv := wrap 32 true value in                          (* (int) value *)
    if width <=? 1 then from_ordinal iv else from_ordinal_padded iv width pad.

(* CPython: format(v, 'c') raises OverflowError unless v in range(0x110000); fill left *)
Definition py_format_char (v width pad : Z) : cres :=
  if (0 <=? v) && (v <? 1114112) then CText (repeat pad (Z.to_nat (width - 1)) ++ [v])
  else COverflowError.

(* ---------- byte-level model of __Pyx_PyUnicode_FromOrdinal_Padded ----------
   from_ordinal_padded above abstracts "encode to UTF-8 into chars[256], then PyUnicode_DecodeUTF8"
   by its intended effect.  Here the bytes are explicit: the three encoding branches of the C text
   with their guards (value < 0x800, value < 0x10000, else) and their masks/shifts, the 256-byte
   stack buffer written downwards from its end, memset of the padding, and a strict UTF-8 decoder
   (PyUnicode_DecodeUTF8 with errors=NULL; RFC 3629: shortest form only, no surrogates, nothing
   above U+10FFFF, no truncated or stray continuation bytes). *)
Definition cchar (x : Z) : Z := x mod 256.          (* (char) x, observed as the byte stored *)

(*  *--cpos = (char)(0x80 | (value & 0x3f)); value >>= 6; *--cpos = (char)(0xc0 | (value & 0x1f)); *)
Definition enc2 (v : Z) : list Z :=
  let b1 := cchar (Z.lor 128 (Z.land v 63)) in
  let v1 := Z.shiftr v 6 in
  let b0 := cchar (Z.lor 192 (Z.land v1 31)) in
  [b0; b1].
Definition enc3 (v : Z) : list Z :=
  let b2 := cchar (Z.lor 128 (Z.land v 63)) in
  let v1 := Z.shiftr v 6 in
  let b1 := cchar (Z.lor 128 (Z.land v1 63)) in
  let v2 := Z.shiftr v1 6 in
  let b0 := cchar (Z.lor 224 (Z.land v2 15)) in
  [b0; b1; b2].
Definition enc4 (v : Z) : list Z :=
  let b3 := cchar (Z.lor 128 (Z.land v 63)) in
  let v1 := Z.shiftr v 6 in
  let b2 := cchar (Z.lor 128 (Z.land v1 63)) in
  let v2 := Z.shiftr v1 6 in
  let b1 := cchar (Z.lor 128 (Z.land v2 63)) in
  let v3 := Z.shiftr v2 6 in
  let b0 := cchar (Z.lor 240 (Z.land v3 7)) in
  [b0; b1; b2; b3].
(* the literal constants of the C text, named so that the harness can compare them with the source
   (props/C18.py c_padded_consts): value < 0x800, value < 0x10000, value <= 255,
   padding_length <= 250, char chars[256], value < 0xD800 || value > 0xDFFF *)
Definition ENC2_LIMIT : Z := 2048.
Definition ENC3_LIMIT : Z := 65536.
Definition LATIN1_MAX : Z := 255.
Definition PAD_LIMIT : Z := 250.
Definition CHARS_SIZE : Z := 256.
Definition SURR_LO : Z := 55296.
Definition SURR_HI : Z := 57343.
Definition padded_consts : list Z := [ENC2_LIMIT; ENC3_LIMIT; LATIN1_MAX; PAD_LIMIT; CHARS_SIZE; SURR_LO; SURR_HI].

(* if (value < 0x800) {...} else if (value < 0x10000) {...} else {...} *)
Definition utf8_enc_c (v : Z) : list Z :=
  if v <? ENC2_LIMIT then enc2 v else if v <? ENC3_LIMIT then enc3 v else enc4 v.

Definition is_cont (b : Z) : bool := (128 <=? b) && (b <=? 191).
Definition is_surrogate (cp : Z) : bool := (55296 <=? cp) && (cp <=? 57343).

(* strict UTF-8 decoder; None = UnicodeDecodeError *)
Fixpoint utf8_decode (l : list Z) : option (list Z) :=
  match l with
  | [] => Some []
  | b0 :: r =>
    if (b0 <? 0) || (255 <? b0) then None
    else if b0 <? 128 then option_map (cons b0) (utf8_decode r)
    else if b0 <? 194 then None                       (* continuation byte, or C0/C1 = overlong *)
    else if b0 <? 224 then
      match r with
      | b1 :: r1 =>
        if is_cont b1 then option_map (cons ((b0 - 192) * 64 + (b1 - 128))) (utf8_decode r1) else None
      | _ => None
      end
    else if b0 <? 240 then
      match r with
      | b1 :: b2 :: r2 =>
        let cp := (b0 - 224) * 4096 + (b1 - 128) * 64 + (b2 - 128) in
        if is_cont b1 && is_cont b2 && (2048 <=? cp) && negb (is_surrogate cp)
        then option_map (cons cp) (utf8_decode r2) else None
      | _ => None
      end
    else if b0 <? 245 then
      match r with
      | b1 :: b2 :: b3 :: r3 =>
        let cp := (b0 - 240) * 262144 + (b1 - 128) * 4096 + (b2 - 128) * 64 + (b3 - 128) in
        if is_cont b1 && is_cont b2 && is_cont b3 && (65536 <=? cp) && (cp <=? 1114111)
        then option_map (cons cp) (utf8_decode r3) else None
      | _ => None
      end
    else None
  end.

(* __Pyx_PyUnicode_FromOrdinal_Padded(int value, ulength, padding_char) with explicit bytes *)
Definition from_ordinal_padded_b (iv ulength pad : Z) : cres :=
  let plen := ulength - 1 in
  if (plen <=? PAD_LIMIT) && ((iv <? SURR_LO) || (SURR_HI <? iv)) then
    if iv <=? LATIN1_MAX then
      (* memset(chars, padding_char, plen); chars[ulength-1] = (char) value; DecodeLatin1(chars, ulength) *)
      if (plen <? 0) || (CHARS_SIZE <? ulength) then CBufferOverflow
      else CText (repeat (cchar pad) (Z.to_nat plen) ++ [cchar iv])
    else
      let enc := utf8_enc_c iv in
      (* cpos = chars + sizeof(chars) - len(enc); cpos -= plen; memset(cpos, padding_char, plen) *)
      let cpos := CHARS_SIZE - Z.of_nat (length enc) - plen in
      if (plen <? 0) || (cpos <? 0) then CBufferOverflow
      else match utf8_decode (repeat (cchar pad) (Z.to_nat plen) ++ enc) with
           | Some l => CText l
           | None => CUnicodeDecodeError
           end
  else if iv <=? 127 then
    (let c := iv mod 256 in if 127 <? c then CAbort else CText (repeat pad (Z.to_nat plen) ++ [c]))
  else match from_ordinal iv with
       | CText l => CText (repeat pad (Z.to_nat plen) ++ l)
       | e => e
       end.

Definition uchar_to_unicode_b (fixed : bool) (w : Z) (s : bool) (value width pad : Z) : cres :=
  if negb (uchar_accepts fixed w s value) then COverflowError
  else
    let iv := wrap 32 true value in
    if width <=? 1 then from_ordinal iv else from_ordinal_padded_b iv width pad.

(* reference encoder (RFC 3629 table) used only as an independent statement of "the bytes are the
   UTF-8 encoding": 1 to 4 bytes by range, arithmetic form *)
Definition utf8_ref (cp : Z) : list Z :=
  if cp <? 128 then [cp]
  else if cp <? 2048 then [192 + cp / 64; 128 + cp mod 64]
  else if cp <? 65536 then [224 + cp / 4096; 128 + (cp / 64) mod 64; 128 + cp mod 64]
  else [240 + cp / 262144; 128 + (cp / 4096) mod 64; 128 + (cp / 64) mod 64; 128 + cp mod 64].
