(* C22 -- label level of the generated code: which continuation an exit taken at a given
   clause position reaches.

   M_Exc.exec_sch routes exits structurally (an exception in the body goes to the handlers, one in
   the else clause leaves the statement ...).  The compiler does not have that structure: every
   statement is generated against the four mutable labels of Code.FunctionState
   (error_label, return_label, break_label, continue_label); an exit is a  goto <label current
   at the time the exiting node was generated>  and what happens next is whatever code the
   enclosing statements placed at that label.  This file models exactly that:

     gen      : Nodes.TryExceptStatNode / ExceptClauseNode / TryFinallyStatNode / WithStatNode /
                ForFromStatNode .generate_execution_code as a state-passing function over the
                label state  cgs  (same order of label allocations and assignments as the Python
                code); output = code in which every exit names its target label and every
                statement carries the labels it defines;
     exec_lab : execution of that code: a statement looks at the LABEL a sub-part jumped to, not
                at where the jump came from (labels are function-global in C);
     run_lab  : whole function.

   The exception-state operations at the labels (ExceptionSave/Reset/Swap, GetException, handler
   temps) are those of M_Exc.exec_sch.  Simplifications (none changes which code runs): labels for
   break/continue are always allocated (Cython: only inside loops), every copy of a finally
   clause is generated (Cython: only for exits that are used), the no-op specialisation of
   try/except whose body has no error exit (can_raise = False: no Save/Reset) is not modelled. *)
From Coq Require Import List Bool Arith.
From CyVerif Require Import Model.M_Exc.
Import ListNotations.

Definition label := nat.

(* Code.FunctionState: error_label, return_label, break_label, continue_label, label_counter *)
Record cgs := mkcg { g_err : label; g_ret : label; g_brk : label; g_cont : label; g_next : label }.

Definition set_err (l : label) (g : cgs) := mkcg l (g_ret g) (g_brk g) (g_cont g) (g_next g).
Definition set_ret (l : label) (g : cgs) := mkcg (g_err g) l (g_brk g) (g_cont g) (g_next g).
Definition set_brk (l : label) (g : cgs) := mkcg (g_err g) (g_ret g) l (g_cont g) (g_next g).
Definition set_cont (l : label) (g : cgs) := mkcg (g_err g) (g_ret g) (g_brk g) l (g_next g).
Definition bump (k : nat) (g : cgs) := mkcg (g_err g) (g_ret g) (g_brk g) (g_cont g) (k + g_next g).
(* set_all_labels(old_labels) *)
Definition restore (old g : cgs) := mkcg (g_err old) (g_ret old) (g_brk old) (g_cont old) (g_next g).

(* labels a try/except statement defines and the ones it dispatches to afterwards *)
Record trylabels := mktl {
  t_our_err : label;     (* our_error_label: start of the except clauses *)
  t_exc_err : label;     (* except_error_label: Reset; goto old_error_label *)
  t_exc_ret : label;     (* except_return_label *)
  t_try_ret : label;     (* try_return_label *)
  t_try_brk : label; t_try_cont : label;
  t_old_err : label; t_old_ret : label; t_old_brk : label; t_old_cont : label }.

Record finlabels := mkfl {
  f_new_cont : label; f_new_brk : label; f_new_ret : label; f_new_err : label;   (* around the body *)
  f_ex_cont : label; f_ex_brk : label; f_ex_ret : label; f_ex_err : label;       (* around the exception-exit copy *)
  f_old_cont : label; f_old_brk : label; f_old_ret : label; f_old_err : label }.

Inductive lcode :=
| LSkip
| LLog (n : nat) (err : label)                    (* a call: if (!r) goto err *)
| LProbe (err : label)
| LRaise (w : what) (cz : cause) (err : label)    (* __Pyx_Raise(..); goto err *)
| LReraise (err : label)
| LGoto (l : label)                               (* return / break / continue *)
| LSeq (a b : lcode)
| LTry (tl : trylabels) (body : lcode) (hs : lhandlers) (orelse : lcode)
| LFinally (herr : bool) (fl : finlabels) (body fnorm fexc fcont fbrk fret : lcode)
| LLoop (n : nat) (brk cont : label) (body : lcode)
| LDel (x : nat)
| LWithScope (k : nat) (enter_err : label) (body : lcode)
| LExitExc (k : nat) (x : exitk) (err : label)
| LExitNone (k : nat) (x : exitk) (err : label)
with lhandlers :=
| LHNil
| LHCons (pat : option nat) (name : option nat) (needs_exception : bool)
         (hbrk hcont : label)                     (* except_break / except_continue *)
         (obrk ocont : label)                     (* the loop labels they forward to *)
         (body : lcode) (tl : lhandlers).

(* ---------- the code generator ---------- *)
(* late_switch = false: the code as it is.  late_switch = true: the variant in which
   "code.error_label = except_error_label" is executed after the else clause was generated
   (kept to show that the model is sensitive to the place of that assignment). *)
Fixpoint gen (late_switch : bool) (s : cstmt) (g : cgs) {struct s} : lcode * cgs :=
  match s with
  | CSkip => (LSkip, g)
  | CLog n => (LLog n (g_err g), g)
  | CProbe => (LProbe (g_err g), g)
  | CRaise w cz => (LRaise w cz (g_err g), g)
  | CReraise => (LReraise (g_err g), g)
  | CSeq a b => let (ca, g1) := gen late_switch a g in
                let (cb, g2) := gen late_switch b g1 in (LSeq ca cb, g2)
  | CReturn => (LGoto (g_ret g), g)
  | CBreak => (LGoto (g_brk g), g)
  | CContinue => (LGoto (g_cont g), g)
  | CDel x => (LDel x, g)
  | CExitExc k x => (LExitExc k x (g_err g), g)
  | CExitNone k x => (LExitNone k x (g_err g), g)
  | CTry body hs orelse =>
      (* old_error_label = code.new_error_label(); our_error_label = code.error_label;
         except_end, except_error, except_return, try_return, try_break, try_continue, try_end *)
      let n := g_next g in
      let tl := mktl n (2 + n) (3 + n) (4 + n) (5 + n) (6 + n) (g_err g) (g_ret g) (g_brk g) (g_cont g) in
      (* code.return_label = try_return_label; code.break_label = ...; code.continue_label = ... *)
      let g1 := mkcg n (4 + n) (5 + n) (6 + n) (8 + n) in
      let (cb, g2) := gen late_switch body g1 in
      (* code.error_label = except_error_label; code.return_label = except_return_label *)
      let g3 := set_ret (3 + n) (if late_switch then g2 else set_err (2 + n) g2) in
      let (ce, g4) := gen late_switch orelse g3 in
      let g5 := set_err (2 + n) g4 in
      let (ch, g6) := gen_h late_switch hs g5 in
      (LTry tl cb ch ce, restore g g6)
  | CFinally herr body fin =>
      (* old_labels = code.all_new_labels(): continue, break, return, error; catch_label *)
      let n := g_next g in
      let g1 := mkcg (if herr then 3 + n else g_err g) (2 + n) (1 + n) n (5 + n) in
      let (cb, g2) := gen late_switch body g1 in
      let (cn, g3) := gen late_switch fin (restore g g2) in           (* normal exit *)
      (* exception exit: finally_old_labels = code.all_new_labels() *)
      let m := g_next g3 in
      let (cx, g4) := gen late_switch fin (mkcg (3 + m) (2 + m) (1 + m) m (4 + m)) in
      let (cc, g5) := gen late_switch fin (restore g g4) in           (* continue, break, return exits *)
      let (ck, g6) := gen late_switch fin g5 in
      let (cr, g7) := gen late_switch fin g6 in
      (LFinally herr (mkfl n (1 + n) (2 + n) (3 + n) m (1 + m) (2 + m) (3 + m)
                           (g_cont g) (g_brk g) (g_ret g) (g_err g)) cb cn cx cc ck cr, g7)
  | CLoop k body =>
      (* old_loop_labels = code.new_loop_labels(): continue, break *)
      let n := g_next g in
      let (cb, g2) := gen late_switch body (mkcg (g_err g) (g_ret g) (1 + n) n (2 + n)) in
      (LLoop k (1 + n) n cb, restore g g2)
  | CWithScope k body =>
      (* old_error_label = code.new_error_label() for the __enter__ call; body with the old one;
         step_over_label *)
      let n := g_next g in
      let (cb, g2) := gen late_switch body (bump 1 g) in
      (LWithScope k n cb, bump 1 g2)
  end
with gen_h (late_switch : bool) (hs : chandlers) (g : cgs) {struct hs} : lhandlers * cgs :=
  match hs with
  | CHNil => (LHNil, g)
  | CHCons pat name body tl =>
      (* ExceptClauseNode.generate_handling_code: old_loop_labels = code.new_loop_labels("except_") *)
      let n := g_next g in
      let (cb, g2) := gen late_switch body (mkcg (g_err g) (g_ret g) (1 + n) n (2 + n)) in
      let (ct, g3) := gen_h late_switch tl (restore g g2) in
      (LHCons pat name ((match name with Some _ => true | None => false end) || negb (trivial body))
              (1 + n) n (g_brk g) (g_cont g) cb ct, g3)
  end.

(* ---------- execution ---------- *)
Inductive lx := XFall                               (* control reaches the end of the code *)
              | XJump (l : label) (p : option nat)  (* goto l; p = the thread's error indicator *)
              | XCrash.

(* an operation of the C code that either succeeds or does "goto l" with the error indicator set *)
Definition err_to (l : label) (o : oc) : lx :=
  match o with ONorm => XFall | ORaise e => XJump l (Some e) | _ => XCrash end.

(* the interceptor blocks at the end of a try/except statement: Reset; goto <outer label> *)
Definition try_exits (tl : trylabels) (saved : option nat) (x : lx) (c : state) : lx * state :=
  match x with
  | XJump l p =>
      if l =? t_exc_err tl then (XJump (t_old_err tl) p, set_top saved c)
      else if l =? t_try_brk tl then (XJump (t_old_brk tl) p, set_top saved c)
      else if l =? t_try_cont tl then (XJump (t_old_cont tl) p, set_top saved c)
      else if l =? t_try_ret tl then (XJump (t_old_ret tl) p, set_top saved c)
      else if l =? t_exc_ret tl then (XJump (t_old_ret tl) p, set_top saved c)
      else (x, c)                                   (* not a label of this statement *)
  | _ => (x, c)
  end.

Definition fin_relabel (fl : finlabels) (l : label) : label :=
  if l =? f_ex_cont fl then f_old_cont fl
  else if l =? f_ex_brk fl then f_old_brk fl
  else if l =? f_ex_ret fl then f_old_ret fl
  else if l =? f_ex_err fl then f_old_err fl
  else l.

(* the copy of a finally clause placed at a return/break/continue label: clause; goto <outer label> *)
Definition fin_copy (r : lx * state) (old : label) (p : option nat) : lx * state :=
  match fst r with XFall => (XJump old p, snd r) | _ => r end.

Fixpoint exec_lab (fx sx : bool) (s : lcode) (c : state) {struct s} : lx * state :=
  match s with
  | LSkip => (XFall, c)
  | LLog n _ => (XFall, logst (fun _ _ => EvLog n) c)
  | LProbe _ => (XFall, logst ev_probe c)
  | LRaise w cz l => let (o, c1) := lift (do_raise w cz) c in (err_to l o, c1)
  | LReraise l => let (o, c1) := reraise_sch fx c in (err_to l o, c1)
  | LGoto l => (XJump l None, c)
  | LSeq a b => let (x, c1) := exec_lab fx sx a c in
                match x with XFall => exec_lab fx sx b c1 | _ => (x, c1) end
  | LTry tl body hs orelse =>
      let saved := if sx then top c else handled c in           (* __Pyx_ExceptionSave *)
      let (x, c1) := exec_lab fx sx body c in
      let (x2, c2) := match x with XFall => exec_lab fx sx orelse c1 | _ => (x, c1) end in
      match x2 with
      | XFall => (XFall, c2)                                     (* goto try_end *)
      | XCrash => (XCrash, c2)
      | XJump l p =>
          let (x3, c3) :=
            if l =? t_our_err tl then                            (* the except clauses *)
              match p with
              | Some e => handle_lab fx sx hs e tl saved c2
              | None => (XCrash, c2)
              end
            else (x2, c2) in
          try_exits tl saved x3 c3
      end
  | LFinally herr fl body fnorm fexc fcont fbrk fret =>
      let (x, c1) := exec_lab fx sx body c in
      match x with
      | XFall => exec_lab fx sx fnorm c1
      | XCrash => (XCrash, c1)
      | XJump l p =>
          if herr && (l =? f_new_err fl) then
            match p with
            | None => (XCrash, c1)
            | Some e =>
                let saved := top c1 in                           (* __Pyx_ExceptionSwap *)
                let old := cur c1 in
                let (x2, c2) := exec_lab fx sx fexc (set_cur (Some (Some e)) (set_top (Some e) c1)) in
                let v := cur c2 in
                let c3 := set_cur old c2 in
                match x2 with
                | XFall => match v with                          (* put_error_uncatcher; goto old_error_label *)
                           | Some (Some e') => (XJump (f_old_err fl) (Some e'), set_top saved c3)
                           | _ => (XCrash, c3)
                           end
                | XCrash => (XCrash, c3)
                | XJump l2 p2 => (XJump (fin_relabel fl l2) p2, set_top saved c3)   (* put_error_cleaner *)
                end
            end
          else if l =? f_new_cont fl then fin_copy (exec_lab fx sx fcont c1) (f_old_cont fl) p
          else if l =? f_new_brk fl then fin_copy (exec_lab fx sx fbrk c1) (f_old_brk fl) p
          else if l =? f_new_ret fl then fin_copy (exec_lab fx sx fret c1) (f_old_ret fl) p
          else (x, c1)
      end
  | LLoop n brk cont body =>
      (fix loop (i : nat) (c : state) : lx * state :=
         match i with
         | O => (XFall, c)
         | S i' => let (x, c1) := exec_lab fx sx body c in
                   match x with
                   | XFall => loop i' c1
                   | XJump l p => if l =? cont then loop i' c1
                                  else if l =? brk then (XFall, c1)
                                  else (x, c1)
                   | XCrash => (XCrash, c1)
                   end
         end) n c
  | LDel x => (XFall, set_co (unbind x (co c)) c)
  | LWithScope k _ body =>
      let old := wx c in
      let (x, c1) := exec_lab fx sx body (set_wx true (logst (fun _ _ => EvEnter k) c)) in
      (x, set_wx old c1)
  | LExitExc k x l =>
      let arg := match cur c with Some (Some e) => Some e | _ => None end in
      let c1 := logst (ev_exit k arg) (set_wx false c) in
      match x with
      | XSwallow => (XFall, c1)
      | XPass => let (o, c2) := reraise_sch fx c1 in (err_to l o, c2)
      | XRaise n => let (o, c2) := lift (raise_internal n) c1 in (err_to l o, c2)
      end
  | LExitNone k x l =>
      if wx c then
        let c1 := logst (ev_exit k None) (set_wx false c) in
        match x with
        | XRaise n => let (o, c2) := lift (raise_internal n) c1 in (err_to l o, c2)
        | _ => (XFall, c1)
        end
      else (XFall, c)
  end
with handle_lab (fx sx : bool) (hs : lhandlers) (e : nat) (tl : trylabels) (saved : option nat)
       (c : state) {struct hs} : lx * state :=
  match hs with
  | LHNil => (XJump (t_exc_err tl) (Some e), c)                   (* goto except_error_label *)
  | LHCons pat name needs hbrk hcont obrk ocont body tl' =>
      if pat_matches pat (cls_of c e) then
        if needs then
          let old := cur c in                                     (* __Pyx_GetException *)
          let c1 := set_cur (Some (Some e)) (set_co (bind_opt name e (co c)) (set_top (Some e) c)) in
          let (x, c2) := exec_lab fx sx body c1 in
          match x with
          | XCrash => (XCrash, c2)
          | XFall => (XFall, set_top saved (set_cur old c2))      (* goto except_end: Reset *)
          | XJump l p =>                                          (* except_break / except_continue *)
              (XJump (if l =? hbrk then obrk else if l =? hcont then ocont else l) p, set_cur old c2)
          end
        else                                                      (* __Pyx_ErrRestore(0,0,0) *)
          let (x, c1) := exec_lab fx sx body c in
          match x with
          | XFall => (XFall, set_top saved c1)
          | _ => (x, c1)
          end
      else handle_lab fx sx tl' e tl saved c
  end.

(* ---------- whole function ---------- *)
(* FuncDefNode: return label __pyx_L0, error label __pyx_L1_error; no loop labels (2, 3 stand for
   "none": Cython rejects break/continue outside loops at compile time) *)
Definition g_fun : cgs := mkcg 1 0 2 3 4.

(* where the function body ends up *)
Definition untr (g : cgs) (x : lx) : oc :=
  match x with
  | XFall => ONorm
  | XCrash => OCrash
  | XJump l p =>
      if l =? g_err g then match p with Some e => ORaise e | None => OCrash end
      else if l =? g_ret g then ORet
      else if l =? g_brk g then OBrk
      else if l =? g_cont g then OCont
      else OCrash                                   (* goto a label nobody defines *)
  end.

Definition run_lab (late_switch fx sx : bool) (s : stmt) (h : list eobj) (t b : option nat) : oc * state :=
  let (x, c) := exec_lab fx sx (fst (gen late_switch (desugar s) g_fun)) (init_state h t b) in
  (untr g_fun x, c).
