(* M_StrLit -- model of the path of a str / bytes / char literal through the Cython compiler
   (C10).  Executable definitions only.  Characters, code points and bytes are numbers (N).

   Part 1  the literal decoder: the ESCAPE token of Lexicon.py (escapeseq, longest match) as
           lex_escape, Parsing._append_escape_sequence as append_escape_sequence, the three
           literal builders of StringEncoding.py and the loop of Parsing.p_string_literal as
           decode.  Language level 3 (unicode_literals).  The lookup of backslash-N{name} in
           the Unicode database is not modelled (DUnmodelled).
   Part 2  an independent specification of the value Python gives a literal body
           (language reference, section String and Bytes literals; CPython 3.12 for octal
           escapes above 0o377), written by direct recursion on the body: py_value.
   Part 3  UTF-8 (str.encode strict / PyUnicode_DecodeUTF8) and the unicode_escape codec
           that carries strings containing surrogates (UnicodeNode.generate_evaluation_code).
   Part 4  the string table of Code.generate_pystring_constants (concatenation, length index,
           bit-field width) and its unpacking loop at module init.
   Part 5  the whole pipeline: literals -> constants -> C literals (M_CStr) -> compression
           choice (M_LZSS, zlib/bz2/zstd as parameters) -> module init -> Python objects.

   Flag fx_oct  : false = tree as it is (BytesLiteralBuilder.append_charval raises
                  UnicodeEncodeError above 255), true = proposed fix (masks with 0xFF).
   Flag fx_width: false = tree as it is (bit-field width max(index).bit_length(), 0 if all
                  strings of the category are empty), true = proposed fix (at least 1). *)
From Coq Require Import NArith ZArith List Bool.
From CyVerif Require Import Lib.CInt.
From CyVerif Require Model.M_CStr Model.M_LZSS.
Import ListNotations.
Open Scope N_scope.

(* ------------------------------------------------------------------ characters *)
Definition is_octd (c : N) : bool := (48 <=? c) && (c <=? 55).
Definition is_hexd (c : N) : bool :=
  ((48 <=? c) && (c <=? 57)) || ((65 <=? c) && (c <=? 70)) || ((97 <=? c) && (c <=? 102)).
Definition hexv (c : N) : N := if c <=? 57 then c - 48 else if c <=? 70 then c - 55 else c - 87.
(* Range(azAZ) | Any(- space) : the characters Lexicon.py allows in a character name *)
Definition is_namech (c : N) : bool :=
  ((97 <=? c) && (c <=? 122)) || ((65 <=? c) && (c <=? 90)) || (c =? 45) || (c =? 32).
(* Any(newline backslash quote dquote a b f n r t v N x u U) *)
Definition is_esc2 (c : N) : bool :=
  existsb (N.eqb c) [10; 92; 39; 34; 97; 98; 102; 110; 114; 116; 118; 78; 120; 117; 85].
Definition is_abfnrtv (c : N) : bool := existsb (N.eqb c) [97; 98; 102; 110; 114; 116; 118].
(* StringEncoding.char_from_escape_sequence *)
Definition ctrl_of (c : N) : N :=
  if c =? 97 then 7 else if c =? 98 then 8 else if c =? 102 then 12 else if c =? 110 then 10
  else if c =? 114 then 13 else if c =? 116 then 9 else 11.

Definition is_surrogate (c : N) : bool := (55296 <=? c) && (c <=? 57343).
Definition is_scalar (c : N) : bool := (c <? 1114112) && negb (is_surrogate c).

(* ------------------------------------------------------------------ Part 1: the scanner token *)
(* longest prefix of at most n elements satisfying p *)
Fixpoint span_upto (p : N -> bool) (n : nat) (l : list N) : list N * list N :=
  match n, l with
  | S n', c :: r => if p c then let (a, b) := span_upto p n' r in (c :: a, b) else ([], l)
  | _, _ => ([], l)
  end.
Fixpoint span_all (p : N -> bool) (l : list N) : list N * list N :=
  match l with
  | c :: r => if p c then let (a, b) := span_all p r in (c :: a, b) else ([], l)
  | [] => ([], [])
  end.
Definition take_exact (p : N -> bool) (n : nat) (l : list N) : option (list N * list N) :=
  let (a, b) := span_upto p n l in if Nat.eqb (length a) n then Some (a, b) else None.
(* Str(N lbrace) + Rep(name character) + Str(rbrace); r = the text after backslash N *)
Definition lex_named (r : list N) : option (list N * list N) :=
  match r with
  | c :: r1 =>
      if c =? 123 then
        let (nm, r2) := span_all is_namech r1 in
        match r2 with
        | d :: r3 => if d =? 125 then Some (123 :: nm ++ [125], r3) else None
        | [] => None
        end
      else None
  | [] => None
  end.

(* The ESCAPE token that starts at a backslash (Lexicon.escapeseq, Plex longest match);
   l = the text after the backslash.  Result: (token text including the backslash, rest). *)
Definition lex_escape (l : list N) : list N * list N :=
  match l with
  | [] => ([92], [])
  | c :: r =>
      if is_octd c then let (ds, r') := span_upto is_octd 2 r in (92 :: c :: ds, r')
      else if c =? 78 then
        match lex_named r with Some (t, r') => (92 :: 78 :: t, r') | None => ([92; 78], r) end
      else if c =? 117 then
        match take_exact is_hexd 4 r with Some (h, r') => (92 :: 117 :: h, r') | None => ([92; 117], r) end
      else if c =? 120 then
        match take_exact is_hexd 2 r with Some (h, r') => (92 :: 120 :: h, r') | None => ([92; 120], r) end
      else if c =? 85 then
        match take_exact is_hexd 8 r with Some (h, r') => (92 :: 85 :: h, r') | None => ([92; 85], r) end
      else if is_esc2 c then ([92; c], r)
      else ([92], l)
  end.

(* ------------------------------------------------------------------ _append_escape_sequence *)
Inductive kind := KStr | KUni | KBytes | KChar.   (* unprefixed, u, b, c *)
Definition kind_is_text (k : kind) : bool := match k with KStr | KUni => true | _ => false end.

Inductive action :=
| AChars (cs : list N)                 (* builder.append(text) *)
| ACharval (n : N)                     (* builder.append_charval(n) *)
| AUescape (n : N) (txt : list N)      (* builder.append_uescape(n, text) *)
| ANothing                             (* line continuation *)
| AError                               (* s.error(..., fatal=False): reported, parsing goes on *)
| AFatal                               (* s.error(...): CompileError raised *)
| AUnmodelled.                         (* Unicode name lookup *)

(* int(digits, base) on digit characters *)
Definition of_base (b : N) (ds : list N) : N := fold_left (fun a d => a * b + hexv d) ds 0.

Definition append_escape_sequence (k : kind) (esc : list N) : action :=
  match esc with
  | [] => AChars [92]
  | [_] => AChars [92]
  | _ :: c :: rest =>
      if is_octd c then ACharval (of_base 8 (c :: rest))
      else if (c =? 39) || (c =? 34) || (c =? 92) then AChars [c]
      else if is_abfnrtv c then AChars [ctrl_of c]
      else if c =? 10 then ANothing
      else if c =? 120 then
        if Nat.eqb (length esc) 4 then ACharval (of_base 16 rest) else AError
      else if ((c =? 78) || (c =? 85) || (c =? 117)) && kind_is_text k then
        if c =? 78 then
          (if Nat.leb (length esc) 2 then AError      (* lookup of the empty name: KeyError *)
           else AUnmodelled)
        else if Nat.eqb (length esc) 6 || Nat.eqb (length esc) 10 then
          let v := of_base 16 rest in
          if 1114111 <? v then AFatal else AUescape v esc
        else AError
      else AChars esc
  end.

(* ------------------------------------------------------------------ builders and the loop *)
(* UTF-8 of one code point (generic 1-4 byte form) *)
Definition enc_char (c : N) : list N :=
  if c <? 128 then [c]
  else if c <? 2048 then [192 + c / 64; 128 + c mod 64]
  else if c <? 65536 then [224 + c / 4096; 128 + (c / 64) mod 64; 128 + c mod 64]
  else [240 + c / 262144; 128 + (c / 4096) mod 64; 128 + (c / 64) mod 64; 128 + c mod 64].

(* builder state: reversed accumulators.  bacc is the BytesLiteralBuilder part (kinds b, c and
   the bytes half of StrLiteralBuilder), uacc the UnicodeLiteralBuilder part.  The source is
   UTF-8 and its characters are scalar values, so str.encode(source_encoding) in
   BytesLiteralBuilder.append cannot fail. *)
Record bstate := { st_err : bool; st_nonascii : bool; st_b : list N; st_u : list N }.
Definition st0 : bstate := {| st_err := false; st_nonascii := false; st_b := []; st_u := [] |}.

Inductive dres :=
| DOk (bytes_value : option (list N)) (unicode_value : option (list N))
| DError            (* the literal is rejected with a compile error *)
| DInternal         (* an internal exception escapes (UnicodeEncodeError) *)
| DUnmodelled
| DOutOfFuel.

Definition has_nonascii (cs : list N) : bool := existsb (fun c => 128 <=? c) cs.

Definition b_append (cs : list N) (b : list N) : list N := rev_append (flat_map enc_char cs) b.

Inductive sres := SNext (s : bstate) | SStop (r : dres).

Definition do_action (fx_oct : bool) (k : kind) (a : action) (s : bstate) : sres :=
  match a with
  | AChars cs =>
      SNext {| st_err := st_err s; st_nonascii := st_nonascii s;
               st_b := b_append cs (st_b s); st_u := rev_append cs (st_u s) |}
  | ACharval n =>
      match k with
      | KUni => SNext {| st_err := st_err s; st_nonascii := st_nonascii s;
                         st_b := st_b s; st_u := n :: st_u s |}
      | _ =>
          (* chr(n).encode(ISO-8859-1) in BytesLiteralBuilder.append_charval *)
          if (n <? 256) || fx_oct
          then SNext {| st_err := st_err s; st_nonascii := st_nonascii s;
                        st_b := (n mod 256) :: st_b s; st_u := n :: st_u s |}
          else SStop DInternal
      end
  | AUescape n txt =>
      SNext {| st_err := st_err s; st_nonascii := st_nonascii s;
               st_b := b_append txt (st_b s); st_u := n :: st_u s |}
  | ANothing => SNext s
  | AError => SNext {| st_err := true; st_nonascii := st_nonascii s; st_b := st_b s; st_u := st_u s |}
  | AFatal => SStop DError
  | AUnmodelled => SStop DUnmodelled
  end.

(* the end of p_string_literal: getstrings(), the ASCII rule for bytes, the length rule for
   char literals; a recorded error makes the compilation fail *)
Definition finish (k : kind) (s : bstate) : dres :=
  match k with
  | KChar =>
      if st_err s || negb (Nat.eqb (length (st_b s)) 1) then DError else DOk (Some (rev' (st_b s))) None
  | KBytes =>
      if st_nonascii s || st_err s then DError else DOk (Some (rev' (st_b s))) None
  | KUni => if st_err s then DError else DOk None (Some (rev' (st_u s)))
  | KStr =>
      if st_err s then DError
      else DOk (if st_nonascii s then None else Some (rev' (st_b s))) (Some (rev' (st_u s)))
  end.

(* the loop over the tokens of the body.  CHARS tokens are taken one character at a time (the
   builder joins them anyway); a newline inside a triple-quoted literal appends a newline. *)
Fixpoint dec (fuel : nat) (fx_oct : bool) (k : kind) (raw : bool) (body : list N) (s : bstate) : dres :=
  match fuel with
  | O => DOutOfFuel
  | S f =>
      match body with
      | [] => finish k s
      | c :: r =>
          if c =? 92 then
            let (esc, r') := lex_escape r in
            let a := if raw then AChars esc else append_escape_sequence k esc in
            match do_action fx_oct k a s with
            | SNext s' => dec f fx_oct k raw r' s'
            | SStop d => d
            end
          else
            dec f fx_oct k raw r
                {| st_err := st_err s; st_nonascii := st_nonascii s || (128 <=? c);
                   st_b := b_append [c] (st_b s); st_u := c :: st_u s |}
      end
  end.

Definition decode (fx_oct : bool) (k : kind) (raw : bool) (body : list N) : dres :=
  dec (S (length body)) fx_oct k raw body st0.

(* ------------------------------------------------------------------ Part 2: specification *)
Inductive pyres :=
| PyValue (v : list N)
| PyReject        (* SyntaxError *)
| PyNotBody       (* ends inside an escape: not the body of a complete literal *)
| PyNamed.        (* contains backslash N lbrace ... rbrace: needs the Unicode name database *)

Definition pcons (c : N) (r : pyres) : pyres :=
  match r with PyValue v => PyValue (c :: v) | o => o end.

Definition simple_escape (e : N) : option N :=
  if e =? 92 then Some 92 else if e =? 39 then Some 39 else if e =? 34 then Some 34
  else if e =? 97 then Some 7 else if e =? 98 then Some 8 else if e =? 102 then Some 12
  else if e =? 110 then Some 10 else if e =? 114 then Some 13 else if e =? 116 then Some 9
  else if e =? 118 then Some 11 else None.

Definition hex2 (a b : N) : N := 16 * hexv a + hexv b.
Definition hex4 (a b c d : N) : N := 256 * hex2 a b + hex2 c d.

Fixpoint has_rbrace (l : list N) : bool :=
  match l with [] => false | c :: r => (c =? 125) || has_rbrace r end.

(* not raw.  t = true: str literal (also with the u prefix); t = false: bytes literal (only ASCII
   characters; u, U, N are not escapes; octal values are reduced modulo 256 as CPython 3.12
   does, with a warning) *)
Fixpoint py_lit (t : bool) (l : list N) : pyres :=
  match l with
  | [] => PyValue []
  | c :: r =>
    if negb t && (128 <=? c) then PyReject else
    if negb (c =? 92) then pcons c (py_lit t r) else
    match r with
    | [] => PyNotBody
    | e :: r1 =>
      if e =? 10 then py_lit t r1 else
      match simple_escape e with
      | Some v => pcons v (py_lit t r1)
      | None =>
        if is_octd e then
          match r1 with
          | d2 :: r2 =>
            if is_octd d2 then
              match r2 with
              | d3 :: r3 =>
                if is_octd d3 then
                  let v := 64 * (e - 48) + 8 * (d2 - 48) + (d3 - 48) in
                  pcons (if t then v else v mod 256) (py_lit t r3)
                else pcons (8 * (e - 48) + (d2 - 48)) (py_lit t r2)
              | [] => pcons (8 * (e - 48) + (d2 - 48)) (py_lit t r2)
              end
            else pcons (e - 48) (py_lit t r1)
          | [] => pcons (e - 48) (py_lit t r1)
          end
        else if e =? 120 then
          match r1 with
          | h1 :: h2 :: r2 =>
            if is_hexd h1 && is_hexd h2 then pcons (hex2 h1 h2) (py_lit t r2) else PyReject
          | _ => PyReject
          end
        else if t && (e =? 117) then
          match r1 with
          | h1 :: h2 :: h3 :: h4 :: r2 =>
            if is_hexd h1 && is_hexd h2 && is_hexd h3 && is_hexd h4
            then pcons (hex4 h1 h2 h3 h4) (py_lit t r2) else PyReject
          | _ => PyReject
          end
        else if t && (e =? 85) then
          match r1 with
          | h1 :: h2 :: h3 :: h4 :: h5 :: h6 :: h7 :: h8 :: r2 =>
            if is_hexd h1 && is_hexd h2 && is_hexd h3 && is_hexd h4
               && is_hexd h5 && is_hexd h6 && is_hexd h7 && is_hexd h8
            then let v := 65536 * hex4 h1 h2 h3 h4 + hex4 h5 h6 h7 h8 in
                 if v <? 1114112 then pcons v (py_lit t r2) else PyReject
            else PyReject
          | _ => PyReject
          end
        else if t && (e =? 78) then
          match r1 with
          | b :: r2 => if (b =? 123) && has_rbrace r2 then PyNamed else PyReject
          | [] => PyReject
          end
        else pcons 92 (py_lit t r)     (* unknown escape: the backslash stays, e is an ordinary character *)
      end
    end
  end.
Definition py_text := py_lit true.
Definition py_bytes := py_lit false.

(* raw literals: every character stays; a backslash still protects the character after it *)
Fixpoint py_raw (ascii_only : bool) (l : list N) : pyres :=
  match l with
  | [] => PyValue []
  | c :: r =>
    if ascii_only && (128 <=? c) then PyReject else
    if negb (c =? 92) then pcons c (py_raw ascii_only r) else
    match r with
    | [] => PyNotBody
    | e :: r1 =>
      if ascii_only && (128 <=? e) then PyReject else pcons 92 (pcons e (py_raw ascii_only r1))
    end
  end.

Definition one_char (r : pyres) : pyres :=
  match r with
  | PyValue v => if Nat.eqb (length v) 1 then PyValue v else PyReject
  | o => o
  end.

(* the value of a literal of the given kind; for KChar (Cython only) the value is the one byte *)
Definition py_value (k : kind) (raw : bool) (body : list N) : pyres :=
  match k with
  | KStr | KUni => if raw then py_raw false body else py_text body
  | KBytes => if raw then py_raw true body else py_bytes body
  | KChar => one_char (if raw then py_raw true body else py_bytes body)
  end.

(* the Python-visible part of the decoder result *)
Definition visible (k : kind) (d : dres) : option (list N) :=
  match d with
  | DOk b u => if kind_is_text k then u else b
  | _ => None
  end.

(* the finding class F14: an octal escape with three digits and value above 0o377 *)
Fixpoint big_octal (l : list N) : bool :=
  match l with
  | [] => false
  | c :: r =>
    if c =? 92 then
      match r with
      | [] => false
      | e :: r1 =>
        (is_octd e && (52 <=? e) &&
           match r1 with d2 :: d3 :: _ => is_octd d2 && is_octd d3 | _ => false end)
        || big_octal r1
      end
    else big_octal r
  end.

(* ------------------------------------------------------------------ Part 3: UTF-8, unicode_escape *)
(* str.encode(utf-8): UnicodeEncodeError (None) on surrogates *)
Definition encode_utf8 (cs : list N) : option (list N) :=
  if forallb is_scalar cs then Some (flat_map enc_char cs) else None.

Definition is_cont (b : N) : bool := (128 <=? b) && (b <=? 191).
Definition ocons (c : N) (r : option (list N)) : option (list N) :=
  match r with Some v => Some (c :: v) | None => None end.

(* PyUnicode_DecodeUTF8(s, n, NULL): strict (Unicode 15 table 3-7: no overlong forms, no
   surrogates, nothing above U+10FFFF) *)
Fixpoint decode_utf8 (bs : list N) : option (list N) :=
  match bs with
  | [] => Some []
  | b0 :: r =>
    if b0 <? 128 then ocons b0 (decode_utf8 r)
    else if b0 <? 194 then None
    else if b0 <? 224 then
      match r with
      | b1 :: r1 => if is_cont b1 then ocons ((b0 - 192) * 64 + (b1 - 128)) (decode_utf8 r1) else None
      | _ => None
      end
    else if b0 <? 240 then
      match r with
      | b1 :: b2 :: r2 =>
        if ((if b0 =? 224 then 160 else 128) <=? b1) && (b1 <=? (if b0 =? 237 then 159 else 191))
           && is_cont b2
        then ocons ((b0 - 224) * 4096 + (b1 - 128) * 64 + (b2 - 128)) (decode_utf8 r2) else None
      | _ => None
      end
    else if b0 <? 245 then
      match r with
      | b1 :: b2 :: b3 :: r3 =>
        if ((if b0 =? 240 then 144 else 128) <=? b1) && (b1 <=? (if b0 =? 244 then 143 else 191))
           && is_cont b2 && is_cont b3
        then ocons ((b0 - 240) * 262144 + (b1 - 128) * 4096 + (b2 - 128) * 64 + (b3 - 128))
                   (decode_utf8 r3) else None
      | _ => None
      end
    else None
  end.

(* str.encode(unicode_escape) *)
Definition hexdig (d : N) : N := if d <? 10 then 48 + d else 87 + d.
Definition uesc_char (c : N) : list N :=
  if c =? 92 then [92; 92]
  else if c =? 9 then [92; 116] else if c =? 10 then [92; 110] else if c =? 13 then [92; 114]
  else if (32 <=? c) && (c <? 127) then [c]
  else if c <? 256 then [92; 120; hexdig (c / 16); hexdig (c mod 16)]
  else if c <? 65536 then
    [92; 117; hexdig (c / 4096); hexdig ((c / 256) mod 16); hexdig ((c / 16) mod 16); hexdig (c mod 16)]
  else
    [92; 85; hexdig (c / 268435456); hexdig ((c / 16777216) mod 16); hexdig ((c / 1048576) mod 16);
     hexdig ((c / 65536) mod 16); hexdig ((c / 4096) mod 16); hexdig ((c / 256) mod 16);
     hexdig ((c / 16) mod 16); hexdig (c mod 16)].
Definition uesc_encode (cs : list N) : list N := flat_map uesc_char cs.

(* PyUnicode_DecodeUnicodeEscape: its documented contract is the str literal rule itself *)
Definition unicode_escape_decode (bs : list N) : option (list N) :=
  match py_text bs with PyValue v => Some v | _ => None end.

(* StringEncoding.string_contains_lone_surrogates *)
Definition contains_surrogates (cs : list N) : bool := existsb is_surrogate cs.

(* ------------------------------------------------------------------ Part 4: the string table *)
Definition max_list (l : list N) : N := fold_right N.max 0 l.
(* int.bit_length *)
Definition bit_length (n : N) : N := N.size n.
Definition index_width (fx_width : bool) (idx : list N) : N :=
  let w := bit_length (max_list idx) in if fx_width then N.max 1 w else w.

(* const struct { const unsigned int length: w; } name[] = {{l1},{l2},...};
   C: a named bit-field needs 1 <= w <= 32 (constraint violation otherwise); an initialiser is
   converted to the bit-field type, i.e. reduced modulo 2^w *)
Inductive cindex :=
| INone                                   (* no declaration: the category is empty *)
| IDecl (w : N) (stored : list N)
| ICompileError.
Definition index_decl (fx_width : bool) (idx : list N) : cindex :=
  match idx with
  | [] => INone
  | _ => let w := index_width fx_width idx in
         if (w =? 0) || (32 <? w) then ICompileError else IDecl w (map (fun v => v mod 2 ^ w) idx)
  end.

Record table := { t_str : cindex; t_bytes : cindex; t_data : list N }.

Definition nlen (l : list N) : N := N.of_nat (length l).

Fixpoint encode_all (texts : list (list N)) : option (list (list N)) :=
  match texts with
  | [] => Some []
  | t :: r => match encode_utf8 t, encode_all r with
              | Some b, Some br => Some (b :: br)
              | _, _ => None
              end
  end.

Inductive genres := GOk (t : table) | GEncodeError | GCompileError.

(* generate_pystring_constants on the (already ordered) text and bytes constants *)
Definition gen_table (fx_width : bool) (texts bstrs : list (list N)) : genres :=
  match encode_all texts with
  | None => GEncodeError
  | Some enc =>
      let si := index_decl fx_width (map nlen enc) in
      let bi := index_decl fx_width (map nlen bstrs) in
      match si, bi with
      | ICompileError, _ => GCompileError
      | _, ICompileError => GCompileError
      | _, _ => GOk {| t_str := si; t_bytes := bi; t_data := concat enc ++ concat bstrs |}
      end
  end.

(* the two loops at module init: pos advances by the stored length; reading beyond the data
   or a UTF-8 decoding error gives None *)
Fixpoint unpack_loop (dec1 : list N -> option (list N)) (idx : list N) (data : list N)
  : option (list (list N) * list N) :=
  match idx with
  | [] => Some ([], data)
  | n :: idx' =>
      let k := N.to_nat n in
      if Nat.ltb (length data) k then None else
      match dec1 (firstn k data) with
      | None => None
      | Some s =>
          match unpack_loop dec1 idx' (skipn k data) with
          | Some (ss, rest) => Some (s :: ss, rest)
          | None => None
          end
      end
  end.

Definition stored_of (i : cindex) : list N :=
  match i with IDecl _ st => st | _ => [] end.

Definition unpack_table (t : table) (data : list N) : option (list (list N) * list (list N)) :=
  match unpack_loop decode_utf8 (stored_of (t_str t)) data with
  | None => None
  | Some (texts, rest) =>
      match unpack_loop (fun b => Some b) (stored_of (t_bytes t)) rest with
      | None => None
      | Some (bstrs, _) => Some (texts, bstrs)
      end
  end.

(* ------------------------------------------------------------------ Part 5: compression, pipeline *)
(* zlib (1), bz2 (2), compression.zstd (3): compile-time compressor (None = not importable
   by the compiler, as zstd on Python 3.12) and run-time <module>.decompress *)
Record codec := { ext_compress : N -> list N -> option (list N);
                  ext_decompress : N -> list N -> option (list N) }.

Definition lzss_compress (data : list N) : option (list N) :=
  match M_LZSS.compress (map Z.of_N data) with
  | Some c => Some (map Z.to_N c)
  | None => None
  end.

Definition compress_with (cd : codec) (a : N) (data : list N) : option (list N) :=
  if a =? 90 then lzss_compress data else ext_compress cd a data.

(* the selection loop: compression_algorithms = [(90, lzss), (1, zlib), (2, bz2), (3, zstd)] *)
Fixpoint select_loop (cd : codec) (algs : list N) (data : list N) (min_seen : option N)
  : list (N * list N) :=
  match algs with
  | [] => []
  | a :: rest =>
      match compress_with cd a data with
      | None => select_loop cd rest data min_seen
      | Some c =>
          let sz := nlen c in
          if nlen data <? sz + 200 then select_loop cd rest data min_seen   (* sz > len - 200 *)
          else
            let better := match min_seen with None => true | Some m => sz <? m end in
            if better then (a, c) :: select_loop cd rest data (Some sz)
            else if a =? 90 then (a, c) :: select_loop cd rest data min_seen
            else select_loop cd rest data min_seen
      end
  end.
Definition compressions (cd : codec) (data : list N) : list (N * list N) :=
  select_loop cd [90; 1; 2; 3] data None.
Definition default_compression (comps : list (N * list N)) : Z :=
  if existsb (fun p => fst p =? 90) comps then 90%Z else 0%Z.

(* the preprocessor chain over reversed(compressions); m = value of CYTHON_COMPRESS_STRINGS,
   py314 = (__PYX_LIMITED_VERSION_HEX >= 0x030e0000) *)
Definition guard (a : N) (m : Z) (py314 : bool) : bool :=
  if a =? 3 then (m =? 3)%Z && py314
  else if a =? 90 then (0 <? m)%Z && (m <=? 90)%Z
  else (m =? Z.of_N a)%Z.
Definition choose (comps : list (N * list N)) (m : Z) (py314 : bool) : option (N * list N) :=
  find (fun p => guard (fst p) m py314) (rev comps).

(* _write_cstring_const + the C compiler: the bytes the array holds.  msvc selects the
   character-array form used for 65536 bytes and more. *)
Definition c_array_of (msvc : bool) (bs : list N) : option (list N) :=
  if msvc && (65536 <=? nlen bs)
  then M_CStr.c_read_chars (M_CStr.char_array_form bs)
  else match M_CStr.as_c_string_literal bs 2000 with
       | Some txt => M_CStr.c_read txt
       | None => None
       end.

Record image := { im_table : table; im_comps : list (N * list N); im_len : N; im_data : list N }.

Definition gen_image (fx_width : bool) (cd : codec) (texts bstrs : list (list N)) : option image :=
  match gen_table fx_width texts bstrs with
  | GOk t => Some {| im_table := t; im_comps := compressions cd (t_data t);
                     im_len := nlen (t_data t); im_data := t_data t |}
  | _ => None
  end.

(* module init: pick the branch, read the C array, decompress, unpack.
   user_macro = None: CYTHON_COMPRESS_STRINGS not given on the command line. *)
Definition init_data (cd : codec) (msvc py314 : bool) (user_macro : option Z) (im : image)
  : option (list N) :=
  let m := match user_macro with Some m => m | None => default_compression (im_comps im) end in
  match choose (im_comps im) m py314 with
  | None => c_array_of msvc (im_data im)
  | Some (a, c) =>
      match c_array_of msvc c with
      | None => None
      | Some cbytes =>
          if a =? 90 then
            match M_LZSS.decompress_string (map Z.of_N cbytes) (Z.of_N (nlen c)) (Z.of_N (im_len im)) with
            | M_LZSS.SOk out => Some (map Z.to_N out)
            | _ => None
            end
          else ext_decompress cd a cbytes
      end
  end.

Definition init_table (cd : codec) (msvc py314 : bool) (user_macro : option Z) (im : image)
  : option (list (list N) * list (list N)) :=
  match init_data cd msvc py314 user_macro im with
  | Some data => unpack_table (im_table im) data
  | None => None
  end.

(* ---- literals to run-time objects ---- *)
Inductive pyobj := PStr (cs : list N) | PBytes (bs : list N).
Inductive cref := RText (i : nat) | RBytes (i : nat) | RUstr (i : nat).
Record lit := { l_kind : kind; l_raw : bool; l_body : list N }.

(* constants collected from the literals of a module (no de-duplication: it only merges equal
   values): table texts, table byte strings, unicode_escape C strings *)
Record consts := { c_texts : list (list N); c_bstrs : list (list N); c_ustrs : list (list N);
                   c_refs : list cref }.

Fixpoint collect (fx_oct : bool) (ls : list lit) (acc : consts) : option consts :=
  match ls with
  | [] => Some acc
  | l :: r =>
      match visible (l_kind l) (decode fx_oct (l_kind l) (l_raw l) (l_body l)) with
      | None => None
      | Some v =>
          if kind_is_text (l_kind l) then
            if contains_surrogates v then
              collect fx_oct r {| c_texts := c_texts acc; c_bstrs := c_bstrs acc;
                                  c_ustrs := c_ustrs acc ++ [uesc_encode v];
                                  c_refs := c_refs acc ++ [RUstr (length (c_ustrs acc))] |}
            else
              collect fx_oct r {| c_texts := c_texts acc ++ [v]; c_bstrs := c_bstrs acc;
                                  c_ustrs := c_ustrs acc;
                                  c_refs := c_refs acc ++ [RText (length (c_texts acc))] |}
          else
            collect fx_oct r {| c_texts := c_texts acc; c_bstrs := c_bstrs acc ++ [v];
                                c_ustrs := c_ustrs acc;
                                c_refs := c_refs acc ++ [RBytes (length (c_bstrs acc))] |}
      end
  end.
Definition consts0 : consts := {| c_texts := []; c_bstrs := []; c_ustrs := []; c_refs := [] |}.

(* static const char k[] = "..."; PyUnicode_DecodeUnicodeEscape(k, sizeof(k) - 1, NULL) *)
Definition init_ustr (esc : list N) : option (list N) :=
  match M_CStr.as_c_string_literal esc 2000 with
  | Some txt => match M_CStr.c_read txt with
                | Some bs => unicode_escape_decode bs
                | None => None
                end
  | None => None
  end.

Fixpoint map_opt {A B} (f : A -> option B) (l : list A) : option (list B) :=
  match l with
  | [] => Some []
  | a :: r => match f a, map_opt f r with Some b, Some br => Some (b :: br) | _, _ => None end
  end.

Definition resolve (texts bstrs ustrs : list (list N)) (r : cref) : option pyobj :=
  match r with
  | RText i => option_map PStr (nth_error texts i)
  | RBytes i => option_map PBytes (nth_error bstrs i)
  | RUstr i => option_map PStr (nth_error ustrs i)
  end.

(* compile the literals and initialise the module: the objects the literals evaluate to *)
Definition run_module (fx_oct fx_width : bool) (cd : codec) (msvc py314 : bool)
           (user_macro : option Z) (ls : list lit) : option (list pyobj) :=
  match collect fx_oct ls consts0 with
  | None => None
  | Some cs =>
      match gen_image fx_width cd (c_texts cs) (c_bstrs cs) with
      | None => None
      | Some im =>
          match init_table cd msvc py314 user_macro im, map_opt init_ustr (c_ustrs cs) with
          | Some (texts, bstrs), Some ustrs => map_opt (resolve texts bstrs ustrs) (c_refs cs)
          | _, _ => None
          end
      end
  end.

(* what Python says the literals evaluate to *)
Definition py_object (l : lit) : option pyobj :=
  match py_value (l_kind l) (l_raw l) (l_body l) with
  | PyValue v => Some (if kind_is_text (l_kind l) then PStr v else PBytes v)
  | _ => None
  end.

(* a reference codec for the extracted runner (identity with a marker byte) *)
Definition id_codec : codec :=
  {| ext_compress := fun a d => if (a =? 1) || (a =? 2) then Some (a :: d) else None;
     ext_decompress := fun a c => match c with x :: d => if x =? a then Some d else None | [] => None end |}.
