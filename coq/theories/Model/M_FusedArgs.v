(* C34 - how the generated fused dispatcher OBTAINS the value it dispatches on
   (Cython/Compiler/FusedNode.py: make_fused_cpdef, the loop over self.node.args with
   fused_index / default_idx / seen_fused_types, and _unpack_argument; the call protocol of
   __pyx_FusedFunction_call in Cython/Utility/CythonFunction.c: the dispatcher receives the
   positional tuple (self prepended for bound methods), the keyword dict or None, and the
   defaults tuple = the default values of ALL defaulted parameters in declaration order).
   Executable definitions only.

   Compile time ([plans]): for the first parameter of every fused type, in declaration order,
   one block
        if <i> < arg_count:                       arg = args[<i>]
        elif kwargs is not None and '<name>' in kwargs:   arg = kwargs['<name>']
        else:   arg = defaults[<default_idx>]     (parameter has a default)
                raise TypeError                   (it has none)
   with i = index of the parameter in node.args (star arguments are not part of node.args;
   keyword-only parameters follow the positional ones) and default_idx = number of EARLIER
   parameters that have a default.  [count_all = false] is the variant that counts only the
   defaults of dispatch-relevant parameters (refuted in P_FusedArgs.v).
   Run time ([run_plan]): that block.  [kinds_fix = true] is the repaired variant that does not
   look into the positional tuple for a keyword-only parameter and not into the keyword dict
   for a positional-only one (proposed_fixes/C34-fused_arg_fetch_ignores_parameter_kind.diff).

   Specification side ([bind_py]): CPython's own binding of a call to the parameters
   (positional-only / positional-or-keyword / keyword-only, defaults, *args, **kwargs). *)
From Coq Require Import ZArith List Bool Arith.
From CyVerif Require Import Model.M_Fused.
Import ListNotations.
Local Open Scope nat_scope.

Inductive pkind := KPosOnly | KPosKw | KKwOnly.
Definition is_kwonly (k : pkind) : bool := match k with KKwOnly => true | _ => false end.
Definition is_posonly (k : pkind) : bool := match k with KPosOnly => true | _ => false end.

(* the unpacking block generated for one fused type *)
Record plan := mkPlan { pl_ft : nat; pl_idx : nat; pl_name : nat; pl_kind : pkind; pl_def : option nat }.

Section Args.
Variable V : Type.

(* names are numbers; [p_fused] = index of the fused type of the parameter (None: not fused) *)
Record param := mkParam { p_name : nat; p_kind : pkind; p_fused : option nat; p_default : option V }.
Record fsig := mkSig { s_params : list param; s_star : bool; s_kw : bool }.

Definition has_default (p : param) : bool := match p_default p with Some _ => true | None => false end.
(* FusedCFuncDefNode.analyse_expressions: defaults_tuple *)
Definition defaults_tuple (ps : list param) : list V :=
  flat_map (fun p => match p_default p with Some v => [v] | None => [] end) ps.

(* ---------- compile time: make_fused_cpdef loop ---------- *)
Fixpoint plans_from (count_all : bool) (ps : list param) (i didx : nat) (seen : list nat) : list plan :=
  match ps with
  | [] => []
  | p :: tl =>
      let relevant := match p_fused p with
                      | Some ft => negb (existsb (Nat.eqb ft) seen)
                      | None => false end in
      let didx' := if has_default p && (count_all || relevant) then S didx else didx in
      match p_fused p with
      | Some ft =>
          if relevant
          then mkPlan ft i (p_name p) (p_kind p) (if has_default p then Some didx else None)
               :: plans_from count_all tl (S i) didx' (ft :: seen)
          else plans_from count_all tl (S i) didx' seen
      | None => plans_from count_all tl (S i) didx' seen
      end
  end.
Definition plans (count_all : bool) (s : fsig) : list plan := plans_from count_all (s_params s) 0 0 [].

(* ---------- run time: the generated block ---------- *)
Fixpoint lookup (n : nat) (kw : list (nat * V)) : option V :=
  match kw with
  | [] => None
  | (k, v) :: r => if Nat.eqb k n then Some v else lookup n r
  end.

Inductive fetched := FVal (v : V) | FMissing | FBadIndex.

Definition run_plan (kinds_fix : bool) (pl : plan) (args : list V) (kwargs : list (nat * V)) (dt : list V) : fetched :=
  let from_pos := if kinds_fix && is_kwonly (pl_kind pl) then None else nth_error args (pl_idx pl) in
  match from_pos with
  | Some v => FVal v
  | None =>
      let from_kw := if kinds_fix && is_posonly (pl_kind pl) then None else lookup (pl_name pl) kwargs in
      match from_kw with
      | Some v => FVal v
      | None =>
          match pl_def pl with
          | Some k => match nth_error dt k with Some v => FVal v | None => FBadIndex end
          | None => FMissing              (* __Pyx_RaiseFusedFunctionArgTypeError *)
          end
      end
  end.

Inductive fres := Fetched (vs : list V) | FetchMissing | FetchBadIndex.
Fixpoint fetch_all (kinds_fix : bool) (pls : list plan) (args : list V) (kwargs : list (nat * V)) (dt : list V) : fres :=
  match pls with
  | [] => Fetched []
  | pl :: tl =>
      match run_plan kinds_fix pl args kwargs dt with
      | FVal v => match fetch_all kinds_fix tl args kwargs dt with
                  | Fetched vs => Fetched (v :: vs)
                  | e => e end
      | FMissing => FetchMissing
      | FBadIndex => FetchBadIndex
      end
  end.

(* ---------- CPython binding (Python/ceval.c initialize_locals) ---------- *)
Definition positional (p : param) : bool := negb (is_kwonly (p_kind p)).
Definition npos (ps : list param) : nat := length (filter positional ps).
Definition accepts_kw (ps : list param) (n : nat) : bool :=
  existsb (fun p => Nat.eqb (p_name p) n && negb (is_posonly (p_kind p))) ps.
Definition in_kw (n : nat) (kw : list (nat * V)) : bool := match lookup n kw with Some _ => true | None => false end.

(* value of parameter number i; None = TypeError (missing argument / multiple values) *)
Definition bind_one (args : list V) (kwargs : list (nat * V)) (i : nat) (p : param) : option V :=
  match p_kind p with
  | KPosOnly => match nth_error args i with Some v => Some v | None => p_default p end
  | KPosKw => match nth_error args i with
              | Some v => if in_kw (p_name p) kwargs then None else Some v
              | None => match lookup (p_name p) kwargs with Some v => Some v | None => p_default p end
              end
  | KKwOnly => match lookup (p_name p) kwargs with Some v => Some v | None => p_default p end
  end.
Fixpoint bind_from (args : list V) (kwargs : list (nat * V)) (i : nat) (ps : list param) : option (list V) :=
  match ps with
  | [] => Some []
  | p :: tl => match bind_one args kwargs i p, bind_from args kwargs (S i) tl with
               | Some v, Some vs => Some (v :: vs)
               | _, _ => None end
  end.
Definition bind_py (s : fsig) (args : list V) (kwargs : list (nat * V)) : option (list V) :=
  if negb (s_star s) && (npos (s_params s) <? length args) then None            (* too many positional arguments *)
  else if negb (s_kw s) && existsb (fun kv => negb (accepts_kw (s_params s) (fst kv))) kwargs then None   (* unexpected keyword *)
  else bind_from args kwargs 0 (s_params s).

(* keyword-only parameters come last (the grammar guarantees it; node.args keeps that order) *)
Fixpoint kinds_sorted (ps : list param) : bool :=
  match ps with
  | [] => true
  | p :: tl => (if is_kwonly (p_kind p) then forallb (fun q => is_kwonly (p_kind q)) tl else true) && kinds_sorted tl
  end.
Fixpoint nodupb (l : list nat) : bool :=
  match l with [] => true | x :: r => negb (existsb (Nat.eqb x) r) && nodupb r end.
Definition wf_sig (s : fsig) : bool := kinds_sorted (s_params s) && nodupb (map p_name (s_params s)).

(* inputs on which the unrepaired block reads another parameter's slot (the two finding classes) *)
Definition hazard_free (pl : plan) (args : list V) (kwargs : list (nat * V)) : bool :=
  match pl_kind pl with
  | KKwOnly => length args <=? pl_idx pl
  | KPosOnly => (pl_idx pl <? length args) || negb (in_kw (pl_name pl) kwargs)
  | KPosKw => true
  end.

(* ---------- the whole call: fetch, map, match, call the specialisation ---------- *)
Variable tag_of : V -> atag.

Definition select (mss : list (list ctype)) (ds : list (option ctype)) : dres :=
  match ds with
  | [one] => match one with Some t => Spec [t] | None => NoMatch end
  | _ => match filter (fun s => sig_match s ds) (all_sigs mss) with
         | [] => NoMatch
         | [s] => Spec s
         | _ => Ambiguous
         end
  end.

(* fused type index of every fused parameter / tags of their bound values *)
Definition fparams (ps : list param) : list nat :=
  flat_map (fun p => match p_fused p with Some ft => [ft] | None => [] end) ps.
Fixpoint fused_vals (ps : list param) (vals : list V) : list atag :=
  match ps, vals with
  | p :: ps', v :: vals' => match p_fused p with
                            | Some _ => tag_of v :: fused_vals ps' vals'
                            | None => fused_vals ps' vals' end
  | _, _ => []
  end.
Fixpoint ft_pos (pls : list plan) (ft : nat) : nat :=
  match pls with
  | [] => 0
  | pl :: tl => if Nat.eqb (pl_ft pl) ft then 0 else S (ft_pos tl ft)
  end.
Definition members_of (mss : list (list ctype)) (pl : plan) : list ctype := nth (pl_ft pl) mss [].

(* the all-fused, all-positional declaration (M_Fused.decl) that the call reduces to *)
Definition decl_of (mss : list (list ctype)) (s : fsig) : decl :=
  let pls := plans true s in
  {| ftypes := map (fun pl => {| members := members_of mss pl;
                                 fpos := length (fparams (firstn (pl_idx pl) (s_params s))) |}) pls;
     params := map (ft_pos pls) (fparams (s_params s)) |}.

Definition call2_cy (count_all kinds_fix fastfix : bool) (idlt : tclass -> bool)
           (mss : list (list ctype)) (s : fsig) (args : list V) (kwargs : list (nat * V)) : outcome :=
  let pls := plans count_all s in
  match fetch_all kinds_fix pls args kwargs (defaults_tuple (s_params s)) with
  | FetchMissing => TypeErr
  | FetchBadIndex => BadArgs                                  (* IndexError: never on the tree *)
  | Fetched vs =>
      let ds := map (fun pv => map_fused fastfix idlt (members_of mss (fst pv)) (tag_of (snd pv))) (combine pls vs) in
      match select (map (members_of mss) pls) ds with
      | Spec sg =>
          match bind_py s args kwargs with                    (* the specialisation binds the call itself *)
          | None => TypeErr
          | Some vals =>
              match conv_all sg (map (ft_pos pls) (fparams (s_params s))) (fused_vals (s_params s) vals) with
              | COk => Ran sg | CTypeError => TypeErr | CValueError => ValueErr end
          end
      | NoMatch | Ambiguous => TypeErr
      | BadCall => BadArgs
      end
  end.

(* documented: bind as CPython does, then the documented rules on the bound values *)
Definition doc_call2 (mss : list (list ctype)) (s : fsig) (args : list V) (kwargs : list (nat * V)) : outcome :=
  match bind_py s args kwargs with
  | None => TypeErr
  | Some vals => doc_call (decl_of mss s) (fused_vals (s_params s) vals)
  end.

(* explicit indexing f[key](call): the named specialisation binds the call itself *)
Definition call_index (s : fsig) (sg : list ctype) (args : list V) (kwargs : list (nat * V)) : outcome :=
  match bind_py s args kwargs with
  | None => TypeErr
  | Some vals =>
      match conv_all sg (map (ft_pos (plans true s)) (fparams (s_params s))) (fused_vals (s_params s) vals) with
      | COk => Ran sg | CTypeError => TypeErr | CValueError => ValueErr end
  end.

End Args.

Arguments mkParam {V}. Arguments p_name {V}. Arguments p_kind {V}. Arguments p_fused {V}. Arguments p_default {V}.
Arguments mkSig {V}. Arguments s_params {V}. Arguments s_star {V}. Arguments s_kw {V}.
Arguments FVal {V}. Arguments FMissing {V}. Arguments FBadIndex {V}.
Arguments Fetched {V}. Arguments FetchMissing {V}. Arguments FetchBadIndex {V}.
Arguments has_default {V}. Arguments defaults_tuple {V}. Arguments plans_from {V}. Arguments plans {V}.
Arguments lookup {V}. Arguments run_plan {V}. Arguments fetch_all {V}. Arguments positional {V}.
Arguments npos {V}. Arguments accepts_kw {V}. Arguments in_kw {V}. Arguments bind_one {V}.
Arguments bind_from {V}. Arguments bind_py {V}. Arguments kinds_sorted {V}. Arguments wf_sig {V}.
Arguments hazard_free {V}. Arguments fparams {V}. Arguments fused_vals {V}. Arguments decl_of {V}.
Arguments call2_cy {V}. Arguments doc_call2 {V}. Arguments call_index {V}.
