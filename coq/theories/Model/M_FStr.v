(* C18 - f-string assembly in the compiler: an f-string is a list of parts (literal | placeholder);
   the compiler rewrites that list in four places before the text is produced:
     fold     ConstantFolding.visit_FormattedValueNode + simplify_JoinedStrNode (Optimize.py):
              empty literal spec dropped, constant operands turned into literals, adjacent literals
              merged, empty literals dropped, 0/1/2 parts become constant / the part / a concatenation
     analyse  FormattedValueNode.analyse_types + OptimizeBuiltinCalls.visit_FormattedValueNode:
              plain formatting of a str-typed name is the name itself (known not None) or unicode(s)
     dedup    FinalOptimizePhase.visit_JoinedStrNode: repeated formatting of the same simple name is
              replaced by a CloneNode of the first occurrence, keyed by
              (name, c_format_spec, format_spec node, conversion_char or s)
     join     JoinedStrNode.generate_evaluation_code: result length = literal lengths + length of each
              formatted value times its number of occurrences; character kind of the result.
   Executable definitions only.  Characters are code points (N); variables are numbered. *)
From Coq Require Import List NArith Bool Arith.
Import ListNotations.

Definition text := list N.

Inductive conv := CvNone | CvS | CvR | CvA | CvD.      (* CvD: the internal int() conversion of a %d template *)

(* static class of a variable as the compiler sees it *)
Inductive vclass :=
  | KCInt | KCDbl | KCBint        (* C numbers: formatted in C when the literal spec is accepted *)
  | KStr                          (* str, known not to be None *)
  | KStrOpt                       (* str typed, may be None (e.g. a str argument) *)
  | KBuiltin                      (* another builtin Python type: bytes, int object, list, tuple ... *)
  | KObj.                         (* generic object: formatting runs user code *)

Inductive operand :=
  | OVar (v : nat) (k : vclass)
  | OInt (t : text)               (* integer constant; t = its str() *)
  | OStr (t : text).              (* string literal *)

Inductive spec :=
  | SNone
  | SLit (t : text) (acc : bool)  (* literal spec; acc = type.can_coerce_to_pystring accepts it *)
  | SDyn (id : nat).              (* nested spec containing placeholders; id identifies it *)

Inductive part := PLit (t : text) | PPh (o : operand) (c : conv) (s : spec).

(* nodes after type analysis *)
Inductive node :=
  | NLit (t : text)
  | NName (v : nat)                                   (* the str value itself *)
  | NUni (v : nat)                                    (* __Pyx_PyUnicode_Unicode(s) *)
  | NFmt (o : operand) (c : conv) (cf : option text) (s : spec)   (* cf = c_format_spec *)
  | NClone (j : nat).                                 (* CloneNode of values[j] *)

Inductive shape := ShEmpty | ShOne (a : node) | ShAdd (a b : node) | ShJoin (l : list node).

(* ---------------------------------------------------------------- fold *)
Definition norm_spec (s : spec) : spec :=
  match s with SLit [] _ => SNone | _ => s end.

Definition plain (c : conv) : bool := match c with CvNone | CvS => true | _ => false end.

Definition fold_part (p : part) : part :=
  match p with
  | PLit _ => p
  | PPh o c s =>
      let s' := norm_spec s in
      match o, s' with
      | OInt t, SNone => PLit t
      | OStr t, SNone => if plain c then PLit t else PPh o c s'
      | _, _ => PPh o c s'
      end
  end.

(* itertools.groupby over is_string_literal: join each literal group, drop it when empty *)
Fixpoint merge (l : list part) : list part :=
  match l with
  | [] => []
  | PLit t :: r =>
      match merge r with
      | PLit t' :: r' => PLit (t ++ t') :: r'
      | r' => match t with [] => r' | _ => PLit t :: r' end
      end
  | p :: r => p :: merge r
  end.

Definition fold (l : list part) : list part := merge (map fold_part l).

(* ---------------------------------------------------------------- analyse *)
Definition default_cfmt (k : vclass) : option text :=
  match k with KCInt => Some [100%N] | KCDbl | KCBint => Some [] | _ => None end.

Definition cfmt_of (k : vclass) (s : spec) : option text :=
  match default_cfmt k with
  | None => None
  | Some d => match s with SNone => Some d | SLit t true => Some t | _ => None end
  end.

Definition analyse (p : part) : node :=
  match p with
  | PLit t => NLit t
  | PPh (OVar v k) c s =>
      match k, s, plain c with
      | KStr, SNone, true => NName v
      | KStrOpt, SNone, true => NUni v
      | _, _, _ => NFmt (OVar v k) c (cfmt_of k s) s
      end
  | PPh o c s => NFmt o c None s
  end.

(* ---------------------------------------------------------------- dedup *)
Definition conv_eqb (a b : conv) : bool :=
  match a, b with
  | CvNone, CvNone | CvS, CvS | CvR, CvR | CvA, CvA | CvD, CvD => true
  | _, _ => false
  end.

Fixpoint text_eqb (a b : text) : bool :=
  match a, b with
  | [], [] => true
  | x :: a', y :: b' => N.eqb x y && text_eqb a' b'
  | _, _ => false
  end.

Definition otext_eqb (a b : option text) : bool :=
  match a, b with
  | None, None => true
  | Some x, Some y => text_eqb x y
  | _, _ => false
  end.

Definition onat_eqb (a b : option nat) : bool :=
  match a, b with
  | None, None => true
  | Some x, Some y => Nat.eqb x y
  | _, _ => false
  end.

(* (name, c_format_spec, identity of the format_spec node, conversion) *)
Record dkey := mk_key { k_name : nat; k_cfmt : option text; k_spec : option nat; k_conv : conv }.

Definition key_eqb (a b : dkey) : bool :=
  Nat.eqb (k_name a) (k_name b) && otext_eqb (k_cfmt a) (k_cfmt b)
  && onat_eqb (k_spec a) (k_spec b) && conv_eqb (k_conv a) (k_conv b).

(* variants of the key: kf_conv = the conversion character is part of the key (code as it is);
   kf_obj = generic objects are never de-duplicated (code as it is) *)
Record kflags := mk_kflags { kf_conv : bool; kf_obj : bool }.
Definition kflags_real := mk_kflags true true.

Definition conv_or_s (c : conv) : conv := match c with CvNone => CvS | _ => c end.

Definition is_obj (k : vclass) : bool := match k with KObj => true | _ => false end.

(* the format_spec attribute is a node object compared by identity: only None equals None *)
Definition spec_id (i : nat) (s : spec) : option nat :=
  match s with SNone => None | _ => Some i end.

Definition node_key (fl : kflags) (i : nat) (n : node) : option dkey :=
  match n with
  | NFmt (OVar v k) c cf s =>
      if kf_obj fl && is_obj k then None
      else Some (mk_key v cf (spec_id i s) (if kf_conv fl then conv_or_s c else CvS))
  | NUni v => Some (mk_key v None None CvS)
  | _ => None
  end.

Fixpoint lookup (k : dkey) (seen : list (dkey * nat)) : option nat :=
  match seen with
  | [] => None
  | (k', j) :: r => if key_eqb k k' then Some j else lookup k r
  end.

Fixpoint dedup_from (fl : kflags) (i : nat) (seen : list (dkey * nat)) (l : list node) : list node :=
  match l with
  | [] => []
  | n :: r =>
      match node_key fl i n with
      | None => n :: dedup_from fl (S i) seen r
      | Some k =>
          match lookup k seen with
          | Some j => NClone j :: dedup_from fl (S i) seen r
          | None => n :: dedup_from fl (S i) ((k, i) :: seen) r
          end
      end
  end.

Definition dedup (fl : kflags) (l : list node) : list node := dedup_from fl 0 [] l.

(* ---------------------------------------------------------------- the whole rewrite *)
Definition shape_of (fl : kflags) (l : list node) : shape :=
  match l with
  | [] => ShEmpty
  | [a] => ShOne a
  | [a; b] => ShAdd a b
  | _ => ShJoin (dedup fl l)
  end.

Definition optimise (fl : kflags) (ps : list part) : shape := shape_of fl (map analyse (fold ps)).

(* a nested spec inside a value of a 3+-part f-string: FinalOptimizePhase.visit_JoinedStrNode does not visit
   the children of the node it handles, so the inner list keeps all its values *)
Definition optimise_inner (ps : list part) : shape :=
  match map analyse (fold ps) with
  | [] => ShEmpty
  | [a] => ShOne a
  | [a; b] => ShAdd a b
  | l => ShJoin l
  end.

Definition shape_nodes (s : shape) : list node :=
  match s with ShEmpty => [] | ShOne a => [a] | ShAdd a b => [a; b] | ShJoin l => l end.

(* ---------------------------------------------------------------- join arguments *)
Definition is_unknown (n : node) : bool :=
  match n with NLit _ | NClone _ => false | _ => true end.

Fixpoint occ (j : nat) (l : list node) : nat :=
  match l with
  | [] => 0
  | NClone j' :: r => (if Nat.eqb j j' then 1 else 0) + occ j r
  | _ :: r => occ j r
  end.

Fixpoint known_len (l : list node) : nat :=
  match l with
  | [] => 0
  | NLit t :: r => length t + known_len r
  | _ :: r => known_len r
  end.

(* (index, factor) of every value whose length is read at run time *)
Fixpoint len_terms_from (all : list node) (i : nat) (l : list node) : list (nat * nat) :=
  match l with
  | [] => []
  | n :: r => (if is_unknown n then [(i, S (occ i all))] else []) ++ len_terms_from all (S i) r
  end.
Definition len_terms (l : list node) : list (nat * nat) := len_terms_from l 0 l.

Definition join_len (l : list node) (texts : list text) : nat :=
  known_len l + fold_right (fun t a => length (nth (fst t) texts []) * snd t + a) 0 (len_terms l).

(* kinds: 0 ASCII, 1 Latin-1, 2 BMP, 4 beyond *)
Definition char_kind (c : N) : N :=
  if N.ltb c 128 then 0%N else if N.ltb c 256 then 1%N else if N.ltb c 65536 then 2%N else 4%N.
Definition text_kind (t : text) : N := fold_right (fun c a => N.max (char_kind c) a) 0%N t.

Fixpoint lit_kind (l : list node) : N :=
  match l with
  | [] => 0%N
  | NLit t :: r => N.max (text_kind t) (lit_kind r)
  | _ :: r => lit_kind r
  end.

(* formatted C numbers are taken for ASCII unless the format is c.  As written the test is
   c_format_spec != c on the WHOLE spec, so a padded 3c / 03c spec is taken for ASCII (fxk = false);
   fxk = true is the repaired test on the format type (last character). *)
Definition ends_with_c (t : text) : bool :=
  match rev t with c :: _ => N.eqb c 99 | [] => false end.
Definition is_c_spec (fxk : bool) (cf : text) : bool :=
  if fxk then ends_with_c cf else text_eqb cf [99%N].
Definition c_number_ascii (fxk : bool) (n : node) : bool :=
  match n with
  | NFmt (OVar _ (KCInt | KCDbl | KCBint)) _ (Some cf) _ => negb (is_c_spec fxk cf)
  | _ => false
  end.

Fixpoint kind_terms_from (fxk : bool) (i : nat) (l : list node) : list nat :=
  match l with
  | [] => []
  | n :: r => (if is_unknown n && negb (c_number_ascii fxk n) then [i] else []) ++ kind_terms_from fxk (S i) r
  end.
Definition kind_terms (fxk : bool) (l : list node) : list nat := kind_terms_from fxk 0 l.

(* __Pyx_PyUnicode_KIND_04: 0 for ASCII strings, else the PEP 393 kind; combined with | ; the
   join maps the combined value to the maximal character of the result *)
Definition join_kind (fxk : bool) (l : list node) (texts : list text) : N :=
  fold_right (fun i a => N.lor (text_kind (nth i texts [])) a) (lit_kind l) (kind_terms fxk l).
Definition max_char (kind : N) : N :=
  let k := if N.ltb 4 kind then 4%N else kind in
  match k with 0 => 127 | 1 => 255 | 2 | 3 => 65535 | _ => 1114111 end%N.
