(* Model of comparison evaluation and of the two comparison rewrites of the Cython compiler.

   Part 1  ExprNodes.PrimaryCmpNode / CascadedCmpNode.generate_evaluation_code: the code
           emitted for  e0 op1 e1 op2 e2 ...  as a small temp machine, and the reference
           semantics of the Python language reference (6.10).
   Part 2  Optimize.FlattenInListTransform.visit_PrimaryCmpNode:  x in (a, b, c)  rewritten
           into a chain of == joined by or (not in: != joined by and), evaluated through
           UtilNodes.EvalWithTempExprNode, and CPython's semantics of the original test.
   Part 3  Optimize.SwitchTransform: extract_conditions, extract_in_string_conditions,
           extract_common_conditions, has_duplicate_values, visit_IfStatNode and the
           expression visitors (build_simple_switch_statement).

   Operands are abstract calls: evaluating one appends an event to the trace and yields an
   abstract value or raises.  Comparison, truth value, equality, identity and hashability
   are oracles (Section variables).  Definitions only; proofs are in Proof/P_Cmp.v. *)
From Coq Require Import ZArith List Bool.
From CyVerif Require Import Lib.CInt.
Import ListNotations.
Open Scope Z_scope.

Definition val := Z.
Definition exn := Z.

Inductive event := EvOp (id : Z) | EvCmp (op : Z) (a b : val) | EvTruth (v : val).

Inductive outcome (A : Type) := OVal (a : A) | ORaise (e : exn) | OUndef.
Arguments OVal {A} a.
Arguments ORaise {A} e.
Arguments OUndef {A}.

(* an operand: o_log = it is observable (a logging call, a property); o_res = what it yields *)
Record operand := mkOp { o_id : Z; o_log : bool; o_res : val + exn }.
Definition ev_of (o : operand) : list event := if o_log o then [EvOp (o_id o)] else [].

Definition is_opev (e : event) : bool := match e with EvOp _ => true | _ => false end.

(* ------------------------------------------------------------------------------------ *)
(* Part 1: cascaded comparisons                                                          *)
(* ------------------------------------------------------------------------------------ *)

Definition cascade := (operand * list (Z * operand))%type.

Inductive code :=
  | CEnd
  | CEval (t : nat) (e : operand) (k : code)     (* operand.generate_evaluation_code: temp t := e *)
  | CCmp (op : Z) (t1 t2 : nat) (k : code)       (* generate_operation_code: result := t1 op t2 *)
  | CIfTrue (k : code).                          (* if (__Pyx_PyObject_IsTrue(result)) { decref; k } *)

(* CascadedCmpNode.generate_evaluation_code(code, result, operand1 = temp i) *)
Fixpoint gen_cascade (i : nat) (links : list (Z * operand)) : code :=
  match links with
  | [] => CEnd
  | (op, e) :: rest => CIfTrue (CEval (S i) e (CCmp op i (S i) (gen_cascade (S i) rest)))
  end.

(* PrimaryCmpNode.generate_evaluation_code *)
Definition gen_primary (c : cascade) : code :=
  match snd c with
  | [] => CEval 0 (fst c) CEnd
  | (op, e1) :: rest => CEval 0 (fst c) (CEval 1 e1 (CCmp op 0 1 (gen_cascade 1 rest)))
  end.

Definition upd (temps : nat -> option val) (t : nat) (v : val) : nat -> option val :=
  fun j => if Nat.eqb j t then Some v else temps j.

Section Cascade.
  Variable cmp : Z -> val -> val -> val + exn.
  Variable truth : val -> bool + exn.

  (* Reference: a op1 b op2 c  ==  (a op1 b) and (b op2 c), b evaluated once;
     x and y: x is evaluated, if it is false its value is returned, otherwise y. *)
  Fixpoint ref_links (vl : val) (links : list (Z * operand)) (tr : list event)
    : list event * outcome val :=
    match links with
    | [] => (tr, OVal vl)
    | (op, e) :: rest =>
      let tr1 := tr ++ ev_of e in
      match o_res e with
      | inr x => (tr1, ORaise x)
      | inl vr =>
        let tr2 := tr1 ++ [EvCmp op vl vr] in
        match cmp op vl vr with
        | inr x => (tr2, ORaise x)
        | inl r =>
          match rest with
          | [] => (tr2, OVal r)
          | _ :: _ =>
            let tr3 := tr2 ++ [EvTruth r] in
            match truth r with
            | inr x => (tr3, ORaise x)
            | inl false => (tr3, OVal r)
            | inl true => ref_links vr rest tr3
            end
          end
        end
      end
    end.

  Definition ref_cascade (c : cascade) : list event * outcome val :=
    let tr0 := ev_of (fst c) in
    match o_res (fst c) with
    | inr x => (tr0, ORaise x)
    | inl v0 => ref_links v0 (snd c) tr0
    end.

  (* The temp machine.  chk = the truth test of the intermediate result checks for an error
     (false = the code as it is: `if (__Pyx_PyObject_IsTrue(r))` treats -1 as true and goes on
     with a pending exception: the C-API contract is broken, modelled as OUndef). *)
  Fixpoint exec (chk : bool) (c : code) (temps : nat -> option val) (res : option val)
           (tr : list event) : list event * outcome val :=
    match c with
    | CEnd => (tr, match res with Some r => OVal r | None => OUndef end)
    | CEval t e k =>
      let tr1 := tr ++ ev_of e in
      match o_res e with
      | inr x => (tr1, ORaise x)
      | inl v => exec chk k (upd temps t v) res tr1
      end
    | CCmp op t1 t2 k =>
      match temps t1, temps t2 with
      | Some a, Some b =>
        let tr1 := tr ++ [EvCmp op a b] in
        match cmp op a b with
        | inr x => (tr1, ORaise x)
        | inl r => exec chk k temps (Some r) tr1
        end
      | _, _ => (tr, OUndef)
      end
    | CIfTrue k =>
      match res with
      | None => (tr, OUndef)
      | Some r =>
        let tr1 := tr ++ [EvTruth r] in
        match truth r with
        | inr x => (tr1, if chk then ORaise x else OUndef)
        | inl false => (tr1, OVal r)
        | inl true => exec chk k temps res tr1
        end
      end
    end.

  Definition run_cascade (chk : bool) (c : cascade) : list event * outcome val :=
    exec chk (gen_primary c) (fun _ => None) None [].
End Cascade.

(* ------------------------------------------------------------------------------------ *)
(* Part 2: FlattenInListTransform                                                        *)
(* ------------------------------------------------------------------------------------ *)

Inductive ckind := KTuple | KList | KSet.

(* m_simple = arg.try_is_simple() (literal, name, attribute: used in place, no temp);
   m_starred = *arg;  m_unhash = a list/set/dict display inside a set literal *)
Record member := mkM { m_simple : bool; m_starred : bool; m_unhash : bool; m_op : operand }.

Record intest := mkIn { i_not : bool; i_lhs : operand; i_lhs_simple : bool;
                        i_kind : ckind; i_members : list member }.

Inductive atom := ARef (t : nat) | AInl (o : operand).

Inductive texpr :=
  | TBool (b : bool)
  | TCmp (neg : bool) (a b : atom)                (* <bint>(a == b), <bint>(a != b) *)
  | TOr (a b : texpr)
  | TAnd (a b : texpr)
  | TLet (t : nat) (e : operand) (body : texpr)   (* EvalWithTempExprNode *)
  | TGeneric (e : intest).                        (* node left unchanged *)

Fixpoint conds_from (neg : bool) (i : nat) (ms : list member) : list texpr :=
  match ms with
  | [] => []
  | m :: rest =>
    TCmp neg (ARef 0) (if m_simple m then AInl (m_op m) else ARef i) :: conds_from neg (S i) rest
  end.

Fixpoint lets_from (i : nat) (ms : list member) (body : texpr) : texpr :=
  match ms with
  | [] => body
  | m :: rest =>
    if m_simple m then lets_from (S i) rest body
    else TLet i (m_op m) (lets_from (S i) rest body)
  end.

Definition is_set (k : ckind) : bool := match k with KSet => true | _ => false end.

(* lhs_outer = false: the transform as it is (the temp of the left operand is the innermost
   EvalWithTempExprNode); true: the proposed repair (outermost). *)
Definition flatten (lhs_outer : bool) (e : intest) : texpr :=
  match i_members e with
  | [] => if i_lhs_simple e then TBool (i_not e) else TGeneric e
  | m0 :: rest =>
    if existsb m_starred (i_members e) then TGeneric e
    else if is_set (i_kind e) && existsb m_unhash (i_members e) then TGeneric e
    else
      let conds := conds_from (i_not e) 1 (i_members e) in
      let condition := fold_left (if i_not e then TAnd else TOr) (tl conds)
                                 (hd (TBool false) conds) in
      if lhs_outer
      then TLet 0 (i_lhs e) (lets_from 1 (i_members e) condition)
      else lets_from 1 (i_members e) (TLet 0 (i_lhs e) condition)
  end.

Section InTest.
  Variable same : val -> val -> bool.       (* a is b *)
  Variable eqb : val -> val -> bool.        (* bool(a == b) on built-in values: total, no event *)
  Variable hashable : val -> bool.
  Variable type_error : exn.

  (* evaluate all members left to right (container display) *)
  Fixpoint eval_members (ms : list member) (tr : list event) : list event * (list val + exn) :=
    match ms with
    | [] => (tr, inl [])
    | m :: rest =>
      let tr1 := tr ++ ev_of (m_op m) in
      match o_res (m_op m) with
      | inr x => (tr1, inr x)
      | inl v =>
        match eval_members rest tr1 with
        | (tr2, inl vs) => (tr2, inl (v :: vs))
        | (tr2, inr x) => (tr2, inr x)
        end
      end
    end.

  (* CPython: PySequence_Contains on tuple/list: item is x or item == x; set: hash first *)
  Definition contains (x : val) (vs : list val) : bool :=
    existsb (fun it => same it x || eqb it x) vs.

  Definition ref_in (e : intest) : list event * outcome bool :=
    let tr0 := ev_of (i_lhs e) in
    match o_res (i_lhs e) with
    | inr x => (tr0, ORaise x)
    | inl x =>
      match eval_members (i_members e) tr0 with
      | (tr1, inr ex) => (tr1, ORaise ex)
      | (tr1, inl vs) =>
        if is_set (i_kind e) && negb (forallb hashable vs && hashable x)
        then (tr1, ORaise type_error)
        else (tr1, OVal (xorb (i_not e) (contains x vs)))
      end
    end.

  Definition eval_atom (env : nat -> option val) (a : atom) (tr : list event)
    : list event * outcome val :=
    match a with
    | ARef t => (tr, match env t with Some v => OVal v | None => OUndef end)
    | AInl o => (tr ++ ev_of o, match o_res o with inl v => OVal v | inr x => ORaise x end)
    end.

  Fixpoint eval_t (e : texpr) (env : nat -> option val) (tr : list event)
    : list event * outcome bool :=
    match e with
    | TBool b => (tr, OVal b)
    | TCmp neg a b =>
      match eval_atom env a tr with
      | (tr1, OVal va) =>
        match eval_atom env b tr1 with
        | (tr2, OVal vb) => (tr2, OVal (xorb neg (eqb va vb)))
        | (tr2, ORaise x) => (tr2, ORaise x)
        | (tr2, OUndef) => (tr2, OUndef)
        end
      | (tr1, ORaise x) => (tr1, ORaise x)
      | (tr1, OUndef) => (tr1, OUndef)
      end
    | TOr a b =>
      match eval_t a env tr with
      | (tr1, OVal true) => (tr1, OVal true)
      | (tr1, OVal false) => eval_t b env tr1
      | r => r
      end
    | TAnd a b =>
      match eval_t a env tr with
      | (tr1, OVal false) => (tr1, OVal false)
      | (tr1, OVal true) => eval_t b env tr1
      | r => r
      end
    | TLet t o body =>
      let tr1 := tr ++ ev_of o in
      match o_res o with
      | inr x => (tr1, ORaise x)
      | inl v => eval_t body (upd env t v) tr1
      end
    | TGeneric g => let (tr1, r) := ref_in g in (tr ++ tr1, r)
    end.

  Definition run_flatten (lhs_outer : bool) (e : intest) : list event * outcome bool :=
    eval_t (flatten lhs_outer e) (fun _ => None) [].
End InTest.

(* ------------------------------------------------------------------------------------ *)
(* Part 3: SwitchTransform                                                               *)
(* ------------------------------------------------------------------------------------ *)

Inductive ty := TyInt | TyEnum | TyCOther | TyObj.

(* what has_duplicate_values compares: constant_result (an int, or the 1-byte bytes object of
   a CharNode built by extract_in_string_conditions), enum_int_value (an int), the cname, or
   nothing at all (AttributeError: "play safe") *)
Inductive key := KInt (z : Z) | KChr (z : Z) | KName (n : Z) | KNone.

Record label := mkL { l_key : key; l_val : Z; l_ty : ty }.

Inductive sop :=
  | SVar (path : list Z) (pyattr : bool) (t : ty)   (* name or attribute chain of a variable *)
  | SLit (l : label)                                (* is_literal *)
  | SConst (name : Z) (l : label)                   (* name whose entry.is_const (enum member) *)
  | SOther (id : Z) (t : ty).                       (* anything else, e.g. a call *)

Inductive cop := CopEq | CopNe | CopOther.

Inductive cond :=
  | CCmpC (op : cop) (a b : sop) (casc : bool)       (* PrimaryCmpNode ==, !=, other; cascaded? *)
  | CInStr (neg : bool) (a : sop) (isbytes : bool) (chars : list Z)  (* a in "literal" *)
  | COr (a b : cond)
  | CAnd (a b : cond)
  | CWrap (c : cond)                                 (* coercion / typecast / temp wrappers *)
  | COther (id : Z)                                  (* any other boolean expression *)
  | CSw (ni : bool) (s : sop) (ls : list label).     (* result of build_simple_switch_statement *)

Definition sop_ty (s : sop) : ty :=
  match s with SVar _ _ t => t | SLit l => l_ty l | SConst _ l => l_ty l | SOther _ t => t end.

Definition is_intlike (t : ty) : bool := match t with TyInt | TyEnum => true | _ => false end.
Definition is_int (t : ty) : bool := match t with TyInt => true | _ => false end.
Definition is_obj (t : ty) : bool := match t with TyObj => true | _ => false end.

Fixpoint zlist_eqb (a b : list Z) : bool :=
  match a, b with
  | [], [] => true
  | x :: a', y :: b' => (x =? y) && zlist_eqb a' b'
  | _, _ => false
  end.

Definition sop_path (s : sop) : option (list Z) :=
  match s with
  | SVar p py _ => if py && (1 <? Z.of_nat (length p)) then None else Some p
  | SConst n _ => Some [n]
  | _ => None
  end.

(* Optimize.is_common_value *)
Definition is_common (a b : sop) : bool :=
  match sop_path a, sop_path b with
  | Some p, Some q => zlist_eqb p q
  | _, _ => false
  end.

Definition as_label (s : sop) : option label :=
  match s with SLit l => Some l | SConst _ l => Some l | _ => None end.

(* sorted(set(chars)) *)
Fixpoint ins_sorted (x : Z) (l : list Z) : list Z :=
  match l with
  | [] => [x]
  | y :: r => if x <? y then x :: l else if x =? y then l else y :: ins_sorted x r
  end.
Definition sort_dedup (l : list Z) : list Z := fold_right ins_sorted [] l.

(* extract_in_string_conditions *)
Definition string_labels (isbytes : bool) (chars : list Z) : list label :=
  map (fun c => mkL (if isbytes then KChr c else KInt c) c TyInt) (sort_dedup chars).

(* extract_conditions(cond, allow_not_in).  fix_and = false: the code as it is, the result of
   an and is accepted when `(not not_in_1) or allow_not_in`; true: the proposed repair,
   accepted when not_in_1 == (operator == 'and'). *)
Fixpoint extract (fix_and : bool) (c : cond) (allow : bool) : option (bool * sop * list label) :=
  match c with
  | CWrap c' => extract fix_and c' allow
  | CCmpC op a b casc =>
    if casc then None
    else if is_obj (sop_ty a) || is_obj (sop_ty b) then None
    else
      match (match op with
             | CopEq => Some false
             | CopNe => if allow then Some true else None
             | CopOther => None end) with
      | None => None
      | Some ni =>
        match (if is_common a a then as_label b else None) with
        | Some l => Some (ni, a, [l])
        | None =>
          match (if is_common b b then as_label a else None) with
          | Some l => Some (ni, b, [l])
          | None => None
          end
        end
      end
  | CInStr neg a isbytes chars =>
    if is_int (sop_ty a)
    then if neg && negb allow then None else Some (neg, a, string_labels isbytes chars)
    else None
  | COr a b =>
    match extract fix_and a false, extract fix_and b false with
    | Some (n1, t1, c1), Some (n2, t2, c2) =>
      if Bool.eqb n1 n2 && is_common t1 t2
      then if negb n1 then Some (n1, t1, c1 ++ c2) else None
      else None
    | _, _ => None
    end
  | CAnd a b =>
    if allow then
      match extract fix_and a true, extract fix_and b true with
      | Some (n1, t1, c1), Some (n2, t2, c2) =>
        if Bool.eqb n1 n2 && is_common t1 t2
        then if (if fix_and then n1 else true) then Some (n1, t1, c1 ++ c2) else None
        else None
      | _, _ => None
      end
    else None
  | COther _ => None
  | CSw _ _ _ => None
  end.

(* extract_common_conditions *)
Definition extract_common (fix_and : bool) (common : option sop) (c : cond) (allow : bool)
  : option (bool * sop * list label) :=
  match extract fix_and c allow with
  | None => None
  | Some (ni, v, ls) =>
    if (match common with Some cv => negb (is_common v cv) | None => false end) then None
    else if negb (is_intlike (sop_ty v)) || negb (forallb (fun l => is_intlike (l_ty l)) ls)
    then None
    else Some (ni, v, ls)
  end.

Definition key_eqb (a b : key) : bool :=
  match a, b with
  | KInt x, KInt y => x =? y
  | KChr x, KChr y => x =? y
  | KName x, KName y => x =? y
  | _, _ => false
  end.

(* has_duplicate_values *)
Fixpoint has_dup (seen : list key) (ls : list label) : bool :=
  match ls with
  | [] => false
  | l :: rest =>
    match l_key l with
    | KNone => true
    | k => if existsb (key_eqb k) seen then true else has_dup (k :: seen) rest
    end
  end.

(* the expression visitors: visit_BoolBinopNode / visit_PrimaryCmpNode (allow_not_in = True) *)
Definition try_expr (fix_and : bool) (c : cond) : option cond :=
  match extract_common fix_and None c true with
  | Some (ni, v, ls) =>
    if (Z.of_nat (length ls) <? 2) || has_dup [] ls then None else Some (CSw ni v ls)
  | None => None
  end.

Fixpoint xform (fix_and : bool) (c : cond) : cond :=
  match try_expr fix_and c with
  | Some c' => c'
  | None =>
    match c with
    | COr a b => COr (xform fix_and a) (xform fix_and b)
    | CAnd a b => CAnd (xform fix_and a) (xform fix_and b)
    | CWrap c' => CWrap (xform fix_and c')
    | _ => c
    end
  end.

Record clause := mkC { c_cond : cond; c_body : Z }.

Inductive stmt :=
  | SIf (clauses : list clause) (els : option Z)
  | SSwitch (subj : sop) (cases : list (list label * Z)) (els : option Z).

(* the loop of visit_IfStatNode over node.if_clauses *)
Fixpoint collect (fix_and : bool) (common : option sop) (cls : list clause)
  : option (option sop * list (list label * Z)) :=
  match cls with
  | [] => Some (common, [])
  | cl :: rest =>
    match extract_common fix_and common (c_cond cl) false with
    | None => None
    | Some (_, v, ls) =>
      match collect fix_and (Some v) rest with
      | None => None
      | Some (cv, cases) => Some (cv, (ls, c_body cl) :: cases)
      end
    end
  end.

Definition all_labels (cases : list (list label * Z)) : list label := flat_map fst cases.

Definition to_switch (fix_and : bool) (cls : list clause) (els : option Z) : option stmt :=
  match collect fix_and None cls with
  | Some (Some cv, cases) =>
    if (Z.of_nat (length (all_labels cases)) <? 2) || has_dup [] (all_labels cases) then None
    else Some (SSwitch cv cases els)
  | _ => None
  end.

Definition visit_if (fix_and : bool) (cls : list clause) (els : option Z) : stmt :=
  match to_switch fix_and cls els with
  | Some s => s
  | None => SIf (map (fun cl => mkC (xform fix_and (c_cond cl)) (c_body cl)) cls) els
  end.

(* ---- semantics (C level: subjects and labels are C integers) ---- *)
Section SwitchSem.
  Variable envv : list Z -> Z.      (* value of a variable / attribute path *)
  Variable envo : Z -> Z.           (* value returned by the non-name expression `id` *)
  Variable envb : Z -> bool.        (* value of the boolean expression `id` *)

  Definition eval_sop (s : sop) : list event * Z :=
    match s with
    | SVar p _ _ => ([], envv p)
    | SLit l => ([], l_val l)
    | SConst _ l => ([], l_val l)
    | SOther id _ => ([EvOp id], envo id)
    end.

  Definition memv (v : Z) (ls : list label) : bool := existsb (fun l => l_val l =? v) ls.

  Fixpoint eval_cond (c : cond) : list event * bool :=
    match c with
    | CCmpC op a b _ =>
      let (ta, va) := eval_sop a in
      let (tb, vb) := eval_sop b in
      (ta ++ tb, match op with CopEq => va =? vb | CopNe => negb (va =? vb) | CopOther => va <? vb end)
    | CInStr neg a _ chars =>
      let (ta, va) := eval_sop a in (ta, xorb neg (existsb (Z.eqb va) chars))
    | COr a b =>
      let (ta, ra) := eval_cond a in
      if ra then (ta, true) else let (tb, rb) := eval_cond b in (ta ++ tb, rb)
    | CAnd a b =>
      let (ta, ra) := eval_cond a in
      if ra then let (tb, rb) := eval_cond b in (ta ++ tb, rb) else (ta, false)
    | CWrap c' => eval_cond c'
    | COther id => ([EvOp id], envb id)
    | CSw ni s ls => let (ts, v) := eval_sop s in (ts, xorb ni (memv v ls))
    end.

  Fixpoint exec_clauses (cls : list clause) (els : option Z) : list event * option Z :=
    match cls with
    | [] => ([], els)
    | cl :: rest =>
      let (t, r) := eval_cond (c_cond cl) in
      if r then (t, Some (c_body cl))
      else let (t2, b) := exec_clauses rest els in (t ++ t2, b)
    end.

  Fixpoint find_case (v : Z) (cases : list (list label * Z)) : option Z :=
    match cases with
    | [] => None
    | (ls, b) :: rest => if memv v ls then Some b else find_case v rest
    end.

  Definition exec_stmt (s : stmt) : list event * option Z :=
    match s with
    | SIf cls els => exec_clauses cls els
    | SSwitch subj cases els =>
      let (t, v) := eval_sop subj in
      (t, match find_case v cases with Some b => Some b | None => els end)
    end.
End SwitchSem.

(* C validity: the case labels of one switch are pairwise distinct constants *)
Fixpoint nodupz (l : list Z) : bool :=
  match l with
  | [] => true
  | x :: r => negb (existsb (Z.eqb x) r) && nodupz r
  end.

Fixpoint cond_valid (c : cond) : bool :=
  match c with
  | COr a b => cond_valid a && cond_valid b
  | CAnd a b => cond_valid a && cond_valid b
  | CWrap c' => cond_valid c'
  | CSw _ _ ls => nodupz (map l_val ls)
  | _ => true
  end.

Definition stmt_valid (s : stmt) : bool :=
  match s with
  | SIf cls _ => forallb (fun cl => cond_valid (c_cond cl)) cls
  | SSwitch _ cases _ => nodupz (map l_val (all_labels cases))
  end.

(* a label built from a literal: the key is its value *)
Definition label_lit (l : label) : bool :=
  match l_key l with KInt z => l_val l =? z | _ => false end.
