(* Model of Cython/Utility/Optimize.c: PyObjectCompare, the part that compares an exact Python
   float with an exact Python int: __Pyx_PyObject_CompareFloatInt{Eq,Ne,Lt,Le,Gt,Ge} and
   __Pyx_PyObject_CompareIntFloat<Op> (PyObject* and Bool instantiations differ only in how
   true/false is returned), both preprocessor variants (CYTHON_USE_PYLONG_INTERNALS on / off),
   and the float-float / float-int / int-float part of the dispatcher.

   A C double is nan, an infinity or a FINITE DYADIC RATIONAL n / 2^k (every IEEE double is one;
   the theorems hold for all of them, not only for 53-bit mantissas).  All comparisons the helper
   makes between doubles are therefore exact comparisons of rationals, carried out on integers
   by cross-multiplication with the positive denominators.  The only operation of the helper
   that could round is the conversion (double) of an integer: [i2d] is defined for |z| <= 2^53
   only (exact there) and is None otherwise; the theorems show None is never produced.
   The Python int lies in memory as in Lib/PyLong.v (sign + base-2^sh digits); the accessors
   __Pyx_PyLong_IsCompact / CompactValue / Sign are modelled in both struct layouts (lv_tag,
   3.12+; ob_size before).  Executable definitions only. *)
From Coq Require Import ZArith List Bool.
From CyVerif Require Import Lib.CInt Lib.PyLong Model.M_CmpInt.
Import ListNotations.
Open Scope Z_scope.

(* ---- C doubles ---- *)
Inductive dbl := DNan | DInf (neg : bool) | DFin (n k : Z).     (* DFin n k = n / 2^k *)

Definition dbl_okb (d : dbl) : bool := match d with DFin _ k => 0 <=? k | _ => true end.

Definition is_finite (d : dbl) : bool := match d with DFin _ _ => true | _ => false end.

(* the order of two doubles; None = unordered (a nan operand) *)
Definition dcmp (a b : dbl) : option comparison :=
  match a, b with
  | DNan, _ => None
  | _, DNan => None
  | DInf na, DInf nb => Some (if na then (if nb then Eq else Lt) else (if nb then Gt else Eq))
  | DInf na, DFin _ _ => Some (if na then Lt else Gt)
  | DFin _ _, DInf nb => Some (if nb then Gt else Lt)
  | DFin n1 k1, DFin n2 k2 => Some (n1 * 2 ^ k2 ?= n2 * 2 ^ k1)
  end.

(* the C (IEEE) relational operators on an order: unordered makes everything false but != *)
Definition cop_of (op : cop) (c : option comparison) : bool :=
  match c with
  | None => match op with OpNe => true | _ => false end
  | Some Lt => match op with OpLt | OpLe | OpNe => true | _ => false end
  | Some Eq => match op with OpEq | OpLe | OpGe => true | _ => false end
  | Some Gt => match op with OpGt | OpGe | OpNe => true | _ => false end
  end.

(* a {{c_op}} b on doubles *)
Definition dop (op : cop) (a b : dbl) : bool := cop_of op (dcmp a b).

(* ---- the property oracle: the order of the VALUES, a double against an integer (what
        CPython's float_richcompare computes, exactly, for every int however large) ---- *)
Definition fz_cmp (f : dbl) (z : Z) : option comparison :=
  match f with
  | DNan => None
  | DInf neg => Some (if neg then Lt else Gt)
  | DFin n k => Some (n ?= z * 2 ^ k)
  end.
Definition zf_cmp (z : Z) (f : dbl) : option comparison :=
  match f with
  | DNan => None
  | DInf neg => Some (if neg then Gt else Lt)
  | DFin n k => Some (z * 2 ^ k ?= n)
  end.
Definition fop (op : cop) (f : dbl) (z : Z) : bool := cop_of op (fz_cmp f z).    (* f op z *)
Definition zfop (op : cop) (z : Z) (f : dbl) : bool := cop_of op (zf_cmp z f).   (* z op f *)

(* ---- template sets: {{return_true if op in 'NeLeLt' else return_false}} etc. ---- *)
Definition in_nelelt (op : cop) : bool := match op with OpNe | OpLe | OpLt => true | _ => false end.
Definition in_negegt (op : cop) : bool := match op with OpNe | OpGe | OpGt => true | _ => false end.
Definition in_eqlelt (op : cop) : bool := match op with OpEq | OpLe | OpLt => true | _ => false end.
Definition in_eqgegt (op : cop) : bool := match op with OpEq | OpGe | OpGt => true | _ => false end.

(* ---- build configuration: the int-int one plus the width of long ---- *)
Record fcfg := FCfg { f_i : icfg; f_long : Z }.
Definition f_lp64_312 : fcfg := FCfg lp64_312 64.
Definition f_lp64_311 : fcfg := FCfg lp64_311 64.
Definition f_lp64_noint : fcfg := FCfg lp64_noint 64.
Definition f_llp64_noint : fcfg := FCfg lp64_noint 32.      (* 64-bit Windows: long has 32 bits *)
Definition f_ilp32_15 : fcfg := FCfg ilp32_15 32.

(* (double) z for an integer z: exact up to 2^53 in magnitude; beyond that the conversion
   rounds and is outside this model *)
Definition i2d (z : Z) : option dbl := if Z.abs z <=? 2 ^ 53 then Some (DFin z 0) else None.

Definition dzero : dbl := DFin 0 0.
(* (double) (1L << PyLong_SHIFT) and its negation *)
Definition two_sh (c : icfg) : dbl := DFin (2 ^ i_sh c) 0.
Definition neg_two_sh (c : icfg) : dbl := DFin (- 2 ^ i_sh c) 0.
(* (double) (1LL << 53) *)
Definition two53 : dbl := DFin (2 ^ 53) 0.
Definition neg_two53 : dbl := DFin (- 2 ^ 53) 0.

(* __Pyx_PyLong_IsCompact: lv_tag < (2 << 3)   |   Py_SIZE in {0, 1, -1} *)
Definition compact (c : icfg) (x : pylong) : bool :=
  if i_tag312 c then tag x <? 16
  else (ssize x =? 0) || (ssize x =? 1) || (ssize x =? -1).

(* __Pyx_PyLong_Sign: 1 - (lv_tag & 3)   |   sign of Py_SIZE *)
Definition sign_of (c : icfg) (x : pylong) : Z :=
  if i_tag312 c then 1 - signbits x
  else if ssize x =? 0 then 0 else if ssize x <? 0 then -1 else 1.

(* __Pyx_PyLong_CompactValue: sign * (Py_ssize_t) ob_digit[0]   |   0, -(sdigit)d, (sdigit)d.
   A digit is below 2^sh and sh is below the width of Py_ssize_t / sdigit: no overflow. *)
Definition compact_val (c : icfg) (x : pylong) : Z :=
  if i_tag312 c then (1 - signbits x) * digit x 0
  else if ssize x =? 0 then 0 else if ssize x <? 0 then - digit x 0 else digit x 0.

(* the state after `long iop = PyLong_AsLongAndOverflow(op, &overflow); if (!overflow) {...}`:
   either the value is used (inr) or overflow is -1 / 1 (inl) *)
Definition long_or_overflow (lw : Z) (v : Z) : Z + Z :=
  let (iop, ovf) := as_llong_ovf lw v in
  if ovf =? 0 then
    if 2 ^ 53 <=? iop then inl 1
    else if iop <=? - 2 ^ 53 then inl (-1)
    else inr iop
  else inl ovf.

Definition via (o : option dbl) (k : dbl -> bool) : option bool :=
  match o with Some d => Some (k d) | None => None end.

(* __Pyx_PyObject_CompareFloatInt<Op>(op1 = float f, op2 = int b).  [rich] = the final
   PyObject_RichCompare(op1, op2, op) (contract: CPython compares the values exactly);
   None = an inexact conversion (outside the model). *)
Definition cmp_floatint (c : fcfg) (rich : cop -> dbl -> Z -> bool) (op : cop) (f : dbl) (b : pylong)
  : option bool :=
  let ic := f_i c in
  let fallback := Some (rich op f (value (i_sh ic) b)) in
  if i_internals ic then
    if compact ic b then via (i2d (compact_val ic b)) (fun d => dop op f d)
    else if negb (is_finite f) then Some (dop op f dzero)
    else
      let sign2 := sign_of ic b in
      if dop OpGe f dzero then
        if sign2 <? 0 then Some (in_negegt op)
        else if dop OpLt f (two_sh ic) then Some (in_nelelt op)
        else fallback
      else
        if 0 <? sign2 then Some (in_nelelt op)
        else if dop OpGt f (neg_two_sh ic) then Some (negb (in_eqlelt op))
        else fallback
  else
    if negb (is_finite f) then Some (dop op f dzero)
    else
      match long_or_overflow (f_long c) (value (i_sh ic) b) with
      | inr iop => via (i2d iop) (fun d => dop op f d)
      | inl ovf =>
        if 0 <? ovf then
          if dop OpLt f two53 then Some (in_nelelt op) else fallback
        else
          if dop OpGt f neg_two53 then Some (in_negegt op) else fallback
      end.

(* __Pyx_PyObject_CompareIntFloat<Op>(op1 = int a, op2 = float f) *)
Definition cmp_intfloat (c : fcfg) (rich : cop -> Z -> dbl -> bool) (op : cop) (a : pylong) (f : dbl)
  : option bool :=
  let ic := f_i c in
  let fallback := Some (rich op (value (i_sh ic) a) f) in
  if i_internals ic then
    if compact ic a then via (i2d (compact_val ic a)) (fun d => dop op d f)
    else if negb (is_finite f) then Some (dop op dzero f)
    else
      let sign1 := sign_of ic a in
      if dop OpGe f dzero then
        if sign1 <? 0 then Some (in_nelelt op)
        else if dop OpLt f (two_sh ic) then Some (in_negegt op)
        else fallback
      else
        if 0 <? sign1 then Some (in_negegt op)
        else if dop OpGt f (neg_two_sh ic) then Some (negb (in_eqgegt op))
        else fallback
  else
    if negb (is_finite f) then Some (dop op dzero f)
    else
      match long_or_overflow (f_long c) (value (i_sh ic) a) with
      | inr iop => via (i2d iop) (fun d => dop op d f)
      | inl ovf =>
        if ovf <? 0 then
          if dop OpGt f two53 then Some (in_nelelt op) else fallback
        else
          if dop OpLt f neg_two53 then Some (in_negegt op) else fallback
      end.

(* the dispatcher __Pyx_PyObject_Compare<Op>_<t1>_<t2> on exact float / int operands (neither
   is None): float-float is the C comparison of the two doubles *)
Inductive num := NFloat (f : dbl) | NInt (x : pylong).

Definition cmp_num (c : fcfg) (richfz : cop -> dbl -> Z -> bool) (richzf : cop -> Z -> dbl -> bool)
  (richzz : cop -> Z -> Z -> bool) (op : cop) (same : bool) (a b : num) : option bool :=
  match a, b with
  | NFloat f, NFloat g => Some (dop op f g)
  | NFloat f, NInt y => cmp_floatint c richfz op f y
  | NInt x, NFloat g => cmp_intfloat c richzf op x g
  | NInt x, NInt y => cmp_exact (f_i c) richzz op same x y
  end.

(* which branch decides (coverage accounting of the correspondence run):
   1 compact  2 non-finite  3 opposite signs  4 same sign, float below 2^sh in magnitude
   5 rich comparison (internals)  6 non-finite (no internals)  7 long below 2^53 compared as double
   8 overflow flag and float below 2^53 in magnitude  9 rich comparison (no internals) *)
Definition fbranch (c : fcfg) (intleft : bool) (f : dbl) (b : pylong) : Z :=
  let ic := f_i c in
  if i_internals ic then
    if compact ic b then 1
    else if negb (is_finite f) then 2
    else
      let s := sign_of ic b in
      if dop OpGe f dzero then
        if s <? 0 then 3 else if dop OpLt f (two_sh ic) then 4 else 5
      else
        if 0 <? s then 3 else if dop OpGt f (neg_two_sh ic) then 4 else 5
  else
    if negb (is_finite f) then 6
    else
      match long_or_overflow (f_long c) (value (i_sh ic) b) with
      | inr _ => 7
      | inl ovf =>
        if intleft then
          if ovf <? 0 then (if dop OpGt f two53 then 8 else 9)
          else (if dop OpLt f neg_two53 then 8 else 9)
        else
          if 0 <? ovf then (if dop OpLt f two53 then 8 else 9)
          else (if dop OpGt f neg_two53 then 8 else 9)
      end.
