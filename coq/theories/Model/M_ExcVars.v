(* C22 -- the exception STATE at the level of the generated temps.

   M_Exc.exec_sch keeps ONE field for "the exc_vars temps of the lexically innermost handler"
   and resolves a bare raise against it while it runs.  The compiler does that resolution at code
   generation time: code.funcstate.exc_vars names the three temps a ReraiseStatNode reads
   (__Pyx_ErrRestoreWithState(t, v, tb)), or is None (__Pyx_ReraiseException(): the dynamic
   sys.exc_info()).  It is assigned in exactly two places:

     ExceptClauseNode.generate_handling_code      exc_vars := the temps filled by __Pyx_GetException
                                                  (only when the body may need the exception),
                                                  restored after the body;
     TryFinallyStatNode.generate_execution_code   exc_vars := exc_vars[:3] of the statement for the
                                                  EXCEPTION copy of the finally clause (the other
                                                  copies are generated with the enclosing value),
                                                  restored after the copy.

   annot mirrors these assignments: it turns a cstmt into an astmt in which every construct that
   allocates exception temps carries the identity of its temps (own = the preorder number of the
   construct: temps of different constructs are different variables), the finally clause exists in
   its two differently resolved copies, and every bare raise (and the with-statement's handler)
   carries the temps it reads.  exec_a runs that code over a store of temps; nothing is resolved
   at run time.

   keep = true is the variant "install the finally temps only when no enclosing handler has set
   exc_vars" (old_exc_vars kept): a bare raise in a finally clause nested in a handler then reads
   the OUTER handler's temps. *)
From Coq Require Import List Bool Arith.
From CyVerif Require Import Model.M_Exc.
Import ListNotations.

Inductive astmt :=
| ASkip | ALog (n : nat) | AProbe
| ARaise (w : what) (cz : cause)
| AReraise (ev : option nat)                  (* funcstate.exc_vars when the node was generated *)
| ASeq (a b : astmt)
| ATry (body : astmt) (hs : ahandlers) (orelse : astmt)
| AFinally (herr : bool) (own : nat) (body fnorm fexc : astmt)
| ALoop (n : nat) (body : astmt)
| AReturn | ABreak | AContinue
| ADel (x : nat)
| AWithScope (k : nat) (body : astmt)
| AExitExc (k : nat) (x : exitk) (ev : option nat)   (* excinfo_target / raise of the with handler *)
| AExitNone (k : nat) (x : exitk)
with ahandlers :=
| AHNil
| AHCons (pat : option nat) (name : option nat)
         (own : option nat)                   (* None: GetException skipped, no temps *)
         (body : astmt) (tl : ahandlers).

Definition needs_exception (name : option nat) (body : cstmt) : bool :=
  (match name with Some _ => true | None => false end) || negb (trivial body).

(* what TryFinallyStatNode installs for the exception copy *)
Definition fin_exc_vars (keep : bool) (old : option nat) (own : nat) : option nat :=
  if keep then match old with Some _ => old | None => Some own end else Some own.

(* ev = funcstate.exc_vars, n = number of temp-allocating constructs generated so far *)
Fixpoint annot (keep : bool) (s : cstmt) (ev : option nat) (n : nat) {struct s} : astmt * nat :=
  match s with
  | CSkip => (ASkip, n) | CLog k => (ALog k, n) | CProbe => (AProbe, n)
  | CRaise w cz => (ARaise w cz, n)
  | CReraise => (AReraise ev, n)
  | CSeq a b => let (a', n1) := annot keep a ev n in
                let (b', n2) := annot keep b ev n1 in (ASeq a' b', n2)
  | CTry body hs orelse =>
      let (b', n1) := annot keep body ev n in
      let (o', n2) := annot keep orelse ev n1 in
      let (h', n3) := annot_h keep hs ev n2 in
      (ATry b' h' o', n3)
  | CFinally herr body fin =>
      let (b', n1) := annot keep body ev (S n) in
      let (fn, n2) := annot keep fin ev n1 in
      let (fe, _) := annot keep fin (fin_exc_vars keep ev n) n1 in
      (AFinally herr n b' fn fe, n2)
  | CLoop k body => let (b', n1) := annot keep body ev n in (ALoop k b', n1)
  | CReturn => (AReturn, n) | CBreak => (ABreak, n) | CContinue => (AContinue, n)
  | CDel x => (ADel x, n)
  | CWithScope k body => let (b', n1) := annot keep body ev n in (AWithScope k b', n1)
  | CExitExc k x => (AExitExc k x ev, n)
  | CExitNone k x => (AExitNone k x, n)
  end
with annot_h (keep : bool) (hs : chandlers) (ev : option nat) (n : nat) {struct hs} : ahandlers * nat :=
  match hs with
  | CHNil => (AHNil, n)
  | CHCons pat name body tl =>
      let needs := needs_exception name body in
      let (b', n1) := annot keep body (if needs then Some n else ev) (S n) in
      let (t', n2) := annot_h keep tl ev n1 in
      (AHCons pat name (if needs then Some n else None) b' t', n2)
  end.

(* ---------- the machine: M_Exc.state without its cur field in use, plus the temps ---------- *)
Definition temps := nat -> option nat.         (* None = NULL / zeroed *)
Definition tset (tm : temps) (t : nat) (v : option nat) : temps :=
  fun i => if i =? t then v else tm i.
Definition no_temps : temps := fun _ => None.

(* ReraiseStatNode generated with exc_vars = ev *)
Definition reraise_a (fx : bool) (ev : option nat) (c : state) (tm : temps) : oc * state * temps :=
  match ev with
  | None => (reraise_dynamic c, tm)                 (* __Pyx_ReraiseException() *)
  | Some t => match tm t with
              | Some e => (ORaise e, c, if fx then tm else tset tm t None)
              | None => (OCrash, c, tm)
              end
  end.

Fixpoint exec_a (fx sx : bool) (s : astmt) (c : state) (tm : temps) {struct s} : oc * state * temps :=
  match s with
  | ASkip => (ONorm, c, tm)
  | ALog n => (ONorm, logst (fun _ _ => EvLog n) c, tm)
  | AProbe => (ONorm, logst ev_probe c, tm)
  | ARaise w cz => (lift (do_raise w cz) c, tm)
  | AReraise ev => reraise_a fx ev c tm
  | ASeq a b => let '(o, c1, tm1) := exec_a fx sx a c tm in
                match o with ONorm => exec_a fx sx b c1 tm1 | _ => (o, c1, tm1) end
  | ATry body hs orelse =>
      let saved := if sx then top c else handled c in
      let '(o, c1, tm1) := exec_a fx sx body c tm in
      match o with
      | ONorm => let '(o2, c2, tm2) := exec_a fx sx orelse c1 tm1 in
                 match o2 with
                 | ONorm | OCrash => (o2, c2, tm2)
                 | _ => (o2, set_top saved c2, tm2)
                 end
      | ORaise e => handle_a fx sx hs e saved c1 tm1
      | OCrash => (OCrash, c1, tm1)
      | _ => (o, set_top saved c1, tm1)
      end
  | AFinally herr own body fnorm fexc =>
      let '(o, c1, tm1) := exec_a fx sx body c tm in
      match o with
      | OCrash => (OCrash, c1, tm1)
      | ORaise e =>
          if herr then
            let saved := top c1 in                  (* __Pyx_ExceptionSwap *)
            (* __Pyx_GetException(&own...): the propagating exception becomes the current one *)
            let '(o2, c2, tm2) := exec_a fx sx fexc (set_top (Some e) c1) (tset tm1 own (Some e)) in
            match o2 with
            | ONorm => match tm2 own with           (* put_error_uncatcher: ErrRestore(own temps) *)
                       | Some e' => (ORaise e', set_top saved c2, tm2)
                       | None => (OCrash, c2, tm2)
                       end
            | OCrash => (OCrash, c2, tm2)
            | _ => (o2, set_top saved c2, tm2)      (* put_error_cleaner *)
            end
          else (ORaise e, c1, tm1)
      | _ => let '(o2, c2, tm2) := exec_a fx sx fnorm c1 tm1 in (after o o2, c2, tm2)
      end
  | ALoop n body =>
      (fix loop (i : nat) (c : state) (tm : temps) : oc * state * temps :=
         match i with
         | O => (ONorm, c, tm)
         | S i' => let '(o, c1, tm1) := exec_a fx sx body c tm in
                   match o with
                   | ONorm | OCont => loop i' c1 tm1
                   | OBrk => (ONorm, c1, tm1)
                   | _ => (o, c1, tm1)
                   end
         end) n c tm
  | AReturn => (ORet, c, tm)
  | ABreak => (OBrk, c, tm)
  | AContinue => (OCont, c, tm)
  | ADel x => (ONorm, set_co (unbind x (co c)) c, tm)
  | AWithScope k body =>
      let old := wx c in
      let '(o, c1, tm1) := exec_a fx sx body (set_wx true (logst (fun _ _ => EvEnter k) c)) tm in
      (o, set_wx old c1, tm1)
  | AExitExc k x ev =>
      let arg := match ev with Some t => tm t | None => None end in
      let c1 := logst (ev_exit k arg) (set_wx false c) in
      match x with
      | XSwallow => (ONorm, c1, tm)
      | XPass => reraise_a fx ev c1 tm
      | XRaise n => (lift (raise_internal n) c1, tm)
      end
  | AExitNone k x =>
      if wx c then
        let c1 := logst (ev_exit k None) (set_wx false c) in
        match x with
        | XRaise n => (lift (raise_internal n) c1, tm)
        | _ => (ONorm, c1, tm)
        end
      else (ONorm, c, tm)
  end
with handle_a (fx sx : bool) (hs : ahandlers) (e : nat) (saved : option nat) (c : state) (tm : temps)
       {struct hs} : oc * state * temps :=
  match hs with
  | AHNil => (ORaise e, set_top saved c, tm)
  | AHCons pat name own body tl =>
      if pat_matches pat (cls_of c e) then
        match own with
        | Some t =>                                   (* __Pyx_GetException(&t...) *)
            let c1 := set_co (bind_opt name e (co c)) (set_top (Some e) c) in
            let '(o, c2, tm2) := exec_a fx sx body c1 (tset tm t (Some e)) in
            match o with
            | OCrash => (OCrash, c2, tm2)
            | _ => (o, set_top saved c2, tm2)
            end
        | None =>
            let '(o, c1, tm1) := exec_a fx sx body c tm in
            match o with
            | OCrash => (OCrash, c1, tm1)
            | _ => (o, set_top saved c1, tm1)
            end
        end
      else handle_a fx sx tl e saved c tm
  end.

(* whole functions: exc_vars = None at function level, no temps live *)
Definition run_tmp (keep fx sx : bool) (s : stmt) (h : list eobj) (t b : option nat) : oc * state :=
  fst (exec_a fx sx (fst (annot keep (desugar s) None 0)) (init_state h t b) no_temps).

(* ---------- the static resolution, for the comparison with the generated C ----------
   every reader of exception temps in emission order (body, else, handlers; try body, normal copy,
   exception copy): RBare ev = a bare raise, RWith ev = the raise in a with-statement's handler *)
Inductive reader := RBare (ev : option nat) | RWith (ev : option nat).
Fixpoint readers (a : astmt) : list reader :=
  match a with
  | AReraise ev => [RBare ev]
  | AExitExc _ _ ev => [RWith ev]
  | ASeq a b => readers a ++ readers b
  | ATry body hs orelse => readers body ++ readers orelse ++ readers_h hs
  | AFinally _ _ body fnorm fexc => readers body ++ readers fnorm ++ readers fexc
  | ALoop _ body => readers body
  | AWithScope _ body => readers body
  | _ => []
  end
with readers_h (hs : ahandlers) : list reader :=
  match hs with
  | AHNil => []
  | AHCons _ _ _ body tl => readers body ++ readers_h tl
  end.
Definition resolve (keep : bool) (s : stmt) : list reader :=
  readers (fst (annot keep (desugar s) None 0)).
