(* C13: models of the optimised builtin helpers that carry their own index / overflow / decision
   logic (Cython/Utility/Optimize.c, StringTools.c, Builtins.c; Optimize.py _optimise_min_max,
   _transform_any_all), next to independent definitions of the Python semantics.
   Executable definitions only; proofs are in Proof/P_Builtins.v. *)
From Coq Require Import ZArith List Bool.
From CyVerif Require Import Lib.CInt.
Import ListNotations.
Open Scope Z_scope.

Inductive exc := IndexError | KeyError | TypeError | ValueError | OverflowError | CmpError.

(* outcome of a call: value, Python exception, or C undefined behaviour (signed overflow,
   out-of-bounds access) which the theorems must exclude explicitly *)
Inductive res (A : Type) := Ok (a : A) | Raise (e : exc) | UB.
Arguments Ok {A} a.
Arguments Raise {A} e.
Arguments UB {A}.

Definition zlen {A} (l : list A) : Z := Z.of_nat (length l).
Definition ssize_max : Z := 9223372036854775807.
Definition ssize_min : Z := -9223372036854775808.
Definition fits_ssize (v : Z) : bool := (ssize_min <=? v) && (v <=? ssize_max).

(* signed Py_ssize_t addition: None = signed overflow (UB in C) *)
Definition sadd (a b : Z) : option Z := if fits_ssize (a + b) then Some (a + b) else None.

(* l[pos : pos+n] for in-range arguments *)
Definition sub_at {A} (l : list A) (pos n : Z) : list A :=
  firstn (Z.to_nat n) (skipn (Z.to_nat pos) l).

Fixpoint zlist_eqb (a b : list Z) : bool :=
  match a, b with
  | [], [] => true
  | x :: a', y :: b' => (x =? y) && zlist_eqb a' b'
  | _, _ => false
  end.

(* ------------------------------------------------------------------------------------------ *)
(* 1. list.pop() / list.pop(i)                                                                 *)

Section ListPop.
Context {A : Type}.

(* Python: list.pop(i): i < 0 -> i += len; not 0 <= i < len -> IndexError; v = l[i]; del l[i] *)
Definition py_list_pop (l : list A) (i : Z) : res (A * list A) :=
  let n := zlen l in
  let j := if i <? 0 then i + n else i in
  if (j <? 0) || (n <=? j) then Raise IndexError
  else match nth_error l (Z.to_nat j) with
       | Some v => Ok (v, firstn (Z.to_nat j) l ++ skipn (S (Z.to_nat j)) l)
       | None => UB
       end.

(* __Pyx_is_valid_index(i, limit) = ((size_t)i < (size_t)limit) *)
Definition is_valid_index (i limit : Z) : bool := wrap 64 false i <? wrap 64 false limit.

(* __Pyx__PyList_PopIndex(L, py_ix, ix): alloc = ((PyListObject* )L)->allocated.
   The generic fallback calls the real method: py_list_pop by definition. *)
Definition pyx_list_popindex (l : list A) (alloc ix : Z) : res (A * list A) :=
  let size := zlen l in
  if Z.shiftr alloc 1 <? size then
    match (if ix <? 0 then sadd ix size else Some ix) with
    | None => UB
    | Some cix =>
      if is_valid_index cix size then
        match nth_error l (Z.to_nat cix) with
        | Some v =>
          (* Py_SET_SIZE(size-1); memmove(&item[cix], &item[cix+1], (size-1-cix) * sizeof(ptr)) *)
          if (size - 1 - cix <? 0) then UB
          else Ok (v, firstn (Z.to_nat cix) l ++ sub_at l (cix + 1) (size - 1 - cix))
        | None => UB
        end
      else py_list_pop l ix
    end
  else py_list_pop l ix.

(* the macro __Pyx_PyList_PopIndex: the fast function only when the C index value fits Py_ssize_t
   (v = value of the index in its own C type), else the generic call with the converted object *)
Definition pyx_list_popindex_macro (l : list A) (alloc v : Z) : res (A * list A) :=
  if fits_ssize v then pyx_list_popindex l alloc v else py_list_pop l v.

(* __Pyx_PyList_Pop(L) *)
Definition pyx_list_pop (l : list A) (alloc : Z) : res (A * list A) :=
  let size := zlen l in
  if Z.shiftr alloc 1 <? size then
    (* Py_SET_SIZE(L, size-1); return PyList_GET_ITEM(L, size-1) *)
    match nth_error l (Z.to_nat (size - 1)) with
    | Some v => if size - 1 <? 0 then UB else Ok (v, firstn (Z.to_nat (size - 1)) l)
    | None => UB
    end
  else py_list_pop l (-1).

End ListPop.

(* ------------------------------------------------------------------------------------------ *)
(* 2. startswith / endswith                                                                    *)

(* Python slice index adjustment (PySlice_AdjustIndices, step 1) *)
Definition py_slice_adjust (len start stop : Z) : Z * Z :=
  let s := if start <? 0 then (if start + len <? 0 then 0 else start + len)
           else (if len <? start then len else start) in
  let e := if stop <? 0 then (if stop + len <? 0 then 0 else stop + len)
           else (if len <? stop then len else stop) in
  (s, e).

Definition py_slice {A} (l : list A) (start stop : Z) : list A :=
  let '(s, e) := py_slice_adjust (zlen l) start stop in
  if e <=? s then [] else sub_at l s (e - s).

Definition is_prefix (sub x : list Z) : bool :=
  (zlen sub <=? zlen x) && zlist_eqb (sub_at x 0 (zlen sub)) sub.
Definition is_suffix (sub x : list Z) : bool :=
  (zlen sub <=? zlen x) && zlist_eqb (sub_at x (zlen x - zlen sub) (zlen sub)) sub.

(* Python: s.startswith(sub, start, end) (dir < 0) / s.endswith (dir > 0): the test is made on the
   window s[start:end] after the usual index adjustment (negative: += len, clipped at 0; end clipped
   at len).  CPython does not clip start at len: a window with end < start matches nothing, not even
   the empty string - the one place where it differs from evaluating s[start:end] first. *)
Definition py_tailmatch (s sub : list Z) (start stop dir : Z) : bool :=
  let n := zlen s in
  let sa := if start <? 0 then (if start + n <? 0 then 0 else start + n) else start in
  let ea := snd (py_slice_adjust n start stop) in
  if ea <? sa then false
  else if 0 <? dir then is_suffix sub (sub_at s sa (ea - sa))
       else is_prefix sub (sub_at s sa (ea - sa)).

(* memcmp(self_ptr + start, sub_ptr, sub_len) == 0, UB when it reads outside self *)
Definition memcmp_eq (s sub : list Z) (start : Z) : res bool :=
  if (start <? 0) || (zlen s <? start + zlen sub) then UB
  else Ok (zlist_eqb (sub_at s start (zlen sub)) sub).

(* __Pyx_PyBytes_SingleTailmatch; fixed = false: the tree (start + sub_len <= end),
   fixed = true: the proposed repair (sub_len <= end - start) *)
Definition pyx_bytes_single (fixed : bool) (s sub : list Z) (start stop dir : Z) : res bool :=
  let self_len := zlen s in
  let sub_len := zlen sub in
  let e := if self_len <? stop then self_len else if stop <? 0 then stop + self_len else stop in
  let e := if e <? 0 then 0 else e in
  let st := if start <? 0 then start + self_len else start in
  let st := if st <? 0 then 0 else st in
  let st := if 0 <? dir then (if st <? e - sub_len then e - sub_len else st) else st in
  if fixed then
    if sub_len <=? e - st then memcmp_eq s sub st else Ok false
  else
    match sadd st sub_len with
    | None => UB
    | Some t => if t <=? e then memcmp_eq s sub st else Ok false
    end.

(* the tuple loops (__Pyx_PyBytes_TailmatchTuple / __Pyx_PyUnicode_TailmatchTuple): single x is the
   outcome of the single match on element x (Raise = the -1 error return) *)
Section TupleLoop.
Context {S : Type} (single : S -> res bool).
Fixpoint pyx_tuple_loop (subs : list S) : res bool :=
  match subs with
  | [] => Ok false
  | x :: r => match single x with
              | Ok false => pyx_tuple_loop r
              | o => o           (* if (result) return result; *)
              end
  end.
Definition is_ok_false (o : res bool) : bool := match o with Ok false => true | _ => false end.
(* Python: elements are tried left to right; the first one that matches or raises decides *)
Definition py_tuple_match (subs : list S) : res bool :=
  match find (fun x => negb (is_ok_false (single x))) subs with
  | Some x => single x
  | None => Ok false
  end.
End TupleLoop.

(* ------------------------------------------------------------------------------------------ *)
(* 3. slice normalisation of the decode helpers and of __Pyx_PyUnicode_Substring               *)

(* __Pyx_decode_c_bytes: None = the empty string is returned, Some (offset, length) = decoded range *)
Definition pyx_decode_c_bytes_range (len start stop : Z) : option (Z * Z) :=
  let start1 := if (start <? 0) || (stop <? 0) then
                  (if start <? 0 then (if start + len <? 0 then 0 else start + len) else start)
                else start in
  let stop1 := if (start <? 0) || (stop <? 0) then (if stop <? 0 then stop + len else stop) else stop in
  let stop2 := if len <? stop1 then len else stop1 in
  if stop2 <=? start1 then None else Some (start1, stop2 - start1).

(* __Pyx_PyUnicode_Substring *)
Definition pyx_substring_range (len start stop : Z) : option (Z * Z) :=
  let start1 := if start <? 0 then (if start + len <? 0 then 0 else start + len) else start in
  let stop1 := if stop <? 0 then stop + len else if len <? stop then len else stop in
  if stop1 <=? start1 then None else Some (start1, stop1 - start1).

(* __Pyx_decode_c_string (char* of strlen len): no upper clipping, the C caller is responsible *)
Definition pyx_decode_c_string_range (len start stop : Z) : option (Z * Z) :=
  let start1 := if (start <? 0) || (stop <? 0) then
                  (if start <? 0 then (if start + len <? 0 then 0 else start + len) else start)
                else start in
  let stop1 := if (start <? 0) || (stop <? 0) then (if stop <? 0 then stop + len else stop) else stop in
  if stop1 <=? start1 then None else Some (start1, stop1 - start1).

(* Python: (offset, length) of l[start:stop], None when empty *)
Definition py_slice_range (len start stop : Z) : option (Z * Z) :=
  let '(s, e) := py_slice_adjust len start stop in
  if e <=? s then None else Some (s, e - s).

(* ------------------------------------------------------------------------------------------ *)
(* 4. abs() on signed C integers of width w (abs/labs/llabs; narrower types are promoted to int)  *)

Definition pyx_abs_c (w : Z) (overflowcheck : bool) (x : Z) : res Z :=
  let w' := if w <? 32 then 32 else w in
  if x =? min_int w' true then (if overflowcheck then Raise OverflowError else UB)
  else Ok (if x <? 0 then - x else x).

(* Python: abs(x) delivered in the C result type: OverflowError when it does not fit *)
Definition py_abs_c (w : Z) (x : Z) : res Z :=
  let w' := if w <? 32 then 32 else w in
  if in_rangeb w' true (Z.abs x) then Ok (Z.abs x) else Raise OverflowError.

(* ------------------------------------------------------------------------------------------ *)
(* 5. ord() / chr()                                                                             *)

Inductive pyobj := OStr (cps : list Z) | OBytes (bs : list Z) | OByteArray (bs : list Z) | OOther.

(* __Pyx_PyObject_Ord; fixed = false: the tree (__Pyx_PyUnicode_AsPy_UCS4 raises ValueError) *)
Definition pyx_ord (fixed : bool) (o : pyobj) : res Z :=
  match o with
  | OStr [c] => Ok c
  | OStr _ => Raise (if fixed then TypeError else ValueError)
  | OBytes [b] => Ok b
  | OBytes _ => Raise TypeError
  | OByteArray [b] => Ok b
  | OByteArray _ => Raise TypeError
  | OOther => Raise TypeError
  end.

Definition seq_of (o : pyobj) : option (list Z) :=
  match o with OStr l => Some l | OBytes l => Some l | OByteArray l => Some l | OOther => None end.
(* Python: ord(c): c must be a str/bytes/bytearray of length 1, else TypeError *)
Definition py_ord (o : pyobj) : res Z :=
  match seq_of o with
  | Some l => if zlen l =? 1 then Ok (nth 0 l 0) else Raise TypeError
  | None => Raise TypeError
  end.

(* chr(v): argument converted to C int, then PyUnicode_FromOrdinal's range check *)
Definition pyx_chr (v : Z) : res Z :=
  if in_rangeb 32 true v then
    (if (v <? 0) || (1114111 <? v) then Raise ValueError else Ok v)
  else Raise OverflowError.
(* Python: chr(i): OverflowError outside C int, ValueError outside range(0x110000) *)
Definition py_chr (v : Z) : res Z :=
  if (v <? -2147483648) || (2147483647 <? v) then Raise OverflowError
  else if (0 <=? v) && (v <? 1114112) then Ok v else Raise ValueError.

(* ------------------------------------------------------------------------------------------ *)
(* 6. dict.get / dict.pop / dict.setdefault                                                     *)

Inductive key := KInt (k : Z) | KUnhashable.
Definition dict := list (Z * Z).

Fixpoint lookup (d : dict) (k : Z) : option Z :=
  match d with [] => None | (k', v) :: r => if k' =? k then Some v else lookup r k end.
Fixpoint remove (d : dict) (k : Z) : dict :=
  match d with [] => [] | (k', v) :: r => if k' =? k then remove r k else (k', v) :: remove r k end.

(* documented contracts of the C-API functions used *)
Definition PyDict_GetItemWithError (d : dict) (k : key) : res (option Z) :=
  match k with KUnhashable => Raise TypeError | KInt z => Ok (lookup d z) end.
Definition PyDict_Pop_313 (d : dict) (k : key) : res (option Z * dict) :=   (* 3.13: PyDict_Pop *)
  match k with
  | KUnhashable => match d with [] => Ok (None, d) | _ => Raise TypeError end   (* empty dict: key not hashed *)
  | KInt z => match lookup d z with Some v => Ok (Some v, remove d z) | None => Ok (None, d) end
  end.
Definition PyDict_SetDefault (d : dict) (k : key) (dflt : Z) : res (Z * dict) :=
  match k with
  | KUnhashable => Raise TypeError
  | KInt z => match lookup d z with Some v => Ok (v, d) | None => Ok (dflt, d ++ [(z, dflt)]) end
  end.

(* Python semantics, written from the language reference *)
Definition py_dict_get (d : dict) (k : key) (dflt : Z) : res Z :=
  match k with
  | KUnhashable => Raise TypeError
  | KInt z => Ok (match lookup d z with Some v => v | None => dflt end)
  end.
Definition py_dict_pop (d : dict) (k : key) (dflt : option Z) : res (Z * dict) :=
  match k with
  | KUnhashable =>      (* CPython answers for an empty dict before hashing the key *)
      match d, dflt with [], Some x => Ok (x, d) | [], None => Raise KeyError | _, _ => Raise TypeError end
  | KInt z => match lookup d z, dflt with
              | Some v, _ => Ok (v, remove d z)
              | None, Some x => Ok (x, d)
              | None, None => Raise KeyError
              end
  end.
Definition py_dict_setdefault (d : dict) (k : key) (dflt : Z) : res (Z * dict) :=
  match k with
  | KUnhashable => Raise TypeError
  | KInt z => match lookup d z with Some v => Ok (v, d) | None => Ok (dflt, d ++ [(z, dflt)]) end
  end.

(* __Pyx_PyDict_GetItemDefault *)
Definition pyx_dict_get (d : dict) (k : key) (dflt : Z) : res Z :=
  match PyDict_GetItemWithError d k with
  | Ok (Some v) => Ok v
  | Ok None => Ok dflt              (* NULL without error *)
  | Raise e => Raise e
  | UB => UB
  end.
(* __Pyx_PyDict_Pop, the PyDict_Pop (>= 3.13) branch; the 3.12 branch forwards to _PyDict_Pop *)
Definition pyx_dict_pop_313 (d : dict) (k : key) (dflt : option Z) : res (Z * dict) :=
  match PyDict_Pop_313 d k with
  | Ok (Some v, d') => Ok (v, d')
  | Ok (None, d') => match dflt with Some x => Ok (x, d') | None => Raise KeyError end
  | Raise e => Raise e
  | UB => UB
  end.
(* __Pyx_PyDict_Pop_ignore (statement d.pop(k, default)): pops with default None, drops the value *)
Definition pyx_dict_pop_ignore (d : dict) (k : key) : res dict :=
  match py_dict_pop d k (Some 0) with Ok (_, d') => Ok d' | Raise e => Raise e | UB => UB end.
Definition pyx_dict_setdefault (d : dict) (k : key) (dflt : Z) : res (Z * dict) :=
  PyDict_SetDefault d k dflt.

(* ------------------------------------------------------------------------------------------ *)
(* 7. min / max unrolling (EarlyReplaceBuiltinCalls._optimise_min_max)                           *)

Inductive expr :=
| EArg (i : nat)                        (* i-th argument (already a value: simple operand) *)
| ERef (r : nat)                        (* ResultRefNode *)
| ECond (a b : expr) (t f : expr)       (* t if a OP b else f *)
| ELet (r : nat) (e body : expr).       (* EvalWithTempExprNode(r := e, body) *)

(* cascaded_nodes = refs 1..m for args[1:]; the result ref of step i is numbered m + i *)
Fixpoint build_chain (is : list nat) (m : nat) (last : expr) : expr :=
  match is with
  | [] => last
  | i :: r => build_chain r m
                (ELet (m + i) last (ECond (ERef i) (ERef (m + i)) (ERef i) (ERef (m + i))))
  end.
Fixpoint wrap_lets (is : list nat) (body : expr) : expr :=
  match is with [] => body | i :: r => ELet i (EArg i) (wrap_lets r body) end.
Definition build_minmax (m : nat) : expr :=
  wrap_lets (seq 1 m) (build_chain (seq 1 m) m (EArg 0)).

Definition trace := list (Z * Z).

Section MinMax.
Variable cmp : Z -> Z -> option bool.   (* a OP b: None = the comparison raises *)
Variable args : nat -> Z.

Definition upd (env : nat -> Z) (r : nat) (v : Z) : nat -> Z :=
  fun x => if Nat.eqb x r then v else env x.

Fixpoint eval (e : expr) (env : nat -> Z) : res Z * trace :=
  match e with
  | EArg i => (Ok (args i), [])
  | ERef r => (Ok (env r), [])
  | ELet r e1 b =>
      match eval e1 env with
      | (Ok v, t1) => let '(o, t2) := eval b (upd env r v) in (o, t1 ++ t2)
      | (o, t1) => (o, t1)
      end
  | ECond a b t f =>
      match eval a env with
      | (Ok va, t1) =>
          match eval b env with
          | (Ok vb, t2) =>
              match cmp va vb with
              | None => (Raise CmpError, t1 ++ t2 ++ [(va, vb)])
              | Some c => let '(o, t3) := eval (if c then t else f) env in
                          (o, t1 ++ t2 ++ (va, vb) :: t3)
              end
          | (o, t2) => (o, t1 ++ t2)
          end
      | (o, t1) => (o, t1)
      end
  end.

(* Python's min/max: left-to-right scan; item OP current decides; ties keep the first *)
Fixpoint py_scan (cur : Z) (rest : list Z) : res Z * trace :=
  match rest with
  | [] => (Ok cur, [])
  | x :: r => match cmp x cur with
              | None => (Raise CmpError, [(x, cur)])
              | Some c => let '(o, t) := py_scan (if c then x else cur) r in (o, (x, cur) :: t)
              end
  end.
End MinMax.

(* list-argument form for extraction: xs = x0 :: rest *)
Definition nth_arg (xs : list Z) (i : nat) : Z := nth i xs 0.
Definition pyx_minmax (cmp : Z -> Z -> option bool) (xs : list Z) : res Z * trace :=
  eval cmp (nth_arg xs) (build_minmax (length xs - 1)) (fun _ => 0).
Definition py_minmax (cmp : Z -> Z -> option bool) (xs : list Z) : res Z * trace :=
  match xs with [] => (Raise ValueError, []) | x :: r => py_scan cmp x r end.

(* ------------------------------------------------------------------------------------------ *)
(* 8. any / all over a single-loop generator expression with an optional filter                  *)

Section AnyAll.
Variable filt : Z -> option bool.       (* the 'if' clause on an item: None = raises *)
Variable pred : Z -> option bool.       (* truth value of the yielded expression: None = raises *)

(* inlined loop: for x in xs: if filt(x): if pred(x) [not pred(x)]: return is_any   else: return not is_any
   result paired with the list of items whose predicate was evaluated *)
Fixpoint pyx_anyall (is_any : bool) (xs : list Z) : res bool * list Z :=
  match xs with
  | [] => (Ok (negb is_any), [])
  | x :: r =>
      match filt x with
      | None => (Raise CmpError, [])
      | Some false => pyx_anyall is_any r
      | Some true =>
          match pred x with
          | None => (Raise CmpError, [x])
          | Some b => if Bool.eqb b is_any then (Ok is_any, [x])
                      else let '(o, t) := pyx_anyall is_any r in (o, x :: t)
          end
      end
  end.

(* Python: the generator yields lazily; any()/all() stop at the first deciding (or raising) item.
   item_outcome x: None = skipped by the filter *)
Definition item_outcome (x : Z) : option (res bool) :=
  match filt x with
  | None => Some (Raise CmpError)
  | Some false => None
  | Some true => match pred x with None => Some (Raise CmpError) | Some b => Some (Ok b) end
  end.
Definition decides (is_any : bool) (x : Z) : bool :=
  match item_outcome x with
  | None => false
  | Some (Ok b) => Bool.eqb b is_any
  | Some _ => true
  end.
Fixpoint take_until {A} (p : A -> bool) (l : list A) : list A :=   (* up to and including the first hit *)
  match l with [] => [] | x :: r => if p x then [x] else x :: take_until p r end.
Definition pred_evaluated (x : Z) : bool :=
  match filt x with Some true => true | _ => false end.
Definition py_anyall (is_any : bool) (xs : list Z) : res bool * list Z :=
  let seen := take_until (decides is_any) xs in
  (match find (decides is_any) xs with
   | None => Ok (negb is_any)
   | Some x => match item_outcome x with Some (Ok _) => Ok is_any | Some o => o | None => UB end
   end,
   filter pred_evaluated seen).
End AnyAll.
