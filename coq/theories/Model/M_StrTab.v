(* C10, large string tables: the storage forms of the module string table seen from the table.

   The LZSS codec itself is C12 (Model/M_LZSS.v: compress = Cython/LZSS.py, dec / decompress_string =
   Cython/Utility/StringTools.c); the index/length bookkeeping is Model/M_StrLit.v (gen_table,
   unpack_table).  This file adds what lies between the two:
   * ref_fields: the field decoding of ONE back reference exactly as the C decompressor reads it
     (2-byte form with 7-bit end offset + 8-bit length, 2-byte form with 2+7-bit end offset + 5-bit
     length, 3-byte form with 7+7-bit end offset + 8-bit length), as a function of its own, so that
     "every bit of the offset and length fields is significant" can be stated;
   * form_of: which form LZSS.py picks for (end offset, length) - the thresholds the generator of
     props/C10.py places its tables around (127|128, 639|640, length 34|35, 16511|16512);
   * lzss_unpack: what module init does with an LZSS-stored table: decompress, then split by the
     length index;  none_unpack / the other branches are M_StrLit.init_data. *)
From Coq Require Import NArith ZArith List Bool.
From CyVerif Require Import Lib.CInt Model.M_LZSS Model.M_StrLit.
Import ListNotations.
Open Scope Z_scope.

Inductive rform := F7 | F9 | F14.

Definition rform_len (f : rform) : Z := match f with F14 => 3 | _ => 2 end.

(* uint32_t lo = src[pos++], hi = src[pos++]; ... the three branches; result: form, end offset of
   the last occurrence, match length after "match_length += 3", remaining source *)
Definition ref_fields (src : list Z) : option (rform * Z * Z * list Z) :=
  match src with
  | lo :: hi :: r =>
      if Z.land lo 128 =? 0 then Some (F7, lo, hi + 3, r)
      else if Z.land hi 128 =? 0 then
        Some (F9, 128 + Z.lor (Z.land (Z.shiftl hi 2) 384) (Z.land lo 127), Z.land hi 31 + 3, r)
      else
        match r with
        | l3 :: r' => Some (F14, 128 + Z.lor (Z.shiftl (Z.land hi 127) 7) (Z.land lo 127), l3 + 3, r')
        | [] => None
        end
  | _ => None
  end.

(* the if/elif cascade of LZSS.py on (end offset = offset - length, length) *)
Definition form_of (eo len : Z) : option rform :=
  if (len <? 3) || (eo <? 0) then None
  else if eo <=? 127 then Some F7
  else if (len - 3 <? 32) && (eo - 128 <? 512) then Some F9
  else if (len >? 3) && (eo - 128 <? 16384) then Some F14
  else None.

(* module init on the lzss branch: __Pyx_DecompressString_LZSS(cstring, len(c), len(data)) and the
   two unpacking loops *)
Definition lzss_unpack (t : table) (c : list N) : option (list (list N) * list (list N)) :=
  match M_LZSS.decompress_string (map Z.of_N c) (Z.of_N (nlen c)) (Z.of_N (nlen (t_data t))) with
  | M_LZSS.SOk out => unpack_table t (map Z.to_N out)
  | _ => None
  end.

(* the back references of a token stream: (form, end offset, length) - used by the check to measure
   which decoder branches and which offset/length bits a generated table exercises *)
Fixpoint refs_of (toks : list token) : list (Z * Z * Z) :=
  match toks with
  | [] => []
  | TLit _ :: r => refs_of r
  | TRef eo len bs :: r => (Z.of_nat (length bs), eo, len) :: refs_of r
  end.
