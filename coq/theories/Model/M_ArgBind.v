(* Model of argument binding of compiled def functions:
   Cython/Compiler/Nodes.py DefNodeWrapper.generate_argument_parsing_code
     (generate_stararg_copy_code, generate_tuple_and_keyword_parsing_code,
      generate_posargs_unpacking_code, generate_keyword_unpacking_code, the required-argument
      loops and the keyword-less switch),
   Cython/Utility/FunctionArguments.c ParseKeywords / ParseKeywordsImpl
     (__Pyx_ParseKeywordsTuple, __Pyx_ParseKeywordDict, __Pyx_ParseKeywordDictToDict,
      __Pyx_MatchKeywordArg_str/_nostr, __Pyx_ValidateDuplicatePosArgs, __Pyx_RejectUnknownKeyword,
      __Pyx_RejectKeywords, __Pyx_CheckKeywordStrings),
   Cython/Utility/CythonFunction.c METH_NOARGS entry points,
   and of CPython's own binding algorithm (Python/ceval.c initialize_locals, 3.12) = [bind_py].

   Names are natural numbers (string contents).  A keyword key carries its content and a kind:
   interned exact str (pointer-identical to the parameter name object), runtime-built exact str
   (equal, not identical), str subclass instance (equal through tp_richcompare, default __eq__/__hash__),
   non-str object (never equal to a name).  Values are an abstract type V. *)
From Coq Require Import List Bool Arith PeanoNat.
Import ListNotations.

Inductive kkind := KInterned | KEqual | KSub | KNonStr.
Record key := mkKey { k_name : nat; k_kind : kkind }.
Record param := mkParam { p_name : nat; p_def : bool }.

Record sig := mkSig {
  s_posonly : list param;       (* a, b=1, /            *)
  s_poskw : list param;         (* c, d=2               *)
  s_star : bool;                (* *args                *)
  s_kwonly : list param;        (* k, l=3  (declaration order) *)
  s_starstar : bool;            (* **kwargs             *)
  s_kwused : bool               (* the body reads kwargs (entry.cf_used); otherwise the C variable stays NULL *)
}.

Record call (V : Type) := mkCall { c_pos : list V; c_kws : list (key * V) }.
Arguments mkCall {V}. Arguments c_pos {V}. Arguments c_kws {V}.

(* calling convention the wrapper was compiled for: kwnames tuple + value array (METH_FASTCALL|METH_KEYWORDS
   under vectorcall), kwds dict (METH_VARARGS|METH_KEYWORDS, tp_init/tp_call slots), or METH_NOARGS
   (module-level functions and Python-class methods without any parameter) *)
Inductive path := PTuple | PDict | PNoArgs | PMethO.   (* PMethO: METH_O, a single positional-only parameter *)

Inductive ekind :=
  | EArgTuple | EMultiple | EUnexpected | ENonStr | EKwRequired | ENoArgs     (* raised by the generated code *)
  | ETooMany | EMissingPos | EMissingKw                                         (* CPython's *)
  | EImpossible.   (* __Pyx_RejectUnknownKeyword found nothing to reject: assert(PyErr_Occurred()) *)

Inductive arg (V : Type) := Given (v : V) | Default | Unbound.
Arguments Given {V}. Arguments Default {V}. Arguments Unbound {V}.

Inductive outcome (V : Type) :=
  | Bound (ps : list (nat * arg V)) (star : option (list V)) (kw : option (list (key * V)))
  | TypeErr (e : ekind).
Arguments Bound {V}. Arguments TypeErr {V}.

(* what the property observes: bound values, or the exception class *)
Inductive obs (V : Type) :=
  | OBound (ps : list (nat * arg V)) (star : option (list V)) (kw : option (list (key * V)))
  | OTypeError
  | OBroken.
Arguments OBound {V}. Arguments OTypeError {V}. Arguments OBroken {V}.

Definition erase {V} (s : sig) (o : outcome V) : obs V :=
  match o with
  | Bound ps st kw => OBound ps st (if s_starstar s && negb (s_kwused s) then None else kw)
  | TypeErr EImpossible => OBroken
  | TypeErr _ => OTypeError
  end.

(* ---------- keys ---------- *)
Definition is_str (k : key) : bool := match k_kind k with KNonStr => false | _ => true end.
Definition is_exact (k : key) : bool := match k_kind k with KInterned | KEqual => true | _ => false end.
(* pointer identity with the interned parameter name *)
Definition key_is (k : key) (n : nat) : bool :=
  match k_kind k with KInterned => k_name k =? n | _ => false end.
(* string equality: hash + memcmp for exact str, PyObject_RichCompareBool(Py_EQ) for subclasses,
   dict lookup with an interned name *)
Definition key_eq (k : key) (n : nat) : bool := is_str k && (k_name k =? n).
(* two keys are the same dict key *)
Definition key_same (a b : key) : bool := Bool.eqb (is_str a) (is_str b) && (k_name a =? k_name b).

(* ---------- dict (insertion ordered association list) ---------- *)
Fixpoint dict_set {V} (k : key) (v : V) (d : list (key * V)) : list (key * V) :=
  match d with
  | [] => [(k, v)]
  | (k', v') :: r => if key_same k' k then (k', v) :: r else (k', v') :: dict_set k v r
  end.
Fixpoint dict_get {V} (n : nat) (d : list (key * V)) : option V :=
  match d with
  | [] => None
  | (k, v) :: r => if key_eq k n then Some v else dict_get n r
  end.
Fixpoint dict_del {V} (n : nat) (d : list (key * V)) : list (key * V) :=
  match d with
  | [] => []
  | (k, v) :: r => if key_eq k n then r else (k, v) :: dict_del n r
  end.
Definition dict_update {V} (d src : list (key * V)) : list (key * V) :=
  fold_left (fun acc kv => dict_set (fst kv) (snd kv) acc) src d.

(* ---------- arrays ---------- *)
Fixpoint upd {A} (i : nat) (x : A) (l : list A) : list A :=
  match l, i with
  | [], _ => []
  | _ :: t, 0 => x :: t
  | h :: t, S j => h :: upd j x t
  end.
Fixpoint find_idx {A} (f : A -> bool) (l : list A) : option nat :=
  match l with
  | [] => None
  | x :: r => if f x then Some 0 else option_map S (find_idx f r)
  end.
(* search l[first..], result is an index into l *)
Definition find_from {A} (f : A -> bool) (first : nat) (l : list A) : option nat :=
  option_map (Nat.add first) (find_idx f (skipn first l)).
(* values[0..k) = args[0..k), the rest NULL; n = array size *)
Definition fill_pos {V} (n k : nat) (pos : list V) : list (option V) :=
  map Some (firstn k pos) ++ repeat None (n - k).
Definition nonstr_in {V} (kws : list (key * V)) : bool := existsb (fun kv => negb (is_str (fst kv))) kws.

(* ---------- derived signature data (generate_tuple_and_keyword_parsing_code) ---------- *)
Definition required (l : list param) := filter (fun p => negb (p_def p)) l.
Definition optional (l : list param) := filter p_def l.
Definition positional_args (s : sig) := s_posonly s ++ s_poskw s.
Definition kw_only_args (s : sig) := required (s_kwonly s) ++ optional (s_kwonly s).   (* required first *)
Definition all_args (s : sig) := positional_args s ++ kw_only_args s.
Definition declared (s : sig) := s_posonly s ++ s_poskw s ++ s_kwonly s.
Definition npo (s : sig) := length (s_posonly s).
Definition maxpos (s : sig) := length (positional_args s).
Definition minpos (s : sig) := length (required (positional_args s)).
Definition nreq_posonly (s : sig) := length (required (s_posonly s)).
Definition nreq_kw (s : sig) := length (required (s_kwonly s)).
Definition argnames (s : sig) := map p_name (s_poskw s ++ kw_only_args s).   (* __pyx_pyargnames *)
Definition accept_kwd_args (s : sig) := negb (length (argnames s) =? 0) || s_starstar s.

(* ---------- FunctionArguments.c ---------- *)
Inductive mres := MFound (i : nat) | MNone | MBad (e : ekind).

Definition match_scan (k : key) (names : list nat) (first : nat) : mres :=
  match find_from (key_eq k) first names with
  | Some i => MFound i
  | None => if existsb (key_eq k) (firstn first names) then MBad EMultiple else MNone
  end.

(* __Pyx_MatchKeywordArg: _str for exact str keys, _nostr otherwise *)
Definition match_kw (k : key) (names : list nat) (first : nat) : mres :=
  if is_exact k then match_scan k names first
  else if negb (is_str k) then MBad ENonStr
  else match_scan k names first.

Definition pstate (V : Type) := (list (option V) * option (list (key * V)))%type.

(* __Pyx_ParseKeywordsTuple *)
Fixpoint parse_tuple {V} (kws : list (key * V)) (names : list nat) (first off : nat) (ignore : bool)
         (values : list (option V)) (kwds2 : option (list (key * V))) : ekind + pstate V :=
  match kws with
  | [] => inr (values, kwds2)
  | (k, v) :: rest =>
    match find_from (key_is k) first names with
    | Some i => parse_tuple rest names first off ignore (upd (off + i) (Some v) values) kwds2
    | None =>
      match match_kw k names first with
      | MFound i => parse_tuple rest names first off ignore (upd (off + i) (Some v) values) kwds2
      | MBad e => inl e
      | MNone =>
        match kwds2 with
        | Some d => parse_tuple rest names first off ignore values (Some (dict_set k v d))
        | None => if ignore then parse_tuple rest names first off ignore values None
                  else inl EUnexpected
        end
      end
    end
  end.

(* __Pyx_ValidateDuplicatePosArgs: PyDict_Contains(kwds, name) for every positionally filled name *)
Definition validate_dup {V} (kws : list (key * V)) (names : list nat) (first : nat) : bool :=
  existsb (fun n => match dict_get n kws with Some _ => true | None => false end) (firstn first names).

(* __Pyx_RejectUnknownKeyword *)
Fixpoint reject_unknown {V} (kws : list (key * V)) (names : list nat) (first : nat) : ekind :=
  match kws with
  | [] => EImpossible
  | (k, _) :: rest =>
    match find_from (key_is k) first names with
    | Some _ => reject_unknown rest names first
    | None => match match_kw k names first with
              | MFound _ => reject_unknown rest names first
              | MNone => EUnexpected
              | MBad e => e
              end
    end
  end.

(* the extraction loop of __Pyx_ParseKeywordDict: names = argnames[idx..] *)
Fixpoint dict_extract {V} (kwds : list (key * V)) (nkw : nat) (names : list nat) (idx off extracted : nat)
         (values : list (option V)) : list (option V) * nat :=
  match names with
  | [] => (values, extracted)
  | n :: ns =>
    if extracted <? nkw then
      match dict_get n kwds with
      | Some v => dict_extract kwds nkw ns (S idx) off (S extracted) (upd (off + idx) (Some v) values)
      | None => dict_extract kwds nkw ns (S idx) off extracted values
      end
    else (values, extracted)
  end.

(* __Pyx_ParseKeywordDict (kwds2 == NULL) *)
Definition parse_dict {V} (kws : list (key * V)) (names : list nat) (first off : nat) (ignore : bool)
           (values : list (option V)) : ekind + pstate V :=
  if nonstr_in kws then inl ENonStr      (* PyArg_ValidateKeywordArguments *)
  else
    let '(values', extracted) := dict_extract kws (length kws) (skipn first names) first off 0 values in
    if extracted <? length kws then
      if ignore then (if validate_dup kws names first then inl EMultiple else inr (values', None))
      else inl (reject_unknown kws names first)
    else inr (values', None).

(* the pop loop of __Pyx_ParseKeywordDictToDict *)
Fixpoint dict_pop_all {V} (names : list nat) (idx off : nat) (values : list (option V))
         (d : list (key * V)) : list (option V) * list (key * V) :=
  match names with
  | [] => (values, d)
  | n :: ns =>
    match dict_get n d with
    | Some v => dict_pop_all ns (S idx) off (upd (off + idx) (Some v) values) (dict_del n d)
    | None => dict_pop_all ns (S idx) off values d
    end
  end.

(* __Pyx_ParseKeywordDictToDict *)
Definition parse_dict2dict {V} (kws : list (key * V)) (names : list nat) (first off : nat)
           (values : list (option V)) (d0 : list (key * V)) : ekind + pstate V :=
  if nonstr_in kws then inl ENonStr
  else
    let d1 := dict_update d0 kws in
    let '(values', d2) := dict_pop_all (skipn first names) first off values d1 in
    if 0 <? length d2 then
      (if validate_dup kws names first then inl EMultiple else inr (values', Some d2))
    else inr (values', Some d2).

(* __Pyx_ParseKeywords *)
Definition parse_keywords {V} (pth : path) (kws : list (key * V)) (names : list nat) (first off : nat)
           (ignore : bool) (values : list (option V)) (kwds2 : option (list (key * V))) : ekind + pstate V :=
  match pth with
  | PDict => match kwds2 with
             | Some d => parse_dict2dict kws names first off values d
             | None => parse_dict kws names first off ignore values
             end
  | _ => parse_tuple kws names first off ignore values kwds2
  end.

(* __Pyx_RejectKeywords *)
Definition reject_keywords {V} (pth : path) (kws : list (key * V)) : ekind :=
  match pth with
  | PDict => if nonstr_in kws then ENonStr else EUnexpected
  | _ => EUnexpected
  end.

(* ---------- the generated wrapper ---------- *)
Definition assoc {A} (n : nat) (l : list (nat * A)) : option A :=
  option_map snd (find (fun x => fst x =? n) l).

Definition to_arg {V} (p : param) (o : option (option V)) : arg V :=
  match o with
  | Some (Some v) => Given v
  | _ => if p_def p then Default else Unbound
  end.

(* generate_arg_assignment for every entry of all_args, reported in declaration order *)
Definition readout_cy {V} (s : sig) (values : list (option V)) : list (nat * arg V) :=
  let tbl := combine (map p_name (all_args s)) values in
  map (fun p => (p_name p, to_arg p (assoc (p_name p) tbl))) (declared s).

Definition none_in {V} (values : list (option V)) (lo hi : nat) : bool :=
  existsb (fun i => match nth i values None with None => true | Some _ => false end) (seq lo (hi - lo)).

(* generate_posargs_unpacking_code: the switch in the keyword branch; None = goto argtuple_error *)
Definition posargs_kw {V} (s : sig) (pos : list V) : option (list (option V)) :=
  let nargs := length pos in
  let n := length (all_args s) in
  if maxpos s <? nargs then (if s_star s then Some (fill_pos n (maxpos s) pos) else None)
  else if nargs <? nreq_posonly s then None
  else Some (fill_pos n nargs pos).

(* the keyword-less branch *)
Definition bind_nokw {V} (s : sig) (pos : list V) (star : option (list V)) (kw0 : option (list (key * V))) : outcome V :=
  let nargs := length pos in
  let n := length (all_args s) in
  let mn := minpos s in let mx := maxpos s in
  if (((0 <? nreq_kw s) && (0 <? mn)) || (mn =? mx))
       && (if (mn =? mx) && negb (s_star s) then negb (nargs =? mn) else nargs <? mn)
  then TypeErr EArgTuple
  else if 0 <? nreq_kw s then
    (if (mn <? mx) && negb (s_star s) && (mx <? nargs) then TypeErr EArgTuple else TypeErr EKwRequired)
  else if mn =? mx then Bound (readout_cy s (fill_pos n mx pos)) star kw0
  else if mx <? nargs then
    (if s_star s then Bound (readout_cy s (fill_pos n mx pos)) star kw0 else TypeErr EArgTuple)
  else if nargs <? mn then TypeErr EArgTuple
  else Bound (readout_cy s (fill_pos n nargs pos)) star kw0.

Definition bind_generic {V} (pth : path) (s : sig) (c : call V) : outcome V :=
  let pos := c_pos c in let kws := c_kws c in
  let nargs := length pos in
  (* generate_stararg_init_code *)
  let kw0 := if s_starstar s && s_kwused s then Some [] else None in
  let star := if s_star s then Some (skipn (maxpos s) pos) else None in
  if 0 <? length kws then
    if negb (accept_kwd_args s) then TypeErr (reject_keywords pth kws)
    else
      match posargs_kw s pos with
      | None => TypeErr EArgTuple
      | Some values =>
        (* generate_keyword_unpacking_code *)
        let kwd_pos_args := if 0 <? npo s then nargs - npo s else nargs in
        let first := if maxpos s =? 0 then 0
                     else if s_star s then Nat.min kwd_pos_args (maxpos s - npo s)
                     else kwd_pos_args in
        let off := if (0 <? npo s) && (npo s <? length (all_args s)) then npo s else 0 in
        match parse_keywords pth kws (argnames s) first off (s_starstar s) values kw0 with
        | inl e => TypeErr e
        | inr (values', kwds2) =>
          if (nreq_posonly s <? minpos s) && none_in values' nargs (minpos s) then TypeErr EArgTuple
          else if none_in values' (maxpos s) (maxpos s + nreq_kw s) then TypeErr EKwRequired
          else Bound (readout_cy s values') star kwds2
        end
      end
  else bind_nokw s pos star kw0.

(* generate_stararg_copy_code: only star-args and/or star-star-kwargs parameters *)
Definition bind_starcopy {V} (pth : path) (s : sig) (c : call V) : outcome V :=
  let pos := c_pos c in let kws := c_kws c in
  if negb (s_star s) && (0 <? length pos) then TypeErr EArgTuple
  else
    let star := if s_star s then Some pos else None in
    if s_starstar s then
      if 0 <? length kws then
        (* __Pyx_CheckKeywordStrings: a kwnames tuple is trusted *)
        if (match pth with PDict => nonstr_in kws | _ => false end) then TypeErr ENonStr
        else Bound [] star
               (if s_kwused s then
                  Some (match pth with PDict => kws (* PyDict_Copy *) | _ => dict_update [] kws end)
                else None)
      else Bound [] star (if s_kwused s then Some [] else None)
    else if 0 <? length kws then TypeErr (reject_keywords pth kws)
    else Bound [] star None.

(* METH_NOARGS: __Pyx_CyFunction_Vectorcall_NOARGS / __Pyx_CyFunction_CallMethod *)
Definition bind_noargs {V} (c : call V) : outcome V :=
  if 0 <? length (c_kws c) then TypeErr ENoArgs
  else if 0 <? length (c_pos c) then TypeErr ENoArgs
  else Bound [] None None.

(* METH_O: __Pyx_CyFunction_Vectorcall_O / __Pyx_CyFunction_CallMethod; the wrapper receives the object *)
Definition bind_metho {V} (s : sig) (c : call V) : outcome V :=
  if 0 <? length (c_kws c) then TypeErr ENoArgs
  else match c_pos c with
       | [v] => Bound (map (fun p => (p_name p, Given v)) (declared s)) None None
       | _ => TypeErr EArgTuple
       end.

(* generate_argument_parsing_code *)
Definition bind_cy {V} (pth : path) (s : sig) (c : call V) : outcome V :=
  match pth with
  | PNoArgs => bind_noargs c       (* not signature_has_generic_args *)
  | PMethO => bind_metho s c
  | _ => if length (all_args s) =? 0 then bind_starcopy pth s c    (* not signature_has_nongeneric_args *)
         else bind_generic pth s c
  end.

(* ---------- CPython: Python/ceval.c initialize_locals ---------- *)
Fixpoint py_kw {V} (kws : list (key * V)) (names : list nat) (npo : nat)
         (slots : list (option V)) (kwdict : option (list (key * V))) : ekind + pstate V :=
  match kws with
  | [] => inr (slots, kwdict)
  | (k, v) :: rest =>
    if negb (is_str k) then inl ENonStr
    else
      let found := match find_from (key_is k) npo names with
                   | Some j => Some j
                   | None => find_from (key_eq k) npo names
                   end in
      match found with
      | Some j => match nth j slots None with
                  | Some _ => inl EMultiple
                  | None => py_kw rest names npo (upd j (Some v) slots) kwdict
                  end
      | None => match kwdict with
                | None => inl EUnexpected      (* incl. positional-only passed as keyword *)
                | Some d => py_kw rest names npo slots (Some (dict_set k v d))
                end
      end
  end.

Definition readout_py {V} (ps : list param) (slots : list (option V)) : list (nat * arg V) :=
  map (fun ip => (p_name (snd ip), to_arg (snd ip) (Some (nth (fst ip) slots None))))
      (combine (seq 0 (length ps)) ps).

(* for (i = co_argcount; i < total_args; i++): no value and no kwdefaults entry *)
Definition missing_kwonly {V} (co_argcount : nat) (kwonly : list param) (slots : list (option V)) : bool :=
  existsb (fun ip => negb (p_def (snd ip)) && match nth (fst ip) slots None with None => true | Some _ => false end)
          (combine (seq co_argcount (length kwonly)) kwonly).

Definition bind_py {V} (s : sig) (c : call V) : outcome V :=
  let pos := c_pos c in let kws := c_kws c in
  let argcount := length pos in
  let ps := declared s in
  let co_argcount := maxpos s in
  let total := length ps in
  let n := Nat.min argcount co_argcount in
  let slots := fill_pos total n pos in
  let star := if s_star s then Some (skipn n pos) else None in
  let kwdict := if s_starstar s then Some [] else None in
  match py_kw kws (map p_name ps) (npo s) slots kwdict with
  | inl e => TypeErr e
  | inr (slots', kwdict') =>
    if (co_argcount <? argcount) && negb (s_star s) then TypeErr ETooMany
    else
      let m := co_argcount - length (optional (positional_args s)) in
      if none_in slots' argcount m then TypeErr EMissingPos
      else if missing_kwonly co_argcount (s_kwonly s) slots' then TypeErr EMissingKw
      else Bound (readout_py ps slots') star kwdict'
  end.

(* ---------- well-formedness ---------- *)
(* Python's grammar: parameter names pairwise distinct, defaults trail among positional parameters *)
Fixpoint defaults_trail (l : list param) : bool :=
  match l with
  | [] => true
  | p :: r => (if p_def p then forallb p_def r else true) && defaults_trail r
  end.
Fixpoint nodupb (l : list nat) : bool :=
  match l with [] => true | x :: r => negb (existsb (Nat.eqb x) r) && nodupb r end.
Definition wf_sig (s : sig) : bool :=
  nodupb (map p_name (declared s)) && defaults_trail (positional_args s)
  && (s_starstar s || negb (s_kwused s)).
(* keyword keys pairwise distinct (dict keys / PEP 590 kwnames); a kwnames tuple holds str only *)
Fixpoint keys_nodup {V} (kws : list (key * V)) : bool :=
  match kws with
  | [] => true
  | (k, _) :: r => negb (existsb (fun kv => key_same k (fst kv)) r) && keys_nodup r
  end.
Definition wf_call {V} (pth : path) (c : call V) : bool :=
  keys_nodup (c_kws c) && match pth with PDict => true | _ => negb (nonstr_in (c_kws c)) end.
(* METH_NOARGS is only chosen for a signature without any parameter *)
Definition wf_path (pth : path) (s : sig) : bool :=
  match pth with
  | PNoArgs => (length (declared s) =? 0) && negb (s_star s) && negb (s_starstar s)
  | PMethO => match s_posonly s with [p] => negb (p_def p) | _ => false end
              && (length (s_poskw s ++ s_kwonly s) =? 0) && negb (s_star s) && negb (s_starstar s)
  | _ => true
  end.

(* What CPython's caller does before a callee is entered through the vectorcall protocol (every
   METH_FASTCALL function, every Python function, every type object): _PyStack_UnpackDict / the CALL
   instruction build kwnames from str keys only, otherwise TypeError.  vc = false: the callee is
   entered through tp_call / tp_init with the caller's dict (METH_VARARGS CyFunctions, __call__). *)
Definition call_cy {V} (vc : bool) (pth : path) (s : sig) (c : call V) : outcome V :=
  if vc && nonstr_in (c_kws c) then TypeErr ENonStr else bind_cy pth s c.
Definition call_py {V} (s : sig) (c : call V) : outcome V :=
  if nonstr_in (c_kws c) then TypeErr ENonStr else bind_py s c.
(* a kwnames tuple is only produced by such a caller *)
Definition wf_entry (vc : bool) (pth : path) : bool :=
  match pth with PTuple => vc | _ => true end.
