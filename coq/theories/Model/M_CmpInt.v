(* Model of Cython/Utility/Optimize.c: PyObjectCompare, the part that compares two Python
   ints: __Pyx_PyObject_CompareIntInt{Eq,Ne,Lt,Le,Gt,Ge} (both the PyObject* and the Bool
   instantiation: they differ only in how true/false is returned), the identity shortcut of
   the dispatcher __Pyx_PyObject_Compare<Op>_<t1>_<t2>, and __Pyx_PyLong_CompareSignAndSize
   (Cython/Utility/TypeConversion.c).  Operands are CPython ints as they lie in memory
   (Lib/PyLong.v: sign + little-endian base-2^sh digits).  The C text is followed branch by
   branch; every signed Py_ssize_t subtraction / negation is [sub_ss] (None = signed overflow
   = undefined behaviour), every conversion an explicit [wrap].  Executable definitions only. *)
From Coq Require Import ZArith List Bool.
From CyVerif Require Import Lib.CInt Lib.PyLong.
Import ListNotations.
Open Scope Z_scope.

(* the six instantiations of the template ({{op}} / {{c_op}}) *)
Inductive cop := OpLt | OpLe | OpEq | OpNe | OpGt | OpGe.

(* build configuration *)
Record icfg := ICfg {
  i_sh : Z;             (* PyLong_SHIFT *)
  i_ssz : Z;            (* 8*sizeof(Py_ssize_t) = 8*sizeof(size_t) *)
  i_llong : Z;          (* 8*sizeof(long long) *)
  i_tag312 : bool;      (* PY_VERSION_HEX >= 0x030C00A7: lv_tag layout *)
  i_internals : bool    (* CYTHON_USE_PYLONG_INTERNALS *)
}.

(* the configurations that are run (CPython 3.12, LP64) and the older layouts *)
Definition lp64_312 : icfg := ICfg 30 64 64 true true.
Definition lp64_311 : icfg := ICfg 30 64 64 false true.
Definition lp64_noint : icfg := ICfg 30 64 64 true false.
Definition ilp32_15 : icfg := ICfg 15 32 64 false true.

(* the mathematical meaning of the operators: the property oracle *)
Definition zop (op : cop) (x y : Z) : bool :=
  match op with
  | OpLt => x <? y | OpLe => x <=? y | OpEq => x =? y
  | OpNe => negb (x =? y) | OpGt => y <? x | OpGe => y <=? x
  end.

(* {{return_true if op in 'EqLeGe' else return_false}} *)
Definition in_eqlege (op : cop) : bool :=
  match op with OpEq | OpLe | OpGe => true | _ => false end.

(* the tail of CompareIntInt once cmp <> 0 is known:
     Eq: return false   Ne: return true
     else  if (cmp < 0) {true if op in LeLt else false} else {false if op in LeLt else true} *)
Definition final (op : cop) (cmp : Z) : bool :=
  match op with
  | OpEq => false
  | OpNe => true
  | OpLt | OpLe => cmp <? 0
  | OpGt | OpGe => negb (cmp <? 0)
  end.

(* ---- lv_tag (3.12+): (ndigits << 3) | sign bits; sign bits 0 positive, 1 zero, 2 negative.
        The sign field is below 8 so the or is an addition. ---- *)
Definition signbits (x : pylong) : Z :=
  match pl_digits x with [] => 1 | _ => if pl_neg x then 2 else 0 end.
Definition tag (x : pylong) : Z := 8 * ndigits x + signbits x.
(* Py_SIZE before 3.12 *)
Definition ssize (x : pylong) : Z := if pl_neg x then - ndigits x else ndigits x.

(* __Pyx_PyLong_CompareSignAndSize.  Sizes are bounded by the address space, the products and
   differences of sizes cannot overflow Py_ssize_t: exact integers. *)
Definition css (c : icfg) (a b : pylong) : Z :=
  if i_tag312 c then
    if tag a =? tag b then 0
    else
      let sa := signbits a in let sb := signbits b in
      if sb <? sa then -1
      else if sa <? sb then 1
      else (1 - sa) * (ndigits a - ndigits b)
  else ssize a - ssize b.

(* __Pyx_PyLong_IsNeg *)
Definition is_neg (c : icfg) (x : pylong) : bool :=
  if i_tag312 c then negb (Z.land (signbits x) 2 =? 0) else ssize x <? 0.

(* signed subtraction in a w-bit type *)
Definition sub_ss (w a b : Z) : option Z :=
  if in_rangeb w true (a - b) then Some (a - b) else None.

(* (Py_ssize_t) digits[i] *)
Definition dcast (w : Z) (x : pylong) (i : nat) : Z := wrap w true (digit x i).

(* for (Py_ssize_t i = k-1; i >= 0 && !cmp; --i) cmp = (Py_ssize_t) d1[i] - (Py_ssize_t) d2[i]; *)
Fixpoint digit_loop (w : Z) (a b : pylong) (k : nat) (cmp : Z) : option Z :=
  match k with
  | O => Some cmp
  | S i =>
    if cmp =? 0 then
      match sub_ss w (dcast w a i) (dcast w b i) with
      | Some c => digit_loop w a b i c
      | None => None
      end
    else Some cmp
  end.

(* the block under `if (cmp == 0)`: sign and size are equal, compare the magnitudes *)
Definition digit_cmp (c : icfg) (a b : pylong) : option Z :=
  let w := i_ssz c in
  let size := ndigits a in
  if 0 <? size then
    if size =? 1 then sub_ss w (dcast w a 0) (dcast w b 0)
    else if (size =? 2) && (2 * i_sh c <=? w) then
      (* (Py_ssize_t) pylong_join(2, digits1, size_t) - (Py_ssize_t) pylong_join(2, digits2, size_t) *)
      match join_c w false (i_sh c) 2 a, join_c w false (i_sh c) 2 b with
      | Some ja, Some jb => sub_ss w (wrap w true ja) (wrap w true jb)
      | _, _ => None
      end
    else digit_loop w a b (Z.to_nat size) 0
  else Some 0.

(* PyLong_AsLongLongAndOverflow: (value, overflow) *)
Definition as_llong_ovf (lw : Z) (v : Z) : Z * Z :=
  if in_rangeb lw true v then (v, 0)
  else if v <? 0 then (-1, -1) else (-1, 1).

(* __Pyx_PyObject_CompareIntInt<Op>.  [rich] = PyObject_RichCompare on two ints (contract:
   the comparison of the values); None = undefined behaviour. *)
Definition cmp_intint (c : icfg) (rich : cop -> Z -> Z -> bool) (op : cop) (a b : pylong)
  : option bool :=
  if i_internals c then
    let cmp := css c a b in
    if cmp =? 0 then
      match digit_cmp c a b with
      | None => None
      | Some d =>
        if d =? 0 then Some (in_eqlege op)
        else
          match (if is_neg c a then sub_ss (i_ssz c) 0 d else Some d) with
          | None => None
          | Some d' => Some (final op d')
          end
      end
    else Some (final op cmp)
  else
    let (v1, o1) := as_llong_ovf (i_llong c) (value (i_sh c) a) in
    let (v2, o2) := as_llong_ovf (i_llong c) (value (i_sh c) b) in
    if (o1 =? 0) && (o2 =? 0) then Some (zop op v1 v2)          (* iop1 c_op iop2 *)
    else if negb (o1 =? o2) then Some (zop op o1 o2)             (* overflow1 c_op overflow2 *)
    else Some (rich op (value (i_sh c) a) (value (i_sh c) b)).

(* the dispatcher on two exact ints: `if (op1 == op2) return EqLeGe;` then the helper *)
Definition cmp_exact (c : icfg) (rich : cop -> Z -> Z -> bool) (op : cop) (same : bool)
  (a b : pylong) : option bool :=
  if same then Some (in_eqlege op) else cmp_intint c rich op a b.

(* which branch of the helper decides (coverage accounting of the correspondence run):
   1 sign  2 size  3 zero  4 one digit  5 two digits joined  6 digit loop
   7 long long fast path  8 overflow flags differ  9 rich comparison fallback *)
Definition branch_of (c : icfg) (a b : pylong) : Z :=
  if i_internals c then
    if css c a b =? 0 then
      let size := ndigits a in
      if 0 <? size then
        if size =? 1 then 4
        else if (size =? 2) && (2 * i_sh c <=? i_ssz c) then 5 else 6
      else 3
    else if signbits a =? signbits b then 2 else 1
  else
    let (_, o1) := as_llong_ovf (i_llong c) (value (i_sh c) a) in
    let (_, o2) := as_llong_ovf (i_llong c) (value (i_sh c) b) in
    if (o1 =? 0) && (o2 =? 0) then 7 else if negb (o1 =? o2) then 8 else 9.

(* number of iterations of the digit loop (1 = decided by the top digit, n = the lowest
   digit was read): coverage accounting *)
Fixpoint loop_iters (w : Z) (a b : pylong) (k : nat) (cmp : Z) : Z :=
  match k with
  | O => 0
  | S i => if cmp =? 0 then 1 + loop_iters w a b i (dcast w a i - dcast w b i) else 0
  end.

(* entry points of the correspondence driver: operands given by value *)
Definition cmp_values (c : icfg) (op : cop) (same : bool) (x y : Z) : option bool :=
  cmp_exact c zop op same (of_Z (i_sh c) x) (of_Z (i_sh c) y).
Definition branch_values (c : icfg) (x y : Z) : Z * Z :=
  let a := of_Z (i_sh c) x in let b := of_Z (i_sh c) y in
  (branch_of c a b, loop_iters (i_ssz c) a b (length (pl_digits a)) 0).
Definition digits_values (c : icfg) (x : Z) : list Z := pl_digits (of_Z (i_sh c) x).
