(* C08 -- C double complex arithmetic (Cython/Utility/Complex.c, struct variant used when
   CYTHON_CCOMPLEX=0, and the from_parts constructor of the native C99 variant) against
   CPython 3.12 Objects/complexobject.c.

   Doubles are [spec_float] values with the SpecFloat operations at prec 53 / emax 1024 (see
   M_FloatOps.v); a complex value is a pair of doubles.  The C99 native operators (multiplication and division with
   Annex G recovery, cpow, cabs) belong to the C compiler / libm and are NOT modelled here; libm
   calls of the struct variant (hypot, and the general branch of pow) are a section variable resp.
   an explicit [PowLibm] outcome.  Definitions only. *)
From Coq Require Import ZArith Bool List SpecFloat.
From CyVerif Require Import Model.M_FloatOps.
Import ListNotations.
Open Scope Z_scope.

Record cplx := Cx { re : F; im : F }.

Definition fopp : F -> F := SFopp.
Definition fabs : F -> F := SFabs.
Definition fsqrt : F -> F := SFsqrt dprec demax.
Definition fgeb (x y : F) : bool := fleb y x.             (* C: x >= y (false on NaN) *)
Definition is_inf (x : F) : bool := match x with S754_infinity _ => true | _ => false end.
Definition is_nan (x : F) : bool := match x with S754_nan => true | _ => false end.
Definition is_fin (x : F) : bool :=
  match x with S754_zero _ | S754_finite _ _ _ => true | _ => false end.
(* finite and non-zero *)
Definition is_fnz (x : F) : bool := match x with S754_finite _ _ _ => true | _ => false end.

Definition c_1 : cplx := Cx fone fzero.
Definition f100 : F := S754_finite false 7036874417766400 (-46).

(* ------------------------------------------------------------------------------------------ *)
(* Cython/Utility/Complex.c, "Arithmetic", struct variant                                      *)

Definition c_eq (a b : cplx) : bool := feqb (re a) (re b) && feqb (im a) (im b).
Definition c_sum (a b : cplx) : cplx := Cx (fadd (re a) (re b)) (fadd (im a) (im b)).
Definition c_diff (a b : cplx) : cplx := Cx (fsub (re a) (re b)) (fsub (im a) (im b)).
Definition c_prod (a b : cplx) : cplx :=
  Cx (fsub (fmul (re a) (re b)) (fmul (im a) (im b)))
     (fadd (fmul (re a) (im b)) (fmul (im a) (re b))).
Definition c_neg (a : cplx) : cplx := Cx (fopp (re a)) (fopp (im a)).
Definition c_is_zero (a : cplx) : bool := feqb (re a) fzero && feqb (im a) fzero.
Definition c_conj (a : cplx) : cplx := Cx (re a) (fopp (im a)).

(* __Pyx_c_quot as it is: shortcut for b.imag == 0, Smith's method with s = 1/denom *)
Definition c_quot_old (a b : cplx) : cplx :=
  if feqb (im b) fzero then Cx (fdiv (re a) (re b)) (fdiv (im a) (re b))
  else if fgeb (fabs (re b)) (fabs (im b)) then
    if feqb (re b) fzero && feqb (im b) fzero
    then Cx (fdiv (re a) (re b)) (fdiv (im a) (im b))
    else
      let r := fdiv (im b) (re b) in
      let s := fdiv fone (fadd (re b) (fmul (im b) r)) in
      Cx (fmul (fadd (re a) (fmul (im a) r)) s) (fmul (fsub (im a) (fmul (re a) r)) s)
  else
    let r := fdiv (re b) (im b) in
    let s := fdiv fone (fadd (im b) (fmul (re b) r)) in
    Cx (fmul (fadd (fmul (re a) r) (im a)) s) (fmul (fsub (fmul (im a) r) (re a)) s).

(* proposed __Pyx_c_quot: the statements of CPython's _Py_c_quot; on a zero divisor (only
   reachable with cdivision=True) the components are divided by the zero *)
Definition c_quot_new (a b : cplx) : cplx :=
  let abs_breal := if fltb (re b) fzero then fopp (re b) else re b in
  let abs_bimag := if fltb (im b) fzero then fopp (im b) else im b in
  if fgeb abs_breal abs_bimag then
    if feqb abs_breal fzero then Cx (fdiv (re a) abs_breal) (fdiv (im a) abs_breal)
    else
      let ratio := fdiv (im b) (re b) in
      let denom := fadd (re b) (fmul (im b) ratio) in
      Cx (fdiv (fadd (re a) (fmul (im a) ratio)) denom)
         (fdiv (fsub (im a) (fmul (re a) ratio)) denom)
  else if fgeb abs_bimag abs_breal then
    let ratio := fdiv (re b) (im b) in
    let denom := fadd (fmul (re b) ratio) (im b) in
    Cx (fdiv (fadd (fmul (re a) ratio) (im a)) denom)
       (fdiv (fsub (fmul (im a) ratio) (re a)) denom)
  else Cx S754_nan S754_nan.

Definition c_quot (fixed : bool) := if fixed then c_quot_new else c_quot_old.

(* ExprNodes.DivNode for a complex result type: zero test __Pyx_c_is_zero(b) unless cdivision *)
Inductive divres :=
| DivVal (z : cplx)
| DivZeroDiv.

Definition div_node (fixed cdivision : bool) (a b : cplx) : divres :=
  if negb cdivision && c_is_zero b then DivZeroDiv else DivVal (c_quot fixed a b).

(* (int)x as compiled for x86-64 (cvttsd2si): truncation; NaN and out-of-range values give
   INT_MIN (undefined behaviour in ISO C) *)
Definition int_min : Z := -2147483648.
Definition trunc_Z (x : F) : option Z :=
  match x with
  | S754_zero _ => Some 0
  | S754_finite s m e =>
      Some (cond_Zopp s (if 0 <=? e then Zpos m * 2 ^ e else Zpos m / 2 ^ (- e)))
  | _ => None
  end.
Definition trunc_int (x : F) : Z :=
  match trunc_Z x with
  | Some t => if (int_min <=? t) && (t <=? 2147483647) then t else int_min
  | None => int_min
  end.
Definition f_of_Z (z : Z) : F := binary_normalize dprec demax z 0 false.

(* __Pyx_c_pow: the integer fast path (exponents -4..4); everything that reaches log/exp/
   sin/cos/pow/atan2 is [PowLibm] *)
Inductive powres :=
| PowVal (z : cplx)
| PowLibm.

Definition c_recip_naive (a : cplx) : cplx :=
  let denom := fadd (fmul (re a) (re a)) (fmul (im a) (im a)) in
  Cx (fdiv (re a) denom) (fdiv (fopp (im a)) denom).

Definition c_pow_small (a : cplx) (n : Z) : option cplx :=
  match n with
  | 0 => Some c_1
  | 1 => Some a
  | 2 => Some (c_prod a a)
  | 3 => Some (c_prod (c_prod a a) a)
  | 4 => Some (let z := c_prod a a in c_prod z z)
  | _ => None
  end.

Definition c_pow (a b : cplx) : powres :=
  let isint := feqb (im b) fzero && feqb (re b) (f_of_Z (trunc_int (re b))) in
  let negexp := isint && fltb (re b) fzero in
  let a1 := if negexp then c_recip_naive a else a in
  let br := if negexp then fopp (re b) else re b in
  match (if isint then c_pow_small a1 (trunc_int br) else None) with
  | Some z => PowVal z
  | None =>
      if feqb (im a1) fzero && feqb (re a1) fzero then PowVal a1 else PowLibm
  end.

(* __Pyx_c_abs: sqrt(x*x + y*y) when HAVE_HYPOT is not defined (no CPython >= 3.11 pyconfig.h
   defines it) or with MSVC, else hypot(x, y) *)
Definition c_abs_naive (z : cplx) : F :=
  fsqrt (fadd (fmul (re z) (re z)) (fmul (im z) (im z))).

(* from_parts: struct variant stores the parts; the C99 variant computes
   x + y*(double complex)_Complex_I, i.e. (x + y*0.0, y*1.0); the proposed one assigns
   __real__ / __imag__ *)
Definition from_parts_struct (x y : F) : cplx := Cx x y.
Definition from_parts_native_old (x y : F) : cplx := Cx (fadd x (fmul y fzero)) y.
Definition from_parts (native fixed : bool) (x y : F) : cplx :=
  if native && negb fixed then from_parts_native_old x y else from_parts_struct x y.

(* __Pyx_PyComplex_As_<T> (reads cval.real / cval.imag) and __pyx_PyComplex_FromComplex *)
Definition from_py (native fixed : bool) (z : cplx) : cplx := from_parts native fixed (re z) (im z).
Definition to_py (z : cplx) : cplx := Cx (re z) (im z).

(* ------------------------------------------------------------------------------------------ *)
(* CPython 3.12 Objects/complexobject.c                                                        *)

Definition py_c_sum (a b : cplx) : cplx := Cx (fadd (re a) (re b)) (fadd (im a) (im b)).
Definition py_c_diff (a b : cplx) : cplx := Cx (fsub (re a) (re b)) (fsub (im a) (im b)).
Definition py_c_neg (a : cplx) : cplx := Cx (fopp (re a)) (fopp (im a)).
Definition py_c_prod (a b : cplx) : cplx :=
  Cx (fsub (fmul (re a) (re b)) (fmul (im a) (im b)))
     (fadd (fmul (re a) (im b)) (fmul (im a) (re b))).
Definition py_conj (a : cplx) : cplx := Cx (re a) (fopp (im a)).
Definition py_eq (a b : cplx) : bool := feqb (re a) (re b) && feqb (im a) (im b).

(* _Py_c_quot; None = errno EDOM (result 0) *)
Definition py_c_quot (a b : cplx) : option cplx :=
  let abs_breal := if fltb (re b) fzero then fopp (re b) else re b in
  let abs_bimag := if fltb (im b) fzero then fopp (im b) else im b in
  if fgeb abs_breal abs_bimag then
    if feqb abs_breal fzero then None
    else
      let ratio := fdiv (im b) (re b) in
      let denom := fadd (re b) (fmul (im b) ratio) in
      Some (Cx (fdiv (fadd (re a) (fmul (im a) ratio)) denom)
               (fdiv (fsub (im a) (fmul (re a) ratio)) denom))
  else if fgeb abs_bimag abs_breal then
    let ratio := fdiv (re b) (im b) in
    let denom := fadd (fmul (re b) ratio) (im b) in
    Some (Cx (fdiv (fadd (fmul (re a) ratio) (im a)) denom)
             (fdiv (fsub (fmul (im a) ratio) (re a)) denom))
  else Some (Cx S754_nan S754_nan).

Inductive pyres :=
| PyVal (z : cplx)
| PyZeroDiv
| PyOverflow
| PyLibm.

(* complex_div *)
Definition py_complex_div (a b : cplx) : pyres :=
  match py_c_quot a b with Some z => PyVal z | None => PyZeroDiv end.

(* c_powu(x, n) for n > 0:  r = 1; p = x; for mask = 1, 2, 4 .. <= n: if (n & mask) r = r*p;
   p = p*p.  One loop round per binary digit of n, least significant first; the recursion on
   the digits of the positive n is that loop (the last, unused squaring is dropped). *)
Fixpoint powu_pos (r p : cplx) (n : positive) : cplx :=
  match n with
  | xH => py_c_prod r p
  | xO n' => powu_pos r (py_c_prod p p) n'
  | xI n' => powu_pos (py_c_prod r p) (py_c_prod p p) n'
  end.
Definition py_c_powu (x : cplx) (n : Z) : cplx :=
  match n with Zpos p => powu_pos c_1 x p | _ => c_1 end.
(* c_powi: None = errno EDOM *)
Definition py_c_powi (x : cplx) (n : Z) : option cplx :=
  if 0 <? n then Some (py_c_powu x n) else py_c_quot c_1 (py_c_powu x (- n)).

Definition has_inf (z : cplx) : bool := is_inf (re z) || is_inf (im z).

(* complex_pow (third argument None): small integral exponents use c_powi, then
   _Py_ADJUST_ERANGE2 and the errno dispatch; the libm part of _Py_c_pow is [PyLibm] *)
Definition py_complex_pow (a b : cplx) : pyres :=
  if feqb (im b) fzero && feqb (re b) (floor_exact (re b)) && fleb (fabs (re b)) f100 then
    match trunc_Z (re b) with
    | None => PyLibm      (* unreachable: re b is finite here *)
    | Some n =>
        match py_c_powi a n with
        | None => PyZeroDiv
        | Some p => if has_inf p then PyOverflow else PyVal p
        end
    end
  else if feqb (re b) fzero && feqb (im b) fzero then PyVal c_1
  else if feqb (re a) fzero && feqb (im a) fzero then
    (if negb (feqb (im b) fzero) || fltb (re b) fzero then PyZeroDiv else PyVal (Cx fzero fzero))
  else PyLibm.

(* complex_abs / _Py_c_abs *)
Inductive absres :=
| AbsVal (v : F)
| AbsOverflow.

Section Hypot.
  Variable hypot : F -> F -> F.

  Definition c_abs_hypot (z : cplx) : F := hypot (re z) (im z).
  Definition c_abs (have_hypot : bool) (z : cplx) : F :=
    if have_hypot then c_abs_hypot z else c_abs_naive z.

  Definition py_abs (z : cplx) : absres :=
    if negb (is_fin (re z)) || negb (is_fin (im z)) then
      (if is_inf (re z) then AbsVal (fabs (re z))
       else if is_inf (im z) then AbsVal (fabs (im z))
       else AbsVal S754_nan)
    else
      let r := hypot (re z) (im z) in
      if is_fin r then AbsVal r else AbsOverflow.
End Hypot.

(* ------------------------------------------------------------------------------------------ *)
(* witnesses *)
Definition finf_ (s : bool) : F := S754_infinity s.
Definition fnzero : F := S754_zero true.
Definition fthree : F := S754_finite false 6755399441055744 (-51).
Definition fseven : F := S754_finite false 7881299347898368 (-50).
Definition fminsub (s : bool) : F := S754_finite s 1 (-1074).
Definition f1e308 : F := S754_finite false 5010420900022432 971.
