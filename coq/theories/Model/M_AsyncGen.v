(* M_AsyncGen -- the async generator layer of Cython/Utility/AsyncGen.c on top of the generator
   machine of M_Gen (agen = true): the generator-side flags ag_closed / ag_running_async /
   ag_hooks_inited / ag_finalizer, the awaitable objects returned by __anext__/asend (ASend) and
   athrow/aclose (AThrow) with their INIT / ITER / CLOSED state, the wrapped-value protocol
   (async yield -> StopIteration(value) out of the awaitable, await suspension -> passed through),
   and finalisation through the asyncgen hooks.  Executable definitions only.

   AsyncGen.c is a copy of CPython's genobject.c; the layer is written once over the interface of the
   underlying generator object (gop / gdone / gwrapped) and instantiated with cy_op (Coroutine.c) and
   py_op (CPython 3.12 genobject.c).  The places where AsyncGen.c as it is differs from CPython 3.12.1
   are selected by the variant record [avar].

   One C function per definition:
     ag_unwrap        __Pyx_async_gen_unwrap_value
     asend_send       __Pyx_async_gen_asend_send_impl       asend_throw  __Pyx_async_gen_asend_throw
     asend_close      __Pyx_async_gen_asend_close
     athrow_send      __Pyx_async_gen_athrow_send_impl      athrow_throw __Pyx_async_gen_athrow_throw
     athrow_close     __Pyx_async_gen_athrow_close
     ag_new           __Pyx_async_gen_anext/asend/athrow/aclose + __Pyx_async_gen_init_hooks
     ag_del           __Pyx_Coroutine_del (async generator branch) *)
From Coq Require Import ZArith List Bool.
From CyVerif Require Import Lib.CInt Model.M_Gen.
Import ListNotations.
Open Scope Z_scope.

(* awaitable: ASend (ags_sendval; __anext__ = None) / AThrow (agt_args) / AThrow in aclose mode *)
Inductive akind := KSend (v : val) | KThrow (e : exc) | KClose.
Inductive astate := AInit | AIter | AClosed.
Record awt := Awt { aw_kind : akind; aw_state : astate }.
(* one step on an awaitable object: send(v) (tp_iternext = send(None)), throw(e), close() *)
Inductive astep := StSend (v : val) | StThrow (e : exc) | StClose.

Inductive aop :=
| ANew (slot : nat) (k : akind)      (* call __anext__/asend/athrow/aclose, keep the awaitable in a slot *)
| AStep (slot : nat) (st : astep)
| ADrive (slot : nat)                (* send(None) until the awaitable finishes, at most DRIVE_MAX suspensions *)
| ADel.                              (* drop every reference *)

Inductive ares :=
| AR (r : result)      (* RYield v: the awaitable suspended with v; RRaise e; RNone: close() returned *)
| ANewOk | ASkip       (* awaitable created; empty slot *)
| AMore.               (* drive: still suspended after DRIVE_MAX steps *)

(* variants: the code as it is = av_cy *)
Record avar := {
  av_t313 : bool;          (* throw()/close() of the awaitables and the "already running" state change as in
                              CPython >= 3.13 (AsyncGen.c as it is); false = CPython 3.12 *)
  av_pad : bool;           (* "%6s(): asynchronous generator is already running": " anext(): ..." *)
  av_closed_first : bool;  (* aclose(): ag_closed = 1 BEFORE GeneratorExit is thrown (code as it is, CPython) *)
  av_nullexc : bool        (* athrow_throw, aclose() mode: the result of PyErr_Occurred() is passed to
                              __Pyx_PyErr_GivenExceptionMatches2 also when the generator suspended in an await
                              (no exception set): NULL dereference, the process dies *)
}.
Definition av_cy := {| av_t313 := true; av_pad := true; av_closed_first := true; av_nullexc := true |}.
Definition av_py := {| av_t313 := false; av_pad := false; av_closed_first := true; av_nullexc := false |}.

(* RuntimeError message codes *)
Definition M_REUSE_SEND : Z := 10.   Definition M_REUSE_CLOSE : Z := 11.
Definition M_RUN_ANEXT : Z := 12.    Definition M_RUN_ACLOSE : Z := 13.   Definition M_RUN_ATHROW : Z := 14.
Definition M_NON_INIT : Z := 15.     Definition M_RUN_ANEXT_PAD : Z := 112.
Definition M_IGNORED : Z := 1.       (* "async generator / coroutine ignored GeneratorExit" *)
Definition M_CRASH : Z := 666.       (* not an exception: the process died (segmentation fault) *)
Definition is_crash (r : result) : bool := match r with RRaise (ERuntime m) => m =? M_CRASH | _ => false end.
Definition DRIVE_MAX : nat := 8.
Definition EV_FIRSTITER : Z := 1.    Definition EV_FINALIZER : Z := 2.

Section Layer.
Variable G L : Type.
Variable gop : G -> op -> result * G * list (L * input).
Variable gdone : G -> bool.       (* resume_label == -1 / gi_frame_state >= FRAME_COMPLETED *)
Variable gwrapped : G -> bool.    (* the value just yielded was an async yield (no delegate is active) *)
Variable av : avar.
Variable hooks : bool.            (* sys.set_asyncgen_hooks(firstiter, finalizer) in effect *)

Definition glog := list (L * input).

Record ag := AG { ag_gen : G; ag_closed : bool; ag_running_async : bool; ag_hooks_inited : bool;
                  ag_finalizer : bool }.
Definition set_gen (a : ag) (g : G) := AG g (ag_closed a) (ag_running_async a) (ag_hooks_inited a) (ag_finalizer a).
Definition set_closed (a : ag) (b : bool) := AG (ag_gen a) b (ag_running_async a) (ag_hooks_inited a) (ag_finalizer a).
Definition set_running (a : ag) (b : bool) := AG (ag_gen a) (ag_closed a) b (ag_hooks_inited a) (ag_finalizer a).

Definition is_init (s : astate) : bool := match s with AInit => true | _ => false end.
Definition is_aclosed (s : astate) : bool := match s with AClosed => true | _ => false end.
Definition is_raise (r : result) : bool := match r with RRaise _ => true | _ => false end.
Definition closes (e : exc) : bool := is_stopasync e || is_genexit e.

(* __Pyx_async_gen_unwrap_value on the result of a send/throw into the generator *)
Definition ag_unwrap (x : result * G * glog) (a : ag) : result * ag * glog :=
  let '(r, g', l) := x in
  let a1 := set_gen a g' in
  match r with
  | RRaise e => (RRaise e, set_running (set_closed a1 (ag_closed a1 || closes e)) false, l)
  | RYield v => if gwrapped g' then (RRaise (EStopIter v), set_running a1 false, l) else (RYield v, a1, l)
  | _ => (r, a1, l)
  end.

Definition run_msg (k : akind) : Z :=
  match k with
  | KSend _ => if av_pad av then M_RUN_ANEXT_PAD else M_RUN_ANEXT
  | KClose => M_RUN_ACLOSE
  | KThrow _ => M_RUN_ATHROW
  end.

(* ---------- ASend ---------- *)
Definition asend_send (a : ag) (k : akind) (st : astate) (sendval arg : val) : result * ag * astate * glog :=
  if is_aclosed st then (RRaise (ERuntime M_REUSE_SEND), a, st, [])
  else if is_init st && ag_running_async a
  then (RRaise (ERuntime (run_msg k)), a, (if av_t313 av then AClosed else st), [])
  else
    let arg' := if is_init st && is_none arg then sendval else arg in
    let '(r, a', l) := ag_unwrap (gop (ag_gen a) (Send arg')) (set_running a true) in
    (r, a', (if is_raise r then AClosed else AIter), l).

Definition asend_throw (a : ag) (k : akind) (st : astate) (e : exc) : result * ag * astate * glog :=
  if is_aclosed st then (RRaise (ERuntime M_REUSE_SEND), a, st, [])
  else if av_t313 av && is_init st && ag_running_async a
  then (RRaise (ERuntime (run_msg k)), a, AClosed, [])
  else
    let a0 := if av_t313 av && is_init st then set_running a true else a in
    let st0 := if av_t313 av then AIter else st in
    let '(r, a', l) := ag_unwrap (gop (ag_gen a0) (Throw e)) a0 in
    (r, a', (if is_raise r then AClosed else st0), l).

(* close() of both awaitable types: the classification of the result of throw(GeneratorExit) *)
Definition close_result (r : result) : result :=
  if is_crash r then r else
  match r with
  | RRaise e => if is_stopiter e || is_genexit e || is_stopasync e then RNone else RRaise e
  | RYield _ => RRaise (ERuntime M_IGNORED)
  | _ => r
  end.

Definition asend_close (a : ag) (k : akind) (st : astate) : result * ag * astate * glog :=
  if av_t313 av then
    if is_aclosed st then (RNone, a, st, [])
    else let '(r, a', st', l) := asend_throw a k st EGenExit in (close_result r, a', st', l)
  else (RNone, a, AClosed, []).

(* ---------- AThrow ---------- *)
Definition is_kclose (k : akind) : bool := match k with KClose => true | _ => false end.

(* label check_error *)
Definition check_error (k : akind) (e : exc) : exc :=
  if closes e && is_kclose k then EStopIter VNone else e.

Definition athrow_send (a : ag) (k : akind) (st : astate) (arg : val) : result * ag * astate * glog :=
  if is_aclosed st then (RRaise (ERuntime M_REUSE_CLOSE), a, st, [])
  else if gdone (ag_gen a) then (RRaise (EStopIter VNone), a, AClosed, [])
  else if is_init st then
    if ag_running_async a then (RRaise (ERuntime (run_msg k)), a, AClosed, [])
    else if ag_closed a then (RRaise EStopAsync, a, AClosed, [])
    else if negb (is_none arg) then (RRaise (ERuntime M_NON_INIT), a, st, [])
    else
      let a1 := set_running a true in
      match k with
      | KThrow e =>
          let '(r, a', l) := ag_unwrap (gop (ag_gen a1) (ThrowNC e)) a1 in
          match r with
          | RRaise e' => (RRaise (check_error k e'), set_running a' false, AClosed, l)
          | _ => (r, a', AIter, l)
          end
      | _ =>
          (* aclose() mode *)
          let a2 := if av_closed_first av then set_closed a1 true else a1 in
          let '(r, g', l) := gop (ag_gen a2) (ThrowNC EGenExit) in
          let a3 := set_gen a2 g' in
          match r with
          | RYield v =>
              if gwrapped g' then (RRaise (ERuntime M_IGNORED), set_running a3 false, AClosed, l)   (* yield_close *)
              else (RYield v, set_closed a3 true, AIter, l)
          | RRaise e' => (RRaise (check_error k e'), set_running (set_closed a3 true) false, AClosed, l)
          | _ => (r, a3, AIter, l)
          end
      end
  else
    let '(r, g', l) := gop (ag_gen a) (Send arg) in
    if is_kclose k then
      let a1 := set_gen a g' in
      match r with
      | RYield v =>
          if gwrapped g' then (RRaise (ERuntime M_IGNORED), set_running a1 false, AClosed, l)
          else (RYield v, a1, st, l)
      | RRaise e' => (RRaise (check_error k e'), set_running a1 false, AClosed, l)
      | _ => (r, a1, st, l)
      end
    else
      let '(r', a', l') := ag_unwrap (r, g', l) a in (r', a', st, l').

Definition athrow_throw (a : ag) (k : akind) (st : astate) (e : exc) : result * ag * astate * glog :=
  if is_aclosed st then (RRaise (ERuntime M_REUSE_CLOSE), a, st, [])
  else if av_t313 av && is_init st && ag_running_async a
  then (RRaise (ERuntime (run_msg k)), a, AClosed, [])
  else
    let a0 := if av_t313 av && is_init st then set_running a true else a in
    let st0 := if av_t313 av && is_init st then AIter else st in
    let '(r, g', l) := gop (ag_gen a0) (Throw e) in
    if is_kclose k then
      let a1 := set_gen a0 g' in
      match r with
      | RYield v =>
          if gwrapped g' then (RRaise (ERuntime M_IGNORED), set_running a1 false, AClosed, l)
          else if av_nullexc av then (RRaise (ERuntime M_CRASH), a1, st0, l)
          else (RYield v, a1, st0, l)
      | RRaise e' =>
          let e'' := if closes e' then EStopIter VNone else e' in
          if av_t313 av then (RRaise e'', set_running a1 false, AClosed, l) else (RRaise e'', a1, st0, l)
      | _ => (r, a1, st0, l)
      end
    else
      let '(r', a', l') := ag_unwrap (r, g', l) a0 in
      if is_raise r' && av_t313 av then (r', set_running a' false, AClosed, l') else (r', a', st0, l').

Definition athrow_close (a : ag) (k : akind) (st : astate) : result * ag * astate * glog :=
  if av_t313 av then
    if is_aclosed st then (RNone, a, st, [])
    else let '(r, a', st', l) := athrow_throw a k st EGenExit in (close_result r, a', st', l)
  else (RNone, a, AClosed, []).

(* one step on an awaitable *)
Definition aw_step (a : ag) (w : awt) (s : astep) : result * ag * awt * glog :=
  let k := aw_kind w in
  let st := aw_state w in
  let '(r, a', st', l) :=
    match k, s with
    | KSend sv, StSend v => asend_send a k st sv v
    | KSend _, StThrow e => asend_throw a k st e
    | KSend _, StClose => asend_close a k st
    | _, StSend v => athrow_send a k st v
    | _, StThrow e => athrow_throw a k st e
    | _, StClose => athrow_close a k st
    end in
  (r, a', Awt k st', l).

(* ---------- the object with its awaitables ---------- *)
Record world := World { w_ag : ag; w_slots : list (option awt) }.

Fixpoint set_nth {A : Type} (n : nat) (x : A) (l : list A) : list A :=
  match n, l with
  | _, [] => []
  | O, _ :: t => x :: t
  | S n', h :: t => h :: set_nth n' x t
  end.
Definition get_slot (w : world) (j : nat) : option awt :=
  match nth_error (w_slots w) j with Some (Some x) => Some x | _ => None end.

(* __Pyx_async_gen_init_hooks on the first call of __anext__/asend/athrow/aclose *)
Definition ag_new (a : ag) : ag * list Z :=
  if ag_hooks_inited a then (a, [])
  else (AG (ag_gen a) (ag_closed a) (ag_running_async a) true hooks, if hooks then [EV_FIRSTITER] else []).

(* tp_finalize: finished -> nothing; finalizer hook unless ag_closed; else the generator's own finalisation *)
Definition ag_del (a : ag) : result * ag * glog * list Z :=
  if gdone (ag_gen a) then (RNone, a, [], [])
  else if ag_finalizer a && negb (ag_closed a) then (RNone, a, [], [EV_FINALIZER])
  else let '(r, g', l) := gop (ag_gen a) Del in (r, set_gen a g', l, []).

Fixpoint drive (fuel : nat) (a : ag) (w : awt) : list val * ares * ag * awt * glog :=
  match fuel with
  | O => ([], AMore, a, w, [])
  | S f =>
      let '(r, a', w', l) := aw_step a w (StSend VNone) in
      match r with
      | RYield v => let '(vs, r2, a2, w2, l2) := drive f a' w' in (v :: vs, r2, a2, w2, l ++ l2)
      | _ => ([], AR r, a', w', l)
      end
  end.

(* per operation: result, ag_running afterwards, resumptions of the body, suspension values (drive),
   hook events *)
Record obs := Obs { o_res : ares; o_running : bool; o_log : glog; o_susp : list val; o_ev : list Z }.

Definition world_op (w : world) (o : aop) : obs * world :=
  let a := w_ag w in
  match o with
  | ANew j k =>
      let '(a', ev) := ag_new a in
      (Obs ANewOk (ag_running_async a') [] [] ev, World a' (set_nth j (Some (Awt k AInit)) (w_slots w)))
  | AStep j s =>
      match get_slot w j with
      | None => (Obs ASkip (ag_running_async a) [] [] [], w)
      | Some x =>
          let '(r, a', x', l) := aw_step a x s in
          (Obs (AR r) (ag_running_async a') l [] [], World a' (set_nth j (Some x') (w_slots w)))
      end
  | ADrive j =>
      match get_slot w j with
      | None => (Obs ASkip (ag_running_async a) [] [] [], w)
      | Some x =>
          let '(vs, r, a', x', l) := drive DRIVE_MAX a x in
          (Obs r (ag_running_async a') l vs [], World a' (set_nth j (Some x') (w_slots w)))
      end
  | ADel =>
      let '(r, a', l, ev) := ag_del a in
      (Obs (AR r) (ag_running_async a') l [] ev, World a' [])
  end.

(* ADel ends the object's life *)
Fixpoint run_world (w : world) (h : list aop) : list obs :=
  match h with
  | [] => []
  | ADel :: _ => [fst (world_op w ADel)]
  | o :: h' => let '(x, w') := world_op w o in
               if (match o_res x with AR r => is_crash r | _ => false end) then [x] else x :: run_world w' h'
  end.

Definition world_init (g : G) : world := World (AG g false false false false) [None; None; None].
End Layer.

(* ---------- the two instances ---------- *)
Section Instances.
Variable L : Type.
Variable start : L.
Variable step : L -> input -> outcome L.

Definition c_done (s : cstate L) : bool := match c_label s with RDone => true | _ => false end.
Definition c_wrapped (s : cstate L) : bool := match c_yf s with None => true | Some _ => false end.
Definition p_done (s : pstate L) : bool := match s with PCompleted => true | _ => false end.
Definition p_wrapped (s : pstate L) : bool := match s with PSuspended _ (Some _) => false | _ => true end.

Definition cy_world_op (fx : fixes) (av : avar) (hooks : bool) :=
  world_op (cstate L) L (cy_op L start step false true fx) c_done c_wrapped av hooks.
Definition py_world_op (av : avar) (hooks : bool) :=
  world_op (pstate L) L (py_op L start step false true) p_done p_wrapped av hooks.
Definition run_cy_ag (fx : fixes) (av : avar) (hooks : bool) :=
  run_world (cstate L) L (cy_op L start step false true fx) c_done c_wrapped av hooks.
Definition run_py_ag (av : avar) (hooks : bool) :=
  run_world (pstate L) L (py_op L start step false true) p_done p_wrapped av hooks.
End Instances.

(* table bodies (the table interpreter of the harness; nested generators are not used by async tables) *)
Definition run_atable_cy (tbl : table) (fx : fixes) (av : avar) (hooks : bool) (d : nat) (k0 : Z) (h : list aop)
  : list (obs Z) :=
  run_cy_ag Z k0 (tstep tbl true fx false d) fx av hooks (world_init (cstate Z) (c_init Z)) h.
Definition run_atable_py (tbl : table) (av : avar) (hooks : bool) (d : nat) (k0 : Z) (h : list aop) : list (obs Z) :=
  run_py_ag Z k0 (tstep tbl true fx_all true d) av hooks (world_init (pstate Z) (p_init Z)) h.
