(* The compiler's closure scheme (ParseTreeTransforms.CreateClosureClasses, Symtab.LocalScope.lookup /
   mangle_closure_cnames, Nodes.FuncDefNode.generate_function_definitions, ExprNodes.InnerFunctionNode):

   - Scope.lookup walks the outer_scope chain of function scopes (class scopes are skipped); finding the
     name in an enclosing closure scope marks the defining entry in_closure and creates an InnerEntry
     (from_closure) in every function scope on the way.
   - a function whose entries contain in_closure ones gets a scope class: one scope object is allocated
     on every entry of the function (cur_scope = tp_new(...)), it holds all captured locals (NULL at
     first; captured arguments are copied into it) and, when the function also has from_closure
     entries, an outer_scope field set from the closure pointer of the function object.
   - a function with from_closure entries but no in_closure ones is a pass-through: cur_scope = the
     closure pointer it was created with.
   - an inner function object is created with closure = cur_scope of the defining function when the
     inner function has from_closure entries (needs_closure_code), else NULL.
   - the C name of a from_closure entry is computed statically: the outer entry's name, prefixed by one
     "outer_scope->" hop unless the function is a pass-through; so a variable is reached by
     cur_scope->outer_scope->...->x with a fixed number of hops.
   - an empty slot raises UnboundLocalError for the function's own variable and NameError for a
     from_closure one.
   [delglob_fixed] selects the behaviour of del on an unbound module global: the tree raises
   AttributeError (PyObject_DelAttr on the module object); CPython raises NameError. *)
From Coq Require Import ZArith List Bool Lia.
From CyVerif Require Import Lib.MiniPy.
Import ListNotations.

Record sobj := { so_outer : option nat; so_vars : list (ident * option value) }.
Definition sheap := list (nat * sobj).          (* newest version of an object first *)

Fixpoint sfind (h : sheap) (m : nat) : option sobj :=
  match h with [] => None | (m', ob) :: r => if Nat.eqb m m' then Some ob else sfind r m end.
Definition sget (h : sheap) (m : nat) (x : ident) : option (option value) :=
  match sfind h m with Some ob => assoc x (so_vars ob) | None => None end.
Definition sset (h : sheap) (m : nat) (x : ident) (v : option value) : sheap :=
  match sfind h m with
  | Some ob => (m, {| so_outer := so_outer ob; so_vars := (x, v) :: so_vars ob |}) :: h
  | None => h
  end.
(* follow k outer_scope pointers *)
Fixpoint walk (h : sheap) (k : nat) (p : option nat) : option nat :=
  match k with
  | O => p
  | S k' => match p with
            | Some m => match sfind h m with Some ob => walk h k' (so_outer ob) | None => None end
            | None => None
            end
  end.

(* in_closure entries exist: the function has its own scope class (needs_closure) *)
Definition own_scope (i : scope_info) : bool :=
  match si_cells i with [] => false | _ => true end.

(* Scope.lookup through the enclosing function scopes, returning the number of outer_scope hops
   counted from the closure pointer handed to the function (cname of the outer entry) *)
Fixpoint lookup_outer (ctx : sctx) (x : ident) : option nat :=
  match ctx with
  | [] => None
  | p :: r =>
      if mem x (si_locals p) then Some 0
      else if mem x (si_globals p) then None          (* 'global x' there: the module entry *)
      else match lookup_outer r x with
           | Some k => Some (if own_scope p then S k else k)   (* pass-through adds no hop *)
           | None => None
           end
  end.
Definition found (r : option nat) : bool := match r with Some _ => true | None => false end.
(* the function has from_closure entries (its own or those left by lookups of nested functions) *)
Definition from_closure (i : scope_info) (ctx : sctx) : bool :=
  existsb (fun x => found (lookup_outer ctx x)) (cfree i).

Inductive cykind := CLocal | CClosure (hops : nat) | CGlobal.
Definition cy_lookup (i : scope_info) (ctx : sctx) (x : ident) : cykind :=
  if mem x (si_locals i) then CLocal
  else if mem x (si_globals i) then CGlobal
  else match lookup_outer ctx x with
       | Some k => CClosure (if own_scope i then S k else k)
       | None => CGlobal
       end.

Definition sX := option nat.      (* cur_scope *)
Definition sC := option nat.      (* closure pointer stored in the function object *)

Definition s_loc (fr : frame sX) (h : sheap) (x : ident) : option loc :=
  match cy_lookup (f_info fr) (f_ctx fr) x with
  | CGlobal => Some LGlob
  | CLocal => if is_cell (f_info fr) x
              then match f_x fr with Some m => Some (LHeap m false) | None => None end
              else Some LFast
  | CClosure k => match walk h k (f_x fr) with Some m => Some (LHeap m true) | None => None end
  end.

Definition s_capture (fr : frame sX) (i : scope_info) : option sC :=
  Some (if from_closure i (f_info fr :: f_ctx fr) then f_x fr else None).

Definition s_enter (h : sheap) (f : fn sC) (a : nat) : sX * sheap :=
  let outer := if from_closure (fn_info f) (fn_ctx f) then fn_cap f else None in
  if own_scope (fn_info f)
  then (Some a, (a, {| so_outer := outer;
                       so_vars := map (fun x => (x, None)) (si_cells (fn_info f)) |}) :: h)
  else (outer, h).

Definition scopes_ops (delglob_fixed : bool) : ops sX sheap sC :=
  {| op_loc := s_loc; op_get := sget; op_set := sset; op_capture := s_capture; op_enter := s_enter;
     op_delglob_exc := if delglob_fixed then NameError else AttributeError |}.

Definition run_scopes (delglob_fixed : bool) (n : nat) (prog : list stmt) (main : expr) : outcome :=
  run_gen (scopes_ops delglob_fixed) None [] n prog main.
