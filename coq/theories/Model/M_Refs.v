(* M_Refs - executable model for C35 (reference counts stay balanced on every path).  Definitions only.

   What is modelled
   ----------------
   * the accounting of Cython/Runtime/refnanny.pyx (Context.regref / delref / end): a ledger
     "object -> number of references this function activation owns", driven by the events emitted by the
     CYTHON_REFNANNY macros of Utility/ModuleSetupCode.c: __Pyx_GOTREF / __Pyx_INCREF = [Got],
     __Pyx_GIVEREF / __Pyx_DECREF = [Give].  The ledger is a function of the event trace ([bal]);
   * a temp machine: managed temps (Code.py FunctionState.allocate_temp(py_object_type, manage_ref=True)) and
     local variables are finite maps slot -> object, an absent key is the C value NULL;
   * an instruction language in which an instruction may produce a new reference into a temp ([IOp],
     [IAlloc], [INext]), use borrowed operands, steal a reference ([ISteal], [IGiveB]: PyTuple_SET_ITEM) or fail
     (error_goto: outcome [Err]);
   * structured control flow with the outcomes normal / error / return / break / continue, the function
     epilogue of Nodes.py FuncDefNode.generate_function_definitions (error label: XDECREF of every managed
     temp, result NULL; exit: XDECREF of every local, XGIVEREF of the result);
   * [gen_*]: the emission order of ExprNodes.py / Nodes.py for the fragment (generate_evaluation_code,
     generate_disposal_code / generate_post_assignment_code, free_temps, the LIFO free list of
     FunctionState.allocate_temp / release_temp, PyMethodCallNode, SequenceNode packing,
     SingleAssignmentNode into names / attributes / items, IfStatNode, ForInStatNode, ReturnStatNode with
     temps_holding_reference).

   Fallible operations are governed by an oracle record [orc]; the theorems quantify over all oracles. *)
From Coq Require Import List Bool Arith.
Import ListNotations.

Definition obj := nat.
Inductive event := Got (o : obj) | Give (o : obj).

(* ---------- the refnanny ledger (trace: newest event first) ---------- *)
Fixpoint bal (tr : list event) (o : obj) : nat :=
  match tr with
  | [] => 0
  | Got p :: tr' => (if Nat.eqb p o then 1 else 0) + bal tr' o
  | Give p :: tr' => bal tr' o - (if Nat.eqb p o then 1 else 0)
  end.

(* number of "Too many decrefs" reports of Context.delref (the count is left unchanged by a refused delref) *)
Fixpoint nanny_errs (tr : list event) : nat :=
  match tr with
  | [] => 0
  | Got _ :: tr' => nanny_errs tr'
  | Give p :: tr' => (if Nat.eqb (bal tr' p) 0 then 1 else 0) + nanny_errs tr'
  end.

(* Context.end: leaked counts of the given objects *)
Definition nanny_leaks (tr : list event) (objs : list obj) : list nat :=
  filter (fun n => negb (Nat.eqb n 0)) (map (bal tr) objs).

(* chronological replay used by the driver *)
Definition nanny_report (evs : list event) (objs : list obj) : nat * list nat :=
  (nanny_errs (rev evs), nanny_leaks (rev evs) objs).

(* ---------- finite maps slot -> object ---------- *)
Definition fmap := list (nat * obj).
Fixpoint get (k : nat) (m : fmap) : option obj :=
  match m with [] => None | (k', v) :: m' => if Nat.eqb k k' then Some v else get k m' end.
Fixpoint rem (k : nat) (m : fmap) : fmap :=
  match m with [] => [] | (k', v) :: m' => if Nat.eqb k k' then rem k m' else (k', v) :: rem k m' end.
Definition put (k : nat) (v : obj) (m : fmap) : fmap := (k, v) :: rem k m.
Fixpoint cnt (o : obj) (m : fmap) : nat :=
  match m with [] => 0 | (_, v) :: m' => (if Nat.eqb v o then 1 else 0) + cnt o m' end.
Fixpoint kbound (m : fmap) : nat :=
  match m with [] => 0 | (k, _) :: m' => Nat.max (S k) (kbound m') end.

(* ---------- machine ---------- *)
Inductive rand := RArg (i : nat) | RLoc (x : nat) | RTmp (t : nat).

Inductive instr :=
| IOp (d : nat) (srcs : list rand) (pre : list nat)  (* fallible call producing a new reference in temp d; the temps
                                                       in pre are DECREF-cleared after the call, before the error test *)
| IVoid (srcs : list rand)                           (* fallible call without object result (setattr/setitem/delitem) *)
| ITruth (r : rand)                                  (* __Pyx_PyObject_IsTrue: fallible, sets the branch flag *)
| IAlloc (d : nat)                                   (* PyTuple_New / PyList_New into temp d; GOTREF *)
| IIncref (d : nat) (r : rand)                       (* make_owned_reference into temp d *)
| IGiveB (r : rand)                                  (* INCREF; GIVEREF; SET_ITEM of a borrowed operand *)
| ISteal (t : nat)                                   (* GIVEREF; SET_ITEM; t = 0 *)
| IDecref (t : nat)                                  (* __Pyx_DECREF(t); t = 0 *)
| ISetLoc (x : nat) (r : rand)                       (* assignment to a local: (INCREF;) XDECREF_SET; temp = 0 *)
| ISetRes (r : rand)                                 (* __pyx_r = value (owned) *)
| INext (d : nat) (it : nat).                        (* tp_iternext: item into d / exhausted / error *)

Inductive code :=
| CSkip
| CI (i : instr)
| CSeq (c1 c2 : code)
| CIf (c1 c2 : code)
| CLoop (it d x : nat) (body : code)
| CBreak | CContinue | CReturn.

Record state := mk {
  temps : fmap; locs : fmap; res : option obj; tr : list event;
  nxt : obj; calls : nat; allocs : nat; flag : bool }.

Definition set_temps m s := mk m (locs s) (res s) (tr s) (nxt s) (calls s) (allocs s) (flag s).
Definition set_locs m s := mk (temps s) m (res s) (tr s) (nxt s) (calls s) (allocs s) (flag s).
Definition set_res r s := mk (temps s) (locs s) r (tr s) (nxt s) (calls s) (allocs s) (flag s).
Definition set_tr t s := mk (temps s) (locs s) (res s) t (nxt s) (calls s) (allocs s) (flag s).
Definition set_flag b s := mk (temps s) (locs s) (res s) (tr s) (nxt s) (calls s) (allocs s) b.
Definition tick s := mk (temps s) (locs s) (res s) (tr s) (nxt s) (S (calls s)) (allocs s) (flag s).
Definition atick s := mk (temps s) (locs s) (res s) (tr s) (nxt s) (calls s) (S (allocs s)) (flag s).
Definition fresh s := mk (temps s) (locs s) (res s) (tr s) (S (nxt s)) (calls s) (allocs s) (flag s).

Record orc := {
  fail : nat -> bool;            (* the k-th fallible call raises *)
  afail : nat -> bool;           (* the k-th allocation fails *)
  more : nat -> bool;            (* the k-th call, an iternext, yields an item *)
  truth : nat -> bool;           (* the k-th call, a truth test, answers true *)
  alias : nat -> option nat }.   (* the k-th call returns its j-th operand instead of a fresh object *)

Inductive why := NullUse | NullDecref | TooManyDecref | UseDead | Overwrite | BadJump.
Inductive result :=
| Norm (s : state) | Err (s : state) | Ret (s : state) | Brk (s : state) | Cnt (s : state)
| Stuck (w : why) | Fuel.

Definition bind (r : result) (f : state -> result) : result :=
  match r with Norm s => f s | _ => r end.

Definition got (o : obj) (s : state) : state := set_tr (Got o :: tr s) s.
Definition give (o : obj) (s : state) : option state :=
  if Nat.eqb (bal (tr s) o) 0 then None else Some (set_tr (Give o :: tr s) s).

Inductive rdres := RdOk (o : obj) | RdUnbound | RdStuck (w : why).
Definition rd (s : state) (r : rand) : rdres :=
  match r with
  | RArg i => RdOk i
  | RLoc x => match get x (locs s) with
              | Some o => if Nat.eqb (bal (tr s) o) 0 then RdStuck UseDead else RdOk o
              | None => RdUnbound end
  | RTmp t => match get t (temps s) with
              | Some o => if Nat.eqb (bal (tr s) o) 0 then RdStuck UseDead else RdOk o
              | None => RdStuck NullUse end
  end.

Inductive rdsres := RsOk (os : list obj) | RsUnbound | RsStuck (w : why).
Fixpoint rds (s : state) (rs : list rand) : rdsres :=
  match rs with
  | [] => RsOk []
  | r :: rs' => match rd s r with
                | RdStuck w => RsStuck w
                | RdUnbound => match rds s rs' with RsStuck w => RsStuck w | _ => RsUnbound end
                | RdOk o => match rds s rs' with RsOk os => RsOk (o :: os) | x => x end
                end
  end.

(* __Pyx_DECREF(t); t = 0 *)
Definition decref_clear (t : nat) (s : state) : result :=
  match get t (temps s) with
  | None => Stuck NullDecref
  | Some o => match give o s with
              | None => Stuck TooManyDecref
              | Some s' => Norm (set_temps (rem t (temps s')) s')
              end
  end.
Fixpoint decref_all (ts : list nat) (s : state) : result :=
  match ts with [] => Norm s | t :: ts' => bind (decref_clear t s) (decref_all ts') end.

(* store a new owned reference in temp d *)
Definition new_ref (d : nat) (o : obj) (s : state) : result :=
  match get d (temps s) with
  | Some _ => Stuck Overwrite
  | None => Norm (got o (set_temps (put d o (temps s)) s))
  end.

(* take the value of operand r as an owned reference: a temp hands its reference over, anything else is INCREF-ed *)
Definition take (r : rand) (s : state) (k : obj -> state -> result) : result :=
  match r with
  | RTmp t => match get t (temps s) with
              | None => Stuck NullUse
              | Some o => k o (set_temps (rem t (temps s)) s)
              end
  | _ => match rd s r with
         | RdOk o => k o (got o s)
         | RdUnbound => Err s
         | RdStuck w => Stuck w
         end
  end.

Definition release_old (old : option obj) (s : state) : result :=
  match old with
  | None => Norm s
  | Some p => match give p s with None => Stuck TooManyDecref | Some s' => Norm s' end
  end.

Definition step (O : orc) (i : instr) (s : state) : result :=
  match i with
  | IOp d srcs pre =>
      match rds s srcs with
      | RsStuck w => Stuck w
      | RsUnbound => Err s
      | RsOk os =>
          let k := calls s in
          bind (decref_all pre (tick s)) (fun s2 =>
            if fail O k then Err s2
            else let o := match alias O k with Some j => nth j os (nxt s2) | None => nxt s2 end in
                 new_ref d o (fresh s2))
      end
  | IVoid srcs =>
      match rds s srcs with
      | RsStuck w => Stuck w
      | RsUnbound => Err s
      | RsOk _ => if fail O (calls s) then Err (tick s) else Norm (tick s)
      end
  | ITruth r =>
      match rds s [r] with
      | RsStuck w => Stuck w
      | RsUnbound => Err s
      | RsOk _ => if fail O (calls s) then Err (tick s) else Norm (set_flag (truth O (calls s)) (tick s))
      end
  | IAlloc d =>
      if afail O (allocs s) then Err (atick s) else new_ref d (nxt s) (fresh (atick s))
  | IIncref d r =>
      match rd s r with
      | RdStuck w => Stuck w
      | RdUnbound => Err s
      | RdOk o => new_ref d o s
      end
  | IGiveB r =>
      match rd s r with
      | RdStuck w => Stuck w
      | RdUnbound => Err s
      | RdOk o => match give o (got o s) with None => Stuck TooManyDecref | Some s' => Norm s' end
      end
  | ISteal t =>
      match get t (temps s) with
      | None => Stuck NullDecref
      | Some o => match give o s with
                  | None => Stuck TooManyDecref
                  | Some s' => Norm (set_temps (rem t (temps s')) s')
                  end
      end
  | IDecref t => decref_clear t s
  | ISetLoc x r =>
      take r s (fun o s1 => let old := get x (locs s1) in
                            release_old old (set_locs (put x o (locs s1)) s1))
  | ISetRes r =>
      take r s (fun o s1 => let old := res s1 in release_old old (set_res (Some o) s1))
  | INext d it =>
      match rd s (RTmp it) with
      | RdStuck w => Stuck w
      | RdUnbound => Err s
      | RdOk _ =>
          let k := calls s in
          if fail O k then Err (tick s)
          else if more O k then new_ref d (nxt s) (set_flag true (fresh (tick s)))
          else Norm (set_flag false (tick s))
      end
  end.

Fixpoint run (O : orc) (c : list instr) (s : state) : result :=
  match c with [] => Norm s | i :: c' => bind (step O i s) (run O c') end.

(* ForInStatNode: iternext, target assignment, body; the iterator temp is released at loop end and on break *)
Fixpoint loop_on (O : orc) (it d x : nat) (body : state -> result) (n : nat) (s : state) {struct n} : result :=
  match n with
  | 0 => Fuel
  | S n' =>
      match step O (INext d it) s with
      | Norm s1 =>
          if flag s1 then
            match step O (ISetLoc x (RTmp d)) s1 with
            | Norm s2 =>
                match body s2 with
                | Norm s3 => loop_on O it d x body n' s3
                | Cnt s3 => loop_on O it d x body n' s3
                | Brk s3 => step O (IDecref it) s3
                | r => r
                end
            | r => r
            end
          else step O (IDecref it) s1
      | r => r
      end
  end.

Fixpoint exec (O : orc) (fuel : nat) (c : code) (s : state) {struct c} : result :=
  match c with
  | CSkip => Norm s
  | CI i => step O i s
  | CSeq c1 c2 => bind (exec O fuel c1 s) (exec O fuel c2)
  | CIf c1 c2 => if flag s then exec O fuel c1 s else exec O fuel c2 s
  | CBreak => Brk s
  | CContinue => Cnt s
  | CReturn => Ret s
  | CLoop it d x body => loop_on O it d x (exec O fuel body) fuel s
  end.

Fixpoint code_of (c : list instr) : code :=
  match c with [] => CSkip | i :: c' => CSeq (CI i) (code_of c') end.

(* ---------- function prologue / epilogue ---------- *)
(* XDECREF of every slot 0..n-1 of a map (NULL slots are skipped), in ascending order *)
Fixpoint sweep (get_m : state -> fmap) (set_m : fmap -> state -> state) (ks : list nat) (s : state) : result :=
  match ks with
  | [] => Norm s
  | k :: ks' =>
      match get k (get_m s) with
      | None => sweep get_m set_m ks' s
      | Some o => match give o s with
                  | None => Stuck TooManyDecref
                  | Some s' => sweep get_m set_m ks' (set_m (rem k (get_m s')) s')
                  end
      end
  end.

Definition init (nargs : nat) : state := mk [] [] None [] nargs 0 0 false.

Inductive final := Done (returned : bool) (s : state) | FStuck (w : why) | FFuel.

(* exit code: locals, then XGIVEREF(__pyx_r) *)
Definition epilogue (returned : bool) (s : state) : final :=
  match sweep locs set_locs (seq 0 (kbound (locs s))) s with
  | Norm s1 =>
      match res s1 with
      | None => Done returned s1
      | Some o => match give o s1 with
                  | None => FStuck TooManyDecref
                  | Some s2 => Done returned (set_res None s2)
                  end
      end
  | Stuck w => FStuck w
  | _ => FStuck BadJump
  end.

Definition run_fun (O : orc) (fuel nargs : nat) (body : code) : final :=
  match exec O fuel body (init nargs) with
  | Norm s => epilogue true s            (* gen appends the implicit "return None" *)
  | Ret s => epilogue true s
  | Err s =>
      (* __pyx_L1_error: XDECREF of all managed temps; __pyx_r = NULL *)
      match sweep temps set_temps (seq 0 (kbound (temps s))) s with
      | Norm s1 => match res s1 with
                   | None => epilogue false s1
                   | Some _ => FStuck Overwrite   (* __pyx_r = NULL over a live result would leak it *)
                   end
      | Stuck w => FStuck w
      | _ => FStuck BadJump
      end
  | Brk _ | Cnt _ => FStuck BadJump
  | Stuck w => FStuck w
  | Fuel => FFuel
  end.

(* ---------- source trees ---------- *)
Inductive expr :=
| EArg (i : nat)                       (* argument or module constant: borrowed, never NULL *)
| ELoc (x : nat)                       (* local variable *)
| EOp (es : exprs)                     (* strict operation with a new-reference result: binop, unary, getattr, getitem *)
| ESeq (es : exprs)                    (* tuple / list display *)
| ECall (f : expr) (es : exprs)        (* f(args) through PyMethodCallNode *)
with exprs := ENil | ECons (e : expr) (es : exprs).

Inductive stmt :=
| SSkip
| SSeq (s1 s2 : stmt)
| SAssign (x : nat) (e : expr)
| SExpr (e : expr)
| SReturn (e : expr)
| SStore (v : expr) (es : exprs) (v_last : bool)   (* v evaluated first, then es; the store; disposal order:
                                                     v_last = false: v then es (attribute store, del b[i]);
                                                     v_last = true: es then v (item store) *)
| SIf (c : expr) (s1 s2 : stmt)
| SFor (x : nat) (e : expr) (body : stmt)
| SBreak | SContinue.

(* break / continue only inside loops (anything else is a compile-time error) *)
Fixpoint jumps_ok (inloop : bool) (s : stmt) : bool :=
  match s with
  | SSeq s1 s2 | SIf _ s1 s2 => jumps_ok inloop s1 && jumps_ok inloop s2
  | SFor _ _ body => jumps_ok true body
  | SBreak | SContinue => inloop
  | _ => true
  end.

(* ---------- temp allocator (FunctionState.allocate_temp / release_temp, object temps only) ---------- *)
Record astate := mkA { anext : nat; afree : list nat }.   (* afree: most recently released first *)
Definition alloc (A : astate) : nat * astate :=
  match afree A with
  | t :: f => (t, mkA (anext A) f)
  | [] => (anext A, mkA (S (anext A)) [])
  end.
Definition release (t : nat) (A : astate) : astate := mkA (anext A) (t :: afree A).
Definition tmp_of (r : rand) : list nat := match r with RTmp t => [t] | _ => [] end.
Definition tmps_of (rs : list rand) : list nat := flat_map tmp_of rs.
Definition release_all (ts : list nat) (A : astate) : astate := fold_left (fun A t => release t A) ts A.
Definition inuse_list (A : astate) : list nat :=
  filter (fun t => negb (existsb (Nat.eqb t) (afree A))) (seq 0 (anext A)).

Definition give_of (r : rand) : instr := match r with RTmp t => ISteal t | _ => IGiveB r end.

Fixpoint gen_expr (e : expr) (A : astate) {struct e} : list instr * rand * astate :=
  match e with
  | EArg i => ([], RArg i, A)
  | ELoc x => ([], RLoc x, A)
  | EOp es =>
      let '(c, rs, A1) := gen_list es A in
      let '(d, A2) := alloc A1 in
      (c ++ [IOp d rs []] ++ map IDecref (tmps_of rs), RTmp d, release_all (tmps_of rs) A2)
  | ESeq es =>
      let '(c, rs, A1) := gen_list es A in
      let '(d, A2) := alloc A1 in
      (c ++ [IAlloc d] ++ map give_of rs, RTmp d, release_all (tmps_of rs) A2)
  | ECall f es =>
      let '(d, A1) := alloc A in
      let '(sf, A2) := alloc A1 in               (* self_arg temp: stays NULL unless a bound method is unpacked *)
      let '(cf, rf, A3) := gen_expr f A2 in
      let '(cf2, ft, A4) :=
          match rf with
          | RTmp t => ([], t, A3)
          | _ => let '(t, A') := alloc A3 in ([IIncref t rf], t, A')
          end in
      let '(ca, rs, A5) := gen_list es A4 in
      (cf ++ cf2 ++ ca ++ [IOp d (RTmp ft :: rs) (tmps_of rs ++ [ft])], RTmp d,
       release ft (release_all (tmps_of rs) (release sf A5)))
  end
with gen_list (es : exprs) (A : astate) {struct es} : list instr * list rand * astate :=
  match es with
  | ENil => ([], [], A)
  | ECons e es' =>
      let '(c1, r, A1) := gen_expr e A in
      let '(c2, rs, A2) := gen_list es' A1 in
      (c1 ++ c2, r :: rs, A2)
  end.

Fixpoint cseq (c : list instr) (k : code) : code :=
  match c with [] => k | i :: c' => CSeq (CI i) (cseq c' k) end.

Fixpoint gen_stmt (s : stmt) (A : astate) {struct s} : code * astate :=
  match s with
  | SSkip => (CSkip, A)
  | SSeq s1 s2 =>
      let '(c1, A1) := gen_stmt s1 A in
      let '(c2, A2) := gen_stmt s2 A1 in
      (CSeq c1 c2, A2)
  | SAssign x e =>
      let '(c, r, A1) := gen_expr e A in
      (cseq (c ++ [ISetLoc x r]) CSkip, release_all (tmp_of r) A1)
  | SExpr e =>
      let '(c, r, A1) := gen_expr e A in
      (cseq (c ++ map IDecref (tmp_of r)) CSkip, release_all (tmp_of r) A1)
  | SReturn e =>
      let '(c, r, A1) := gen_expr e A in
      let A2 := release_all (tmp_of r) A1 in
      (cseq (c ++ [ISetRes r] ++ map IDecref (inuse_list A2)) CReturn, A2)
  | SStore v es v_last =>
      let '(c1, r, A1) := gen_expr v A in
      let '(c2, rs, A2) := gen_list es A1 in
      let order := if v_last then tmps_of rs ++ tmp_of r else tmp_of r ++ tmps_of rs in
      (cseq (c1 ++ c2 ++ [IVoid (rs ++ [r])] ++ map IDecref order) CSkip, release_all order A2)
  | SIf c s1 s2 =>
      let '(cc, r, A1) := gen_expr c A in
      let A2 := release_all (tmp_of r) A1 in
      let '(c1, A3) := gen_stmt s1 A2 in
      let '(c2, A4) := gen_stmt s2 A3 in
      (cseq (cc ++ [ITruth r] ++ map IDecref (tmp_of r)) (CIf c1 c2), A4)
  | SFor x e body =>
      let '(ce, r, A1) := gen_expr e A in
      let '(it, A2) := alloc A1 in
      let A3 := release_all (tmp_of r) A2 in
      let '(d, A4) := alloc A3 in                (* NextNode result, released after the target assignment *)
      let A5 := release d A4 in
      let '(cb, A6) := gen_stmt body A5 in
      (cseq (ce ++ [IOp it [r] []] ++ map IDecref (tmp_of r)) (CLoop it d x cb), release it A6)
  | SBreak => (CBreak, A)
  | SContinue => (CContinue, A)
  end.

Definition A0 : astate := mkA 0 [].

(* whole function: body, then the implicit "return None" (none = index of the borrowed None constant) *)
Definition gen_fun (none : nat) (body : stmt) : code :=
  CSeq (fst (gen_stmt body A0)) (CI (ISetRes (RArg none))).

(* ---------- oracle used by the correspondence driver ---------- *)
(* decisions: per call index 0 = plain, 1 = truth test true / iterator yields, 2 = false / exhausted *)
Definition orc_of (k : option nat) (decisions : list nat) : orc :=
  {| fail := fun i => match k with Some j => Nat.eqb i j | None => false end;
     afail := fun _ => false;
     more := fun i => Nat.eqb (nth i decisions 0) 1;
     truth := fun i => Nat.eqb (nth i decisions 0) 1;
     alias := fun _ => None |}.

Definition events_of (f : final) : option (bool * list event) :=
  match f with Done b s => Some (b, rev (tr s)) | _ => None end.

(* ---------- the with statement (Nodes.py WithStatNode, ExprNodes.py WithExitCallNode) ---------- *)
(* WithExitCallNode.generate_evaluation_code: exit_var(args) is called, exit_var and the args tuple are
   DECREF-cleared, NULL test, GOTREF(result_var).  result_var is an UNMANAGED temp
   (allocate_temp(py_object_type, manage_ref=False)): it has no slot that any error label sweeps, the emitted code
   itself must release it.  In the except branch (test = true) the result is truth-tested:
     late = false (the code as it is):  IsTrue(result_var); DECREF(result_var); error test
     late = true  (variant):            IsTrue(result_var); error test; DECREF(result_var)
   args: the managed temp of the (type, value, tb) tuple, or [] for the constant (None, None, None) tuple. *)
Definition exit_call (O : orc) (late test : bool) (te : nat) (args : list nat) (s : state) : result :=
  match rds s (map RTmp (te :: args)) with
  | RsStuck w => Stuck w
  | RsUnbound => Err s
  | RsOk _ =>
      let k := calls s in
      bind (decref_all (te :: args) (tick s)) (fun s2 =>
        if fail O k then Err s2
        else
          let o := nxt s2 in
          let s3 := got o (fresh s2) in
          if test then
            let k2 := calls s3 in
            let s4 := tick s3 in
            if late then
              if fail O k2 then Err s4
              else match give o s4 with
                   | None => Stuck TooManyDecref
                   | Some s5 => Norm (set_flag (truth O k2) s5)
                   end
            else
              match give o s4 with
              | None => Stuck TooManyDecref
              | Some s5 => if fail O k2 then Err s5 else Norm (set_flag (truth O k2) s5)
              end
          else match give o s3 with None => Stuck TooManyDecref | Some s5 => Norm s5 end)
  end.

(* the emission order exit_call stands for, as op codes compared with the generated C:
   0 call, 1 DECREF(exit_var), 2 DECREF(args), 3 NULL test, 4 GOTREF(result), 5 IsTrue(result),
   6 DECREF(result), 7 error test of the truth value *)
Definition exit_order (late test : bool) : list nat :=
  [0; 1; 2; 3; 4] ++ (if test then (if late then [5; 7; 6] else [5; 6; 7]) else [6]).

(* __Pyx_GetException(&e0, &e1, &e2): three new references (type, value, traceback) in managed temps *)
Definition exc_fetch (e0 e1 e2 : nat) (s : state) : result :=
  bind (new_ref e0 (nxt s) (fresh s)) (fun s1 =>
  bind (new_ref e1 (nxt s1) (fresh s1)) (fun s2 => new_ref e2 (nxt s2) (fresh s2))).

(* ReraiseStatNode in the except clause: XINCREF + XGIVEREF of the three values (ErrRestore steals them);
   the temps keep their own references, which the error label releases *)
Definition reraise3 (O : orc) (e0 e1 e2 : nat) (s : state) : result :=
  bind (run O [IGiveB (RTmp e0); IGiveB (RTmp e1); IGiveB (RTmp e2)] s) (fun s' => Err s').

(* XDECREF-clear of the managed temps that are free at the end of the try body (TryExceptStatNode:
   temps_to_clean_up), here: every slot outside [keep] *)
Definition try_cleanup (keep : list nat) (s : state) : result :=
  sweep temps set_temps
        (filter (fun t => negb (existsb (Nat.eqb t) keep)) (seq 0 (kbound (temps s)))) s.

(* with <rm> [as x]: body.  te = exit_var, tv = result of __enter__(), e0 e1 e2 = exception temps, ta = args
   tuple; keep = temps in use at the try statement (they survive the except label).  The body is a state
   transformer (for instance exec O fuel (gen_stmt ...)). *)
Definition with_stat (O : orc) (late : bool) (rm : rand) (te tv e0 e1 e2 ta : nat) (x : option nat)
                     (keep : list nat) (body : state -> result) (s : state) : result :=
  bind (step O (IAlloc te) s) (fun s1 =>                    (* exit_var = LookupSpecial(mgr, "__exit__") *)
  match run O ([IOp tv [rm] []] ++ map IDecref (tmp_of rm)) s1 with   (* __enter__(); manager disposed *)
  | Err s2 => bind (decref_clear te s2) Err                 (* __pyx_L3_error: DECREF(exit_var) *)
  | Norm s2 =>
      let pre := match x with Some v => step O (ISetLoc v (RTmp tv)) s2 | None => decref_clear tv s2 end in
      let fin (k : state -> result) (s3 : state) := bind (exit_call O late false te [] s3) k in
      match bind pre body with
      | Norm s3 => fin Norm s3                              (* finally, normal exit: exit_var(None, None, None) *)
      | Brk s3 => fin Brk s3
      | Cnt s3 => fin Cnt s3
      | Ret s3 => fin Ret s3                                (* the pending return value stays in its managed slot *)
      | Err s3 =>                                           (* except: *)
          bind (try_cleanup (te :: keep) s3) (fun s4 =>
          bind (exc_fetch e0 e1 e2 s4) (fun s5 =>
          bind (step O (IAlloc ta) s5) (fun s6 =>         (* __Pyx_PyTuple_FromArray: GOTREF(tuple) *)
          bind (exit_call O late true te [ta] s6) (fun s7 =>
            if flag s7 then decref_all [e0; e1; e2] s7      (* swallowed: exception_handled *)
            else reraise3 O e0 e1 e2 s7))))
      | r => r
      end
  | r => r
  end).
