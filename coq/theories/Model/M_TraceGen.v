(* Code-generation level model of the trace events of ONE compiled code object
   (Cython/Compiler/Nodes.py: FuncDefNode.generate_function_definitions for def / cdef / cpdef /
   lambda / method bodies, GeneratorBodyDefNode.generate_function_definitions for generators,
   coroutines, async generators and generator expressions - real and inlined -,
   ReturnStatNode.generate_execution_code, ExprNodes.YieldExprNode.generate_yield_code).

   M_Trace.v starts from a CALL TREE in which every activation already has one start and one end.
   This file derives that from the generated code: a function is (kind, body, tflag) where
     kind   KFunc c w          FuncDefNode path (c: C-level function, cdef/cpdef entry; w: a cpdef
                               function entered through its Python wrapper: the wrapper emits the
                               start event, the C function is told to skip its own (skip_dispatch)
                               and emits the return / unwind event)
            KGen inl comp      GeneratorBodyDefNode path; inl = is_inlined (the generator
                               expression was inlined into any/all/sorted/list/set/dict/str.join by
                               Optimize.py: InlinedGeneratorExpressionNode), comp =
                               inlined_comprehension_type is not None (list/set/dict/sorted/join)
     body   statements of a small structured language (calls that may raise, raise, return, yield,
            if, for-else, try/except, try/finally)
     tflag  the compiler's body.is_terminator (RemoveUnreachableCode after ControlFlowAnalysis);
            it may only be set when the end of the body is unreachable: tflag -> is_term body.

   What the generated C does, as tokens ([tok]):
     prologue   KFunc:  __Pyx_TraceStartFunc                          TStart SCall
                KGen :  first_run label: __Pyx_TraceStartGen, then the sent-value test
                        (NULL / non-None -> error label)              TStart SGenStart|SCloseUnstarted
     return     ReturnStatNode: __Pyx_TraceReturnValue then goto return label          TRet
     yield      __Pyx_TraceYield; C return; resume label: __Pyx_TraceResumeGen; NULL sent value
                -> error label                                        TYield ... TStart SResume|SThrow
     fall off   "if tracing and not self.body.is_terminator: put_trace_return"        [falloff]
                The condition is [cv_fall] of the parameter [g : cvar]; the code as it is has
                cv_fall g = fun _ => true.  (A guard that is false for some kind loses the event: see
                P_TraceGen.falloff_guard_necessary.)
     error      error label: __Pyx_TraceException (no legacy event), then
                __Pyx_TraceExceptionUnwind / __Pyx_TraceReturnValue(NULL)            TUnwind
                (generators: inside "if (__Pyx_PyErr_Occurred())"; every goto to the error label
                in this language has an exception set: C-API contract, TRUSTED)
     return label: no event.
   A call statement runs nested activations (TKid placeholders, filled from the execution tree).

   An EXECUTION of one code object is driven by an oracle (list of [choice]: what each call,
   condition, loop iterator and resume did).  [run] returns the flat token list of the whole
   life of the activation / generator instance; [seg_at k] cuts out the k-th C-level activation
   (segment: from entry or a resume label to the C return).  An execution of a PROGRAM is a tree
   [xt] of segments; [word] is the event sequence the generated code emits for it. *)
From Coq Require Import List Bool Arith.
From CyVerif Require Import Model.M_Trace.
Import ListNotations.

Inductive fkind := KFunc (c w : bool) | KGen (inlined comp : bool).

(* which variant of the generated code: [cv_fall k] = the fall-off-the-end return event is
   emitted for kind k (the code as it is: every kind); [cv_wrap2] = the error path of the traced
   Python wrapper of a cpdef function emits a second unwind event after the C function already
   reported its own (the code as it is: true - finding cpdef_wrapper_raise_double_return) *)
Record cvar := CV { cv_fall : fkind -> bool; cv_wrap2 : bool }.

Definition wrapped (k : fkind) : bool := match k with KFunc _ w => w | KGen _ _ => false end.

Inductive stmt :=
| SExpr                          (* expression statement: calls (nested activations), may raise *)
| SRaise                         (* raise ValueError *)
| SReturn
| SYield
| SIf (a b : block)              (* the condition may call and raise *)
| SLoop (body els : block)       (* for ... else; the iterator may call and raise *)
| STry (body h : block)          (* try/except catching the catchable exceptions *)
| SFin (body fin : block)        (* try/finally *)
with block := BNil | BCons (s : stmt) (r : block).

Record func := Func { f_kind : fkind; f_body : block; f_tflag : bool }.

(* ---------- static analyses ---------- *)
(* end of the block unreachable (what ControlFlowAnalysis + RemoveUnreachableCode compute) *)
Fixpoint is_term_s (s : stmt) : bool :=
  match s with
  | SExpr | SYield => false
  | SRaise | SReturn => true
  | SIf a b => is_term a && is_term b
  | SLoop _ els => is_term els
  | STry body h => is_term body && is_term h
  | SFin body fin => is_term body || is_term fin
  end
with is_term (b : block) : bool :=
  match b with
  | BNil => false
  | BCons s r => is_term_s s || is_term r
  end.

(* no `return` inside the body of a try/finally (d = number of enclosing try/finally bodies) *)
Fixpoint clean_s (d : nat) (s : stmt) : bool :=
  match s with
  | SExpr | SYield | SRaise => true
  | SReturn => Nat.eqb d 0
  | SIf a b => clean_b d a && clean_b d b
  | SLoop body els => clean_b d body && clean_b d els
  | STry body h => clean_b d body && clean_b d h
  | SFin body fin => clean_b (S d) body && clean_b d fin
  end
with clean_b (d : nat) (b : block) : bool :=
  match b with
  | BNil => true
  | BCons s r => clean_s d s && clean_b d r
  end.

(* ---------- executions ---------- *)
(* one environment answer: [c_kids] nested activations ran; [c_go] = the condition was true /
   the iterator produced an item / the generator was resumed at all; [c_exc] = Some catchable:
   the call (condition, iterator) raised / the generator was resumed by throw() or close() *)
Record choice := Ch { c_kids : nat; c_go : bool; c_exc : option bool }.

Inductive outcome :=
| ONormal
| OReturn (pending : bool)   (* pending: the return statement was inside a try/finally body *)
| ORaise (catchable : bool)
| OAbandon                   (* suspended at a yield and never resumed *)
| OStuck.                    (* oracle or fuel exhausted, or a yield outside a generator *)

Inductive tok := TStart (s : skind) | TKid | TLine | TRet | TYield | TUnwind.

Definition call_part (c : choice) : list tok := repeat TKid (c_kids c).

Definition is_stop (o : outcome) : bool :=
  match o with OAbandon | OStuck => true | _ => false end.

(* fx: repaired placement of the return event of a return inside try/finally (M_Trace fx).
   gen: yields allowed (generator body that was not inlined).  n: fuel.  d: try/finally depth. *)
Fixpoint exec_s (fx gen : bool) (n d : nat) (s : stmt) (o : list choice)
  : list tok * outcome * list choice :=
  match n with
  | 0 => ([], OStuck, o)
  | S n' =>
    match s with
    | SExpr =>
        match o with
        | [] => ([TLine], OStuck, [])
        | c :: o' => (TLine :: call_part c,
                      match c_exc c with Some k => ORaise k | None => ONormal end, o')
        end
    | SRaise => ([TLine], ORaise true, o)
    | SReturn =>
        if Nat.eqb d 0 then ([TLine; TRet], OReturn false, o)
        else if fx then ([TLine], OReturn true, o)
        else ([TLine; TRet], OReturn true, o)
    | SYield =>
        if gen then
          match o with
          | [] => ([TLine; TYield], OAbandon, [])
          | c :: o' =>
              if c_go c then
                match c_exc c with
                | None => ([TLine; TYield; TStart SResume], ONormal, o')
                | Some k => ([TLine; TYield; TStart SThrow], ORaise k, o')
                end
              else ([TLine; TYield], OAbandon, o')
          end
        else ([TLine], OStuck, o)
    | SIf a b =>
        match o with
        | [] => ([TLine], OStuck, [])
        | c :: o' =>
            match c_exc c with
            | Some k => (TLine :: call_part c, ORaise k, o')
            | None =>
                let '(t, out, o2) := exec_b fx gen n' d (if c_go c then a else b) o' in
                (TLine :: call_part c ++ t, out, o2)
            end
        end
    | SLoop body els =>
        let '(t, out, o2) := exec_l fx gen n' d body els o in (TLine :: t, out, o2)
    | STry body h =>
        let '(t1, o1, r1) := exec_b fx gen n' d body o in
        match o1 with
        | ORaise true =>
            let '(t2, o2, r2) := exec_b fx gen n' d h r1 in (TLine :: t1 ++ t2, o2, r2)
        | _ => (TLine :: t1, o1, r1)
        end
    | SFin body fin =>
        let '(t1, o1, r1) := exec_b fx gen n' (S d) body o in
        if is_stop o1 then (TLine :: t1, o1, r1)
        else
          let '(t2, o2, r2) := exec_b fx gen n' d fin r1 in
          (TLine :: t1 ++ t2, match o2 with ONormal => o1 | _ => o2 end, r2)
    end
  end
with exec_b (fx gen : bool) (n d : nat) (b : block) (o : list choice)
  : list tok * outcome * list choice :=
  match n with
  | 0 => ([], OStuck, o)
  | S n' =>
    match b with
    | BNil => ([], ONormal, o)
    | BCons s r =>
        let '(t1, o1, r1) := exec_s fx gen n' d s o in
        match o1 with
        | ONormal => let '(t2, o2, r2) := exec_b fx gen n' d r r1 in (t1 ++ t2, o2, r2)
        | _ => (t1, o1, r1)
        end
    end
  end
with exec_l (fx gen : bool) (n d : nat) (body els : block) (o : list choice)
  : list tok * outcome * list choice :=
  match n with
  | 0 => ([], OStuck, o)
  | S n' =>
    match o with
    | [] => ([], OStuck, [])
    | c :: o' =>
        match c_exc c with
        | Some k => (call_part c, ORaise k, o')
        | None =>
            if c_go c then
              let '(t1, o1, r1) := exec_b fx gen n' d body o' in
              match o1 with
              | ONormal =>
                  let '(t2, o2, r2) := exec_l fx gen n' d body els r1 in
                  (call_part c ++ t1 ++ t2, o2, r2)
              | _ => (call_part c ++ t1, o1, r1)
              end
            else
              let '(t, out, r) := exec_b fx gen n' d els o' in (call_part c ++ t, out, r)
        end
    end
  end.

(* ---------- the function around the body ---------- *)
(* "if tracing and <g kind> and not self.body.is_terminator: code.put_trace_return(...)" *)
Definition falloff (g : cvar) (k : fkind) (tflag : bool) : list tok :=
  if cv_fall g k && negb tflag then [TRet] else [].

Definition finish (g : cvar) (fx : bool) (k : fkind) (tflag : bool) (out : outcome)
  : list tok :=
  match out with
  | ONormal => falloff g k tflag
  | OReturn p => if fx && p then [TRet] else []
  | ORaise _ => TUnwind :: (if cv_wrap2 g && wrapped k then [TUnwind] else [])
  | OAbandon | OStuck => []
  end.

Definition gen_allowed (k : fkind) : bool :=
  match k with KFunc _ _ => false | KGen i _ => negb i end.

(* the whole life of one activation (KFunc) / one generator instance (KGen) *)
Definition run (g : cvar) (fx : bool) (fn : func) (n : nat) (o : list choice)
  : list tok * outcome :=
  let k := f_kind fn in
  match k with
  | KFunc _ _ =>
      let '(t, out, _) := exec_b fx false n 0 (f_body fn) o in
      (TStart SCall :: t ++ finish g fx k (f_tflag fn) out, out)
  | KGen _ _ =>
      match o with
      | [] => ([], OStuck)                      (* created, never run: no events *)
      | c :: o' =>
          match c_exc c with
          | Some kx => ([TStart SCloseUnstarted; TUnwind], ORaise kx)
          | None =>
              let '(t, out, _) := exec_b fx (gen_allowed k) n 0 (f_body fn) o' in
              (TStart SGenStart :: t ++ finish g fx k (f_tflag fn) out, out)
          end
      end
  end.

(* the resume switch's `default:` branch (never reached: Coroutine.c tests resume_label first) *)
Definition default_branch : list tok := [TStart SGenStart; TRet].

(* textual layout of the trace macros around "function exit code" (static tie) *)
Inductive etok := EMark | EFall | EGotoRet | EErrLabel | EIfExc | EExc | EUnw.

Definition epilogue (g : cvar) (k : fkind) (tflag : bool) : list etok :=
  let fall := map (fun _ => EFall) (falloff g k tflag) in
  let skip := if tflag then [] else [EGotoRet] in
  match k with
  | KFunc _ _ => [EMark] ++ fall ++ skip ++ [EErrLabel; EExc; EUnw]
  | KGen _ _ => fall ++ [EMark] ++ skip ++ [EErrLabel; EIfExc; EExc; EUnw]
  end.

(* ---------- segments ---------- *)
Fixpoint take_seg (l : list tok) : list tok :=
  match l with
  | [] => []
  | TYield :: _ => [TYield]
  | t :: r => t :: take_seg r
  end.

Fixpoint drop_seg (l : list tok) : list tok :=
  match l with
  | [] => []
  | TYield :: r => r
  | _ :: r => drop_seg r
  end.

Fixpoint drop_segs (k : nat) (l : list tok) : list tok :=
  match k with 0 => l | S k' => drop_segs k' (drop_seg l) end.

Definition seg_at (k : nat) (l : list tok) : list tok := take_seg (drop_segs k l).

Fixpoint count_yield (l : list tok) : nat :=
  match l with
  | [] => 0
  | TYield :: r => S (count_yield r)
  | _ :: r => count_yield r
  end.

Definition final (o : outcome) : bool :=
  match o with ONormal | OReturn _ | ORaise _ => true | OAbandon | OStuck => false end.

(* the k-th segment ran to its C return (decided from the oracle's outcome, not from the tokens) *)
Definition complete_seg (k : nat) (toks : list tok) (out : outcome) : bool :=
  Nat.ltb k (count_yield toks) || (Nat.eqb k (count_yield toks) && final out).

(* ---------- executions of a program ---------- *)
Inductive xt := XT (f : nat) (o : list choice) (fuel : nat) (k : nat) (kids : xts)
with xts := XNil | XCons (x : xt) (r : xts).

Definition tok_events (t : tool) (lt : bool) (f : nat) (k : tok) : list event :=
  match k with
  | TStart s => start_cy t s f
  | TKid => []
  | TLine => line_ev lt 0 f
  | TRet => end_ev t EReturn f
  | TYield => end_ev t EYield f
  | TUnwind => end_ev t ERaise f
  end.

(* total, lenient: also defined for malformed segments (what the harness compares) *)
Fixpoint expand (t : tool) (lt : bool) (f : nat) (seg : list tok) (kids : list (list event))
  : list event :=
  match seg with
  | [] => []
  | TKid :: r =>
      match kids with
      | [] => expand t lt f r []
      | w :: ks => w ++ expand t lt f r ks
      end
  | k :: r => tok_events t lt f k ++ expand t lt f r kids
  end.

Definition seg_of (g : cvar) (fx : bool) (prog : list func) (f : nat)
  (o : list choice) (fuel k : nat) : list tok :=
  match nth_error prog f with
  | Some fn => seg_at k (fst (run g fx fn fuel o))
  | None => []
  end.

Fixpoint word (g : cvar) (fx : bool) (t : tool) (lt : bool) (prog : list func) (x : xt)
  : list event :=
  match x with
  | XT f o fuel k kids =>
      expand t lt f (seg_of g fx prog f o fuel k) (words g fx t lt prog kids)
  end
with words (g : cvar) (fx : bool) (t : tool) (lt : bool) (prog : list func) (xs : xts)
  : list (list event) :=
  match xs with
  | XNil => []
  | XCons x r => word g fx t lt prog x :: words g fx t lt prog r
  end.

(* strict reading of a segment as an M_Trace node: start token, then only kids and lines, then
   exactly one end token and nothing after it *)
Fixpoint mids (r : list tok) (kids : list node) : option (items * ekind) :=
  match r with
  | [] => None
  | TKid :: r' =>
      match kids with
      | [] => mids r' []
      | n :: ks => match mids r' ks with Some (b, e) => Some (ICall n b, e) | None => None end
      end
  | TLine :: r' => match mids r' kids with Some (b, e) => Some (ILine 0 b, e) | None => None end
  | TRet :: r' => match r' with [] => Some (INil, EReturn) | _ => None end
  | TYield :: r' => match r' with [] => Some (INil, EYield) | _ => None end
  | TUnwind :: r' => match r' with [] => Some (INil, ERaise) | _ => None end
  | TStart _ :: _ => None
  end.

Definition seg_node (f : nat) (seg : list tok) (kids : list node) : option node :=
  match seg with
  | TStart s :: r => match mids r kids with Some (b, e) => Some (Node f s b e) | None => None end
  | _ => None
  end.

Fixpoint to_node (g : cvar) (fx : bool) (prog : list func) (x : xt) : option node :=
  match x with
  | XT f o fuel k kids =>
      match to_nodes g fx prog kids with
      | Some ns => seg_node f (seg_of g fx prog f o fuel k) ns
      | None => None
      end
  end
with to_nodes (g : cvar) (fx : bool) (prog : list func) (xs : xts) : option (list node) :=
  match xs with
  | XNil => Some []
  | XCons x r =>
      match to_node g fx prog x, to_nodes g fx prog r with
      | Some n, Some ns => Some (n :: ns)
      | _, _ => None
      end
  end.

(* every node of the tree names a function of the program and a segment that ran to its end *)
Fixpoint complete (g : cvar) (fx : bool) (prog : list func) (x : xt) : bool :=
  match x with
  | XT f o fuel k kids =>
      match nth_error prog f with
      | Some fn => let '(toks, out) := run g fx fn fuel o in complete_seg k toks out
      | None => false
      end && completes g fx prog kids
  end
with completes (g : cvar) (fx : bool) (prog : list func) (xs : xts) : bool :=
  match xs with
  | XNil => true
  | XCons x r => complete g fx prog x && completes g fx prog r
  end.

Definition func_ok (g : cvar) (fx : bool) (fn : func) : bool :=
  implb (f_tflag fn) (is_term (f_body fn)) && (fx || clean_b 0 (f_body fn)) &&
  (negb (cv_wrap2 g) || negb (wrapped (f_kind fn))).

Definition prog_ok (g : cvar) (fx : bool) (prog : list func) : bool := forallb (func_ok g fx) prog.

(* the code as it is *)
Definition as_is : cvar := CV (fun _ => true) true.
(* ... with the wrapper's second unwind event removed (proposed fix) *)
Definition wrap_fixed : cvar := CV (fun _ => true) false.

(* the seeded guard "tracing and not self.is_inlined and not self.body.is_terminator" *)
Definition g_not_inlined : cvar :=
  CV (fun k => match k with KGen true _ => false | _ => true end) true.
