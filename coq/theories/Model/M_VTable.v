(* Model of how a C-level call reaches a c(p)def method of an extension type:
     Symtab.py  CClassScope.declare_cfunction / add_cfunction / declare_inherited_c_attributes
                (one vtable slot per C signature of the method along the inheritance chain, entries of the
                 same name linked through prev_entry),
     Nodes.py   CFuncDefNode.generate_wrapper_functions (adapters `<impl>__pyx_wrap_<j>` stored in the
                 older slots when the C signature changed: cdef -> cpdef adds the skip_dispatch argument,
                 more optional arguments add/replace the optional-args struct),
     ModuleNode.py generate_exttype_vtable_init_code (`vtable.__pyx_base = *parent vtable`, then every
                 entry with a func_cname is stored in its slot),
     ExprNodes.py  the call site  o->__pyx_vtab->[__pyx_base.]m(o, 0, NULL)  cast to the vtable struct of T (slot of the
                 static type T, skip_dispatch = 0) or, for final methods, the direct call of T's function.
   On top of M_Override (the override check at the head of a cpdef C entry point, histories of class /
   instance mutations): a C-level call through static type T of object o runs entry T-slot of the vtable of
   o's extension base type. *)
From Coq Require Import ZArith List Bool Lia.
From CyVerif Require Import Model.M_Override.
Import ListNotations.

(* what the body of an extension type says about m at C level: nothing (also: plain def), or a
   cdef (ov = false) / cpdef (ov = true) method with nopt optional arguments, final or not *)
Inductive vdecl := VNone | VDecl (ov : bool) (nopt : nat) (fin : bool).

(* how an adapter supplies the skip_dispatch / optional-args arguments of the implementation *)
Inductive skarg := SkNone | SkFwd | SkConst (b : bool).
Inductive oparg := OpNone | OpFwd | OpNull.
Inductive entry := EImpl (k : nat) | EAdapt (k : nat) (sk : skarg) (oa : oparg).

(* one function pointer of the vtable struct: declared by class s_cls with C signature (s_ov, s_nopt) *)
Record slot := mkslot { s_cls : nat; s_ov : bool; s_nopt : nat; s_fin : bool; s_ent : entry }.
Definition vtable := list slot.       (* newest slot first *)

(* generate_wrapper_functions: the adapter for an older slot s forwarding to class k's function of
   signature (ov, n).  askip = the constant passed for skip_dispatch when the slot has no such
   argument ('0' in the code as it is) *)
Definition mk_adapt (askip : bool) (k : nat) (ov : bool) (n : nat) (s : slot) : slot :=
  mkslot (s_cls s) (s_ov s) (s_nopt s) (s_fin s)
    (EAdapt k (if s_ov s then SkFwd else if ov then SkConst askip else SkNone)
              (if (0 <? s_nopt s)%nat then OpFwd else if (0 <? n)%nat then OpNull else OpNone)).

(* class i (body declaration d) on top of its parent's vtable *)
Definition declare (askip : bool) (i : nat) (d : vdecl) (vt : vtable) : vtable :=
  match d with
  | VNone => vt
  | VDecl ov n f =>
      match vt with
      | [] => [mkslot i ov n f (EImpl i)]
      | s :: r =>
          if Bool.eqb (s_ov s) ov && Nat.eqb (s_nopt s) n
          then mkslot (s_cls s) ov n f (EImpl i) :: map (mk_adapt askip i ov n) r      (* same C signature: entry reused *)
          else mkslot i ov n f (EImpl i) :: map (mk_adapt askip i ov n) (s :: r)       (* compatible: new slot *)
      end
  end.

(* chain = (class id, declaration) from the root type down *)
Definition chain := list (nat * vdecl).
Fixpoint build (askip : bool) (ch : chain) (vt : vtable) : vtable :=
  match ch with
  | [] => vt
  | (i, d) :: r => build askip r (declare askip i d vt)
  end.

(* what runs: the plain C body of class k's cdef method, or the C entry point of class k's cpdef
   method with the given skip_dispatch *)
Inductive vres := VBody (k : nat) | VEntry (k : nat) (skip : bool).

(* the call site passes skip_dispatch = 0 when the slot has the argument *)
Definition run_entry (s : slot) : vres :=
  match s_ent s with
  | EImpl k => if s_ov s then VEntry k false else VBody k
  | EAdapt k SkFwd _ => VEntry k false
  | EAdapt k (SkConst b) _ => VEntry k b
  | EAdapt k SkNone _ => VBody k
  end.

Fixpoint split_at (t : nat) (ch : chain) : option (chain * chain) :=
  match ch with
  | [] => None
  | (i, d) :: r =>
      if Nat.eqb i t then Some ([(i, d)], r)
      else match split_at t r with Some (a, b) => Some ((i, d) :: a, b) | None => None end
  end.

(* C-level call o.m() where o is statically typed t and the object's extension type has chain ch *)
Definition vt_call (askip : bool) (ch : chain) (t : nat) : option vres :=
  match split_at t ch with
  | None => None                                  (* not an instance of t: argument type test fails *)
  | Some (pre, post) =>
      let vt_t := build askip pre [] in
      match vt_t with
      | [] => None                                (* t has no C method m *)
      | hd :: _ =>
          if s_fin hd then Some (run_entry hd)    (* final: direct call of t's own function *)
          else let vt_d := build askip post vt_t in
               match nth_error vt_d (length vt_d - length vt_t) with
               | Some s => Some (run_entry s)
               | None => None
               end
      end
  end.

(* ---------- reference: the same chain as plain Python classes (cdef m = an attribute private to C
   callers, cpdef m = that attribute redirects to the Python-visible self.m()) ---------- *)
Definition dstate := option (nat * bool * bool).     (* most-derived declaration so far: class, ov, final *)
Definition upd_st (st : dstate) (x : nat * vdecl) : dstate :=
  match snd x with VNone => st | VDecl ov _ f => Some (fst x, ov, f) end.
Definition last_decl (ch : chain) (st : dstate) : dstate := fold_left upd_st ch st.

Definition vt_ref (ch : chain) (t : nat) : option vres :=
  match split_at t ch with
  | None => None
  | Some (pre, _) =>
      match last_decl pre None with
      | None => None
      | Some _ => match last_decl ch None with
                  | Some (k, true, _) => Some (VEntry k false)     (* full Python dispatch *)
                  | Some (k, false, _) => Some (VBody k)
                  | None => None
                  end
      end
  end.

(* what the compiler accepts: cpdef never re-declared as cdef; nothing re-declares a final method *)
Fixpoint wf_chain (ch : chain) (st : dstate) : bool :=
  match ch with
  | [] => true
  | (i, VNone) :: r => wf_chain r st
  | (i, VDecl ov n f) :: r =>
      match st with
      | None => true
      | Some (_, ov0, f0) => negb f0 && implb ov0 ov
      end && wf_chain r (Some (i, ov, f))
  end.

(* ---------- composition with the override check of M_Override ---------- *)
Definition ext_base (h : hier) (c : nat) : option nat :=
  find (fun i => is_ext (getc h i)) (cmro (getc h c)).
Definition chain_of (h : hier) (vd : list vdecl) (e : nat) : chain :=
  map (fun i => (i, nth i vd VNone)) (rev (cmro (getc h e))).

Inductive vop := VBase (o : op) | VCallT (t oi : nat).       (* VCallT: C call through static type t *)

Definition interp_cy (cached fx : bool) (h : hier) (w : world) (oi : nat) (o : ostate) (r : vres) : world * result :=
  match r with
  | VBody k => (w, RBody k)
  | VEntry k s => cbody cached fx h w k s oi o
  end.

Definition vstep_cy (askip cached fx : bool) (h : hier) (vd : list vdecl) (w : world) (o : vop) : world * option result :=
  match o with
  | VBase b => step_cy cached fx h w b
  | VCallT t oi =>
      match nth_error (w_objs w) oi with
      | Some o =>
          match ext_base h (os_cls o) with
          | Some e => match vt_call askip (chain_of h vd e) t with
                      | Some r => let (w1, x) := interp_cy cached fx h w oi o r in (w1, Some x)
                      | None => (w, Some RInvalid)
                      end
          | None => (w, Some RInvalid)
          end
      | None => (w, Some RInvalid)
      end
  end.

Definition vstep_py (h : hier) (vd : list vdecl) (s : pstate) (o : vop) : pstate * option result :=
  match o with
  | VBase b => step_py h s b
  | VCallT t oi =>
      (s, Some match nth_error (p_objs s) oi with
               | Some (c, inst) =>
                   match ext_base h c with
                   | Some e => match vt_ref (chain_of h vd e) t with
                               | Some (VEntry _ _) => dispatch_py h s c inst
                               | Some (VBody k) => RBody k
                               | None => RInvalid
                               end
                   | None => RInvalid
                   end
               | None => RInvalid
               end)
  end.

Fixpoint vrun_cy (askip cached fx : bool) (h : hier) (vd : list vdecl) (w : world) (ops : list vop) : list result :=
  match ops with
  | [] => []
  | o :: r => match snd (vstep_cy askip cached fx h vd w o) with
              | Some x => x :: vrun_cy askip cached fx h vd (fst (vstep_cy askip cached fx h vd w o)) r
              | None => vrun_cy askip cached fx h vd (fst (vstep_cy askip cached fx h vd w o)) r
              end
  end.

Fixpoint vrun_py (h : hier) (vd : list vdecl) (s : pstate) (ops : list vop) : list result :=
  match ops with
  | [] => []
  | o :: r => match snd (vstep_py h vd s o) with
              | Some x => x :: vrun_py h vd (fst (vstep_py h vd s o)) r
              | None => vrun_py h vd (fst (vstep_py h vd s o)) r
              end
  end.

(* agreement of the C-level declarations with the Python-visible ones of the hierarchy: a class has
   the cpdef wrapper in its dict iff its C declaration is overridable; Python classes declare nothing *)
Definition agree_at (h : hier) (vd : list vdecl) (i : nat) : bool :=
  match nth i vd VNone with
  | VDecl true _ _ => match cdecl (getc h i) with MCpdef => true | _ => false end
  | VDecl false _ _ => is_ext (getc h i) && match cdecl (getc h i) with MCpdef => false | _ => true end
  | VNone => match cdecl (getc h i) with MCpdef => false | _ => true end
  end.
Fixpoint list_eqb (a b : list nat) : bool :=
  match a, b with
  | [], [] => true
  | x :: a', y :: b' => Nat.eqb x y && list_eqb a' b'
  | _, _ => false
  end.
(* the extension types in the MRO of c are exactly the MRO of c's extension base *)
Definition shape_at (h : hier) (c : nat) : bool :=
  match ext_base h c with
  | Some e => list_eqb (filter (fun i => is_ext (getc h i)) (cmro (getc h c))) (cmro (getc h e))
  | None => true
  end.
Definition wf_vt (h : hier) (vd : list vdecl) : bool :=
  (length vd <=? length h)%nat
  && forallb (agree_at h vd) (seq 0 (length h))
  && forallb (shape_at h) (seq 0 (length h))
  && forallb (fun e => if is_ext (getc h e) then wf_chain (chain_of h vd e) None else true) (seq 0 (length h)).
