(* C41 -- compiler directives: parsing of directive strings (Options.parse_directive_value /
   parse_directive_list) and scope resolution (ParseTreeTransforms.InterpretCompilerDirectives).
   Executable definitions only.  Strings are lists of Unicode code points (N).
   The directive tables (defaults, types, scopes, immediate decorators, non-inherited names)
   are PARAMETERS here; Gen/Gen_Directives.v instantiates them from the running code. *)
From Coq Require Import ZArith NArith List Bool.
Import ListNotations.
Open Scope N_scope.
Local Open Scope N_scope.
Local Open Scope list_scope.

Definition str := list N.

Fixpoint str_eqb (a b : str) : bool :=
  match a, b with
  | [], [] => true
  | x :: a', y :: b' => (x =? y) && str_eqb a' b'
  | _, _ => false
  end.

Definition mem (s : str) (l : list str) : bool := existsb (str_eqb s) l.

(* ---------- Python text primitives ---------- *)

(* str.isspace() of one character = the set removed by str.strip() (CPython _PyUnicode_IsWhitespace) *)
Definition py_isspace (c : N) : bool :=
  ((9 <=? c) && (c <=? 13)) || ((28 <=? c) && (c <=? 32)) || (c =? 133) || (c =? 160) ||
  (c =? 5760) || ((8192 <=? c) && (c <=? 8202)) || (c =? 8232) || (c =? 8233) || (c =? 8239) ||
  (c =? 8287) || (c =? 12288).

Fixpoint lstrip (s : str) : str :=
  match s with [] => [] | c :: r => if py_isspace c then lstrip r else s end.
Definition strip (s : str) : str := rev (lstrip (rev (lstrip s))).

(* s.split(c): always at least one field *)
Fixpoint split_on (c : N) (s : str) : list str :=
  match s with
  | [] => [[]]
  | x :: r => if x =? c then [] :: split_on c r
              else match split_on c r with [] => [[x]] | f :: fs => (x :: f) :: fs end
  end.

(* s.split(c, 1) when c occurs: (before, after the first c) *)
Fixpoint cut_at (c : N) (s : str) : option (str * str) :=
  match s with
  | [] => None
  | x :: r => if x =? c then Some ([], r)
              else match cut_at c r with None => None | Some (a, b) => Some (x :: a, b) end
  end.

(* str.lower() restricted to what the callers can observe: ASCII letters are folded; every other
   character is kept.  (CPython lowers non-ASCII letters to non-ASCII text, except U+212A -> 'k';
   none of the words compared against below contains 'k'.  Checked exhaustively over all code
   points by the correspondence run.) *)
Definition lower_char (c : N) : N := if (65 <=? c) && (c <=? 90) then c + 32 else c.
Definition lower (s : str) : str := map lower_char s.

Fixpoint starts_with (p s : str) : bool :=
  match p, s with
  | [], _ => true
  | x :: p', y :: s' => (x =? y) && starts_with p' s'
  | _, [] => false
  end.
Definition ends_with (suffix s : str) : bool := starts_with (rev suffix) (rev s).
(* s[:-n] *)
Definition drop_last (n : nat) (s : str) : str := firstn (length s - n) s.

(* ---------- CPython int(str): the documented contract (external, TRUSTED) ----------
   optional whitespace, optional sign, decimal digits with single underscores between digits,
   optional whitespace; any Unicode decimal digit (digit_val) and Unicode space is accepted;
   more than 4300 digits is a ValueError (sys.int_max_str_digits). *)
Section PyInt.
  Variable digit_val : N -> option N.       (* unicodedata.decimal *)

  (* _PyUnicode_TransformDecimalAndSpaceToASCII *)
  Definition to_ascii (c : N) : N :=
    if c <? 127 then c
    else if py_isspace c then 32
    else match digit_val c with Some d => 48 + d | None => 63 end.

  Definition c_isspace (c : N) : bool := ((9 <=? c) && (c <=? 13)) || (c =? 32).
  Fixpoint c_lstrip (s : str) : str :=
    match s with [] => [] | c :: r => if c_isspace c then c_lstrip r else s end.
  Definition c_strip (s : str) : str := rev (c_lstrip (rev (c_lstrip s))).

  Definition is_digit (c : N) : bool := (48 <=? c) && (c <=? 57).
  Definition all_digits (g : str) : bool :=
    match g with [] => false | _ => forallb is_digit g end.
  Definition horner (ds : str) : Z :=
    fold_left (fun acc c => (acc * 10 + Z.of_N (c - 48))%Z) ds 0%Z.

  Definition max_str_digits : nat := 4300.

  Definition py_int (s : str) : option Z :=
    let t := c_strip (map to_ascii s) in
    let '(neg, body) := match t with
                        | 45 :: r => (true, r)
                        | 43 :: r => (false, r)
                        | _ => (false, t)
                        end in
    let groups := split_on 95 body in
    if forallb all_digits groups then
      let ds := concat groups in
      if Nat.ltb max_str_digits (length ds) then None
      else Some (if neg then (- horner ds)%Z else horner ds)
    else None.
End PyInt.

(* ---------- directive values, types, results ---------- *)

Inductive value :=
| VBool (b : bool) | VInt (z : Z) | VStr (s : str) | VNone | VList (l : list str).

Fixpoint strs_eqb (a b : list str) : bool :=
  match a, b with
  | [], [] => true
  | x :: a', y :: b' => str_eqb x y && strs_eqb a' b'
  | _, _ => false
  end.

Definition value_eqb (a b : value) : bool :=
  match a, b with
  | VBool x, VBool y => Bool.eqb x y
  | VInt x, VInt y => Z.eqb x y
  | VStr x, VStr y => str_eqb x y
  | VNone, VNone => true
  | VList x, VList y => strs_eqb x y
  | _, _ => false
  end.

(* Options.directive_types entries *)
Inductive dtype :=
| TBool | TInt | TStr | TList
| TEnum (args : list str) (amap : list (str * str))    (* one_of( *args, map=...) *)
| TEncoding                                            (* normalise_encoding_name *)
| TCallCrash    (* a class called as type(name, value): NoneType, dict, type -> TypeError *)
| TDefer        (* DEFER_ANALYSIS_OF_ARGUMENTS instance: not callable -> assert False *)
| TNoValue.     (* None: "if not type: return None" *)

Inductive perr :=
| EBadBool | EBadInt | EBadEnum           (* ValueError raised by parse_directive_value *)
| ETypeError | EAssertion | EAttribute    (* other exception types escaping the parser *)
| EExpectedEq | EUnknown                  (* ValueError raised by parse_directive_list *)
| ENotSettable                            (* proposed fix: value-less directive given a string *)
| ECodec.                                 (* codecs.getdecoder raised something other than LookupError *)

Inductive res (A : Type) :=
| Ok (a : A)
| Err (e : perr) (who : str).     (* who: directive name / item text in the message *)
Arguments Ok {A} a.
Arguments Err {A} e who.

Definition dict := list (str * value).

Fixpoint get (k : str) (d : dict) : option value :=
  match d with
  | [] => None
  | (k', v) :: r => if str_eqb k k' then Some v else get k r
  end.

(* d[k] = v : replace in place, else append (Python insertion order) *)
Fixpoint set (k : str) (v : value) (d : dict) : dict :=
  match d with
  | [] => [(k, v)]
  | (k', v') :: r => if str_eqb k k' then (k', v) :: r else (k', v') :: set k v r
  end.

Fixpoint pop (k : str) (d : dict) : dict :=
  match d with
  | [] => []
  | (k', v') :: r => if str_eqb k k' then r else (k', v') :: pop k r
  end.

(* d.update(u) *)
Definition update (d u : dict) : dict := fold_left (fun acc kv => set (fst kv) (snd kv) acc) u d.

Fixpoint assoc (k : str) (l : list (str * str)) : option str :=
  match l with
  | [] => None
  | (k', v) :: r => if str_eqb k k' then Some v else assoc k r
  end.

Fixpoint lookup_type (k : str) (l : list (str * dtype)) : option dtype :=
  match l with
  | [] => None
  | (k', v) :: r => if str_eqb k k' then Some v else lookup_type k r
  end.

(* ---------- parse_directive_value ---------- *)
Section Parse.
  Variable types : list (str * dtype).        (* Options.directive_types *)
  Variable defaults : list str.               (* keys of Options._directive_defaults, in order *)
  Variable digit_val : N -> option N.         (* unicodedata.decimal (for int()) *)
  Variable codec_class : str -> N.            (* codecs.getdecoder(enc): 1 = the ascii decoder,
                                                 2 = the utf8 decoder, 3 = raises another exception,
                                                 0 = other decoder / LookupError *)

  Definition w_true := [84; 114; 117; 101] (* "True" *).   Definition w_false := [70; 97; 108; 115; 101] (* "False" *).
  Definition w_ltrue := [116; 114; 117; 101] (* "true" *).  Definition w_yes := [121; 101; 115] (* "yes" *).
  Definition w_lfalse := [102; 97; 108; 115; 101] (* "false" *). Definition w_no := [110; 111] (* "no" *).

  Definition parse_bool (relaxed : bool) (name vtxt : str) : res value :=
    if str_eqb vtxt w_true then Ok (VBool true)
    else if str_eqb vtxt w_false then Ok (VBool false)
    else if relaxed then
      let v := lower vtxt in
      if mem v [w_ltrue; w_yes] then Ok (VBool true)
      else if mem v [w_lfalse; w_no] then Ok (VBool false)
      else Err EBadBool name
    else Err EBadBool name.

  (* one_of( *args, map=amap)(name, vtxt) *)
  Definition parse_enum (args : list str) (amap : list (str * str)) (name vtxt : str) : res value :=
    let v := match assoc vtxt amap with Some v' => v' | None => vtxt end in
    if mem v args then Ok (VStr v) else Err EBadEnum name.

  Definition common_encoding_names : list (str * str) :=
    [([117; 116; 102; 56] (* "utf8" *), [117; 116; 102; 56] (* "utf8" *)); ([117; 116; 102; 45; 56] (* "utf-8" *), [117; 116; 102; 56] (* "utf8" *)); ([100; 101; 102; 97; 117; 108; 116] (* "default" *), [117; 116; 102; 56] (* "utf8" *));
     ([97; 115; 99; 105; 105] (* "ascii" *), [97; 115; 99; 105; 105] (* "ascii" *)); ([117; 115; 45; 97; 115; 99; 105; 105] (* "us-ascii" *), [97; 115; 99; 105; 105] (* "ascii" *))].

  Definition normalise_encoding_name (enc : str) : str :=
    match enc with
    | [] => []
    | _ => match assoc (lower enc) common_encoding_names with
           | Some n => n
           | None => if codec_class enc =? 1 then [97; 115; 99; 105; 105] (* "ascii" *)
                     else if codec_class enc =? 2 then [117; 116; 102; 56] (* "utf8" *) else enc
           end
    end.

  (* the codec registry is consulted only for non-empty names outside the common table;
     class 3 = the lookup raises (e.g. "embedded null character"), which escapes as is *)
  Definition encoding_lookup_raises (enc : str) : bool :=
    match enc with
    | [] => false
    | _ => match assoc (lower enc) common_encoding_names with
           | Some _ => false
           | None => codec_class enc =? 3
           end
    end.

  Definition parse_directive_value (relaxed : bool) (name vtxt : str) : res value :=
    match lookup_type name types with
    | None => Ok VNone
    | Some TNoValue => Ok VNone
    | Some TBool => parse_bool relaxed name vtxt
    | Some TInt => match py_int digit_val vtxt with
                   | Some z => Ok (VInt z)
                   | None => Err EBadInt name
                   end
    | Some TStr => Ok (VStr vtxt)
    | Some (TEnum args amap) => parse_enum args amap name vtxt
    | Some TEncoding => if encoding_lookup_raises vtxt then Err ECodec name
                        else Ok (VStr (normalise_encoding_name vtxt))
    | Some TList => Err ETypeError name         (* list(name, vtxt) *)
    | Some TCallCrash => Err ETypeError name    (* type(name, value), dict(name, value) *)
    (* since f805503ef "<name> directive cannot be set from a string" (ValueError) for the deferred
       directives and for those whose type is NoneType (was: "assert False" / NoneType(name, value)) *)
    | Some TDefer => Err ENotSettable name
    end.

  (* ---------- parse_directive_list ---------- *)

  (* a directive that a string can give a value to (directive_types entry not None) *)
  Definition settable (name : str) : bool :=
    match lookup_type name types with None | Some TNoValue => false | _ => true end.

  (* [strict] = the proposed fix (proposed_fixes/C41-...): a directive of _directive_defaults
     whose type entry is None is rejected instead of being stored as None.  The code as it is:
     strict = false. *)
  Variable strict : bool.

  (* the ".all" branch: every default directive whose name starts with the prefix, in table order *)
  Fixpoint expand_all (relaxed : bool) (prefix vtxt : str) (ds : list str) (found : bool)
           (st : dict) : res (bool * dict) :=
    match ds with
    | [] => Ok (found, st)
    | d :: r =>
        if starts_with prefix d then
          if strict && negb (settable d) then Err ENotSettable d else
          match parse_directive_value relaxed d vtxt with
          | Ok v => expand_all relaxed prefix vtxt r true (set d v st)
          | Err e w => Err e w
          end
        else expand_all relaxed prefix vtxt r found st
    end.

  Definition is_list_type (name : str) : bool :=
    match lookup_type name types with Some TList => true | _ => false end.

  Definition parse_item (relaxed ignore_unknown : bool) (st : dict) (item0 : str) : res dict :=
    let item := strip item0 in
    match item with
    | [] => Ok st
    | _ =>
      match cut_at 61 item with
      | None => Err EExpectedEq item
      | Some (n0, v0) =>
        let name := strip n0 in
        let vtxt := strip v0 in
        if mem name defaults then
          if is_list_type name then
            match get name st with
            | Some (VList l) => Ok (set name (VList (l ++ [vtxt])) st)
            | Some _ => Err EAttribute name
            | None => Ok (set name (VList [vtxt]) st)
            end
          else if strict && negb (settable name) then Err ENotSettable name
          else
            match parse_directive_value relaxed name vtxt with
            | Ok v => Ok (set name v st)
            | Err e w => Err e w
            end
        else
          let r := if ends_with ([46; 97; 108; 108] (* ".all" *)) name
                   then expand_all relaxed (drop_last 3 name) vtxt defaults false st
                   else Ok (false, st) in
          match r with
          | Err e w => Err e w
          | Ok (found, st') =>
              if negb found && negb ignore_unknown then Err EUnknown name else Ok st'
          end
      end
    end.

  Fixpoint parse_items (relaxed ignore_unknown : bool) (st : dict) (items : list str) : res dict :=
    match items with
    | [] => Ok st
    | it :: r => match parse_item relaxed ignore_unknown st it with
                 | Ok st' => parse_items relaxed ignore_unknown st' r
                 | Err e w => Err e w
                 end
    end.

  Definition parse_directive_list (relaxed ignore_unknown : bool) (cur : dict) (s : str) : res dict :=
    parse_items relaxed ignore_unknown cur (split_on 44 s).
End Parse.

(* ====================================================================================== *)
(* ---------- scope resolution: InterpretCompilerDirectives ---------- *)

Inductive kind := KFunc | KClass | KCClass | KWith | KProbe.

(* a def / class / cdef class with its cython.* decorators (source order), or a
   `with cython.d(v)` block (one item; `with a, b:` is two nested blocks), or a probe point *)
Inductive tree := Node (k : kind) (sets : list (str * value)) (ch : list tree).

Definition scope_name (k : kind) : str :=
  match k with
  | KFunc => [102; 117; 110; 99; 116; 105; 111; 110] (* "function" *) | KClass => [99; 108; 97; 115; 115] (* "class" *) | KCClass => [99; 99; 108; 97; 115; 115] (* "cclass" *)
  | KWith => [119; 105; 116; 104; 32; 115; 116; 97; 116; 101; 109; 101; 110; 116] (* "with statement" *) | KProbe => [112; 114; 111; 98; 101] (* "probe" *)
  end.

Fixpoint lookup_scopes (k : str) (l : list (str * list str)) : option (list str) :=
  match l with
  | [] => None
  | (k', v) :: r => if str_eqb k k' then Some v else lookup_scopes k r
  end.

(* the tree after the transform: the dict in effect on the node itself (decorator-level),
   the dict in effect for its contents, and the children *)
Inductive atree :=
| ANode (k : kind) (nd body : dict) (ch : list atree)
| AProbe (d : dict).

Section Scope.
  Variable scopes : list (str * list str).    (* Options.directive_scopes *)
  Variable immediate : list str.              (* Options.immediate_decorator_directives *)
  Variable non_inherited : list str.          (* names popped by copy_inherited_directives *)

  (* check_directive_scope: "if legal_scopes and scope not in legal_scopes: error; return False" *)
  Definition scope_ok (d scope : str) : bool :=
    match lookup_scopes d scopes with
    | Some ((_ :: _) as l) => mem scope l
    | _ => true
    end.

  (* Options.copy_inherited_directives(outer, **new) *)
  Definition copy_inherited (outer new : dict) : dict :=
    update (fold_left (fun acc n => pop n acc) non_inherited outer) new.

  (* new_directives == old_directives (dict equality) *)
  Definition dict_incl (a b : dict) : bool :=
    forallb (fun kv => match get (fst kv) a, get (fst kv) b with
                       | Some x, Some y => value_eqb x y
                       | _, _ => false end) a.
  Definition dict_eqb (a b : dict) : bool := dict_incl a b && dict_incl b a.

  (* _extract_directives: decorators are processed last-to-first against a running copy of the
     current dict; one that does not change the running value is dropped (warning); repeated
     names override.  Returns (directives list in processing order, rejected (name, scope)). *)
  Fixpoint extract_loop (scope : str) (rsets : list (str * value)) (curopt : dict)
           (acc : list (str * value)) (rej : list (str * str))
    : list (str * value) * list (str * str) :=
    match rsets with
    | [] => (acc, rej)
    | (n, v) :: r =>
        if scope_ok n scope then
          match get n curopt with
          | Some v0 => if value_eqb v0 v then extract_loop scope r curopt acc rej
                       else extract_loop scope r (set n v curopt) (acc ++ [(n, v)]) rej
          | None => extract_loop scope r (set n v curopt) (acc ++ [(n, v)]) rej
          end
        else extract_loop scope r curopt acc (rej ++ [(n, scope)])
    end.

  (* merge repeated directives: lists are extended, everything else overrides *)
  Definition merge_one (d : dict) (kv : str * value) : dict :=
    match get (fst kv) d, snd kv with
    | Some (VList l), VList l' => set (fst kv) (VList (l ++ l')) d
    | _, v => set (fst kv) v d
    end.

  Definition extract_directives (cur : dict) (scope : str) (sets : list (str * value))
    : dict * dict * list (str * str) :=
    let '(acc, rej) := extract_loop scope (rev sets) cur [] [] in
    let optdict := fold_left merge_one acc [] in
    let contents := fold_left merge_one (filter (fun kv => negb (mem (fst kv) immediate)) acc) [] in
    (optdict, contents, rej).

  (* visit_WithStatNode: directive_dict[name] = value for each legal one *)
  Fixpoint with_dict (sets : list (str * value)) (dd : dict) (rej : list (str * str))
    : dict * list (str * str) :=
    match sets with
    | [] => (dd, rej)
    | (n, v) :: r => if scope_ok n ([119; 105; 116; 104; 32; 115; 116; 97; 116; 101; 109; 101; 110; 116] (* "with statement" *)) then with_dict r (set n v dd) rej
                     else with_dict r dd (rej ++ [(n, [119; 105; 116; 104; 32; 115; 116; 97; 116; 101; 109; 101; 110; 116] (* "with statement" *))])
    end.

  (* visit_with_directives up to the point where the children are visited:
     None = no CompilerDirectivesNode (children are visited under the unchanged current dict);
     Some (new, contents) = self.directives is new for the node, contents for its body *)
  Definition enter (cur : dict) (k : kind) (sets : list (str * value))
    : option (dict * dict) * list (str * str) :=
    let '(dirs, contents, rej) :=
        match k with
        | KWith => let '(dd, rej) := with_dict sets [] [] in (dd, dd, rej)
        | _ => extract_directives cur (scope_name k) sets
        end in
    match dirs with
    | [] => (None, rej)
    | _ => let new := copy_inherited cur dirs in
           let newc := match k with KWith => new | _ => copy_inherited cur contents end in
           if dict_eqb new cur then (None, rej) else (Some (new, newc), rej)
    end.

  (* The transform keeps its current dict in the mutable attribute self.directives; the model
     threads it explicitly: visit returns the annotated node, the value of self.directives after
     the visit, and the scope errors reported. *)
  Fixpoint visit (cur : dict) (t : tree) {struct t} : atree * dict * list (str * str) :=
    match t with
    | Node k sets ch =>
        let vl := fix vl (st : dict) (l : list tree) {struct l} : list atree * dict * list (str * str) :=
            match l with
            | [] => ([], st, [])
            | x :: r => let '(a, st1, e1) := visit st x in
                        let '(l', st2, e2) := vl st1 r in (a :: l', st2, e1 ++ e2)
            end in
        match k with
        | KProbe => (AProbe cur, cur, [])
        | _ =>
          match enter cur k sets with
          | (None, rej) => let '(l', st', e) := vl cur ch in (ANode k cur cur l', st', rej ++ e)
          | (Some (new, newc), rej) =>
              (* self.directives = new ... (body under newc) ... self.directives = old *)
              let '(l', _, e) := vl newc ch in (ANode k new newc l', cur, rej ++ e)
          end
        end
    end.

  Fixpoint visit_list (st : dict) (l : list tree) {struct l} : list atree * dict * list (str * str) :=
    match l with
    | [] => ([], st, [])
    | x :: r => let '(a, st1, e1) := visit st x in
                let '(l', st2, e2) := visit_list st1 r in (a :: l', st2, e1 ++ e2)
    end.

  (* InterpretCompilerDirectives.__init__ + visit_ModuleNode:
     directives = defaults; directives.update(options); header comments are scope-checked against
     'module' (illegal ones reported and dropped) and applied on top *)
  Fixpoint header_split (hdr : dict) : dict * list (str * str) :=
    match hdr with
    | [] => ([], [])
    | (n, v) :: r => let '(ok, rej) := header_split r in
                     if scope_ok n ([109; 111; 100; 117; 108; 101] (* "module" *)) then ((n, v) :: ok, rej)
                     else (ok, (n, [109; 111; 100; 117; 108; 101] (* "module" *)) :: rej)
    end.

  Definition module_dict (defaults options header : dict) : dict * list (str * str) :=
    let '(ok, rej) := header_split header in
    (update (update defaults options) ok, rej).

  Definition visit_module (defaults options header : dict) (body : list tree)
    : dict * list atree * dict * list (str * str) :=
    let '(d, rej) := module_dict defaults options header in
    let '(l, st, e) := visit_list d body in (d, l, st, rej ++ e).

  (* observation: the dict in effect for the code at a path of child indices *)
  Definition body_dict (a : atree) : dict :=
    match a with ANode _ _ b _ => b | AProbe d => d end.
  Definition node_dict (a : atree) : dict :=
    match a with ANode _ n _ _ => n | AProbe d => d end.
  Definition achildren (a : atree) : list atree :=
    match a with ANode _ _ _ c => c | AProbe _ => [] end.

  Fixpoint lookup_path (l : list atree) (p : list nat) : option atree :=
    match p with
    | [] => None
    | i :: q => match nth_error l i with
                | None => None
                | Some a => match q with [] => Some a | _ => lookup_path (achildren a) q end
                end
    end.
End Scope.

(* unicodedata.decimal from the table of zero digits of the Unicode Nd runs (each run is ten
   consecutive code points; the table is regenerated and checked by props/C41.py) *)
Fixpoint digit_from_zeros (zeros : list N) (c : N) : option N :=
  match zeros with
  | [] => None
  | z :: r => if (z <=? c) && (c <? z + 10) then Some (c - z) else digit_from_zeros r c
  end.

(* codecs.getdecoder classification given as a finite table (driver / harness oracle) *)
Fixpoint codec_from_table (tbl : list (str * N)) (enc : str) : N :=
  match tbl with
  | [] => 0
  | (k, c) :: r => if str_eqb enc k then c else codec_from_table r enc
  end.
