(* C43 - model of the argument-list loop of Cython/Compiler/Parsing.py:p_call_parse_args (used by calls,
   class headers and decorators) on the sequence of ARGUMENT KINDS, and Python 3.12's grammar for the same.
   Executable definitions only; proofs in Proof/P_CallArgs.v. *)
From Coq Require Import List Bool Arith.
Import ListNotations.

(* positional  a | *iterable  *a | keyword  k=a | **mapping  **a *)
Inductive akind := APos | AStar | AKw | ADStar.
(* what follows the last argument: the closing parenthesis | a trailing comma | a comprehension clause (for / async for) *)
Inductive atail := TEnd | TComma | TFor.

(* positional_args is a list whose items are lists of plain arguments or one unpacked iterable;
   keyword_args holds (name, value) pairs and unpacked mappings.  Arguments are named by their position. *)
Inductive pitem := PGroup (items : list nat) | PUnpack (i : nat).
Inductive kitem := KPair (i : nat) | KUnpack (i : nat).

(* loop state; both lists are kept in reverse (head = last appended) *)
Record pstate := { positional : list pitem; keywords : list kitem; starstar_seen : bool; last_unpack : bool }.
Definition pstate0 : pstate := {| positional := []; keywords := []; starstar_seen := false; last_unpack := false |}.

Definition nonempty {A} (l : list A) : bool := match l with [] => false | _ => true end.

(* one round of the while loop; None = s.error(...).
   star_guard_kw = false: the code as it is, `if starstar_seen:` before a `*` argument;
   star_guard_kw = true: the variant `if keyword_args:` (refuted in P_CallArgs: rejects f(k=1, *a)) *)
Definition step (star_guard_kw : bool) (st : pstate) (i : nat) (k : akind) : option pstate :=
  match k with
  | AStar =>
      if (if star_guard_kw then nonempty (keywords st) else starstar_seen st) then None
      else Some {| positional := PUnpack i :: positional st; keywords := keywords st;
                   starstar_seen := starstar_seen st; last_unpack := true |}
  | ADStar =>
      Some {| positional := positional st; keywords := KUnpack i :: keywords st;
              starstar_seen := true; last_unpack := last_unpack st |}
  | AKw =>
      Some {| positional := positional st; keywords := KPair i :: keywords st;
              starstar_seen := starstar_seen st; last_unpack := last_unpack st |}
  | APos =>
      if nonempty (keywords st) then None
      else Some {| positional := match positional st, last_unpack st with
                                 | PGroup g :: r, false => PGroup (g ++ [i]) :: r
                                 | ps, _ => PGroup [i] :: ps
                                 end;
                   keywords := keywords st; starstar_seen := starstar_seen st; last_unpack := false |}
  end.

Fixpoint run (g : bool) (st : pstate) (i : nat) (l : list akind) : option pstate :=
  match l with
  | [] => Some st
  | k :: r => match step g st i k with None => None | Some st' => run g st' (S i) r end
  end.

(* after the loop: a trailing comma needs an argument before it; a comprehension clause makes the single plain
   positional argument a generator expression (only where allow_genexp), anything else fails s.expect(')') *)
Definition single_plain (ps : list pitem) : bool :=
  match ps with [PGroup [_]] => true | _ => false end.

Definition finish (allow_genexp : bool) (n : nat) (t : atail) (st : pstate) : bool :=
  match t with
  | TEnd => true
  | TComma => negb (n =? 0)
  | TFor => allow_genexp && negb (nonempty (keywords st)) && negb (last_unpack st) && single_plain (positional st)
  end.

(* the parse result: Some (positional_args or [[]], keyword_args) | None = positioned syntax error *)
Definition parse_args (g allow_genexp : bool) (l : list akind) (t : atail) : option (list pitem * list kitem) :=
  match run g pstate0 0 l with
  | None => None
  | Some st => if finish allow_genexp (length l) t st
               then Some (match rev (positional st) with [] => [PGroup []] | ps => ps end, rev (keywords st))
               else None
  end.

Definition accepts (g allow_genexp : bool) (l : list akind) (t : atail) : bool :=
  match parse_args g allow_genexp l t with Some _ => true | None => false end.

(* ---- Python 3.12 (Grammar/python.gram):
     args:   ','.(starred_expression | expression !'=')+ [',' kwargs] | kwargs
     kwargs: ','.kwarg_or_starred+ ',' ','.kwarg_or_double_starred+ | ','.kwarg_or_starred+ | ','.kwarg_or_double_starred+
   i.e. the kind sequence is  (P|S)* (K|S)* (K|D)*;  equivalently no plain positional after a keyword or **,
   and no * after ** (pairwise form, compatb a b = "b may come later than a") *)
Definition compatb (a b : akind) : bool :=
  match a, b with
  | AKw, APos | ADStar, APos | ADStar, AStar => false
  | _, _ => true
  end.

Definition in_ps (k : akind) := match k with APos | AStar => true | _ => false end.
Definition in_ks (k : akind) := match k with AKw | AStar => true | _ => false end.
Definition in_kd (k : akind) := match k with AKw | ADStar => true | _ => false end.

(* executable form of the three-segment grammar (longest segments), used by the correspondence run *)
Fixpoint drop_while (p : akind -> bool) (l : list akind) : list akind :=
  match l with [] => [] | a :: r => if p a then drop_while p r else l end.
Definition py_args_b (l : list akind) : bool := forallb in_kd (drop_while in_ks (drop_while in_ps l)).
Definition py_valid_b (is_call : bool) (l : list akind) (t : atail) : bool :=
  match t with
  | TEnd => py_args_b l
  | TComma => py_args_b l && negb (length l =? 0)
  | TFor => is_call && match l with [APos] => true | _ => false end
  end.
