(* M_CCallMap - executable model of ExprNodes.GeneralCallNode.map_to_simple_call_node (C20).
   Definitions only.

   A call  f(p_0, .., p_{npos-1}, k_0=v_0, .., k_{j-1}=v_{j-1})  of a compile-time-known C function
   (cdef / cpdef function or C method; declared parameters 0 .. ndecl-1 after self) is mapped to
   a SimpleCallNode whose argument list is in DECLARATION order.  Arguments are identified by their
   CALL POSITION: 0 .. npos-1 the positional ones, npos+i the value of the i-th keyword; [names] gives
   the declared index of every keyword in call order; [simple p] is the compiler's "is_simple()"
   verdict for the argument at call position p.

   Result: the list of call positions that are moved into LetRefNode temps (in the order in which the
   EvalWithTempExprNode chain evaluates them) and the argument list of the SimpleCallNode (call
   positions in declaration order).  A position that is in the temp list is passed as a reference to
   its temp; every other position is evaluated in place, when the SimpleCallNode evaluates its
   arguments, i.e. after all temps. *)
From Coq Require Import List Bool Arith.
Import ListNotations.

Fixpoint index_of (d : nat) (l : list nat) : option nat :=
  match l with
  | [] => None
  | x :: r => if Nat.eqb x d then Some 0 else option_map S (index_of d r)
  end.

Fixpoint memb (x : nat) (l : list nat) : bool :=
  match l with [] => false | y :: r => Nat.eqb y x || memb x r end.

Fixpoint nodupb (l : list nat) : bool :=
  match l with [] => true | x :: r => negb (memb x r) && nodupb r end.

(* "match keywords that are passed in order": zip(unmatched declared args, keywords), stop at the
   first mismatch; d = declared index expected next *)
Fixpoint inorder_prefix (ndecl d : nat) (l : list nat) : nat :=
  match l with
  | x :: r => if Nat.eqb x d && Nat.ltb d ndecl then S (inorder_prefix ndecl (S d) r) else 0
  | [] => 0
  end.

(* sorted(temps): the list holds (call position, node) pairs with distinct positions *)
Fixpoint insert (x : nat) (l : list nat) : list nat :=
  match l with
  | [] => [x]
  | y :: r => if Nat.leb x y then x :: l else y :: insert x r
  end.
Fixpoint isort (l : list nat) : list nat :=
  match l with [] => [] | x :: r => insert x (isort r) end.

(* the loop "for arg_value in args: if arg_value is first_temp_arg: break" *)
Fixpoint before_first (first : nat) (l : list nat) : list nat :=
  match l with
  | [] => []
  | x :: r => if Nat.eqb x first then [] else x :: before_first first r
  end.

Inductive cmres :=
| CMErr                                   (* compile error: duplicate / unexpected keyword, too many positionals *)
| CMGap                                   (* a declared parameter before a given keyword is missing:
                                             compile error for cdef functions, Python call for cpdef *)
| CMOk (temps : list nat) (args : list nat).

Section Map.
(* cc_sort: temps sorted by call position (true = the code as it is);
   cc_keep: proposed fix - the argument list keeps its tail when leading arguments are moved into temps *)
Variables (cc_sort cc_keep : bool).
Variables (npos ndecl : nat) (names : list nat) (simple : nat -> bool).

(* the loop over the remaining declared parameters d, d+1, ..; [missing] = first_missing_keyword is set;
   yields the call positions of the out-of-order keywords in declaration order *)
Fixpoint ooo_scan (fuel d : nat) (missing : bool) : option (list nat) :=
  match fuel with
  | O => Some []
  | S f =>
      match index_of d names with
      | None => ooo_scan f (S d) true
      | Some i => if missing then None
                  else option_map (cons (npos + i)) (ooo_scan f (S d) false)
      end
  end.

Definition ccmap : cmres :=
  if Nat.ltb ndecl npos then CMErr
  else if existsb (fun x => Nat.ltb x npos) names || negb (nodupb names) then CMErr   (* passed twice *)
  else if existsb (fun x => Nat.leb ndecl x) names then CMErr                          (* unexpected keyword *)
  else
    let pre := inorder_prefix ndecl npos names in
    let k := npos + pre in
    if Nat.leb (length names) pre then CMOk [] (seq 0 k)
    else
      match ooo_scan (ndecl - k) k false with
      | None => CMGap
      | Some oo =>
          let args := seq 0 k ++ oo in
          let temps := filter (fun p => negb (simple p)) oo in
          match temps with
          | [] => CMOk [] args
          | first :: _ =>
              let before := before_first first args in
              let new_temps := filter (fun p => negb (simple p)) before in
              let args' := match new_temps with
                           | [] => args
                           | _ => if cc_keep then args else before
                           end in
              CMOk (new_temps ++ (if cc_sort then isort temps else temps)) args'
          end
      end.
End Map.

(* ---------- the binding the call denotes (reference) ---------- *)
(* call position bound to declared parameter d *)
Definition slot_pos (npos : nat) (names : list nat) (d : nat) : option nat :=
  if Nat.ltb d npos then Some d else option_map (Nat.add npos) (index_of d names).

(* declared parameters 0, 1, .. that receive an argument, up to the first one that does not *)
Fixpoint ref_slots (npos : nat) (names : list nat) (fuel d : nat) : list nat :=
  match fuel with
  | O => []
  | S f => match slot_pos npos names d with
           | Some p => p :: ref_slots npos names f (S d)
           | None => []
           end
  end.

(* no gap: once a declared parameter receives no argument, no later one does *)
Fixpoint nogapb (npos : nat) (names : list nat) (fuel d : nat) (missing : bool) : bool :=
  match fuel with
  | O => true
  | S f => match slot_pos npos names d with
           | None => nogapb npos names f (S d) true
           | Some _ => negb missing && nogapb npos names f (S d) false
           end
  end.

(* a well-formed call: no parameter bound twice, every keyword declared, no gap *)
Definition cc_wf (npos ndecl : nat) (names : list nat) : bool :=
  Nat.leb npos ndecl && nodupb names &&
  forallb (fun x => Nat.leb npos x && Nat.ltb x ndecl) names &&
  nogapb npos names ndecl 0 false.

(* the order in which the arguments are evaluated: the temps, then the remaining arguments in place *)
Definition cc_order (temps args : list nat) : list nat :=
  temps ++ filter (fun p => negb (memb p temps)) args.
