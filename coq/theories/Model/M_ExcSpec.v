(* C32 -- exception specifications of C functions: declaration normalisation
   (Parsing.p_exception_value_clause + Nodes.CFuncDeclaratorNode.analyse), callee epilogue
   (Nodes.FuncDefNode.generate_function_definitions, error label), call-site check
   (ExprNodes.generate_cfunction_call / translate_cpp_exception), pointer-assignment
   compatibility (PyrexTypes.CFuncType._is_exception_compatible_with).
   Executable definitions only; the thread's pending exception, the unraisable-hook log and
   the GIL ownership are explicit state. *)
From Coq Require Import ZArith List Bool.
From CyVerif Require Import Lib.CInt.
Import ListNotations.
Open Scope Z_scope.

(* ---------- return kinds and C values ---------- *)
Inductive rkind := KInt (w : Z) (s : bool) | KEnum | KFloat | KPtr | KVoid | KStruct | KObject.

(* doubles: NaN, -0.0 and numeric values tagged by an integer (DNum 0 = +0.0); only the
   C comparison r == v matters here *)
Inductive dbl := DNaN | DNegZero | DNum (q : Z).

Inductive cval :=
| VInt (z : Z) | VDbl (d : dbl) | VPtr (p : Z)          (* VPtr 0 = NULL *)
| VUnit                                                 (* void *)
| VStruct (a b : Z)
| VObj (o : Z) | VNull                                  (* PyObject*: owned reference / NULL *)
| VUndef.                                               (* __Pyx_pretend_to_initialize(&__pyx_r) *)

Definition exc := Z.                                    (* Python exception identities *)

Definition deq (a b : dbl) : bool :=                    (* C  a == b  on doubles *)
  match a, b with
  | DNaN, _ | _, DNaN => false
  | DNegZero, DNegZero => true
  | DNegZero, DNum q | DNum q, DNegZero => q =? 0
  | DNum p, DNum q => p =? q
  end.

Definition is_obj (k : rkind) : bool := match k with KObject => true | _ => false end.
Definition is_void (k : rkind) : bool := match k with KVoid => true | _ => false end.

Definition val_okb (k : rkind) (v : cval) : bool :=
  match k, v with
  | KInt w s, VInt z => in_rangeb w s z
  | KEnum, VInt z => in_rangeb 32 true z
  | KFloat, VDbl _ => true
  | KPtr, VPtr p => 0 <=? p
  | KVoid, VUnit => true
  | KStruct, VStruct _ _ => true
  | KObject, VObj _ => true
  | _, _ => false
  end.

(* ---------- declared specification ---------- *)
Inductive handler := HDefault | HStar | HPy (t : exc).   (* except + / except +* / except +PyExc *)
Inductive chk := ChkNo | ChkYes | ChkPlus (h : handler). (* CFuncType.exception_check: False / True / '+' *)

(* exception value; opaque = Cython does not know the constant (extern NAN ...): may_be_nan() *)
Inductive sent := Sent (v : cval) (opaque : bool).
Definition sent_val (s : sent) : cval := let (v, _) := s in v.

Record fspec := { ev : option sent; ec : chk }.          (* CFuncType.exception_value / exception_check *)

Inductive clause := CNone | CNoexcept | CExcept (v : sent) | CExceptQ (v : sent) | CStar | CPlusC (h : handler).

Record dflags := { legacy : bool;         (* directive legacy_implicit_noexcept *)
                   extern : bool;         (* visibility == 'extern' *)
                   in_pxd : bool;
                   cclass_or_ptr : bool   (* env.is_c_class_scope or CPtrDeclaratorNode base *) }.

(* Parsing.p_exception_value_clause: (exc_val, exc_check, exc_clause) *)
Definition parse_clause (is_extern : bool) (c : clause) : option sent * chk * bool :=
  match c with
  | CNone => (None, if is_extern then ChkNo else ChkYes, false)
  | CNoexcept => (None, ChkNo, true)
  | CExcept v => (Some v, ChkNo, true)
  | CExceptQ v => (Some v, ChkYes, true)
  | CStar => (None, ChkYes, true)
  | CPlusC h => (None, ChkPlus h, true)
  end.

Definition chk_true (c : chk) : bool := match c with ChkNo => false | _ => true end.
Definition chk_plus (c : chk) : bool := match c with ChkPlus _ => true | _ => false end.

(* PyrexType.exception_value of the return type (CIntType -1, CFloatType -1, CPtrType NULL) *)
Definition type_exc_value (k : rkind) : option cval :=
  match k with
  | KInt w s => Some (VInt (wrap w s (-1)))
  | KFloat => Some (VDbl (DNum (-1)))
  | KPtr => Some (VPtr 0)
  | _ => None
  end.

(* coerce_to(return_type): the constant as a value of the return type; None = compile error
   "Exception value incompatible with function return type" *)
Definition coerce_sent (k : rkind) (s : sent) : option sent :=
  match k, s with
  | KInt w sg, Sent (VInt z) o => Some (Sent (VInt (wrap w sg z)) o)
  | KEnum, Sent (VInt z) o => Some (Sent (VInt z) o)
  | KFloat, Sent (VDbl d) o => Some (Sent (VDbl d) o)
  | KFloat, Sent (VInt z) o => Some (Sent (VDbl (DNum z)) o)
  | KPtr, Sent (VPtr p) o => Some (Sent (VPtr p) o)
  | _, _ => None
  end.

(* CFuncDeclaratorNode.analyse, exception part.  None = compile error. *)
Definition normalise (f : dflags) (k : rkind) (c : clause) : option fspec :=
  let '(val, ck, has_clause) := parse_clause (extern f) c in
  let ck1 := if legacy f && negb (is_obj k) && negb has_clause && chk_true ck && negb (extern f)
             then ChkNo else ck in
  if chk_plus ck1 then Some {| ev := None; ec := ck1 |}
  else
    let ck2 := if is_obj k && chk_true ck1 then ChkNo else ck1 in
    if is_obj k then
      match val with
      | Some _ => None                        (* "Exception clause not allowed for function returning Python object" *)
      | None => Some {| ev := None; ec := ChkNo |}
      end
    else
      let val1 :=
        match val, ck2 with
        | None, ChkYes =>
            match type_exc_value k with
            | Some tv => if negb (extern f) && negb (in_pxd f) && negb (cclass_or_ptr f)
                         then Some (Sent tv false) else None
            | None => None
            end
        | _, _ => val
        end in
      match val1 with
      | None => Some {| ev := None; ec := ck2 |}
      | Some s => match coerce_sent k s with
                  | Some s' => Some {| ev := Some s'; ec := ck2 |}
                  | None => None
                  end
      end.

(* ---------- run-time state ---------- *)
Record state := { pending : option exc;        (* tstate->current_exception *)
                  unraisable : list exc;       (* calls of sys.unraisablehook, oldest first *)
                  gil : bool;                  (* this thread holds the GIL *)
                  viol : nat }.                (* thread-state accesses made without the GIL *)

Definition need_gil (st : state) : state :=
  if gil st then st else {| pending := pending st; unraisable := unraisable st; gil := gil st; viol := S (viol st) |}.
Definition set_gil (b : bool) (st : state) : state :=
  {| pending := pending st; unraisable := unraisable st; gil := b; viol := viol st |}.
Definition set_pending (p : option exc) (st : state) : state :=
  let st := need_gil st in
  {| pending := p; unraisable := unraisable st; gil := gil st; viol := viol st |}.
(* PyGILState_Ensure: returns the token to restore *)
Definition ensure (st : state) : bool * state := (gil st, set_gil true st).
Definition restore (tok : bool) (st : state) : state := set_gil tok st.

(* PyErr_Occurred() *)
Definition err_occurred (st : state) : bool * state :=
  (match pending st with Some _ => true | None => false end, need_gil st).
(* __Pyx_ErrOccurredWithGIL() *)
Definition err_occurred_with_gil (st : state) : bool * state :=
  let (tok, st1) := ensure st in
  let (b, st2) := err_occurred st1 in
  (b, restore tok st2).

(* __Pyx_WriteUnraisable: hands the pending exception to the hook and clears it *)
Definition write_unraisable (st : state) : state :=
  let st := need_gil st in
  match pending st with
  | Some e => {| pending := None; unraisable := unraisable st ++ [e]; gil := gil st; viol := viol st |}
  | None => st
  end.
(* __Pyx_AddTraceback: touches the exception state (needs the GIL), keeps the exception *)
Definition add_traceback (st : state) : state := need_gil st.

(* ---------- bodies and callee ---------- *)
Inductive cpp := XBadAlloc | XBadCast | XBadTypeid | XDomain | XInvalidArg | XIosFailure
               | XOutOfRange | XOverflow | XRange | XUnderflow | XStdOther | XNonStd.

Inductive body :=
| Return (r : cval)                (* normal completion *)
| Raise (e : exc)                  (* a Python exception reaches the function's error label *)
| Throw (x : cpp)                  (* extern C++ function throws *)
| SetAndReturn (e : exc) (r : cval). (* extern function sets a Python error (taking the GIL itself) and returns r *)

Inductive flavour := FPlain | FNogil | FWithGil.   (* cdef f() / cdef f() nogil / cdef f() with gil *)

Inductive cres := CRet (r : cval) | CThrown (x : cpp).

Definition default_value (k : rkind) : option cval :=
  match k with
  | KInt _ _ | KEnum => Some (VInt 0)
  | KFloat => Some (VDbl (DNum 0))
  | KPtr => Some (VPtr 0)
  | KObject => Some VNull           (* PyObjectType.default_value "0" *)
  | KVoid | KStruct => None
  end.

(* CFuncDefNode.error_value() *)
Definition error_value (sp : fspec) (k : rkind) : option cval :=
  if is_obj k then Some VNull else option_map sent_val (ev sp).

(* value left in __pyx_r on the error path *)
Definition error_retval (sp : fspec) (k : rkind) : cval :=
  match error_value sp k with
  | Some v => v
  | None => match default_value k with
            | Some d => d
            | None => if is_void k then VUnit else VUndef
            end
  end.

(* the statement that raises: in a nogil function it sits inside a "with gil:" block *)
Definition raise_in (fl : flavour) (e : exc) (st : state) : state :=
  match fl with
  | FNogil => let (tok, st1) := ensure st in restore tok (set_pending (Some e) st1)
  | _ => set_pending (Some e) st
  end.

(* body .. error label .. return of a Cython-compiled C function (Return/Raise); extern
   functions (Throw/SetAndReturn) have no epilogue *)
Definition callee (sp : fspec) (k : rkind) (fl : flavour) (b : body) (st : state) : cres * state :=
  let (tok0, st0) := match fl with FWithGil => ensure st | _ => (gil st, st) end in
  let (res, st') :=
    match b with
    | Return r => (CRet r, st0)
    | Raise e =>
        let st1 := raise_in fl e st0 in
        let (tokE, st2) := match fl with FNogil => ensure st1 | _ => (gil st1, st1) end in  (* assure_gil('error') *)
        let st3 := match error_value sp k, chk_true (ec sp) with
                   | None, false => write_unraisable st2        (* code.put_unraisable *)
                   | _, _ => add_traceback st2                  (* code.put_add_traceback *)
                   end in
        (CRet (error_retval sp k), restore tokE st3)
    | Throw x => (CThrown x, st0)
    | SetAndReturn e r => let (tok, s1) := ensure st0 in (CRet r, restore tok (set_pending (Some e) s1))
    end in
  (res, match fl with FWithGil => restore tok0 st' | _ => st' end).

(* ---------- call site ---------- *)
(* ExceptionValue.exception_test_code *)
Definition c_test (k : rkind) (s : sent) (r : cval) : bool :=
  let (v, opaque) := s in
  match k, v, r with
  | KInt w sg, VInt a, VInt b => wrap w sg b =? wrap w sg a
  | KEnum, VInt a, VInt b => b =? a
  | KFloat, VDbl a, VDbl b =>
      if opaque || negb (deq a a)                       (* may_be_nan(): __PYX_CHECK_FLOAT_EXCEPTION *)
      then (if deq a a then deq b a else negb (deq b b))
      else deq b a
  | KPtr, VPtr a, VPtr b => b =? a
  | _, _, _ => false
  end.

(* __Pyx_CppExn2PyErr catch order *)
Definition E_MemoryError : exc := 101.   Definition E_TypeError : exc := 102.
Definition E_ValueError : exc := 103.    Definition E_IOError : exc := 104.
Definition E_IndexError : exc := 105.    Definition E_OverflowError : exc := 106.
Definition E_ArithmeticError : exc := 107. Definition E_RuntimeError : exc := 108.
Definition cpp_map (x : cpp) : exc :=
  match x with
  | XBadAlloc => E_MemoryError | XBadCast | XBadTypeid => E_TypeError
  | XDomain | XInvalidArg => E_ValueError | XIosFailure => E_IOError
  | XOutOfRange => E_IndexError | XOverflow => E_OverflowError
  | XRange | XUnderflow => E_ArithmeticError
  | XStdOther | XNonStd => E_RuntimeError
  end.

(* what the caller sees after the call statement *)
Record observed := { o_err : bool;          (* control went to the caller's error label *)
                     o_val : cval;          (* value assigned from the call when o_err = false *)
                     o_st : state }.

Definition occurred_in (caller_nogil : bool) (st : state) : bool * state :=
  if caller_nogil then err_occurred_with_gil st else err_occurred st.

Definition call_site (sp : fspec) (k : rkind) (caller_nogil : bool) (res : cres) (st : state) : observed :=
  match ec sp with
  | ChkPlus h =>
      match res with
      | CThrown x =>                                     (* catch(...) *)
          let (tok, st1) := if caller_nogil then ensure st else (gil st, st) in
          let st2 := match h with
                     | HPy t => set_pending (Some t) st1
                     | _ => let (b, st') := err_occurred st1 in
                            if b then st' else set_pending (Some (cpp_map x)) st'
                     end in
          {| o_err := true; o_val := VUndef; o_st := restore tok st2 |}
      | CRet r =>
          if is_obj k && match r with VNull => true | _ => false end
          then {| o_err := true; o_val := r; o_st := st |}
          else match h with
               | HStar => let (b, st') := occurred_in caller_nogil st in
                          {| o_err := b; o_val := r; o_st := st' |}
               | _ => {| o_err := false; o_val := r; o_st := st |}
               end
      end
  | ck =>
      match res with
      | CThrown x => {| o_err := false; o_val := VUndef; o_st := st |}   (* excluded by wf: C code cannot throw *)
      | CRet r =>
          if is_obj k then
            {| o_err := match r with VNull => true | _ => false end; o_val := r; o_st := st |}
          else
            let value_hit := match ev sp with Some s => c_test k s r | None => true end in
            let has_cond := match ev sp with Some _ => true | None => chk_true ck end in
            if negb has_cond then {| o_err := false; o_val := r; o_st := st |}
            else if negb value_hit then {| o_err := false; o_val := r; o_st := st |}   (* && short-circuit *)
            else if chk_true ck then
              let (b, st') := occurred_in caller_nogil st in
              {| o_err := b; o_val := r; o_st := st' |}
            else {| o_err := true; o_val := r; o_st := st |}
      end
  end.

(* a call of a function compiled with spec fsp through a declaration/pointer of spec psp *)
Definition observe_via (psp fsp : fspec) (k : rkind) (fl : flavour) (caller_nogil : bool)
           (b : body) (st : state) : observed :=
  let (res, st') := callee fsp k fl b st in call_site psp k caller_nogil res st'.

Definition observe (sp : fspec) := observe_via sp sp.

(* ---------- the documented meaning (user guide, "Error return values") ---------- *)
(* does the declaration let a Python exception out of the function? *)
Definition propagates (sp : fspec) (k : rkind) : bool :=
  is_obj k || match ev sp with Some _ => true | None => chk_true (ec sp) end.

Definition noexcept_value (k : rkind) : cval :=
  match default_value k with Some d => d | None => if is_void k then VUnit else VUndef end.

Definition documented (sp : fspec) (k : rkind) (b : body) (st : state) : observed :=
  match b with
  | Return r => {| o_err := false; o_val := r; o_st := st |}
  | Raise e =>
      if propagates sp k
      then {| o_err := true; o_val := error_retval sp k;
              o_st := {| pending := Some e; unraisable := unraisable st; gil := gil st; viol := viol st |} |}
      else {| o_err := false; o_val := noexcept_value k;
              o_st := {| pending := None; unraisable := unraisable st ++ [e]; gil := gil st; viol := viol st |} |}
  | Throw x =>
      {| o_err := true; o_val := VUndef;
         o_st := {| pending := Some (match ec sp with ChkPlus (HPy t) => t | _ => cpp_map x end);
                    unraisable := unraisable st; gil := gil st; viol := viol st |} |}
  | SetAndReturn e r =>
      {| o_err := true; o_val := r;
         o_st := {| pending := Some e; unraisable := unraisable st; gil := gil st; viol := viol st |} |}
  end.

(* ---------- well-formedness of a (spec, kind) pair as produced by normalise ---------- *)
Definition sent_okb (k : rkind) (s : sent) : bool :=
  let (v, _) := s in
  match k, v with
  | KInt w sg, VInt z => in_rangeb w sg z
  | KEnum, VInt _ => true
  | KFloat, VDbl _ => true
  | KPtr, VPtr _ => true
  | _, _ => false
  end.

Definition kind_okb (k : rkind) : bool := match k with KInt w _ => 1 <=? w | _ => true end.

Definition wf_specb (sp : fspec) (k : rkind) : bool :=
  kind_okb k &&
  match ev sp with
  | Some s => sent_okb k s && negb (is_obj k) && negb (chk_plus (ec sp))
  | None => if is_obj k then negb (chk_true (ec sp)) || chk_plus (ec sp) else true
  end.

(* ---------- assigning a function to a pointer/declaration with another spec ---------- *)
Definition sent_eqb (a b : sent) : bool :=
  match sent_val a, sent_val b with
  | VInt x, VInt y => x =? y
  | VPtr x, VPtr y => x =? y
  | VDbl (DNum x), VDbl (DNum y) => x =? y
  | VDbl DNegZero, VDbl DNegZero => true
  | VDbl DNaN, VDbl DNaN => true          (* compared as strings: "nan" = "nan" *)
  | _, _ => false
  end.
Definition oev_eqb (a b : option sent) : bool :=
  match a, b with
  | None, None => true
  | Some x, Some y => sent_eqb x y
  | _, _ => false
  end.
Definition chk_eqb (a b : chk) : bool :=
  match a, b with
  | ChkNo, ChkNo | ChkYes, ChkYes => true
  | ChkPlus _, ChkPlus _ => true
  | _, _ => false
  end.

(* CFuncType._is_exception_compatible_with: self = the function, other = the target type *)
Definition exc_compatible (self other : fspec) : bool :=
  if chk_plus (ec self) && negb (chk_plus (ec other)) then false
  else if negb (chk_true (ec other)) || match ev other with Some _ => true | None => false end then
    if chk_true (ec other) && negb (chk_true (ec self) || match ev self with Some _ => true | None => false end)
    then true
    else if negb (oev_eqb (ev self) (ev other)) then false
    else if chk_true (ec self) && negb (chk_eqb (ec self) (ec other)) then false
    else true
  else true.

(* ---------- side conditions of the theorems (decidable) ---------- *)
(* bodies of Cython-compiled functions *)
Definition cython_body (b : body) : bool := match b with Return _ | Raise _ => true | _ => false end.
(* a nogil caller can only call nogil / with-gil functions *)
Definition ctx_okb (fl : flavour) (caller_nogil : bool) : bool :=
  match fl with FPlain => negb caller_nogil | _ => true end.
(* the user contract of plain "except v": the body never returns (a value comparing equal to) v *)
Definition contract_okb (sp : fspec) (k : rkind) (b : body) : bool :=
  match ev sp, ec sp, b with
  | Some s, ChkNo, Return r => negb (c_test k s r)
  | _, _, _ => true
  end.
Definition body_val_okb (k : rkind) (b : body) : bool :=
  match b with Return r | SetAndReturn _ r => val_okb k r | _ => true end.

(* would the call-site condition hold for a normally returned r while an exception is pending *)
Definition check_fires (sp : fspec) (k : rkind) (r : cval) : bool :=
  negb (is_obj k) &&
  match ev sp with
  | Some s => c_test k s r
  | None => match ec sp with ChkYes => true | _ => false end
  end.

(* the specification a declaration without clause receives (ordinary module-level cdef function) *)
Definition plain_flags : dflags := {| legacy := false; extern := false; in_pxd := false; cclass_or_ptr := false |}.
Definition default_spec (k : rkind) : fspec :=
  match k with
  | KObject => {| ev := None; ec := ChkNo |}
  | _ => {| ev := option_map (fun v => Sent v false) (type_exc_value k); ec := ChkYes |}
  end.

(* bodies allowed for an extern C++ function declared "except +..." *)
Definition cpp_body_okb (h : handler) (b : body) : bool :=
  match b with
  | Return _ | Throw _ => true
  | SetAndReturn _ _ => match h with HStar => true | _ => false end
  | Raise _ => false
  end.

(* equality of normalisation results, for the generated table *)
Definition dbl_eqb (a b : dbl) : bool :=
  match a, b with
  | DNaN, DNaN | DNegZero, DNegZero => true
  | DNum x, DNum y => x =? y
  | _, _ => false
  end.
Definition cval_eqb (a b : cval) : bool :=
  match a, b with
  | VInt x, VInt y | VPtr x, VPtr y | VObj x, VObj y => x =? y
  | VDbl x, VDbl y => dbl_eqb x y
  | VUnit, VUnit | VNull, VNull | VUndef, VUndef => true
  | VStruct a1 b1, VStruct a2 b2 => (a1 =? a2) && (b1 =? b2)
  | _, _ => false
  end.
Definition sent_struct_eqb (a b : sent) : bool :=
  match a, b with Sent x ox, Sent y oy => cval_eqb x y && Bool.eqb ox oy end.
Definition handler_eqb (a b : handler) : bool :=
  match a, b with
  | HDefault, HDefault | HStar, HStar => true
  | HPy x, HPy y => x =? y
  | _, _ => false
  end.
Definition chk_struct_eqb (a b : chk) : bool :=
  match a, b with
  | ChkNo, ChkNo | ChkYes, ChkYes => true
  | ChkPlus x, ChkPlus y => handler_eqb x y
  | _, _ => false
  end.
Definition ofspec_eqb (a b : option fspec) : bool :=
  match a, b with
  | None, None => true
  | Some x, Some y =>
      chk_struct_eqb (ec x) (ec y) &&
      match ev x, ev y with
      | None, None => true
      | Some s, Some t => sent_struct_eqb s t
      | _, _ => false
      end
  | _, _ => false
  end.
Definition decl_row_ok (row : dflags * rkind * clause * option fspec) : bool :=
  let '(f, k, c, res) := row in ofspec_eqb (normalise f k c) res.
