(* C32, value level -- the sentinel comparison emitted at a call site
   (PyrexTypes.CFuncType.ExceptionValue.exception_test_code) evaluated with C's rules:
   typing of integer constants, integer promotion, usual arithmetic conversions, casts.
   LP64 (char 8, short 16, int 32, long = long long 64); a C integer type is its (width,
   signedness), conversion to a type is reduction modulo 2^w (gcc's implementation-defined
   choice for signed targets).  Executable definitions only. *)
From Coq Require Import ZArith List Bool.
From CyVerif Require Import Lib.CInt Model.M_ExcSpec.
Import ListNotations.
Open Scope Z_scope.

Record ity := { iw : Z; isg : bool }.
Definition T_INT : ity := {| iw := 32; isg := true |}.
Definition T_UINT : ity := {| iw := 32; isg := false |}.
Definition T_LONG : ity := {| iw := 64; isg := true |}.
Definition T_ULONG : ity := {| iw := 64; isg := false |}.
Definition T_UCHAR : ity := {| iw := 8; isg := false |}.

Definition ity_okb (t : ity) : bool := 1 <=? iw t.
Definition in_ty (t : ity) (v : Z) : bool := in_rangeb (iw t) (isg t) v.
Definition conv (t : ity) (v : Z) : Z := wrap (iw t) (isg t) v.

(* 6.3.1.1: every type narrower than int is promoted to int (int holds all its values) *)
Definition promote (t : ity) : ity := if iw t <? 32 then T_INT else t.

(* 6.3.1.8 on promoted operands; rank order = width order (long and long long have one range) *)
Definition uac (a b : ity) : ity :=
  if Bool.eqb (isg a) (isg b) then (if iw a <? iw b then b else a)
  else
    let u := if isg a then b else a in
    let s := if isg a then a else b in
    if iw s <=? iw u then u else s.

(* constant expressions as they appear in the generated C text *)
Inductive lsuf := SufNone | SufL | SufU | SufUL.          (* L and LL coincide on LP64 *)
Inductive cexpr :=
| CDec (n : Z) (s : lsuf)            (* decimal constant, n >= 0 *)
| CHex (n : Z) (s : lsuf)            (* hexadecimal constant *)
| CInt (v : Z)                       (* character / enumeration constant: type int *)
| CNeg (e : cexpr)
| CAdd (a b : cexpr) | CSub (a b : cexpr) | CMul (a b : cexpr)
| CCast (t : ity) (e : cexpr).

(* 6.4.4.1: the first type of the list in which the value fits; a decimal constant that fits no signed
   type is unsigned long long in gcc (extension, with a warning): Cython writes LONG_MIN as
   -9223372036854775808L *)
Definition lit_types (hex : bool) (s : lsuf) : list ity :=
  match s, hex with
  | SufNone, false => [T_INT; T_LONG; T_ULONG]
  | SufNone, true => [T_INT; T_UINT; T_LONG; T_ULONG]
  | SufL, false => [T_LONG; T_ULONG]
  | SufL, true => [T_LONG; T_ULONG]
  | SufU, _ => [T_UINT; T_ULONG]
  | SufUL, _ => [T_ULONG]
  end.
Fixpoint first_fit (l : list ity) (n : Z) : option (ity * Z) :=
  match l with
  | [] => None
  | t :: r => if in_ty t n then Some (t, n) else first_fit r n
  end.

(* result of an arithmetic operator at the common type: signed overflow is undefined (None) *)
Definition arith (ct : ity) (r : Z) : option (ity * Z) :=
  if isg ct then (if in_ty ct r then Some (ct, r) else None) else Some (ct, conv ct r).

Definition binop (f : Z -> Z -> Z) (x y : option (ity * Z)) : option (ity * Z) :=
  match x, y with
  | Some (ta, va), Some (tb, vb) =>
      let ct := uac (promote ta) (promote tb) in arith ct (f (conv ct va) (conv ct vb))
  | _, _ => None
  end.

(* type and value of a constant expression; None = ill-formed or undefined *)
Fixpoint ceval (e : cexpr) : option (ity * Z) :=
  match e with
  | CDec n s => if 0 <=? n then first_fit (lit_types false s) n else None
  | CHex n s => if 0 <=? n then first_fit (lit_types true s) n else None
  | CInt v => if in_ty T_INT v then Some (T_INT, v) else None
  | CNeg a => match ceval a with
              | Some (t, v) => let ct := promote t in arith ct (- conv ct v)
              | None => None
              end
  | CAdd a b => binop Z.add (ceval a) (ceval b)
  | CSub a b => binop Z.sub (ceval a) (ceval b)
  | CMul a b => binop Z.mul (ceval a) (ceval b)
  | CCast t a => match ceval a with
                 | Some (_, v) => if ity_okb t then Some (t, conv t v) else None
                 | None => None
                 end
  end.

(* result_cname == <e>  where result_cname has the function's return type rt and holds r *)
Definition eq_test (rt : ity) (r : Z) (e : cexpr) : option bool :=
  match ceval e with
  | Some (te, v) => let ct := uac (promote rt) (promote te) in Some (conv ct r =? conv ct v)
  | None => None
  end.

(* exception_test_code, plain == branch: typed_exc_val = self.type.cast_code(str(self)).
   tc = Some t: the constant is cast to t (the code as it is: t = the type of the analysed
   constant node; the repaired code: t = the return type); None: no cast (the seeded change) *)
Definition emitted (tc : option ity) (e : cexpr) : cexpr :=
  match tc with Some t => CCast t e | None => e end.

(* the callee's error path:  __pyx_r = <e>;  converts the constant to the return type *)
Definition stored (rt : ity) (e : cexpr) : option Z :=
  match ceval e with Some (_, v) => Some (conv rt v) | None => None end.

Definition fires (tc : option ity) (rt : ity) (e : cexpr) (r : Z) : bool :=
  match eq_test rt r (emitted tc e) with Some b => b | None => false end.

(* --- link to the decision-level model (M_ExcSpec): the declared specification of the function
   and the specification the emitted call-site text effectively implements *)
Definition kind_of (rt : ity) : rkind := KInt (iw rt) (isg rt).

Definition fn_spec (rt : ity) (e : cexpr) (ck : chk) : option fspec :=
  match stored rt e with
  | Some s => Some {| ev := Some (Sent (VInt s) false); ec := ck |}
  | None => None
  end.

(* the only value of the return type the test can accept is conv rt (value of the emitted
   constant); a test accepting no value at all behaves like a call site without check *)
Definition site_spec (tc : option ity) (rt : ity) (e : cexpr) (ck : chk) : option fspec :=
  match ceval (emitted tc e) with
  | Some (_, s') =>
      let r0 := conv rt s' in
      if fires tc rt e r0 then Some {| ev := Some (Sent (VInt r0) false); ec := ck |}
      else Some {| ev := None; ec := ChkNo |}
  | None => None
  end.

Definition observe_value (tc : option ity) (rt : ity) (e : cexpr) (ck : chk) (fl : flavour)
           (cn : bool) (b : body) (st : state) : option observed :=
  match site_spec tc rt e ck, fn_spec rt e ck with
  | Some psp, Some fsp => Some (observe_via psp fsp (kind_of rt) fl cn b st)
  | _, _ => None
  end.

(* ---------- floating return types ---------- *)
(* values are C doubles (V, supplied by the driver as IEEE doubles); a float value is a double
   that to_f32 leaves unchanged.  feq = C's ==, false whenever an operand is NaN. *)
Inductive fty := F32 | F64.
Section FloatTest.
  Variable V : Type.
  Variable feq : V -> V -> bool.
  Variable to_f32 : V -> V.
  Definition fconv (t : fty) (x : V) : V := match t with F32 => to_f32 x | F64 => x end.
  (* macro = true: __PYX_CHECK_FLOAT_EXCEPTION(value, error_value); false: value == error_value *)
  Definition float_test (macro : bool) (tc : option fty) (c r : V) : bool :=
    let ec := match tc with Some t => fconv t c | None => c end in
    if macro then (if feq ec ec then feq r ec else negb (feq r r)) else feq r ec.
  Definition float_stored (rt : fty) (c : V) : V := fconv rt c.
End FloatTest.
