(* C40 - model of Cython/Compiler/TypeInference.py (safe type inference of untyped locals).

   Modelled by hand (Gallina):
     PyrexTypes.widest_numeric_type / result_type_of_builtin_operation / spanning_type   (span2)
     TypeInference.find_spanning_type / safe_spanning_type / aggressive_spanning_type
     TypeInference.MarkOverflowingArithmetic                                              (mark)
     SimpleAssignmentTypeInferer: inferred_types(entry), the first pass and reinfer()      (entry_type,
       infer) and the fixed-point condition it stops at                                    (stable)
     ExprNodes.IntNode.find_suitable_type_for_value, NameNode.infer_type                   (ety)
   Taken as DATA from the running compiler (Gen_Infer.v, re-dumped on every run): the result-type
   tables of BinopNode / UnopNode / CondExprNode / BoolBinopNode.infer_type over the 10 types below.

   Flags (repaired variants, see the C40 files in proposed_fixes):
     fx_float   : safe mode keeps C double only when every assigned type is a float type
     fx_bint    : safe mode keeps C bint only when the name is not used in arithmetic (else object);
                  (~ is not arithmetic for the marking: "d = 1; ~d" keeps d a C long, which the
                  repository tests fix; ~ of a C bint is typed C int through the dumped tables)
     fx_closure : arithmetic uses inside inner scopes mark the captured (outer) entry            *)
From Coq Require Import ZArith List Bool.
From CyVerif Require Import Lib.CInt.
Import ListNotations.
Open Scope Z_scope.

Inductive ty := TObj | TPyInt | TPyFloat | TPyBool | TPyStr | TPyList
              | TCLong | TCInt | TCDouble | TCBint.

Definition ty_idx (t : ty) : nat :=
  match t with TObj => 0 | TPyInt => 1 | TPyFloat => 2 | TPyBool => 3 | TPyStr => 4 | TPyList => 5
             | TCLong => 6 | TCInt => 7 | TCDouble => 8 | TCBint => 9 end%nat.
Definition ty_of_idx (n : nat) : ty :=
  match n with 1 => TPyInt | 2 => TPyFloat | 3 => TPyBool | 4 => TPyStr | 5 => TPyList
             | 6 => TCLong | 7 => TCInt | 8 => TCDouble | 9 => TCBint | _ => TObj end%nat.
Definition all_ty : list ty := [TObj; TPyInt; TPyFloat; TPyBool; TPyStr; TPyList; TCLong; TCInt; TCDouble; TCBint].
Definition ty_eqb (a b : ty) : bool := Nat.eqb (ty_idx a) (ty_idx b).

Definition is_pyobj (t : ty) : bool :=
  match t with TObj | TPyInt | TPyFloat | TPyBool | TPyStr | TPyList => true | _ => false end.
Definition is_builtin (t : ty) : bool :=
  match t with TPyInt | TPyFloat | TPyBool | TPyStr | TPyList => true | _ => false end.
Definition is_cnum (t : ty) : bool :=
  match t with TCLong | TCInt | TCDouble | TCBint => true | _ => false end.
(* PyrexType.is_int (bint included) *)
Definition is_cint (t : ty) : bool := match t with TCLong | TCInt | TCBint => true | _ => false end.
(* C integer types that can wrap *)
Definition is_cintw (t : ty) : bool := match t with TCLong | TCInt => true | _ => false end.
Definition is_floatty (t : ty) : bool := match t with TCDouble | TPyFloat => true | _ => false end.

(* ---- PyrexTypes.widest_numeric_type on the four C numeric types (rank: bint = int < long < double;
        equal rank, equal signedness, no typedef -> type2) *)
Definition rank (t : ty) : nat := match t with TCBint | TCInt => 2 | TCLong => 3 | TCDouble => 7 | _ => 0 end%nat.
Definition widest (t1 t2 : ty) : ty :=
  if ty_eqb t1 t2 then t1
  else if Nat.ltb (rank t1) (rank t2) then t2
  else if Nat.ltb (rank t2) (rank t1) then t1
  else t2.

(* ---- PyrexTypes.result_type_of_builtin_operation(builtin_type, type2) *)
Definition builtin_op (b t2 : ty) : option ty :=
  match b with
  | TPyFloat => if is_cnum t2 then Some (widest TCDouble t2)
                else match t2 with TPyInt | TPyFloat => Some TCDouble | _ => None end
  | TPyInt => if ty_eqb t2 TPyInt || is_cint t2 then Some TPyInt
              else match t2 with TCDouble | TPyFloat => Some TCDouble | _ => None end
  | _ => None
  end.

(* ---- PyrexTypes.spanning_type *)
Definition span2 (t1 t2 : ty) : ty :=
  if ty_eqb t1 t2 then t1
  else match t1, t2 with
       | TObj, _ | _, TObj => TObj
       | _, _ =>
         if is_cnum t1 && is_cnum t2 then widest t1 t2
         else if is_builtin t1 then match builtin_op t1 t2 with Some r => r | None => TObj end
         else if is_builtin t2 then match builtin_op t2 t1 with Some r => r | None => TObj end
         else TObj
       end.

(* ---- TypeInference.find_spanning_type *)
Definition find_span (t1 t2 : ty) : ty :=
  if ty_eqb t1 t2 then (if is_floatty t1 then TCDouble else t1)
  else match t1, t2 with
       | TCBint, _ | _, TCBint => TObj
       | _, _ => let r := span2 t1 t2 in if is_floatty r then TCDouble else r
       end.

(* reduce(find_spanning_type, types); the real code never calls it on an empty list *)
Definition reduce_span (types : list ty) : ty :=
  match types with [] => TObj | t :: r => fold_left find_span r t end.

Record flags := { fx_float : bool; fx_bint : bool; fx_closure : bool }.
Definition fx_none : flags := {| fx_float := false; fx_bint := false; fx_closure := false |}.
Definition fx_all : flags := {| fx_float := true; fx_bint := true; fx_closure := true |}.

(* ---- TypeInference.safe_spanning_type(types, might_overflow) *)
Definition safe_span (fx : flags) (types : list ty) (mo : bool) : ty :=
  let r := reduce_span types in
  if is_pyobj r then r
  else match r with
       | TCDouble => if fx_float fx && negb (forallb is_floatty types) then TObj else TCDouble
       | TCBint => if fx_bint fx && mo then TObj else TCBint
       | TCLong | TCInt => if mo then TPyInt else r
       | _ => r
       end.
(* ---- TypeInference.aggressive_spanning_type *)
Definition aggr_span (types : list ty) : ty := reduce_span types.

Inductive imode := MSafe | MAggr | MOff.
Definition span_mode (fx : flags) (m : imode) (types : list ty) (mo : bool) : ty :=
  match m with MSafe => safe_span fx types mo | MAggr => aggr_span types | MOff => TObj end.

(* ------------------------------------------------------------------ expressions *)
Inductive binop := Add | Sub | Mul | FloorDiv | Mod | TrueDiv | LShift | RShift | BAnd | BOr | BXor.
Inductive unop := Neg | Inv | Not | Pos.
Definition binop_idx (o : binop) : nat :=
  match o with Add => 0 | Sub => 1 | Mul => 2 | FloorDiv => 3 | Mod => 4 | TrueDiv => 5 | LShift => 6
             | RShift => 7 | BAnd => 8 | BOr => 9 | BXor => 10 end%nat.
Definition all_binop := [Add; Sub; Mul; FloorDiv; Mod; TrueDiv; LShift; RShift; BAnd; BOr; BXor].
Definition unop_idx (o : unop) : nat := match o with Neg => 0 | Inv => 1 | Not => 2 | Pos => 3 end%nat.
Definition all_unop := [Neg; Inv; Not; Pos].
Definition is_bitwise (o : binop) : bool := match o with BAnd | BOr | BXor => true | _ => false end.

Inductive expr :=
| EInt (z : Z) | EFloat | EBool (b : bool) | EStr | ENone
| EName (x : nat) (ann : option ty) (cf : list nat)   (* entry, NameNode.inferred_type, cf_state *)
| EBin (o : binop) (a b : expr)
| EUn (o : unop) (a : expr)
| ECmp (a b : expr)
| ECond (c a b : expr)
| EBoolOp (a b : expr)
| ECall (args : expr)             (* call of an unknown function: Python object, "neutral" *)
| EOpaque (t : ty) (sub : expr)   (* any other node; t = object type the compiler assigns to it *)
(* containers that only matter for the overflow marking *)
| EAsg (x : option nat) (rhs : expr)   (* SingleAssignmentNode / CascadedAssignmentNode target *)
| EDanger (sub : expr)            (* InPlaceAssignmentNode *)
| EInner (sub : expr)             (* body of a nested function / lambda / generator expression *)
| ESeq (a b : expr)
| ESkip.

(* result-type tables of the running compiler: index = ((op * 10) + t1) * 10 + t2, value = type
   index, 255 = the compiler rejects the operation *)
Record tables := { tb_bin : list nat; tb_un : list nat; tb_cond : list nat; tb_bool : list nat }.
Definition tb2 (l : list nat) (k : nat) (t1 t2 : ty) : ty :=
  ty_of_idx (nth ((k * 10 + ty_idx t1) * 10 + ty_idx t2) l 0%nat).
Definition tb1 (l : list nat) (k : nat) (t1 : ty) : ty := ty_of_idx (nth (k * 10 + ty_idx t1) l 0%nat).
Definition bin_ty (T : tables) (o : binop) (t1 t2 : ty) : ty := tb2 (tb_bin T) (binop_idx o) t1 t2.
Definition un_ty (T : tables) (o : unop) (t1 : ty) : ty := tb1 (tb_un T) (unop_idx o) t1.
Definition cond_ty (T : tables) (t1 t2 : ty) : ty := tb2 (tb_cond T) 0 t1 t2.
Definition bool_ty (T : tables) (t1 t2 : ty) : ty := tb2 (tb_bool T) 0 t1 t2.

(* Utils.long_literal *)
Definition long_literal (z : Z) : bool := negb ((- 2 ^ 31 <=? z) && (z <? 2 ^ 31)).

(* NameNode.infer_type once the entry has a type *)
Definition name_ty (et : ty) (mo : bool) (ann : option ty) : ty :=
  if is_pyobj et then
    match ann with
    | Some t => if negb (is_cint t && mo) then t else et
    | None => et
    end
  else et.

Section Typing.
  Variable T : tables.
  Variable E : nat -> ty.        (* entry types *)
  Variable MO : nat -> bool.     (* Entry.might_overflow *)
  Fixpoint ety (e : expr) : ty :=
    match e with
    | EInt z => if long_literal z then TPyInt else TCLong
    | EFloat => TCDouble
    | EBool _ => TCBint
    | EStr => TPyStr
    | ENone => TObj
    | EName x ann _ => name_ty (E x) (MO x) ann
    | EBin o a b => bin_ty T o (ety a) (ety b)
    | EUn o a => un_ty T o (ety a)
    | ECmp _ _ => TObj
    | ECond _ a b => cond_ty T (ety a) (ety b)
    | EBoolOp a b => bool_ty T (ety a) (ety b)
    | ECall _ => TObj
    | EOpaque t _ => t
    | _ => TObj
    end.
End Typing.

(* ------------------------------------------------------------------ MarkOverflowingArithmetic *)
(* names whose entry gets might_overflow; [flag] = self.might_overflow, [inner] = inside a nested scope *)
Fixpoint mark (fx : flags) (flag inner : bool) (e : expr) : list nat :=
  match e with
  | EName x _ _ => if flag && (negb inner || fx_closure fx) then [x] else []
  | EBin o a b => if is_bitwise o then mark fx flag inner a ++ mark fx flag inner b
                  else mark fx true inner a ++ mark fx true inner b
  | EUn Neg a => mark fx true inner a
  | EUn _ a => mark fx flag inner a
  | ECmp a b => mark fx false inner a ++ mark fx false inner b
  | ECond c a b => mark fx false inner c ++ mark fx false inner a ++ mark fx false inner b
  | EBoolOp a b => mark fx false inner a ++ mark fx false inner b
  | ECall a => mark fx flag inner a
  | EOpaque _ a => mark fx false inner a
  | EAsg x rhs =>
      (match x, rhs with
       | Some n, EInt z => if long_literal z && negb inner then [n] else []
       | _, _ => []
       end) ++ mark fx false inner rhs
  | EDanger a => mark fx true inner a
  | EInner a => mark fx false true a
  | ESeq a b => mark fx flag inner a ++ mark fx flag inner b
  | _ => []
  end.

Fixpoint memb (n : nat) (l : list nat) : bool :=
  match l with [] => false | x :: r => Nat.eqb n x || memb n r end.

(* ------------------------------------------------------------------ function summaries *)
Record assign := { a_lhs : nat; a_rhs : expr }.
Record summary := { s_decl : list (option ty);      (* per entry: declared type (arguments: object) *)
                    s_assigns : list assign;        (* Entry.cf_assignments of all entries *)
                    s_body : expr }.

Definition mo_of (fx : flags) (s : summary) : nat -> bool :=
  let l := mark fx false false (s_body s) in fun x => memb x l.

Definition is_none_rhs (e : expr) : bool := match e with ENone => true | _ => false end.

Definition assigns_of (s : summary) (x : nat) : list assign :=
  filter (fun a => Nat.eqb (a_lhs a) x) (s_assigns s).

(* inferred_types(entry) of SimpleAssignmentTypeInferer.infer_types *)
Definition inferred_types (T : tables) (s : summary) (E : nat -> ty) (MO : nat -> bool) (x : nat) : list ty :=
  let asg := assigns_of s x in
  let nn := filter (fun a => negb (is_none_rhs (a_rhs a))) asg in
  let tys := map (fun a => ety T E MO (a_rhs a)) nn in
  let has_none := existsb (fun a => is_none_rhs (a_rhs a)) asg in
  let has_py := existsb is_pyobj tys in
  if has_none && negb has_py then tys ++ [TObj] else tys.

Definition lookup (D : list ty) (x : nat) : ty := nth x D TObj.

Definition entry_type (fx : flags) (m : imode) (T : tables) (s : summary) (D : list ty) (x : nat) : ty :=
  match nth x (s_decl s) None with
  | Some t => t
  | None =>
    match m with
    | MOff => TObj
    | _ => let MO := mo_of fx s in
           match inferred_types T s (lookup D) MO x with
           | [] => TObj
           | tys => span_mode fx m tys (MO x)
           end
    end
  end.

Fixpoint ty_list_eqb (a b : list ty) : bool :=
  match a, b with
  | [], [] => true
  | x :: a', y :: b' => ty_eqb x y && ty_list_eqb a' b'
  | _, _ => false
  end.

(* reinfer(): one pass in entry order, each entry seeing the already updated earlier ones *)
Fixpoint reinfer_pass (fx : flags) (m : imode) (T : tables) (s : summary) (n : nat) (x : nat) (D : list ty) : list ty :=
  match n with
  | O => D
  | S n' =>
    let t := entry_type fx m T s D x in
    let D' := firstn x D ++ [t] ++ skipn (S x) D in
    reinfer_pass fx m T s n' (S x) D'
  end.

Fixpoint reinfer_loop (fx : flags) (m : imode) (T : tables) (s : summary) (fuel : nat) (D : list ty) : option (list ty) :=
  match fuel with
  | O => None
  | S f => let D' := reinfer_pass fx m T s (length D) 0 D in
           if ty_list_eqb D D' then Some D else reinfer_loop fx m T s f D'
  end.

(* name nodes inside assignment right-hand sides: the annotation must cover every reaching
   assignment's type (tsub) *)
Inductive kind := KInt | KBool | KFloat | KStr | KNone | KList | KOther.
Definition kind_idx (k : kind) : nat :=
  match k with KInt => 0 | KBool => 1 | KFloat => 2 | KStr => 3 | KNone => 4 | KList => 5 | KOther => 6 end%nat.
Definition kind_eqb (a b : kind) : bool := Nat.eqb (kind_idx a) (kind_idx b).
Definition all_kind := [KInt; KBool; KFloat; KStr; KNone; KList; KOther].
(* run-time kinds a variable / expression of a given compile-time type can hold; builtin-typed
   Python variables may hold None; bool is a subclass of int, an int-typed object slot keeps it *)
Definition kinds (t : ty) : list kind :=
  match t with
  | TObj => all_kind
  | TPyInt => [KInt; KBool; KNone] | TPyFloat => [KFloat; KNone] | TPyBool => [KBool; KNone]
  | TPyStr => [KStr; KNone] | TPyList => [KList; KNone]
  | TCLong | TCInt => [KInt] | TCDouble => [KFloat] | TCBint => [KBool]
  end.
Fixpoint kmem (k : kind) (l : list kind) : bool :=
  match l with [] => false | x :: r => kind_eqb k x || kmem k r end.
Definition kinds_sub (t1 t2 : ty) : bool := forallb (fun k => kmem k (kinds t2)) (kinds t1).
(* every value representable in t1 is representable, with the same Python type and value, in t2 *)
Definition tsub (t1 t2 : ty) : bool :=
  kinds_sub t1 t2 &&
  match t2 with
  | TCLong => is_cintw t1
  | TCInt => ty_eqb t1 TCInt
  | _ => true
  end.

Section Check.
  Variable fx : flags.
  Variable T : tables.
  Variable s : summary.
  Variable D : list ty.
  Let MO := mo_of fx s.
  Definition aty (a : nat) : ty :=
    match nth_error (s_assigns s) a with
    | Some asg => ety T (lookup D) MO (a_rhs asg)
    | None => TObj
    end.
  Definition cf_ok (x : nat) (cf : list nat) : bool :=
    forallb (fun a => match nth_error (s_assigns s) a with
                      | Some asg => Nat.eqb (a_lhs asg) x
                      | None => false end) cf.
  Fixpoint ann_ok (e : expr) : bool :=
    match e with
    | EName x ann cf =>
        cf_ok x cf &&
        match ann with
        | Some t => forallb (fun a => match nth_error (s_assigns s) a with
                                      | Some asg => is_none_rhs (a_rhs asg) && is_pyobj t || tsub (aty a) t
                                      | None => false end) cf
        | None => true
        end
    | EBin _ a b | ECmp a b | EBoolOp a b | ESeq a b => ann_ok a && ann_ok b
    | EUn _ a | ECall a | EOpaque _ a | EDanger a | EInner a => ann_ok a
    | ECond c a b => ann_ok c && ann_ok a && ann_ok b
    | EAsg _ a => ann_ok a
    | _ => true
    end.
  (* the state reinfer() stops at: every undeclared entry is either a plain object (never
     "inferred") or equals the spanning type of its assignments under the final types *)
  Definition stable_entry (m : imode) (x : nat) : bool :=
    let t := lookup D x in
    match nth x (s_decl s) None with
    | Some d => ty_eqb t d
    | None => ty_eqb t TObj || ty_eqb t (entry_type fx m T s D x)
    end.
  Definition stable (m : imode) : bool :=
    Nat.eqb (length D) (length (s_decl s)) &&
    forallb (stable_entry m) (seq 0 (length D)) &&
    forallb (fun a => ann_ok (a_rhs a)) (s_assigns s).
End Check.

(* first pass: while an entry is still unspecified, NameNode.infer_type returns the node's own
   inferred_type (no might_overflow test); assignments are typed from these annotations *)
Definition first_pass (fx : flags) (m : imode) (T : tables) (s : summary) (D0 : list ty) : list ty :=
  map (fun x =>
    match nth x (s_decl s) None with
    | Some t => t
    | None =>
      match m with
      | MOff => TObj
      | _ => match inferred_types T s (fun _ => TObj) (fun _ => false) x with
             | [] => TObj
             | tys => span_mode fx m tys (mo_of fx s x)
             end
      end
    end) (seq 0 (length D0)).

(* the model's own run: first pass, then reinfer() to the fixed point; explicit failure when the
   fuel runs out or the result is not stable *)
Inductive infer_result := Inferred (D : list ty) | NoFixpoint | Unstable (D : list ty).
Definition infer (fx : flags) (m : imode) (T : tables) (s : summary) (D0 : list ty) : infer_result :=
  match reinfer_loop fx m T s (S (S (length D0 + length (s_assigns s)))) (first_pass fx m T s D0) with
  | None => NoFixpoint
  | Some D => if stable fx T s D m then Inferred D else Unstable D
  end.

(* ------------------------------------------------------------------ reference semantics *)
(* abstract Python values: exact integers, everything else erased to its type *)
Inductive value := VInt (z : Z) | VBool (b : bool) | VFloat | VStr | VNone | VList | VOther.
Definition kind_of (v : value) : kind :=
  match v with VInt _ => KInt | VBool _ => KBool | VFloat => KFloat | VStr => KStr | VNone => KNone
             | VList => KList | VOther => KOther end.
Definition b2z (b : bool) : Z := if b then 1 else 0.
Definition intval (v : value) : option Z :=
  match v with VInt z => Some z | VBool b => Some (b2z b) | _ => None end.
Definition in64 (z : Z) : bool := (- 2 ^ 63 <=? z) && (z <? 2 ^ 63).
Definition in32 (z : Z) : bool := (- 2 ^ 31 <=? z) && (z <? 2 ^ 31).

(* v is held faithfully (same Python type, same value) by a variable / expression of type t *)
Definition ty_ok (t : ty) (v : value) : bool :=
  kmem (kind_of v) (kinds t) &&
  match t, v with
  | TCLong, VInt z => in64 z
  | TCInt, VInt z => in32 z
  | _, _ => true
  end.

Definition is_intlike (k : kind) : bool := match k with KInt | KBool => true | _ => false end.
Definition is_numk (k : kind) : bool := match k with KInt | KBool | KFloat => true | _ => false end.
(* Python result kind of a binary operation (None = TypeError or not modelled) *)
Definition kbin (o : binop) (k1 k2 : kind) : option kind :=
  match o with
  | Add | Sub | Mul | FloorDiv | Mod =>
      if is_intlike k1 && is_intlike k2 then Some KInt
      else if is_numk k1 && is_numk k2 then Some KFloat
      else match o, k1, k2 with
           | Add, KStr, KStr => Some KStr
           | Add, KList, KList => Some KList
           | Mul, KStr, (KInt | KBool) | Mul, (KInt | KBool), KStr => Some KStr
           | Mul, KList, (KInt | KBool) | Mul, (KInt | KBool), KList => Some KList
           | Mod, KStr, _ => Some KStr
           | _, _, _ => None
           end
  | TrueDiv => if is_numk k1 && is_numk k2 then Some KFloat else None
  | LShift | RShift => if is_intlike k1 && is_intlike k2 then Some KInt else None
  | BAnd | BOr | BXor =>
      match k1, k2 with
      | KBool, KBool => Some KBool
      | _, _ => if is_intlike k1 && is_intlike k2 then Some KInt else None
      end
  end.
Definition kun (o : unop) (k : kind) : option kind :=
  match o with
  | Neg | Pos => if is_intlike k then Some KInt else match k with KFloat => Some KFloat | _ => None end
  | Inv => if is_intlike k then Some KInt else None
  | Not => Some KBool
  end.
Definition val_of_kind (k : kind) : value :=
  match k with KFloat => VFloat | KStr => VStr | KNone => VNone | KList => VList | KOther => VOther
             | KInt => VInt 0 | KBool => VBool false end.
Definition int_binop (o : binop) (a b : Z) : option Z :=
  match o with
  | Add => Some (a + b) | Sub => Some (a - b) | Mul => Some (a * b)
  | FloorDiv => if b =? 0 then None else Some (a / b)
  | Mod => if b =? 0 then None else Some (a mod b)
  | LShift => if b <? 0 then None else Some (Z.shiftl a b)
  | RShift => if b <? 0 then None else Some (Z.shiftr a b)
  | BAnd => Some (Z.land a b) | BOr => Some (Z.lor a b) | BXor => Some (Z.lxor a b)
  | TrueDiv => None
  end.
Definition pybin (o : binop) (v1 v2 : value) : option value :=
  match v1, v2, o with
  | VBool a, VBool b, BAnd => Some (VBool (a && b))
  | VBool a, VBool b, BOr => Some (VBool (a || b))
  | VBool a, VBool b, BXor => Some (VBool (xorb a b))
  | _, _, _ =>
    match intval v1, intval v2, o with
    | Some a, Some b, TrueDiv => if b =? 0 then None else Some VFloat
    | Some a, Some b, _ => match int_binop o a b with Some z => Some (VInt z) | None => None end
    | _, _, _ =>
      match kbin o (kind_of v1) (kind_of v2) with
      | Some KInt | Some KBool | None => None
      | Some k => Some (val_of_kind k)
      end
    end
  end.
Definition pyun (o : unop) (v : value) : option value :=
  match o, intval v with
  | Neg, Some z => Some (VInt (- z))
  | Pos, Some z => Some (VInt z)
  | Inv, Some z => Some (VInt (- z - 1))
  | (Neg | Pos), None => match v with VFloat => Some VFloat | _ => None end
  | _, _ => None
  end.

(* ---- per-node side conditions of the soundness theorem (decidable; over the dumped tables) *)
Definition bin_entry_ok (T : tables) (o : binop) (t1 t2 : ty) : bool :=
  let r := bin_ty T o t1 t2 in
  negb (is_cintw r) &&
  forallb (fun k1 => forallb (fun k2 =>
     match kbin o k1 k2 with Some k => kmem k (kinds r) | None => true end) (kinds t2)) (kinds t1).
Definition un_entry_ok (T : tables) (o : unop) (t1 : ty) : bool :=
  let r := un_ty T o t1 in
  negb (is_cintw r) &&
  forallb (fun k1 => match kun o k1 with Some k => kmem k (kinds r) | None => true end) (kinds t1).
Definition cond_entry_ok (T : tables) (t1 t2 : ty) : bool := tsub t1 (cond_ty T t1 t2) && tsub t2 (cond_ty T t1 t2).
Definition bool_entry_ok (T : tables) (t1 t2 : ty) : bool := tsub t1 (bool_ty T t1 t2) && tsub t2 (bool_ty T t1 t2).

Section NodeOk.
  Variable T : tables.
  Variable E : nat -> ty.
  Variable MO : nat -> bool.
  Fixpoint expr_ok (e : expr) : bool :=
    match e with
    | EBin o a b => expr_ok a && expr_ok b && bin_entry_ok T o (ety T E MO a) (ety T E MO b)
    | EUn o a => expr_ok a && un_entry_ok T o (ety T E MO a)
    | ECond c a b => expr_ok a && expr_ok b && cond_entry_ok T (ety T E MO a) (ety T E MO b)
    | EBoolOp a b => expr_ok a && expr_ok b && bool_entry_ok T (ety T E MO a) (ety T E MO b)
    | _ => true
    end.
End NodeOk.

(* table entries violating the side conditions = operator typings under which a faithful C value
   cannot be guaranteed (reported by the check; the finding classes are subsets of these) *)
Definition bad_bin (T : tables) : list (nat * nat * nat) :=
  flat_map (fun o => flat_map (fun t1 => flat_map (fun t2 =>
     if bin_entry_ok T o t1 t2 then [] else [(binop_idx o, ty_idx t1, ty_idx t2)]) all_ty) all_ty) all_binop.
Definition bad_un (T : tables) : list (nat * nat) :=
  flat_map (fun o => flat_map (fun t1 =>
     if un_entry_ok T o t1 then [] else [(unop_idx o, ty_idx t1)]) all_ty) all_unop.
Definition bad_cond (T : tables) : list (nat * nat) :=
  flat_map (fun t1 => flat_map (fun t2 =>
     if cond_entry_ok T t1 t2 then [] else [(ty_idx t1, ty_idx t2)]) all_ty) all_ty.
Definition bad_bool (T : tables) : list (nat * nat) :=
  flat_map (fun t1 => flat_map (fun t2 =>
     if bool_entry_ok T t1 t2 then [] else [(ty_idx t1, ty_idx t2)]) all_ty) all_ty.
