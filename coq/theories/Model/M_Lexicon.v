(* C43 - model of the number-literal and string-prefix part of Cython/Compiler/Lexicon.py
   (make_lexicon), of the decoders behind integer tokens (Scanning.strip_underscores,
   Parsing.p_int_literal suffix stripping, Utils.str_to_number), Python 3.12's numeric literal
   grammar written independently as a regular expression, and a certificate-checking decision
   procedure for regular-language inclusion over the event alphabet of M_Plex (Brzozowski
   derivatives modulo similarity, product exploration).

   Executable definitions only; proofs are in Proof/P_Lexicon.v.

   Conventions
   - regular expressions are M_Plex.ere over M_Plex.event (EvChar code | BOL | EOL | EOF);
     the Plex-level expressions (M_Plex.re) are turned into ere by M_Plex.ere_of with
     match_bol = true, nocase = false, exactly as Lexicon.add_token_to_machine builds them;
   - `fixed` selects the repaired imagconst rule (digit strings such as 0_7j), see
     proposed_fixes/C43-imag_leading_zero_underscore.*;
   - CPython's int(text, base) is modelled by its documented contract on ASCII digit strings
     (py_int): explicit error constructors, never a default value. *)
From Coq Require Import ZArith NArith List Bool String Ascii.
From CyVerif Require Import Model.M_Plex.
Import ListNotations.
Open Scope Z_scope.

(* ---------- characters ---------- *)
Fixpoint codes (s : string) : list Z :=
  match s with
  | EmptyString => []
  | String a t => Z.of_nat (nat_of_ascii a) :: codes t
  end.
Definition word (s : string) : list event := map EvChar (codes s).

(* ---------- the Plex constructors used by Lexicon.py (Regexps.py) ---------- *)
Definition pChar (c : Z) : re := RRange c (c + 1).               (* Char(c), c <> newline *)
Definition pStr (s : string) : re := RSeq (map pChar (codes s)).  (* Str1(s) *)
Fixpoint ranges_to_res (l : list Z) : list re :=
  match l with a :: b :: t => RRange a b :: ranges_to_res t | _ => [] end.
Definition pAny (s : string) : re := RAlt (ranges_to_res (chars_to_ranges true (codes s))).
Definition pEmpty : re := RSeq [].
Definition pOpt (r : re) : re := RAlt [r; pEmpty].
Definition pRep (r : re) : re := pOpt (RRep1 r).
Definition pSeq (a b : re) : re := RSeq [a; b].                   (* a + b *)
Definition pAlt (a b : re) : re := RAlt [a; b].                   (* a | b *)
Definition pStrs (l : list string) : re := RAlt (map pStr l).     (* Str(s1, s2, ...) *)
Declare Scope plex_scope.
Delimit Scope plex_scope with plex.
Infix "+" := pSeq : plex_scope.
Infix "<|>" := pAlt (at level 55, left associativity) : plex_scope.

(* ---------- Lexicon.make_lexicon, lines 20-66, transcribed ---------- *)
Section LexiconRules.
Local Open Scope plex_scope.
Local Open Scope string_scope.
Definition nonzero_digit := pAny "123456789".
Definition digit := pAny "0123456789".
Definition bindigit := pAny "01".
Definition octdigit := pAny "01234567".
Definition hexdigit := pAny "0123456789ABCDEFabcdef".
Definition underscore_digits (d : re) : re := RRep1 d + pRep (pStr "_" + RRep1 d).
Definition prefixed_digits (prefix digits : re) : re :=
  prefix + pOpt (pStr "_") + underscore_digits digits.
Definition decimal := underscore_digits digit.
Definition dot := pStr ".".
Definition exponent := pAny "Ee" + pOpt (pAny "+-") + decimal.
Definition decimal_fract := (decimal + dot + pOpt decimal) <|> (dot + decimal).
Definition intconst : re :=
  prefixed_digits nonzero_digit digit
  <|> (pStr "0" + (prefixed_digits (pAny "Xx") hexdigit
                 <|> prefixed_digits (pAny "Oo") octdigit
                 <|> prefixed_digits (pAny "Bb") bindigit))
  <|> underscore_digits (pStr "0")
  <|> RRep1 digit.
Definition intsuffix : re :=
  (pOpt (pAny "Uu") + pOpt (pAny "Ll") + pOpt (pAny "Ll"))
  <|> (pOpt (pAny "Ll") + pOpt (pAny "Ll") + pOpt (pAny "Uu")).
Definition intliteral := intconst + intsuffix.
Definition fltconst := (decimal_fract + pOpt exponent) <|> (decimal + exponent).
(* fixed = false: the code as it is; fixed = true: digit strings with underscores and a leading
   zero (Python's digitpart) are imaginary literals too *)
Definition imagconst (fixed : bool) : re :=
  (if fixed then (intconst <|> fltconst <|> decimal) else (intconst <|> fltconst)) + pAny "jJ".

Definition string_prefixes := "uUbB".
Definition raw_prefixes := "rR".
Definition char_prefixes := "cC".
Definition ft_string_prefixes := "fFtT".
Definition quotes : re := pStr "'" <|> pStr """" <|> pStr "'''" <|> pStr """""""".
Definition beginstring : re :=
  pOpt (pRep (pAny (string_prefixes ++ raw_prefixes)) <|> pAny char_prefixes) + quotes.
Definition begin_ft_string : re :=
  ((pAny ft_string_prefixes + pOpt (pAny raw_prefixes)) <|> (pAny raw_prefixes + pAny ft_string_prefixes))
  + quotes.
End LexiconRules.

(* a default-state token rule as the scanner's machine reads it *)
Definition rule (r : re) : ere := ere_of r true false.
Definition lex_int : ere := rule intliteral.
Definition lex_float : ere := rule fltconst.
Definition lex_imag (fixed : bool) : ere := rule (imagconst fixed).
Definition lex_number (fixed : bool) : ere := EAlt lex_int (EAlt lex_float (lex_imag fixed)).
Definition lex_strbegin : ere := EAlt (rule beginstring) (rule begin_ft_string).

(* ---------- Python 3.12 reference grammar (Lexical analysis, 2.4.5 - 2.4.7), independent ---------- *)
Definition ch (s : string) : ere :=                        (* one of the characters of s *)
  fold_right (fun c acc => EAlt (ERange c (c + 1)) acc) EEmpty (codes s).
Definition cr (a b : string) : ere :=                       (* inclusive character range *)
  match codes a, codes b with x :: _, y :: _ => ERange x (y + 1) | _, _ => EEmpty end.
Definition EStar (a : ere) : ere := EOpt (ERep1 a).
Fixpoint eseq (l : list ere) : ere :=
  match l with [] => EEps | [x] => x | x :: t => ESeq x (eseq t) end.
Fixpoint ealt (l : list ere) : ere :=
  match l with [] => EEmpty | [x] => x | x :: t => EAlt x (ealt t) end.

Section PyGrammar.
Local Open Scope string_scope.
Definition py_digit := cr "0" "9".
Definition py_nonzerodigit := cr "1" "9".
Definition py_bindigit := ch "01".
Definition py_octdigit := cr "0" "7".
Definition py_hexdigit := ealt [py_digit; cr "a" "f"; cr "A" "F"].
Definition us_opt := EOpt (ch "_").
(* decinteger ::= nonzerodigit (["_"] digit)* | "0"+ (["_"] "0")* *)
Definition py_decinteger :=
  EAlt (ESeq py_nonzerodigit (EStar (ESeq us_opt py_digit)))
       (ESeq (ERep1 (ch "0")) (EStar (ESeq us_opt (ch "0")))).
Definition py_bininteger := eseq [ch "0"; ch "bB"; ERep1 (ESeq us_opt py_bindigit)].
Definition py_octinteger := eseq [ch "0"; ch "oO"; ERep1 (ESeq us_opt py_octdigit)].
Definition py_hexinteger := eseq [ch "0"; ch "xX"; ERep1 (ESeq us_opt py_hexdigit)].
Definition py_integer := ealt [py_decinteger; py_bininteger; py_octinteger; py_hexinteger].
(* digitpart ::= digit (["_"] digit)* *)
Definition py_digitpart := ESeq py_digit (EStar (ESeq us_opt py_digit)).
Definition py_fraction := ESeq (ch ".") py_digitpart.
Definition py_exponent := eseq [ch "eE"; EOpt (ch "+-"); py_digitpart].
Definition py_pointfloat :=
  EAlt (ESeq (EOpt py_digitpart) py_fraction) (ESeq py_digitpart (ch ".")).
Definition py_exponentfloat := ESeq (EAlt py_digitpart py_pointfloat) py_exponent.
Definition py_floatnumber := EAlt py_pointfloat py_exponentfloat.
Definition py_imagnumber := ESeq (EAlt py_floatnumber py_digitpart) (ch "jJ").
Definition py_number := ealt [py_integer; py_floatnumber; py_imagnumber].

(* the finding class: imaginary literals whose digit part has a leading zero, an underscore and
   is not of the forms the integer rule knows (zeros with underscores / no underscore at all).
   py_imagnumber_known leaves exactly those out: digit parts are decinteger or plain digits. *)
Definition py_imagnumber_known :=
  ESeq (ealt [py_floatnumber; py_decinteger; ERep1 py_digit]) (ch "jJ").
Definition py_number_known := ealt [py_integer; py_floatnumber; py_imagnumber_known].

(* stringprefix / bytesprefix (2.4.1) followed by an opening quote; f-string prefixes of 3.12 *)
Definition py_strprefix : ere :=
  ealt (map (fun s => eseq (map (fun c => ERange c (c + 1)) (codes s)))
    ["r"; "u"; "R"; "U"; "f"; "F"; "fr"; "Fr"; "fR"; "FR"; "rf"; "rF"; "Rf"; "RF";
     "b"; "B"; "br"; "Br"; "bR"; "BR"; "rb"; "rB"; "Rb"; "RB"]).
Definition py_quote : ere :=
  ealt (map (fun s => eseq (map (fun c => ERange c (c + 1)) (codes s))) ["'"; """"; "'''"; """"""""]).
Definition py_strbegin : ere := ESeq (EOpt py_strprefix) py_quote.
End PyGrammar.

(* ---------- derivatives modulo similarity ---------- *)
Fixpoint ere_eqb (a b : ere) : bool :=
  match a, b with
  | EEmpty, EEmpty | EEps, EEps => true
  | ERange x y, ERange u v => (x =? u) && (y =? v)
  | ESym s, ESym t => special_eqb s t
  | ESeq a1 a2, ESeq b1 b2 | EAlt a1 a2, EAlt b1 b2 => ere_eqb a1 b1 && ere_eqb a2 b2
  | ERep1 a1, ERep1 b1 => ere_eqb a1 b1
  | _, _ => false
  end.
Definition is_empty (r : ere) : bool := match r with EEmpty => true | _ => false end.
Definition is_eps (r : ere) : bool := match r with EEps => true | _ => false end.
Fixpoint alt_mem (x r : ere) : bool :=        (* is x one of the alternatives of r *)
  match r with
  | EAlt a b => alt_mem x a || alt_mem x b
  | _ => ere_eqb x r
  end.
(* a | b with the alternatives of a that b already has dropped (a is kept in its own order) *)
Fixpoint mk_alt (a b : ere) : ere :=
  match a with
  | EEmpty => b
  | EAlt a1 a2 => mk_alt a1 (mk_alt a2 b)
  | _ => if is_empty b then a else if alt_mem a b then b else EAlt a b
  end.
Definition mk_seq (a b : ere) : ere :=
  if is_empty a || is_empty b then EEmpty else if is_eps a then b else if is_eps b then a else ESeq a b.
Fixpoint n_deriv (e : event) (r : ere) : ere :=
  match r with
  | EEmpty | EEps => EEmpty
  | ERange c0 c1 => if ev_matches c0 c1 e then EEps else EEmpty
  | ESym s => if ev_is s e then EEps else EEmpty
  | ESeq a b => if e_nullable a then mk_alt (mk_seq (n_deriv e a) b) (n_deriv e b)
                else mk_seq (n_deriv e a) b
  | EAlt a b => mk_alt (n_deriv e a) (n_deriv e b)
  | ERep1 a => mk_seq (n_deriv e a) (EOpt (ERep1 a))
  end.
Fixpoint n_matches (r : ere) (w : list event) : bool :=
  match w with [] => e_nullable r | e :: t => n_matches (n_deriv e r) t end.

(* ---------- finitely many representative events ---------- *)
Fixpoint bounds (r : ere) : list Z :=        (* the end points of the ranges of r *)
  match r with
  | ERange c0 c1 => [c0; c1]
  | ESeq a b | EAlt a b => bounds a ++ bounds b
  | ERep1 a => bounds a
  | _ => []
  end.
Fixpoint zmem (x : Z) (l : list Z) : bool :=
  match l with [] => false | y :: t => (x =? y) || zmem x t end.
Fixpoint dedupz (l : list Z) : list Z :=
  match l with [] => [] | x :: t => if zmem x t then dedupz t else x :: dedupz t end.
Fixpoint bounds_in (bs : list Z) (r : ere) : bool :=
  match r with
  | ERange c0 c1 => zmem c0 bs && zmem c1 bs
  | ESeq a b | EAlt a b => bounds_in bs a && bounds_in bs b
  | ERep1 a => bounds_in bs a
  | _ => true
  end.
(* the greatest end point <= c, or `low` when there is none *)
Fixpoint rep_code (bs : list Z) (low c : Z) : Z :=
  match bs with
  | [] => low
  | b :: t => let r := rep_code t low c in if (b <=? c) && (r <? b) then b else r
  end.
Definition low_of (bs : list Z) : Z := fold_right Z.min 0 bs - 1.
Definition rep_event (bs : list Z) (e : event) : event :=
  match e with EvChar c => EvChar (rep_code bs (low_of bs) c) | _ => e end.
Definition alphabet (bs : list Z) : list event :=
  EvBol :: EvEol :: EvEof :: EvNone :: EvChar (low_of bs) :: map EvChar bs.

(* ---------- inclusion L a <= L b: exploration + independent check of the result ---------- *)
Definition pair_eqb (p q : ere * ere) : bool := ere_eqb (fst p) (fst q) && ere_eqb (snd p) (snd q).
Fixpoint pmem (p : ere * ere) (l : list (ere * ere)) : bool :=
  match l with [] => false | q :: t => pair_eqb p q || pmem p t end.
Definition succ (e : event) (p : ere * ere) : ere * ere := (n_deriv e (fst p), n_deriv e (snd p)).
Definition pair_ok (p : ere * ere) : bool := implb (e_nullable (fst p)) (e_nullable (snd p)).

(* worklist search of the reachable derivative pairs; every pair carries the (reversed) word that
   led to it; stops at the first pair whose left side accepts and right side does not *)
Inductive explored :=
| XClosed (seen : list (ere * ere))
| XCex (w : list event)
| XFuel.
Fixpoint explore (fuel : nat) (sigma : list event) (todo : list (ere * ere * list event))
                 (seen : list (ere * ere)) : explored :=
  match fuel with
  | O => XFuel
  | S f =>
      match todo with
      | [] => XClosed seen
      | (p, w) :: t =>
          if pmem p seen then explore f sigma t seen
          else if pair_ok p then
            explore f sigma (map (fun e => (succ e p, e :: w)) sigma ++ t) (p :: seen)
          else XCex (rev w)
      end
  end.

(* the check proper: S contains the start pair, every pair of S passes the acceptance test, stays
   inside the end points bs, and all its successors over the representative alphabet are in S *)
Definition closed_b (bs : list Z) (ps : list (ere * ere)) : bool :=
  forallb (fun p => pair_ok p && bounds_in bs (fst p) && bounds_in bs (snd p)
                    && forallb (fun e => pmem (succ e p) ps) (alphabet bs)) ps.

Inductive verdict :=
| VIncluded                       (* L a <= L b *)
| VCounter (w : list event)       (* w in L a, w not in L b *)
| VUnknown.                       (* out of fuel or the certificate did not check *)
Definition decide_incl (fuel : nat) (a b : ere) : verdict :=
  let bs := dedupz (bounds a ++ bounds b) in
  match explore fuel (alphabet bs) [((a, b), [])] [] with
  | XClosed ps => if pmem (a, b) ps && closed_b bs ps then VIncluded else VUnknown
  | XCex w => if e_matches a w && negb (e_matches b w) then VCounter w else VUnknown
  | XFuel => VUnknown
  end.
Definition incl_fuel : nat := N.to_nat 200000.

(* ---------- decoders behind an INT token ---------- *)
(* Scanning.strip_underscores: text.replace('_', '') *)
Definition strip_underscores (t : list Z) : list Z := filter (fun c => negb (c =? 95)) t.
(* Parsing.p_int_literal: while value[-1] in "UuLl": value = value[:-1]   (on the reversed text) *)
Definition is_suffix_char (c : Z) : bool := (c =? 85) || (c =? 117) || (c =? 76) || (c =? 108).
Fixpoint drop_suffix_rev (r : list Z) : list Z :=
  match r with c :: t => if is_suffix_char c then drop_suffix_rev t else r | [] => [] end.
Definition int_token_value (t : list Z) : list Z := rev (drop_suffix_rev (rev (strip_underscores t))).

Inductive s2n :=
| S2N (v : Z)
| S2N_BadDigit          (* ValueError: invalid literal for int() with base b *)
| S2N_TooLong.          (* ValueError: Exceeds the limit (4300 digits) for integer string conversion *)

Definition digit_val (c : Z) : option Z :=
  if (48 <=? c) && (c <=? 57) then Some (c - 48)
  else if (97 <=? c) && (c <=? 122) then Some (c - 87)
  else if (65 <=? c) && (c <=? 90) then Some (c - 55)
  else None.
Fixpoint digits_val (base : Z) (acc : Z) (l : list Z) : option Z :=
  match l with
  | [] => Some acc
  | c :: t => match digit_val c with
              | Some d => if d <? base then digits_val base (acc * base + d) t else None
              | None => None
              end
  end.
Definition pow2_base (b : Z) : bool := (b =? 2) || (b =? 4) || (b =? 8) || (b =? 16) || (b =? 32).
(* CPython int(text, base) for base in {2, 8, 10, 16} on text without sign, blanks, underscores and
   prefix: at least one digit, all digits below the base; for bases that are not a power of two the
   digit count is limited by sys.get_int_max_str_digits() = lim *)
Definition py_int_base (lim : Z) (base : Z) (l : list Z) : s2n :=
  match l with
  | [] => S2N_BadDigit
  | _ => match digits_val base 0 l with
         | None => S2N_BadDigit
         | Some v => if negb (pow2_base base) && (lim <? Z.of_nat (List.length l)) then S2N_TooLong else S2N v
         end
  end.
(* character tests by code (no strings here: these definitions are extracted) *)
Definition is_xX (c : Z) : bool := (c =? 120) || (c =? 88).
Definition is_oO (c : Z) : bool := (c =? 111) || (c =? 79).
Definition is_bB (c : Z) : bool := (c =? 98) || (c =? 66).
Definition is_lL (c : Z) : bool := (c =? 108) || (c =? 76).
(* int(text, 0): prefix selects the base; a decimal text with a leading zero must be all zeros *)
Definition py_int_base0 (lim : Z) (l : list Z) : s2n :=
  match l with
  | 48 :: c :: t =>
      if is_xX c then py_int_base lim 16 t
      else if is_oO c then py_int_base lim 8 t
      else if is_bB c then py_int_base lim 2 t
      else if forallb (fun d => d =? 48) (c :: t) then S2N 0 else S2N_BadDigit
  | _ => py_int_base lim 10 l
  end.
(* Utils.strip_py2_long_suffix *)
Definition strip_py2_long_suffix (l : list Z) : list Z :=
  match rev l with c :: t => if is_lL c then rev t else l | [] => l end.
(* Utils.str_to_number on a text without sign *)
Definition str_to_number (lim : Z) (v : list Z) : s2n :=
  match v with
  | [] | [_] => py_int_base0 lim v
  | 48 :: c :: t =>
      if is_xX c then py_int_base lim 16 (match strip_py2_long_suffix v with _ :: _ :: r => r | r => r end)
      else if is_oO c then py_int_base lim 8 t
      else if is_bB c then py_int_base lim 2 t
      else py_int_base lim 8 v
  | _ => py_int_base0 lim v
  end.
Definition decode_int_token (lim : Z) (t : list Z) : s2n := str_to_number lim (int_token_value t).

(* what the compiler does with an INT token: checked = true is the repaired p_int_literal, which
   reports a positioned error when the decoder fails; checked = false is the code as it is, where
   the first later use of the value raises the ValueError inside the compiler *)
Inductive outcome := Accepted (v : Z) | PositionedError | InternalCrash.
Definition int_token_outcome (checked : bool) (lim : Z) (t : list Z) : outcome :=
  match decode_int_token lim t with
  | S2N v => Accepted v
  | _ => if checked then PositionedError else InternalCrash
  end.

Definition chars_of (w : list event) : option (list Z) :=
  fold_right (fun e acc => match e, acc with EvChar c, Some l => Some (c :: l) | _, _ => None end) (Some []) w.


(* ---------- punctuation: the (ellipsis | punct | diphthong, TEXT) rule and runs of dots ----------
   `from ... import x`: the scanner is longest-match, so three consecutive dots are ONE '...' token.
   p_from_import_statement counts the relative import level as the sum of the token lengths. *)
Definition ellipsis : re := pStr "...".
Definition punct : re := pAny ":,;+-*/|&<>=.%`~^?!@".
Definition diphthong : re :=
  pStrs ["=="%string; "<>"%string; "!="%string; "<="%string; ">="%string; "<<"%string; ">>"%string; "**"%string; "//"%string; "+="%string; "-="%string; "*="%string; "/="%string; "%="%string; "|="%string; "^="%string; "&="%string;
         "<<="%string; ">>="%string; "**="%string; "//="%string; "->"%string; "@="%string; "&&"%string; "||"%string; ":="%string].
Definition text_rule : re := pAlt (pAlt ellipsis punct) diphthong.
Definition lex_text : ere := rule text_rule.

Definition dot_ev : event := EvChar 46.
Definition dots (n : nat) : list event := repeat dot_ev n.
(* token lengths of a run of n dots under longest match: n/3 times '...' and then n mod 3 times '.' *)
Definition dot_tokens (n : nat) : list nat := repeat 3%nat (n / 3) ++ repeat 1%nat (n mod 3).
(* Parsing.p_from_import_statement: level += len(s.sy) for every '.' / '...' token *)
Definition import_level (toks : list nat) : nat := fold_right Nat.add 0%nat toks.
(* executable longest-match length of rule r on w (0 = no match), for the correspondence run *)
Fixpoint longest_from (r : ere) (w : list event) (pos best : nat) : nat :=
  match w with
  | [] => best
  | e :: w' => let r' := n_deriv e r in
               if is_empty r' then best
               else longest_from r' w' (S pos) (if e_nullable r' then S pos else best)
  end.
Definition longest (r : ere) (w : list event) : nat := longest_from r w 0 0.
Fixpoint scan_dots (fuel : nat) (fixed : bool) (n : nat) : list nat :=
  match fuel, n with
  | O, _ | _, O => []
  | S f, _ => let k := longest lex_text (dots n) in
              if (0 <? longest (lex_number fixed) (dots n))%nat then [] else
              match k with O => [] | _ => k :: scan_dots f fixed (n - k) end
  end.
