(* Model of the module string-table compression:
     - Cython/LZSS.py            lzss_compress            (compile time, Python)
     - Cython/Utility/StringTools.c  __pyx_lzss_decompress, __Pyx_DecompressString_LZSS  (run time, C)
     - Cython/Compiler/Code.py   the "compressed_size > len(concat_bytes) - 200" selection test.

   Bytes, positions, offsets and lengths are all Z.  Executable definitions only.

   Representation choices (each is checked byte-for-byte by the correspondence run):
   * data[pos:] is carried as the list suffix [rest]; data[pos+k] is the k-th element of
     [rest]; an index past the end (Python: IndexError) is the explicit result None.
   * hash_table maps the 3-byte key of a position to the positions filed under it; the model
     stores each position together with the data suffix that follows its 3 key bytes
     (so that data[prev_pos + k] is a list walk), newest first; the loops of the Python code
     iterate in insertion order = over the reversed list.
     A slice data[pos:pos+3] shorter than 3 bytes is filed by the Python code too, but only
     at the last two positions, after which find_longest_match returns early for good, and a
     short next_key can never equal a (3-byte) key present at lookup time; the model does
     not file short keys and treats a short next_key as absent.
   * the while loop over pos is a structural recursion over the data list with a [skip]
     counter (positions covered by the previous token are skipped).
   * the output bytearray is kept as (bytes before the current flags byte, bytes after it),
     both reversed, so that "output[flags_pos] = ..." is O(1); flags_pos = length of the
     first part.
   * the loop is split in two phases, match finding + encoding decision (tokenize) and
     bit-stream packing (pack): the packing state never feeds back into match finding. *)
From Coq Require Import ZArith List Bool FMapPositive.
Import ListNotations.
Open Scope Z_scope.

(* ------------------------------------------------------------------------------------ *)
(* compressor: match finder                                                             *)

Definition WINDOW_SIZE : Z := 16512.          (* (1 << 14) + 128 *)

Definition entry : Type := (Z * list Z)%type. (* (prev_pos, data[prev_pos+3:]) *)
Definition table : Type := PositiveMap.t (list entry).

Definition key3 (l : list Z) : option positive :=
  match l with
  | a :: b :: c :: _ => Some (Z.to_pos (a * 65536 + b * 256 + c + 1))
  | _ => None
  end.

Definition tbl_find (k : positive) (t : table) : option (list entry) := PositiveMap.find k t.

(* hash_table[data[pos:pos+3]].append(pos) *)
Definition tbl_add (pos : Z) (rest : list Z) (t : table) : table :=
  match key3 rest with
  | None => t
  | Some k =>
      let old := match tbl_find k t with Some l => l | None => [] end in
      PositiveMap.add k ((pos, skipn 3 rest) :: old) t
  end.

(* while match_len < max_len and data[p + match_len] == data[q + match_len]: match_len += 1
   with a = data[p + match_len:], b = data[q + match_len:] *)
Fixpoint extend (a b : list Z) (m mx : Z) : option Z :=
  if m <? mx then
    match a, b with
    | x :: a', y :: b' => if x =? y then extend a' b' (m + 1) mx else Some m
    | _, _ => None
    end
  else Some m.

(* body of "for prev_pos in hash_table[key]" ; state (best_len, best_offset) *)
Definition scan1_step (pos ws maxm : Z) (rest3 : list Z)
           (st : option (Z * Z)) (e : entry) : option (Z * Z) :=
  match st with
  | None => None
  | Some (best_len, best_off) =>
      let (pp, t3) := e in
      if (pp <? ws) || (pp >=? pos) then st
      else
        match extend t3 rest3 3 (Z.min maxm (pos - pp)) with
        | None => None
        | Some ml =>
            if ml >? best_len then
              if pos - pp - ml <? WINDOW_SIZE then Some (ml, pos - pp) else st
            else st
        end
  end.

(* body of "for prev_pos in hash_table[next_key]" ; state next_best_len *)
Definition scan2_step (n pos ws maxm : Z) (rest4 : list Z)
           (st : option Z) (e : entry) : option Z :=
  match st with
  | None => None
  | Some nbl =>
      let (pp, t3) := e in
      if pp <? ws then st
      else
        match extend t3 rest4 3 (Z.min (Z.min maxm (pos - pp)) (n - pos - 1)) with
        | None => None
        | Some ml =>
            if ml >? nbl then
              if pos - pp - nbl <? WINDOW_SIZE then Some ml else st
            else st
        end
  end.

(* find_longest_match(pos) -> (offset, length); rest = data[pos:], n = input_size *)
Definition find_longest_match (n pos : Z) (rest : list Z) (t : table) : option (Z * Z) :=
  match key3 rest with
  | None => Some (0, 0)                                  (* pos + 3 > input_size *)
  | Some k =>
      let maxm := Z.min 258 (n - pos) in
      let ws := Z.max 0 (pos - WINDOW_SIZE - maxm) in
      match tbl_find k t with
      | None => Some (0, 0)                              (* key not in hash_table *)
      | Some es =>
          match fold_left (scan1_step pos ws maxm (skipn 3 rest)) (rev' es) (Some (0, 0)) with
          | None => None
          | Some (best_len, best_off) =>
              if (0 <? best_len) && (best_len <? maxm) && (pos + best_len + 1 <? n) then
                match match key3 (tl rest) with Some k2 => tbl_find k2 t | None => None end with
                | None => Some (best_off, best_len)      (* next_key not in hash_table *)
                | Some es2 =>
                    let ws2 := Z.max 0 (pos + 1 - WINDOW_SIZE - maxm) in
                    match fold_left (scan2_step n pos ws2 maxm (skipn 4 rest)) (rev' es2) (Some 0) with
                    | None => None
                    | Some nbl =>
                        if nbl >? best_len + 1 then Some (0, 0) else Some (best_off, best_len)
                    end
                end
              else Some (best_off, best_len)
          end
      end
  end.

(* ------------------------------------------------------------------------------------ *)
(* compressor: encoding decision                                                        *)

(* the if/elif cascade of the main loop; None = "flag = 1" (store a literal) *)
Definition encode_match (offset0 length : Z) : option (list Z) :=
  let offset := offset0 - length in
  if (length <? 3) || (offset <? 0) then None
  else if offset <=? 127 then Some [offset; length - 3]
  else
    let offset := offset - 128 in
    let length_bits := length - 3 in
    if (length_bits <? 32) && (offset <? 512) then
      Some [Z.lor (Z.land offset 127) 128;
            Z.lor (Z.shiftr (Z.land offset 384) 2) length_bits]
    else if (length >? 3) && (offset <? 16384) then
      Some [Z.lor (Z.land offset 127) 128;
            Z.lor (Z.land (Z.shiftr offset 7) 127) 128;
            length_bits]
    else None.

(* what one loop iteration emits: a literal byte, or a back reference with
   end offset eo = offset - length, its length and its encoded bytes *)
Inductive token :=
| TLit (b : Z)
| TRef (eo len : Z) (bytes : list Z).

Fixpoint tok_loop (n : Z) (t : table) (rest : list Z) (pos skip : Z) (acc : list token)
  : option (list token) :=
  match rest with
  | [] => Some (rev' acc)
  | b :: rest' =>
      if 0 <? skip then tok_loop n t rest' (pos + 1) (skip - 1) acc
      else
        match find_longest_match n pos rest t with
        | None => None
        | Some (off, len) =>
            let t' := tbl_add pos rest t in
            match encode_match off len with
            | Some bytes => tok_loop n t' rest' (pos + 1) (len - 1) (TRef (off - len) len bytes :: acc)
            | None => tok_loop n t' rest' (pos + 1) 0 (TLit b :: acc)
            end
        end
  end.

Definition tokenize (data : list Z) : option (list token) :=
  tok_loop (Z.of_nat (length data)) (PositiveMap.empty _) data 0 0 [].

(* ------------------------------------------------------------------------------------ *)
(* compressor: bit stream                                                               *)

Record pstate := mkP { p_done : list Z; p_cur : list Z; p_flags : Z }.

Definition pack_init : pstate := mkP [] [] 16711680.     (* bytearray(b'\0'), 0xFF0000 *)

Definition tok_flag (t : token) : Z := match t with TLit _ => 1 | TRef _ _ _ => 0 end.
Definition tok_bytes (t : token) : list Z := match t with TLit b => [b] | TRef _ _ bs => bs end.

Definition flags_upd (flag flags : Z) : Z := Z.lor (Z.shiftl flag 7) (Z.shiftr flags 1).

Definition pack_step (st : pstate) (t : token) : pstate :=
  let cur := rev_append (tok_bytes t) (p_cur st) in
  let flags := flags_upd (tok_flag t) (p_flags st) in
  if flags <? 65536 then
    mkP (cur ++ Z.land flags 255 :: p_done st) [] 16711680
  else mkP (p_done st) cur flags.

(* while flags >= 0x10000: flags >>= 1   (flags < 2^24: at most 8 rounds) *)
Definition pad_flags (flags : Z) : Z :=
  Nat.iter 8 (fun f => if f >=? 65536 then Z.shiftr f 1 else f) flags.

Definition pack_finish (st : pstate) : list Z :=
  match p_cur st with
  | [] => rev' (p_done st)                                (* output.pop() *)
  | _ => rev' (p_cur st ++ Z.land (pad_flags (p_flags st)) 255 :: p_done st)
  end.

Definition pack (toks : list token) : list Z := pack_finish (fold_left pack_step toks pack_init).

(* lzss_compress(data); None = the Python code would raise IndexError *)
Definition compress (data : list Z) : option (list Z) :=
  match data with
  | [] => Some []
  | _ => match tokenize data with
         | None => None
         | Some toks => Some (pack toks)
         end
  end.

(* ------------------------------------------------------------------------------------ *)
(* decompressor (C), every access to src and dst bounds-checked                          *)

Inductive dres :=
| DOk (out : list Z) (consumed : Z)
| OOB_src_read          (* src[pos] with pos >= compressed length *)
| OOB_dst_write         (* dst[out_pos ...] beyond dst_len *)
| OOB_dst_ref.          (* ref_pos = out_pos - end_offset - match_length wrapped below 0 *)

Section Dec.
Variable dst_len : Z.

(* the tail of one inner-loop round: "if (out_pos >= dst_len) return pos; flags >>= 1;" *)
Definition dec_next (k : Z -> Z -> list Z -> Z -> dres) (flags pos : Z) (outr : list Z) (out_pos : Z) : dres :=
  if out_pos >=? dst_len then DOk (rev' outr) pos
  else k (Z.shiftr flags 1) pos outr out_pos.

(* match_length += 3; ref_pos = ...; memcpy(dst + out_pos, dst + ref_pos, match_length);
   outr is dst[0:out_pos] reversed.  ref_pos >= 0 implies that source and destination of
   the memcpy do not overlap (end_offset >= 0) and that only written bytes are read. *)
Definition dec_copy (k : Z -> Z -> list Z -> Z -> dres) (flags pos eo ml0 : Z) (outr : list Z) (out_pos : Z) : dres :=
  let ml := ml0 + 3 in
  if out_pos <? eo + ml then OOB_dst_ref
  else if dst_len <? out_pos + ml then OOB_dst_write
  else dec_next k flags pos
         (firstn (Z.to_nat ml) (skipn (Z.to_nat eo) outr) ++ outr) (out_pos + ml).

(* one round of the flattened loops; flags without bit 8 = "inner loop finished, read the
   next flags byte".  Every round starts with a read of src[pos]. *)
Fixpoint dec (src : list Z) (flags pos : Z) (outr : list Z) (out_pos : Z) {struct src} : dres :=
  match src with
  | [] => OOB_src_read
  | b0 :: s1 =>
      if Z.land flags 256 =? 0 then dec s1 (Z.lor b0 65280) (pos + 1) outr out_pos
      else if negb (Z.land flags 1 =? 0) then
        (* dst[out_pos++] = src[pos++] *)
        if out_pos <? dst_len then dec_next (dec s1) flags (pos + 1) (b0 :: outr) (out_pos + 1)
        else OOB_dst_write
      else
        match s1 with
        | [] => OOB_src_read
        | hi :: s2 =>
            let lo := b0 in
            if Z.land lo 128 =? 0 then
              dec_copy (dec s2) flags (pos + 2) lo hi outr out_pos
            else if Z.land hi 128 =? 0 then
              dec_copy (dec s2) flags (pos + 2)
                (128 + Z.lor (Z.land (Z.shiftl hi 2) 384) (Z.land lo 127)) (Z.land hi 31) outr out_pos
            else
              match s2 with
              | [] => OOB_src_read
              | l3 :: s3 =>
                  dec_copy (dec s3) flags (pos + 3)
                    (128 + Z.lor (Z.shiftl (Z.land hi 127) 7) (Z.land lo 127)) l3 outr out_pos
              end
        end
  end.
End Dec.

(* __pyx_lzss_decompress(src, dst, dst_len) *)
Definition decompress (src : list Z) (dst_len : Z) : dres := dec dst_len src 0 0 [] 0.

(* __Pyx_DecompressString_LZSS(s, compressed_length, uncompressed_length) *)
Inductive sres := SOk (out : list Z) | SRuntimeError | SOob (r : dres).
Definition decompress_string (s : list Z) (clen ulen : Z) : sres :=
  match decompress s ulen with
  | DOk out consumed => if consumed =? clen then SOk out else SRuntimeError
  | r => SOob r
  end.

(* Code.generate_pystring_constants: the lzss branch (and with it the C decompressor call)
   is emitted iff not (compressed_size > len(concat_bytes) - 200) *)
Definition lzss_emitted (data : list Z) : bool :=
  match compress data with
  | Some c => negb (Z.of_nat (length c) >? Z.of_nat (length data) - 200)
  | None => false
  end.

(* reference semantics of a token stream: the bytes it denotes (reversed accumulator) *)
Fixpoint expand_r (toks : list token) (outr : list Z) : list Z :=
  match toks with
  | [] => outr
  | TLit b :: r => expand_r r (b :: outr)
  | TRef eo len _ :: r => expand_r r (firstn (Z.to_nat len) (skipn (Z.to_nat eo) outr) ++ outr)
  end.
Definition expand (toks : list token) : list Z := rev' (expand_r toks []).
