(* Model of Cython/Utility/Optimize.c : PyLongBinop and PyLongCompare, the helpers
     __Pyx_PyLong_{Add,Subtract,Multiply,Remainder,FloorDivide,TrueDivide,And,Or,Xor,
                   Lshift,Rshift}{ObjC,CObj}   and   __Pyx_PyLong_{Eq,Ne}{ObjC,CObj}
   on an exact Python int operand (the `PyLong_CheckExact(pyval)` branch with
   CYTHON_USE_PYLONG_INTERNALS, CPython 3.12, LP64: long = long long = 64 bits,
   PyLong_SHIFT = 30), and of the compile-time guard in Compiler/Optimize.py
   (optimise_numeric_binop, _optimise_num_div, __lshift__/__rshift__ handlers).

   The C text is followed branch by branch.  Every signed C operation whose mathematical
   result is not representable, every shift by a count outside [0,64), every division by
   zero and every digit read outside the allocation yields the explicit result RUB.
   The single deliberate exception is the signed left shift of the Lshift helper: the C
   function is compiled with no_sanitize("shift") and relies on GCC/Clang producing the
   two's complement (wrapped) result, which is what [c_shl] models.

   Executable definitions only. *)
From Coq Require Import ZArith List Bool Lia.
From CyVerif Require Import Lib.CInt Lib.PyLong Model.M_CMath.
Import ListNotations.
Open Scope Z_scope.

Inductive op :=
| OpAdd | OpSubtract | OpMultiply | OpRemainder | OpFloorDivide | OpTrueDivide
| OpAnd | OpOr | OpXor | OpLshift | OpRshift | OpEq | OpNe.

(* ObjC: `x op c` (the Python object is op1);  CObj: `c op x` *)
Inductive order := ObjC | CObj.

Inductive result :=
| RInt (v : Z)            (* an exact int of value v (PyLong_FromLong/FromLongLong, or a new
                             reference to one of the two exact-int operands) *)
| RBool (b : bool)        (* Py_True / Py_False, or 1 / 0 for the bint variant *)
| RFloatDiv (a b : Z)     (* PyFloat_FromDouble((double)a / (double)b) *)
| RFallback               (* the generic operation: PyNumber_<Op> / PyNumber_InPlace<Op> /
                             PyLong_Type.tp_as_number->nb_<op> on the original objects *)
| RZeroDiv                (* ZeroDivisionError raised by the helper itself *)
| RUB.                    (* undefined behaviour in the C text *)

(* ---- build constants ---- *)
Definition SHIFT : Z := 30.                       (* PyLong_SHIFT *)
Definition MASK : Z := 2 ^ SHIFT - 1.             (* PyLong_MASK *)
Definition LONG_BITS : Z := 8 * 8.                (* 8 * sizeof(long) *)
Definition LLONG_BITS : Z := 8 * 8.               (* 8 * sizeof(PY_LONG_LONG) *)

(* ---- C operations with their undefined cases explicit ---- *)
Definition ckl (v : Z) (k : Z -> result) : result :=      (* signed long / long long result *)
  if in_rangeb 64 true v then k v else RUB.

Definition c_shl (a b : Z) (k : Z -> result) : result :=  (* a << b, see header comment *)
  if (0 <=? b) && (b <? 64) then k (wrap 64 true (a * 2 ^ b)) else RUB.

Definition c_shr (a b : Z) (k : Z -> result) : result :=  (* a >> b, arithmetic (negative_shift_works) *)
  if (0 <=? b) && (b <? 64) then k (Z.shiftr a b) else RUB.

(* a % b with the ModInt adjustment:  x = a % b; x += ((x != 0) & ((x ^ b) < 0)) * b; *)
Definition c_mod_py (a b : Z) : result :=
  if (b =? 0) || ((a =? min_int 64 true) && (b =? -1)) then RUB else
  ckl (Z.rem a b) (fun x =>
  ckl (adapt_python false x b * b) (fun t =>
  ckl (x + t) RInt)).

(* q = a / b; r = a - q*b; q -= ((r != 0) & ((r ^ b) < 0)); *)
Definition c_div_py (a b : Z) : result :=
  if (b =? 0) || ((a =? min_int 64 true) && (b =? -1)) then RUB else
  ckl (Z.quot a b) (fun q =>
  ckl (q * b) (fun qb =>
  ckl (a - qb) (fun r =>
  ckl (q - adapt_python false r b) RInt))).

(* ---- the Python int operand ---- *)
Definition is_zero (x : pylong) : bool := ndigits x =? 0.              (* __Pyx_PyLong_IsZero *)
Definition is_neg (x : pylong) : bool := pl_neg x.                     (* __Pyx_PyLong_IsNeg *)
Definition is_pos (x : pylong) : bool := negb (pl_neg x) && negb (is_zero x).  (* IsPos *)

(* digits[i]; CPython allocates max(1, ndigits) digits *)
Definition rd (x : pylong) (i : nat) (k : Z -> result) : result :=
  if Z.of_nat i <? Z.max 1 (ndigits x) then k (digit x i) else RUB.

(* (a, b) of the C text: the constant is `a` for CObj and `b` for ObjC *)
Definition operands (ord : order) (c v : Z) : Z * Z :=
  match ord with ObjC => (v, c) | CObj => (c, v) end.

Definition is_div (o : op) : bool :=
  match o with OpRemainder | OpFloorDivide | OpTrueDivide => true | _ => false end.
Definition is_shift (o : op) : bool :=
  match o with OpLshift | OpRshift => true | _ => false end.
Definition is_mul (o : op) : bool := match o with OpMultiply => true | _ => false end.
Definition is_truediv (o : op) : bool := match o with OpTrueDivide => true | _ => false end.

(* ---- calculate_long_long: ---- *)
Definition calc_llong (o : op) (lla llb : Z) : result :=
  match o with
  | OpRemainder => c_mod_py lla llb
  | OpFloorDivide => c_div_py lla llb
  | OpAdd => ckl (lla + llb) RInt
  | OpSubtract => ckl (lla - llb) RInt
  | OpMultiply => ckl (lla * llb) RInt
  | OpAnd => RInt (Z.land lla llb)
  | OpOr => RInt (Z.lor lla llb)
  | OpXor => RInt (Z.lxor lla llb)
  | OpRshift =>
      if llb >=? LLONG_BITS then RInt (if lla <? 0 then -1 else 0)
      else c_shr lla llb RInt
  | OpLshift =>
      c_shl lla llb (fun llx =>
      c_shr llx llb (fun y =>
      if negb (lla =? y) then RFallback else RInt llx))
  | OpTrueDivide | OpEq | OpNe => RUB     (* no such label in these instantiations *)
  end.

(* ---- calculate_long: ---- *)
Definition calc_long (o : op) (x : pylong) (ival a b : Z) : result :=
  match o with
  | OpMultiply => calc_llong o a b             (* ll{{ival}} = {{ival}}; goto calculate_long_long *)
  | OpRemainder => c_mod_py a b
  | OpFloorDivide => c_div_py a b
  | OpTrueDivide =>
      (* (8*sizeof(long) <= 53 || labs(ival) <= 1LL<<53) || DigitCount(pyval) <= 52/PyLong_SHIFT *)
      if LONG_BITS <=? 53 then RFloatDiv a b else
      ckl (Z.abs ival) (fun l =>
      if (l <=? 2 ^ 53) || (ndigits x <=? 52 / SHIFT) then RFloatDiv a b else RFallback)
  | OpAdd => ckl (a + b) RInt
  | OpSubtract => ckl (a - b) RInt
  | OpAnd => RInt (Z.land a b)
  | OpOr => RInt (Z.lor a b)
  | OpXor => RInt (Z.lxor a b)
  | OpRshift =>
      if b >=? LONG_BITS then RInt (if a <? 0 then -1 else 0)
      else c_shr a b RInt
  | OpLshift =>
      c_shl a b (fun xx =>
      (* if (!(b < 64 && a == x >> b) && a) goto calculate_long_long *)
      let slow := if negb (a =? 0) then calc_llong o a b else RInt xx in
      if b <? LONG_BITS then c_shr xx b (fun y => if a =? y then RInt xx else slow)
      else slow)
  | OpEq | OpNe => RUB
  end.

(* ---- the size switch ---- *)
Definition guard_long (o : op) (k : Z) : bool :=
  (k * SHIFT + (if is_mul o then 30 else 0) <? LONG_BITS - 1)
  && (if is_truediv o then (k - 1) * SHIFT <? 53 else true).
Definition guard_llong (o : op) (k : Z) : bool :=
  negb (is_truediv o) && (k * SHIFT + (if is_mul o then 30 else 0) <? LLONG_BITS - 1).

(* ival = (long) pylong_join(k, digits);  if (!is_positive) ival *= -1; *)
Definition unpack_join (k : nat) (x : pylong) (cont : Z -> result) : result :=
  match join_c 64 false SHIFT k x with
  | None => RUB
  | Some u => let v := wrap 64 true u in
              if is_pos x then cont v else ckl (v * -1) cont
  end.

Definition unpack (o : op) (x : pylong) (kl kll : Z -> result) (big : result) : result :=
  let size := ndigits x in
  if size =? 1 then
    rd x 0 (fun d => if is_pos x then kl d else ckl (d * -1) kl)
  else
    let attempt (k : nat) (rest : result) : result :=
      if (size =? Z.of_nat k) && guard_long o (Z.of_nat k) then unpack_join k x kl
      else if (size =? Z.of_nat k) && guard_llong o (Z.of_nat k) then unpack_join k x kll
      else rest in
    attempt 2%nat (attempt 3%nat (attempt 4%nat big)).

(* ---- __Pyx_Unpacked___Pyx_PyLong_<Op><Order>(op1, op2, intval, inplace, zerodivision_check) ---- *)
(* from "Handle most common case (fits into 'long') first" to the end of the function *)
Definition fast_general (o : op) (ord : order) (c : Z) (x : pylong) : result :=
  unpack o x
    (fun ival => let '(a, b) := operands ord c ival in calc_long o x ival a b)
    (fun ival => let '(a, b) := operands ord c ival in calc_llong o a b)
    RFallback.                        (* PyLong_Type.tp_as_number->nb_<slot>(op1, op2) *)

(* everything after the special cases for pyval == 0 *)
Definition after_zero (o : op) (ord : order) (c : Z) (x : pylong) : result :=
  match o with
  | OpAnd =>
      (* if ((intval & PyLong_MASK) == intval) *)
      if Z.land c MASK =? c then
        (* intval & (is_positive ? last_digit : (PyLong_MASK - last_digit + 1)) *)
        rd x 0 (fun last_digit =>
        if is_pos x then RInt (Z.land c last_digit)
        else ckl (MASK - last_digit) (fun t => ckl (t + 1) (fun neg_digit =>
             RInt (Z.land c neg_digit))))
      else fast_general o ord c x
  | _ => fast_general o ord c x
  end.

Definition unpacked (o : op) (ord : order) (zc : bool) (c : Z) (x : pylong) : result :=
  if is_zero x then
    match ord, o with
    | CObj, (OpRemainder | OpFloorDivide | OpTrueDivide) =>
        if zc then RZeroDiv else after_zero o ord c x
    | CObj, (OpAdd | OpSubtract | OpOr | OpXor | OpRshift | OpLshift) => RInt c        (* op1 *)
    | CObj, (OpMultiply | OpAnd) => RInt (value SHIFT x)                                (* op2 *)
    | ObjC, (OpAdd | OpOr | OpXor) => RInt c                                            (* op2 *)
    | ObjC, OpSubtract => ckl (- c) RInt                                  (* PyLong_FromLong(-intval) *)
    | ObjC, (OpMultiply | OpRemainder | OpAnd | OpRshift | OpLshift | OpFloorDivide) =>
        RInt (value SHIFT x)                                                            (* op1 *)
    | _, _ => after_zero o ord c x
    end
  else after_zero o ord c x.

(* ---- PyLongCompare: __Pyx_PyLong_[Bool]{Eq,Ne}{ObjC,CObj}, exact-int branch ---- *)
(* return_compare('unequal', '0', c_op) *)
Definition cmp_ret (ne unequal : bool) : result := RBool (if ne then unequal else negb unequal).

(* digits[i] != ((uintval >> (i * PyLong_SHIFT)) & PyLong_MASK) *)
Definition dne (x : pylong) (u : Z) (i : nat) (k : bool -> result) : result :=
  rd x i (fun d => k (negb (d =? Z.land (Z.shiftr u (Z.of_nat i * SHIFT)) MASK))).

(* from `uintval = (unsigned long) intval;` on: signs agree, both non-zero *)
Definition cmp_digitwise (ne : bool) (x : pylong) (intval : Z) : result :=
  let u := wrap 64 false intval in              (* uintval = (unsigned long) intval *)
  let size := ndigits x in
  (* the unrolled loop: _size = 4, 3 are removed by `#if PyLong_SHIFT * _size < SIZEOF_LONG*8` *)
  if negb (Z.shiftr u (SHIFT * 2) =? 0) then
    if negb (size =? 3) then cmp_ret ne true
    else dne x u 0 (fun n0 => dne x u 1 (fun n1 => dne x u 2 (fun n2 => cmp_ret ne (n0 || n1 || n2))))
  else if negb (Z.shiftr u (SHIFT * 1) =? 0) then
    if negb (size =? 2) then cmp_ret ne true
    else dne x u 0 (fun n0 => dne x u 1 (fun n1 => cmp_ret ne (n0 || n1)))
  else
    if negb (size =? 1) then cmp_ret ne true
    else rd x 0 (fun d0 => cmp_ret ne (negb (d0 =? Z.land u MASK))).

Definition compare (ne : bool) (c : Z) (x : pylong) : result :=
  if c =? 0 then cmp_ret ne (negb (is_zero x))
  else if c <? 0 then
    if negb (is_neg x) then cmp_ret ne true    (* IsNonNeg(pyval): not equal *)
    else ckl (- c) (cmp_digitwise ne x)        (* intval = -intval *)
  else
    if is_neg x then cmp_ret ne true
    else cmp_digitwise ne x c.

(* ---- the helper on an exact int ---- *)
Definition binop (o : op) (ord : order) (zc : bool) (c : Z) (x : pylong) : result :=
  match o with
  | OpEq => compare false c x
  | OpNe => compare true c x
  | _ => unpacked o ord zc c x
  end.

(* ---- compile-time guard (Optimize.py): is the helper emitted for `x op c` / `c op x`? ---- *)
Definition c_small (c : Z) : bool := Z.abs c <=? 2 ^ 30.
Definition accepts (o : op) (ord : order) (c : Z) : bool :=
  c_small c &&
  match o, ord with
  | (OpLshift | OpRshift), ObjC => (1 <=? c) && (c <=? 63)
  | (OpLshift | OpRshift), CObj => false
  | (OpRemainder | OpFloorDivide | OpTrueDivide), ObjC => negb (c =? 0)
  | (OpRemainder | OpFloorDivide | OpTrueDivide), CObj => false
  | _, _ => true
  end.

(* what the C template itself needs (weaker than [accepts]: it also admits `c / x`, `c % x`,
   `c // x`, which Optimize.py never requests) *)
Definition template_ok (o : op) (ord : order) (c : Z) : bool :=
  c_small c &&
  match o, ord with
  | (OpLshift | OpRshift), ObjC => (1 <=? c) && (c <=? 63)
  | (OpLshift | OpRshift), CObj => false
  | (OpRemainder | OpFloorDivide | OpTrueDivide), ObjC => negb (c =? 0)
  | _, _ => true
  end.

(* ---- Python semantics on mathematical integers ---- *)
Definition py_binop (o : op) (ord : order) (c xv : Z) : result :=
  let '(l, r) := operands ord c xv in
  match o with
  | OpAdd => RInt (l + r)
  | OpSubtract => RInt (l - r)
  | OpMultiply => RInt (l * r)
  | OpRemainder => if r =? 0 then RZeroDiv else RInt (l mod r)      (* sign of the divisor *)
  | OpFloorDivide => if r =? 0 then RZeroDiv else RInt (l / r)      (* floor *)
  | OpTrueDivide => if r =? 0 then RZeroDiv else RFloatDiv l r      (* the double nearest to l/r *)
  | OpAnd => RInt (Z.land l r)                                      (* two's complement, unbounded *)
  | OpOr => RInt (Z.lor l r)
  | OpXor => RInt (Z.lxor l r)
  | OpLshift => RInt (Z.shiftl l r)
  | OpRshift => RInt (Z.shiftr l r)
  | OpEq => RBool (l =? r)
  | OpNe => RBool (negb (l =? r))
  end.

(* run the helper on the normalised representation of an integer (driver entry point) *)
Definition binop_z (o : op) (ord : order) (zc : bool) (c xv : Z) : result :=
  binop o ord zc c (of_Z SHIFT xv).
