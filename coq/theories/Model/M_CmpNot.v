(* Model of Optimize.ConstantFolding.visit_UnopNode / _handle_NotNode for `not <comparison>`.

   The operand is folded first (M_CmpFold.fold).  A literal operand gives the literal `not`;
   an operand that is (after folding) a single non-cascaded comparison with operator in / not in /
   is / is not is replaced by the comparison with the negated operator (copy.copy + operator
   swap + a second visit_PrimaryCmpNode, which finds the same non-constant link); every other
   operand keeps its NotNode.  Definitions only. *)
From Coq Require Import ZArith List Bool.
From CyVerif Require Import Lib.CInt Model.M_Cmp Model.M_CmpFold.
Import ListNotations.
Open Scope Z_scope.

(* operators: 6 is, 7 is not, 8 in, 9 not in *)
Definition negate_op (op : Z) : option Z :=
  if op =? 6 then Some 7 else if op =? 7 then Some 6
  else if op =? 8 then Some 9 else if op =? 9 then Some 8 else None.

Inductive nexpr := NPlain (ns : list fnode) | NNot (ns : list fnode).

Definition handle_not (ns : list fnode) : nexpr :=
  match ns with
  | [FBool b] => NPlain [FBool (negb b)]
  | [FCasc (h, [(op, r)])] =>
    match negate_op op with
    | Some op' => NPlain [FCasc (h, [(op', r)])]
    | None => NNot ns
    end
  | _ => NNot ns
  end.

Section NotSem.
  Variable cmp : Z -> val -> val -> val + exn.
  Variable truth : val -> bool + exn.
  Variable vbool : bool -> val.

  Definition eval_nexpr (e : nexpr) : list event * outcome val :=
    match e with
    | NPlain ns => eval_nodes cmp truth vbool ns []
    | NNot ns =>
      match eval_nodes cmp truth vbool ns [] with
      | (t, OVal v) =>
        match truth v with
        | inl b => (t ++ [EvTruth v], OVal (vbool (negb b)))
        | inr x => (t ++ [EvTruth v], ORaise x)
        end
      | other => other
      end
    end.

  Variable ct : Z -> val -> val -> option bool.
  (* not (<chain>) as compiled / as written *)
  Definition run_not (tail_fix : bool) (c : chain) : list event * outcome val :=
    eval_nexpr (handle_not (fold ct tail_fix false c)).
  Definition ref_not (tail_fix : bool) (c : chain) : list event * outcome val :=
    eval_nexpr (NNot (fold ct tail_fix false c)).
End NotSem.
