(* C integer types as (width w, signedness s); two's complement wrap-around is explicit. *)
From Coq Require Import ZArith List Bool Lia ZifyBool.
Import ListNotations.
Open Scope Z_scope.

(* forces Z, N, positive, nat, list, option, prod, bool into every extracted module *)
Definition ex_keep : nat * N * Z * list Z * option Z * positive * bool :=
  (O, N0, Z0, [], None, xH, true).

Definition min_int (w : Z) (s : bool) : Z := if s then - 2 ^ (w - 1) else 0.
Definition max_int (w : Z) (s : bool) : Z := if s then 2 ^ (w - 1) - 1 else 2 ^ w - 1.
Definition in_range (w : Z) (s : bool) (v : Z) : Prop := min_int w s <= v <= max_int w s.
Definition in_rangeb (w : Z) (s : bool) (v : Z) : bool :=
  (min_int w s <=? v) && (v <=? max_int w s).

(* value of the w-bit pattern of v read as signed / unsigned *)
Definition wrap (w : Z) (s : bool) (v : Z) : Z :=
  if s then (v + 2 ^ (w - 1)) mod 2 ^ w - 2 ^ (w - 1) else v mod 2 ^ w.

Definition b2z (b : bool) : Z := if b then 1 else 0.

Lemma in_rangeb_spec w s v : in_rangeb w s v = true <-> in_range w s v.
Proof. unfold in_rangeb, in_range. lia. Qed.

Lemma pow2_split w : 1 <= w -> 2 ^ w = 2 * 2 ^ (w - 1).
Proof. intros H. replace w with (Z.succ (w - 1)) at 1 by lia. apply Z.pow_succ_r. lia. Qed.

Lemma pow2_pos w : 0 <= w -> 0 < 2 ^ w.
Proof. intros. apply Z.pow_pos_nonneg; lia. Qed.

Lemma wrap_id w s v : 1 <= w -> in_range w s v -> wrap w s v = v.
Proof.
  intros Hw [Hlo Hhi]. unfold wrap, min_int, max_int in *.
  pose proof (pow2_split w Hw) as E. pose proof (pow2_pos (w - 1) ltac:(lia)) as P.
  destruct s.
  - rewrite Z.mod_small by lia. lia.
  - apply Z.mod_small. lia.
Qed.

Lemma wrap_in_range w s v : 1 <= w -> in_range w s (wrap w s v).
Proof.
  intros Hw. unfold wrap, in_range, min_int, max_int.
  pose proof (pow2_split w Hw) as E. pose proof (pow2_pos (w - 1) ltac:(lia)) as P.
  destruct s.
  - pose proof (Z.mod_pos_bound (v + 2 ^ (w - 1)) (2 ^ w) ltac:(lia)). lia.
  - pose proof (Z.mod_pos_bound v (2 ^ w) ltac:(lia)). lia.
Qed.

Lemma wrap_congr w s v : 1 <= w -> (wrap w s v - v) mod 2 ^ w = 0.
Proof.
  intros Hw. unfold wrap. pose proof (pow2_pos w ltac:(lia)) as P.
  destruct s.
  - replace ((v + 2 ^ (w - 1)) mod 2 ^ w - 2 ^ (w - 1) - v)
      with ((v + 2 ^ (w - 1)) mod 2 ^ w - (v + 2 ^ (w - 1))) by lia.
    rewrite Zminus_mod, Z.mod_mod by lia. rewrite Z.sub_diag. apply Z.mod_0_l. lia.
  - rewrite Zminus_mod, Z.mod_mod by lia. rewrite Z.sub_diag. apply Z.mod_0_l. lia.
Qed.

(* sign of xor: (r ^ b) < 0 iff exactly one of r, b is negative *)
Lemma lxor_neg_iff a b : (Z.lxor a b <? 0) = xorb (a <? 0) (b <? 0).
Proof.
  destruct (Z.ltb_spec a 0), (Z.ltb_spec b 0); cbn [xorb];
    apply Bool.eq_true_iff_eq; rewrite Z.ltb_lt;
    pose proof (Z.lxor_nonneg a b); intuition lia.
Qed.
