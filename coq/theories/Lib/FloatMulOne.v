(* 1.0 * b = b for every valid binary64 value, over Coq.Floats.SpecFloat (via Flocq's
   Bmult_correct_aux; depends on the standard axioms of Coq's real numbers only). *)
From Coq Require Import ZArith Reals SpecFloat Lia Lra.
From Flocq Require Import Core BinarySingleNaN.
From Flocq Require PrimFloat.
From CyVerif Require Import Model.M_FloatOps.

Lemma one_F2R : F2R (Float radix2 (cond_Zopp false (Zpos 4503599627370496)) (-52)) = 1%R.
Proof.
  unfold F2R, Fnum, Fexp, cond_Zopp. simpl bpow.
  change (Z.pow_pos 2 52) with 4503599627370496%Z.
  apply Rinv_r. apply IZR_neq. discriminate.
Qed.

Lemma fmul_one_l b : fvalid b = true -> fmul fone b = b.
Proof.
  intros Hv. destruct b as [[|]|[|]| |s m e]; try reflexivity.
  unfold fmul, fone. cbn [SFmul xorb].
  change dprec with FloatOps.prec. change demax with FloatOps.emax.
  rewrite PrimFloat.binary_round_aux_equiv.
  assert (H1 : bounded FloatOps.prec FloatOps.emax 4503599627370496 (-52) = true) by reflexivity.
  pose proof (Bmult_correct_aux FloatOps.prec FloatOps.emax PrimFloat.Hprec PrimFloat.Hmax mode_NE false 4503599627370496 (-52) H1 s m e Hv) as H.
  cbv zeta in H. rewrite one_F2R, Rmult_1_l in H.
  set (z := binary_round_aux _ _ _ _ _ _ _) in *.
  destruct H as [Hz H].
  set (y := B754_finite s m e Hv : binary_float FloatOps.prec FloatOps.emax).
  change (F2R (Float radix2 (cond_Zopp s (Z.pos m)) e)) with (B2R y) in H.
  rewrite round_generic in H; [| apply valid_rnd_round_mode | apply generic_format_B2R].
  rewrite Rlt_bool_true in H by apply abs_B2R_lt_emax.
  destruct H as (HR & HF & HS).
  assert (E : SF2B z Hz = y).
  { apply B2R_Bsign_inj.
    - rewrite is_finite_SF2B. exact HF.
    - reflexivity.
    - rewrite B2R_SF2B. exact HR.
    - rewrite Bsign_SF2B, HS. destruct s; reflexivity. }
  apply (f_equal (@B2SF _ _)) in E. rewrite B2SF_SF2B in E. exact E.
Qed.
