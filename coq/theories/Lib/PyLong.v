(* CPython integers as they are laid out in memory: a sign and a little-endian list of
   base-2^sh digits (sh = PyLong_SHIFT: 30 on every supported 64-bit build, 15 on some
   32-bit builds).  Reusable: no Cython-specific definitions here.

     value sh x          the mathematical integer denoted by x
     wf sh x             CPython's representation invariant (digits in range, top digit
                         non-zero, zero is non-negative)
     ndigits / digit     _PyLong_DigitCount / ob_digit[i]
     is_compact, compact_value, compact_uvalue    PyUnstable_Long_IsCompact & co (3.12+)
     joinl / join        the unrolled shift-or expression  (((d[k-1] << sh) | d[k-2]) << sh) | ...
     join_c              the same, carried out in a C type (width jw, signedness js):
                         None = signed overflow in a shift (undefined behaviour)
     of_Z                the normalised representation of an integer (what PyLong_From* build)

   Main lemmas: joinl_mag, join_c_exact, mag_lt, mag_ge, value_of_Z, wf_of_Z. *)
From Coq Require Import ZArith List Bool Lia ZifyBool.
From CyVerif Require Import Lib.CInt.
Import ListNotations.
Open Scope Z_scope.

Record pylong := PyLong { pl_neg : bool; pl_digits : list Z }.

Fixpoint mag (sh : Z) (ds : list Z) : Z :=
  match ds with
  | [] => 0
  | d :: r => d + 2 ^ sh * mag sh r
  end.

Definition value (sh : Z) (x : pylong) : Z :=
  if pl_neg x then - mag sh (pl_digits x) else mag sh (pl_digits x).

Definition ndigits (x : pylong) : Z := Z.of_nat (length (pl_digits x)).

(* ob_digit[i]; CPython allocates at least one digit, and the digit of zero is 0, so the
   default of nth coincides with memory for i = 0 *)
Definition digit (x : pylong) (i : nat) : Z := nth i (pl_digits x) 0.

Definition digit_ok (sh d : Z) : Prop := 0 <= d < 2 ^ sh.
Definition digit_okb (sh d : Z) : bool := (0 <=? d) && (d <? 2 ^ sh).
Definition digits_ok (sh : Z) (ds : list Z) : Prop := Forall (digit_ok sh) ds.

(* representation invariant of PyLongObject *)
Definition wf (sh : Z) (x : pylong) : Prop :=
  digits_ok sh (pl_digits x) /\ last (pl_digits x) 1 <> 0 /\ (pl_digits x = [] -> pl_neg x = false).

Definition wfb (sh : Z) (x : pylong) : bool :=
  forallb (digit_okb sh) (pl_digits x) && negb (last (pl_digits x) 1 =? 0)
  && (match pl_digits x with [] => negb (pl_neg x) | _ => true end).

(* 3.12+: lv_tag < (2 << _PyLong_NON_SIZE_BITS), i.e. at most one digit *)
Definition is_compact (x : pylong) : bool := ndigits x <? 2.
Definition compact_uvalue (x : pylong) : Z := digit x 0.
Definition compact_value (x : pylong) : Z := if pl_neg x then - digit x 0 else digit x 0.

(* pylong_join over the digits ds (little-endian), exact integers *)
Fixpoint joinl (sh : Z) (ds : list Z) : Z :=
  match ds with
  | [] => 0
  | d :: r => Z.lor (Z.shiftl (joinl sh r) sh) d
  end.

Definition join (sh : Z) (k : nat) (x : pylong) : Z := joinl sh (firstn k (pl_digits x)).

(* the same expression evaluated in the C type (jw, js): each digit is cast, each shift is
   taken in that type.  Unsigned shifts wrap; a signed shift whose result is not
   representable is undefined (None). *)
Fixpoint joinl_c (jw : Z) (js : bool) (sh : Z) (ds : list Z) : option Z :=
  match ds with
  | [] => Some 0
  | d :: r =>
    match joinl_c jw js sh r with
    | None => None
    | Some a =>
      let shifted := Z.shiftl a sh in
      if js && negb (in_rangeb jw js shifted) then None
      else Some (Z.lor (wrap jw js shifted) (wrap jw js d))
    end
  end.

Definition join_c (jw : Z) (js : bool) (sh : Z) (k : nat) (x : pylong) : option Z :=
  joinl_c jw js sh (firstn k (pl_digits x)).

(* normalised digits of a non-negative integer; fuel = an upper bound on the bit length *)
Fixpoint digits_of (sh : Z) (fuel : nat) (m : Z) : list Z :=
  match fuel with
  | O => []
  | S f => if m <=? 0 then [] else (m mod 2 ^ sh) :: digits_of sh f (m / 2 ^ sh)
  end.

Definition of_Z (sh : Z) (v : Z) : pylong :=
  PyLong (v <? 0) (digits_of sh (S (Z.to_nat (Z.log2 (Z.abs v)))) (Z.abs v)).

(* ------------------------------------------------------------------------------------ *)

Lemma wfb_spec sh x : wfb sh x = true <-> wf sh x.
Proof.
  unfold wfb, wf, digits_ok. rewrite !andb_true_iff, forallb_forall, Forall_forall.
  unfold digit_okb, digit_ok. destruct x as [n ds]; cbn [pl_digits pl_neg].
  split.
  - intros [[H1 H2] H3]. repeat split.
    + apply H1 in H. lia.
    + apply H1 in H. lia.
    + lia.
    + intros ->. destruct n; cbn in *; congruence.
  - intros [H1 [H2 H3]]. repeat split.
    + intros d Hd. apply H1 in Hd. lia.
    + lia.
    + destruct ds; [rewrite H3 by reflexivity; reflexivity | reflexivity].
Qed.

Lemma mag_nonneg sh ds : digits_ok sh ds -> 0 <= mag sh ds.
Proof.
  induction 1 as [|d r Hd _ IH]; cbn [mag]; [lia|].
  unfold digit_ok in Hd. assert (0 <= 2 ^ sh) by (apply Z.pow_nonneg; lia). nia.
Qed.

(* mag < 2^(sh * length) *)
Lemma mag_lt sh ds : 0 <= sh -> digits_ok sh ds -> mag sh ds < 2 ^ (sh * Z.of_nat (length ds)).
Proof.
  intros Hsh. induction 1 as [|d r Hd Hr IH].
  - cbn. lia.
  - cbn [mag length]. rewrite Nat2Z.inj_succ, Z.mul_succ_r, Z.pow_add_r by nia.
    unfold digit_ok in Hd. pose proof (mag_nonneg sh r Hr).
    assert (0 < 2 ^ sh) by (apply Z.pow_pos_nonneg; lia).
    set (P := 2 ^ (sh * Z.of_nat (length r))) in *. set (S := 2 ^ sh) in *.
    assert (S * (mag sh r + 1) <= S * P) by (apply Z.mul_le_mono_nonneg_l; lia). lia.
Qed.

(* a normalised non-empty digit string is at least 2^(sh * (length - 1)) *)
Lemma mag_ge sh ds : 0 <= sh -> digits_ok sh ds -> ds <> [] -> last ds 1 <> 0 ->
  2 ^ (sh * (Z.of_nat (length ds) - 1)) <= mag sh ds.
Proof.
  intros Hsh. induction 1 as [|d r Hd Hr IH]; [congruence|]. intros _ Hl.
  cbn [mag length]. rewrite Nat2Z.inj_succ.
  destruct r as [|d' r'].
  - cbn [last length] in *. unfold digit_ok in Hd. replace (sh * (Z.succ (Z.of_nat 0) - 1)) with 0 by lia. rewrite Z.pow_0_r. cbn [mag]. lia.
  - assert (Hl' : last (d' :: r') 1 <> 0) by exact Hl.
    specialize (IH ltac:(congruence) Hl').
    replace (sh * (Z.succ (Z.of_nat (length (d' :: r'))) - 1))
      with (sh + sh * (Z.of_nat (length (d' :: r')) - 1)) by lia.
    rewrite Z.pow_add_r; [| lia | cbn [length]; lia].
    unfold digit_ok in Hd. assert (0 < 2 ^ sh) by (apply Z.pow_pos_nonneg; lia). nia.
Qed.

Lemma mag_pos sh ds : 0 <= sh -> digits_ok sh ds -> ds <> [] -> last ds 1 <> 0 -> 0 < mag sh ds.
Proof.
  intros Hsh H1 H2 H3. pose proof (mag_ge sh ds Hsh H1 H2 H3).
  assert (0 < 2 ^ (sh * (Z.of_nat (length ds) - 1))); [|lia].
  apply Z.pow_pos_nonneg; [lia|]. destruct ds; [congruence|]. cbn [length]. nia.
Qed.

Lemma land_shiftl_low a d sh : 0 <= sh -> 0 <= d < 2 ^ sh -> Z.land (Z.shiftl a sh) d = 0.
Proof.
  intros Hsh Hd. apply Z.bits_inj'. intros n Hn. rewrite Z.land_spec, Z.bits_0.
  destruct (Z.ltb_spec n sh).
  - rewrite Z.shiftl_spec_low by lia. reflexivity.
  - destruct (Z.eqb_spec d 0) as [->|Hd0]; [rewrite Z.bits_0; apply andb_false_r|].
    rewrite (Z.bits_above_log2 d n); [apply andb_false_r | lia |].
    assert (Z.log2 d < sh) by (apply Z.log2_lt_pow2; lia). lia.
Qed.

(* (a << sh) | d  =  a * 2^sh + d  for a digit d *)
Lemma shiftl_lor_add a d sh : 0 <= sh -> 0 <= d < 2 ^ sh ->
  Z.lor (Z.shiftl a sh) d = a * 2 ^ sh + d.
Proof.
  intros Hsh Hd. pose proof (land_shiftl_low a d sh Hsh Hd) as L.
  rewrite <- Z.lxor_lor by exact L. rewrite <- Z.add_nocarry_lxor by exact L.
  rewrite Z.shiftl_mul_pow2 by lia. reflexivity.
Qed.

Lemma joinl_mag sh ds : 0 <= sh -> digits_ok sh ds -> joinl sh ds = mag sh ds.
Proof.
  intros Hsh. induction 1 as [|d r Hd Hr IH]; [reflexivity|].
  cbn [joinl mag]. rewrite shiftl_lor_add by assumption. rewrite IH. lia.
Qed.

Lemma digits_ok_firstn sh k ds : digits_ok sh ds -> digits_ok sh (firstn k ds).
Proof.
  unfold digits_ok. rewrite !Forall_forall. intros H d Hd. apply H.
  rewrite <- (firstn_skipn k ds). apply in_or_app. left. exact Hd.
Qed.

Lemma join_value sh k x : 0 <= sh -> digits_ok sh (pl_digits x) -> length (pl_digits x) = k ->
  join sh k x = mag sh (pl_digits x).
Proof.
  intros Hsh Hok Hk. unfold join. subst k. rewrite firstn_all. apply joinl_mag; assumption.
Qed.

(* the C evaluation of the join is exact (and free of signed overflow) as soon as all the
   joined bits fit below the sign bit of the join type *)
Lemma joinl_c_exact jw (js : bool) sh ds : 0 <= sh -> 1 <= jw -> digits_ok sh ds ->
  sh * Z.of_nat (length ds) <= (if js then jw - 1 else jw) ->
  joinl_c jw js sh ds = Some (mag sh ds).
Proof.
  intros Hsh Hjw. induction 1 as [|d r Hd Hr IH]; intros Hfit; [reflexivity|].
  cbn [joinl_c length] in *. rewrite Nat2Z.inj_succ in Hfit.
  rewrite IH by nia. cbv zeta.
  pose proof (mag_nonneg sh r Hr) as Hm0. pose proof (mag_lt sh r Hsh Hr) as Hm1.
  assert (P : 0 < 2 ^ sh) by (apply Z.pow_pos_nonneg; lia).
  set (L := Z.of_nat (length r)) in *. assert (0 <= L) by (subst L; lia).
  assert (Hb : 0 <= mag sh r * 2 ^ sh + d < 2 ^ (sh * Z.succ L)).
  { rewrite Z.mul_succ_r, Z.pow_add_r by nia. unfold digit_ok in Hd. nia. }
  assert (Hs : 0 <= mag sh r * 2 ^ sh < 2 ^ (sh * Z.succ L)).
  { unfold digit_ok in Hd. nia. }
  assert (Hle : 2 ^ (sh * Z.succ L) <= 2 ^ (if js then jw - 1 else jw)).
  { apply Z.pow_le_mono_r; lia. }
  assert (Hd' : 0 <= d < 2 ^ (sh * Z.succ L)).
  { unfold digit_ok in Hd. split; [lia|]. apply Z.lt_le_trans with (2 ^ sh); [lia|].
    apply Z.pow_le_mono_r; nia. }
  rewrite Z.shiftl_mul_pow2 by lia.
  assert (R : forall v, 0 <= v < 2 ^ (sh * Z.succ L) -> in_range jw js v).
  { intros v Hv. unfold in_range, min_int, max_int. destruct js.
    - assert (0 < 2 ^ (jw - 1)) by (apply Z.pow_pos_nonneg; lia). lia.
    - lia. }
  assert (Hin : in_rangeb jw js (mag sh r * 2 ^ sh) = true) by (apply in_rangeb_spec, R; lia).
  rewrite Hin. cbn [negb]. rewrite andb_false_r.
  rewrite !wrap_id by (try lia; apply R; lia).
  rewrite <- Z.shiftl_mul_pow2 by lia. rewrite shiftl_lor_add by assumption.
  cbn [mag]. f_equal. lia.
Qed.

Lemma join_c_exact jw (js : bool) sh k x : 0 <= sh -> 1 <= jw -> digits_ok sh (pl_digits x) ->
  length (pl_digits x) = k -> sh * Z.of_nat k <= (if js then jw - 1 else jw) ->
  join_c jw js sh k x = Some (mag sh (pl_digits x)).
Proof.
  intros Hsh Hjw Hok Hk Hfit. unfold join_c. subst k. rewrite firstn_all.
  apply joinl_c_exact; assumption.
Qed.

(* ---- of_Z ---- *)

Lemma digits_of_spec sh fuel : 1 <= sh -> forall m, 0 <= m < 2 ^ Z.of_nat fuel ->
  mag sh (digits_of sh fuel m) = m /\ digits_ok sh (digits_of sh fuel m)
  /\ last (digits_of sh fuel m) 1 <> 0 /\ (0 < m -> digits_of sh fuel m <> []).
Proof.
  intros Hsh. assert (P : 0 < 2 ^ sh) by (apply Z.pow_pos_nonneg; lia).
  assert (P2 : 2 <= 2 ^ sh).
  { change 2 with (2 ^ 1) at 1. apply Z.pow_le_mono_r; lia. }
  induction fuel as [|f IH]; intros m Hm.
  - cbn in *. assert (m = 0) by lia. subst. repeat split; try constructor; lia.
  - cbn [digits_of]. destruct (Z.leb_spec m 0) as [H0|H0].
    + assert (m = 0) by lia. subst. cbn. repeat split; try constructor; lia.
    + rewrite Nat2Z.inj_succ, Z.pow_succ_r in Hm by lia.
      assert (Hq : 0 <= m / 2 ^ sh < 2 ^ Z.of_nat f).
      { split; [apply Z.div_pos; lia|]. apply Z.div_lt_upper_bound; nia. }
      destruct (IH _ Hq) as (E & Ok & La & Ne).
      pose proof (Z.div_mod m (2 ^ sh) ltac:(lia)) as DM.
      pose proof (Z.mod_pos_bound m (2 ^ sh) P) as MB.
      repeat split.
      * cbn [mag]. rewrite E. lia.
      * constructor; [exact MB | exact Ok].
      * destruct (digits_of sh f (m / 2 ^ sh)) as [|d' r'] eqn:Ed.
        -- cbn [last]. destruct (Z.ltb_spec 0 (m / 2 ^ sh)) as [Hp|Hp].
           ++ exfalso. apply (Ne Hp). reflexivity.
           ++ assert (m / 2 ^ sh = 0) by lia. lia.
        -- exact La.
      * intros _. discriminate.
Qed.

Lemma log2_fuel m : 0 <= m -> m < 2 ^ Z.of_nat (S (Z.to_nat (Z.log2 m))).
Proof.
  intros Hm. rewrite Nat2Z.inj_succ, Z2Nat.id by apply Z.log2_nonneg.
  destruct (Z.eqb_spec m 0) as [->|Hn]; [cbn; lia|].
  apply Z.log2_spec. lia.
Qed.

Theorem value_of_Z sh v : 1 <= sh -> value sh (of_Z sh v) = v.
Proof.
  intros Hsh. unfold value, of_Z. cbn [pl_neg pl_digits].
  destruct (digits_of_spec sh _ Hsh (Z.abs v) (conj (Z.abs_nonneg v) (log2_fuel _ (Z.abs_nonneg v))))
    as (E & _). rewrite E. destruct (Z.ltb_spec v 0); lia.
Qed.

Theorem wf_of_Z sh v : 1 <= sh -> wf sh (of_Z sh v).
Proof.
  intros Hsh. unfold wf, of_Z. cbn [pl_neg pl_digits].
  destruct (digits_of_spec sh _ Hsh (Z.abs v) (conj (Z.abs_nonneg v) (log2_fuel _ (Z.abs_nonneg v))))
    as (E & Ok & La & Ne).
  repeat split; try assumption.
  intros Hnil. destruct (Z.ltb_spec v 0) as [Hv|Hv]; [|reflexivity].
  exfalso. apply Ne; [lia | exact Hnil].
Qed.

(* zero has no digits; the sign of a well-formed number is the sign of its value *)
Lemma value_sign sh x : 0 <= sh -> wf sh x ->
  (pl_neg x = true -> value sh x < 0) /\ (pl_neg x = false -> 0 <= value sh x).
Proof.
  intros Hsh (Ok & La & Z0). unfold value. split; intros Hn; rewrite Hn.
  - destruct (pl_digits x) eqn:E; [rewrite Z0 in Hn by reflexivity; discriminate|].
    pose proof (mag_pos sh (z :: l) Hsh Ok ltac:(congruence) La). lia.
  - apply mag_nonneg. exact Ok.
Qed.
