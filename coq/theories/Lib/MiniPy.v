(* MiniPy: a small Python subset with CPython's scoping rules.

   Syntax: int/bool/None literals, names, unary/binary arithmetic, comparisons, calls, lambda,
   conditional expressions, an event primitive log(e), assignment (plain and augmented),
   if/while/return, nested def, global/nonlocal declarations, del.

   The interpreter skeleton [eval]/[exec]/[block]/[call] is written once, over a record [ops]
   of name-resolution primitives (where does name x of this frame live; how is a closure
   captured; what is allocated on function entry).  This file instantiates it with CPython's
   scheme: symtable-style classification of names (local / free / global), one *cell* per
   captured local per activation, closures capture the cells of their free variables
   ([run_cells]).  Model/M_Closure.v instantiates it with the compiler's scheme (scope objects
   and outer_scope hops, [run_scopes]).

   Errors are explicit: UnboundLocalError / NameError / TypeError / ZeroDivisionError outcomes,
   OutOfFuel, and Stuck (an internal inconsistency of the name-resolution data: never expected).
   Cells are addressed by (activation number, name): a fresh activation number is drawn on every
   call, so this is only a naming of CPython's fresh cell objects. *)
From Coq Require Import ZArith List Bool Lia.
Import ListNotations.

Definition ident := nat.

Inductive binop := Add | Sub | Mul | FloorDiv | Mod.
Inductive cmpop := CLt | CLe | CEq | CNe | CGt | CGe.

Inductive expr :=
| EInt (z : Z) | EBool (b : bool) | ENone
| EName (x : ident)
| ENeg (a : expr) | ENot (a : expr)
| EBin (op : binop) (a b : expr)
| ECmp (op : cmpop) (a b : expr)
| ECond (c t f : expr)                  (* t if c else f *)
| ELog (a : expr)                       (* log(a): appends the value to the event trace, returns it *)
| ELambda (ps : list ident) (b : expr)
| ECall (f : expr) (args : list expr).

Inductive stmt :=
| SExpr (e : expr)
| SAssign (x : ident) (e : expr)
| SAug (x : ident) (op : binop) (e : expr)
| SIf (c : expr) (t f : list stmt)
| SWhile (c : expr) (b : list stmt)
| SReturn (e : expr)
| SDef (f : ident) (ps : list ident) (body : list stmt)
| SGlobal (x : ident) | SNonlocal (x : ident)
| SDel (x : ident)
| SPass.

Inductive value := VInt (z : Z) | VBool (b : bool) | VNone | VFun (id : nat).

Inductive exc := UnboundLocalError | NameError | TypeError | ZeroDivisionError | AttributeError.

(* ---------- value operations (Python semantics on this value universe) ---------- *)
Definition as_int (v : value) : option Z :=
  match v with VInt z => Some z | VBool b => Some (if b then 1 else 0)%Z | _ => None end.

Definition truthy (v : value) : bool :=
  match v with VInt z => negb (Z.eqb z 0) | VBool b => b | VNone => false | VFun _ => true end.

Definition do_bin (op : binop) (a b : value) : value + exc :=
  match as_int a, as_int b with
  | Some x, Some y =>
      match op with
      | Add => inl (VInt (x + y)) | Sub => inl (VInt (x - y)) | Mul => inl (VInt (x * y))
      | FloorDiv => if Z.eqb y 0 then inr ZeroDivisionError else inl (VInt (Z.div x y))
      | Mod => if Z.eqb y 0 then inr ZeroDivisionError else inl (VInt (Z.modulo x y))
      end
  | _, _ => inr TypeError
  end.

Definition py_eq (a b : value) : bool :=
  match as_int a, as_int b with
  | Some x, Some y => Z.eqb x y
  | _, _ => match a, b with
            | VNone, VNone => true
            | VFun i, VFun j => Nat.eqb i j
            | _, _ => false
            end
  end.

Definition do_cmp (op : cmpop) (a b : value) : value + exc :=
  match op with
  | CEq => inl (VBool (py_eq a b))
  | CNe => inl (VBool (negb (py_eq a b)))
  | _ => match as_int a, as_int b with
         | Some x, Some y =>
             inl (VBool (match op with CLt => Z.ltb x y | CLe => Z.leb x y | CGt => Z.ltb y x
                                  | _ => Z.leb y x end))
         | _, _ => inr TypeError
         end
  end.

Definition do_neg (a : value) : value + exc :=
  match as_int a with Some x => inl (VInt (- x)) | None => inr TypeError end.

(* ---------- association lists (newest binding first) ---------- *)
Fixpoint mem (x : ident) (l : list ident) : bool :=
  match l with [] => false | y :: r => if Nat.eqb x y then true else mem x r end.

Fixpoint memb (b : bool) (x : ident) (l : list (bool * ident)) : bool :=
  match l with
  | [] => false
  | (c, y) :: r => if Bool.eqb b c && Nat.eqb x y then true else memb b x r
  end.

Fixpoint assoc {A : Type} (x : ident) (l : list (ident * A)) : option A :=
  match l with [] => None | (y, a) :: r => if Nat.eqb x y then Some a else assoc x r end.

(* environments: None = deleted *)
Definition env := list (ident * option value).
Definition env_get (e : env) (x : ident) : option value :=
  match assoc x e with Some (Some v) => Some v | _ => None end.
Definition env_set (e : env) (x : ident) (v : value) : env := (x, Some v) :: e.
Definition env_del (e : env) (x : ident) : env := (x, None) :: e.

(* ---------- static analysis (what symtable computes from the syntax) ---------- *)
(* references of a piece of code: (false, x) = the code itself loads/stores/deletes x;
   (true, x) = a directly nested function (or something nested in it) needs x from outside *)
Record scope_info := { si_locals : list ident; si_globals : list ident;
                       si_refs : list (bool * ident) }.
Definition sctx := list scope_info.          (* enclosing function scopes, innermost first *)

(* names a function needs from its enclosing scopes *)
Definition cfree (i : scope_info) : list ident :=
  filter (fun x => negb (mem x (si_locals i)) && negb (mem x (si_globals i))) (map snd (si_refs i)).
Definition nested (i : scope_info) : list (bool * ident) := map (pair true) (cfree i).
(* locals captured by nested functions: the cell variables *)
Definition si_cells (i : scope_info) : list ident :=
  filter (fun x => memb true x (si_refs i)) (si_locals i).
Definition is_cell (i : scope_info) (x : ident) : bool := mem x (si_cells i).

Definition lam_info (ps : list ident) (r : list (bool * ident)) : scope_info :=
  {| si_locals := ps; si_globals := []; si_refs := r |}.

Fixpoint refs_e (e : expr) : list (bool * ident) :=
  match e with
  | EInt _ | EBool _ | ENone => []
  | EName x => [(false, x)]
  | ENeg a | ENot a | ELog a => refs_e a
  | EBin _ a b | ECmp _ a b => refs_e a ++ refs_e b
  | ECond c t f => refs_e c ++ refs_e t ++ refs_e f
  | ELambda ps b => nested (lam_info ps (refs_e b))
  | ECall f args => refs_e f ++ flat_map refs_e args
  end.

Fixpoint binds_s (s : stmt) : list ident :=
  match s with
  | SAssign x _ | SAug x _ _ | SDel x => [x]
  | SDef f _ _ => [f]
  | SIf _ t f => flat_map binds_s t ++ flat_map binds_s f
  | SWhile _ b => flat_map binds_s b
  | _ => []
  end.
Fixpoint globals_s (s : stmt) : list ident :=
  match s with
  | SGlobal x => [x]
  | SIf _ t f => flat_map globals_s t ++ flat_map globals_s f
  | SWhile _ b => flat_map globals_s b
  | _ => []
  end.
Fixpoint nonlocals_s (s : stmt) : list ident :=
  match s with
  | SNonlocal x => [x]
  | SIf _ t f => flat_map nonlocals_s t ++ flat_map nonlocals_s f
  | SWhile _ b => flat_map nonlocals_s b
  | _ => []
  end.

(* a name is local to the innermost function that binds it unless declared global/nonlocal *)
Definition fn_locals (ps : list ident) (body : list stmt) : list ident :=
  ps ++ filter (fun x => negb (mem x (flat_map globals_s body)) && negb (mem x (flat_map nonlocals_s body)))
               (flat_map binds_s body).

Definition mk_info_raw (ps : list ident) (body : list stmt) (r : list (bool * ident)) : scope_info :=
  {| si_locals := fn_locals ps body; si_globals := flat_map globals_s body; si_refs := r |}.

Fixpoint refs_s (s : stmt) : list (bool * ident) :=
  match s with
  | SExpr e | SReturn e => refs_e e
  | SAssign x e | SAug x _ e => (false, x) :: refs_e e
  | SIf c t f => refs_e c ++ flat_map refs_s t ++ flat_map refs_s f
  | SWhile c b => refs_e c ++ flat_map refs_s b
  | SDef f ps body => (false, f) :: nested (mk_info_raw ps body (flat_map refs_s body))
  | SDel x => [(false, x)]
  | SGlobal _ | SNonlocal _ | SPass => []
  end.

Definition mk_info (ps : list ident) (body : list stmt) : scope_info :=
  mk_info_raw ps body (flat_map refs_s body).
(* the module scope binds nothing function-locally: every name there is global *)
Definition module_info (prog : list stmt) : scope_info :=
  {| si_locals := []; si_globals := []; si_refs := flat_map refs_s prog |}.

(* symtable's resolution of a name that is neither local nor declared global: the nearest
   enclosing function scope that binds it owns it, unless a nearer one declares it global *)
Fixpoint has_owner (ctx : sctx) (x : ident) : bool :=
  match ctx with
  | [] => false
  | p :: r => if mem x (si_locals p) then true
              else if mem x (si_globals p) then false else has_owner r x
  end.
Inductive kind := KLocal | KFree | KGlobal.
Definition classify (i : scope_info) (ctx : sctx) (x : ident) : kind :=
  if mem x (si_locals i) then KLocal            (* parameters, and bound names not declared global/nonlocal *)
  else if mem x (si_globals i) then KGlobal
  else if has_owner ctx x then KFree else KGlobal.

(* ---------- the interpreter skeleton ---------- *)
Inductive res (S A : Type) := Ok (a : A) (s : S) | Exn (e : exc) (s : S) | OutOfFuel | Stuck.
Arguments Ok {S A}. Arguments Exn {S A}. Arguments OutOfFuel {S A}. Arguments Stuck {S A}.
Definition bind {S A B : Type} (r : res S A) (k : A -> S -> res S B) : res S B :=
  match r with Ok a s => k a s | Exn e s => Exn e s | OutOfFuel => OutOfFuel | Stuck => Stuck end.
Definition lift {S : Type} (r : value + exc) (s : S) : res S value :=
  match r with inl v => Ok v s | inr e => Exn e s end.

Inductive lres (A : Type) := LVal (a : A) | LExn (e : exc) | LStuck.
Arguments LVal {A}. Arguments LExn {A}. Arguments LStuck {A}.

(* where a name lives: module dict, fast local of the frame, or heap slot (m, name);
   [free] selects the error raised when the slot is empty (NameError for a free variable) *)
Inductive loc := LGlob | LFast | LHeap (m : nat) (free : bool).
Inductive flow := FNext | FRet (v : value).

Section Gen.
Variables X H C : Type.      (* per-frame resolution data, heap, per-closure captured data *)

Record frame := { f_info : scope_info; f_ctx : sctx; f_fast : env; f_x : X }.
Record fn := { fn_ps : list ident; fn_body : list stmt; fn_info : scope_info; fn_ctx : sctx;
               fn_cap : C }.
Record state := { g_glob : env; g_heap : H; g_funs : list fn; g_next : nat;
                  g_trace : list value }.

Record ops := {
  op_loc : frame -> H -> ident -> option loc;             (* None: stuck *)
  op_get : H -> nat -> ident -> option (option value);    (* None: no such slot; Some None: unbound *)
  op_set : H -> nat -> ident -> option value -> H;
  op_capture : frame -> scope_info -> option C;           (* closure creation in this frame *)
  op_enter : H -> fn -> nat -> X * H;                     (* function entry, activation number *)
  op_delglob_exc : exc                                    (* raised by del of an unbound module global *)
}.
Variable o : ops.

Definition set_heap (st : state) (h : H) : state :=
  {| g_glob := g_glob st; g_heap := h; g_funs := g_funs st; g_next := g_next st; g_trace := g_trace st |}.
Definition set_glob (st : state) (g : env) : state :=
  {| g_glob := g; g_heap := g_heap st; g_funs := g_funs st; g_next := g_next st; g_trace := g_trace st |}.
Definition set_fast (fr : frame) (e : env) : frame :=
  {| f_info := f_info fr; f_ctx := f_ctx fr; f_fast := e; f_x := f_x fr |}.
Definition add_trace (st : state) (v : value) : state :=
  {| g_glob := g_glob st; g_heap := g_heap st; g_funs := g_funs st; g_next := g_next st;
     g_trace := v :: g_trace st |}.

Definition load (fr : frame) (st : state) (x : ident) : lres value :=
  match op_loc o fr (g_heap st) x with
  | None => LStuck
  | Some LGlob => match env_get (g_glob st) x with Some v => LVal v | None => LExn NameError end
  | Some LFast => match env_get (f_fast fr) x with Some v => LVal v | None => LExn UnboundLocalError end
  | Some (LHeap m free) =>
      match op_get o (g_heap st) m x with
      | Some (Some v) => LVal v
      | Some None => LExn (if free then NameError else UnboundLocalError)
      | None => LStuck
      end
  end.

Definition store (fr : frame) (st : state) (x : ident) (v : value) : option (frame * state) :=
  match op_loc o fr (g_heap st) x with
  | None => None
  | Some LGlob => Some (fr, set_glob st (env_set (g_glob st) x v))
  | Some LFast => Some (set_fast fr (env_set (f_fast fr) x v), st)
  | Some (LHeap m _) =>
      match op_get o (g_heap st) m x with
      | Some _ => Some (fr, set_heap st (op_set o (g_heap st) m x (Some v)))
      | None => None
      end
  end.

Definition delete (fr : frame) (st : state) (x : ident) : lres (frame * state) :=
  match op_loc o fr (g_heap st) x with
  | None => LStuck
  | Some LGlob => match env_get (g_glob st) x with
                  | Some _ => LVal (fr, set_glob st (env_del (g_glob st) x))
                  | None => LExn (op_delglob_exc o) end
  | Some LFast => match env_get (f_fast fr) x with
                  | Some _ => LVal (set_fast fr (env_del (f_fast fr) x), st)
                  | None => LExn UnboundLocalError end
  | Some (LHeap m free) =>
      match op_get o (g_heap st) m x with
      | Some (Some _) => LVal (fr, set_heap st (op_set o (g_heap st) m x None))
      | Some None => LExn (if free then NameError else UnboundLocalError)
      | None => LStuck
      end
  end.

Definition store_r (fr : frame) (st : state) (x : ident) (v : value) : res state (frame * flow) :=
  match store fr st x v with Some (fr', st') => Ok (fr', FNext) st' | None => Stuck end.

(* def / lambda: capture, append to the function table, the value is the table index *)
Definition mkfun (fr : frame) (st : state) (ps : list ident) (body : list stmt) (i : scope_info)
  : res state value :=
  match op_capture o fr i with
  | None => Stuck
  | Some c =>
      Ok (VFun (length (g_funs st)))
         {| g_glob := g_glob st; g_heap := g_heap st;
            g_funs := g_funs st ++ [{| fn_ps := ps; fn_body := body; fn_info := i;
                                       fn_ctx := f_info fr :: f_ctx fr; fn_cap := c |}];
            g_next := g_next st; g_trace := g_trace st |}
  end.

Fixpoint bind_params (fr : frame) (st : state) (ps : list ident) (vs : list value)
  : option (frame * state) :=
  match ps, vs with
  | p :: ps', v :: vs' => match store fr st p v with
                          | Some (fr', st') => bind_params fr' st' ps' vs'
                          | None => None end
  | _, _ => Some (fr, st)
  end.

Fixpoint eval (n : nat) (fr : frame) (st : state) (e : expr) {struct n} : res state value :=
  match n with O => OutOfFuel | S n =>
  match e with
  | EInt z => Ok (VInt z) st
  | EBool b => Ok (VBool b) st
  | ENone => Ok VNone st
  | EName x => match load fr st x with LVal v => Ok v st | LExn e => Exn e st | LStuck => Stuck end
  | ENeg a => bind (eval n fr st a) (fun v st => lift (do_neg v) st)
  | ENot a => bind (eval n fr st a) (fun v st => Ok (VBool (negb (truthy v))) st)
  | EBin op a b => bind (eval n fr st a) (fun va st =>
                   bind (eval n fr st b) (fun vb st => lift (do_bin op va vb) st))
  | ECmp op a b => bind (eval n fr st a) (fun va st =>
                   bind (eval n fr st b) (fun vb st => lift (do_cmp op va vb) st))
  | ECond c t f => bind (eval n fr st c) (fun v st => eval n fr st (if truthy v then t else f))
  | ELog a => bind (eval n fr st a) (fun v st => Ok v (add_trace st v))
  | ELambda ps b => mkfun fr st ps [SReturn b] (lam_info ps (refs_e b))
  | ECall f args => bind (eval n fr st f) (fun vf st =>
                    bind (evals n fr st args) (fun vs st => call n st vf vs))
  end end
with evals (n : nat) (fr : frame) (st : state) (es : list expr) {struct n} : res state (list value) :=
  match n with O => OutOfFuel | S n =>
  match es with
  | [] => Ok [] st
  | e :: r => bind (eval n fr st e) (fun v st =>
              bind (evals n fr st r) (fun vs st => Ok (v :: vs) st))
  end end
with call (n : nat) (st : state) (vf : value) (vs : list value) {struct n} : res state value :=
  match n with O => OutOfFuel | S n =>
  match vf with
  | VFun id =>
      match nth_error (g_funs st) id with
      | None => Stuck
      | Some f =>
          if Nat.eqb (length (fn_ps f)) (length vs) then
            let '(x, h) := op_enter o (g_heap st) f (g_next st) in
            let fr0 := {| f_info := fn_info f; f_ctx := fn_ctx f; f_fast := []; f_x := x |} in
            let st1 := {| g_glob := g_glob st; g_heap := h; g_funs := g_funs st;
                          g_next := S (g_next st); g_trace := g_trace st |} in
            match bind_params fr0 st1 (fn_ps f) vs with
            | None => Stuck
            | Some (fr1, st2) =>
                bind (block n fr1 st2 (fn_body f)) (fun r st3 =>
                  Ok (match snd r with FRet v => v | FNext => VNone end) st3)
            end
          else Exn TypeError st
      end
  | _ => Exn TypeError st
  end end
with exec (n : nat) (fr : frame) (st : state) (s : stmt) {struct n} : res state (frame * flow) :=
  match n with O => OutOfFuel | S n =>
  match s with
  | SExpr e => bind (eval n fr st e) (fun _ st => Ok (fr, FNext) st)
  | SAssign x e => bind (eval n fr st e) (fun v st => store_r fr st x v)
  | SAug x op e =>
      match load fr st x with
      | LVal v0 => bind (eval n fr st e) (fun v st =>
                     match do_bin op v0 v with inl r => store_r fr st x r | inr ex => Exn ex st end)
      | LExn ex => Exn ex st
      | LStuck => Stuck
      end
  | SIf c t f => bind (eval n fr st c) (fun v st => block n fr st (if truthy v then t else f))
  | SWhile c b =>
      bind (eval n fr st c) (fun v st =>
        if truthy v then
          bind (block n fr st b) (fun r st =>
            match snd r with
            | FNext => exec n (fst r) st (SWhile c b)
            | FRet _ => Ok r st
            end)
        else Ok (fr, FNext) st)
  | SReturn e => bind (eval n fr st e) (fun v st => Ok (fr, FRet v) st)
  | SDef f ps body => bind (mkfun fr st ps body (mk_info ps body)) (fun v st => store_r fr st f v)
  | SGlobal _ | SNonlocal _ | SPass => Ok (fr, FNext) st
  | SDel x => match delete fr st x with
              | LVal (fr', st') => Ok (fr', FNext) st'
              | LExn ex => Exn ex st
              | LStuck => Stuck
              end
  end end
with block (n : nat) (fr : frame) (st : state) (ss : list stmt) {struct n} : res state (frame * flow) :=
  match n with O => OutOfFuel | S n =>
  match ss with
  | [] => Ok (fr, FNext) st
  | s :: r => bind (exec n fr st s) (fun q st =>
                match snd q with
                | FNext => block n (fst q) st r
                | FRet _ => Ok q st
                end)
  end end.

End Gen.

Arguments f_info {X}. Arguments f_ctx {X}. Arguments f_fast {X}. Arguments f_x {X}.
Arguments fn_ps {C}. Arguments fn_body {C}. Arguments fn_info {C}. Arguments fn_ctx {C}. Arguments fn_cap {C}.
Arguments g_glob {H C}. Arguments g_heap {H C}. Arguments g_funs {H C}. Arguments g_next {H C}.
Arguments g_trace {H C}.
Arguments set_heap {H C}. Arguments set_glob {H C}. Arguments set_fast {X}. Arguments add_trace {H C}.
Arguments load {X H C}. Arguments store {X H C}. Arguments delete {X H C}. Arguments store_r {X H C}.
Arguments mkfun {X H C}. Arguments bind_params {X H C}. Arguments eval {X H C}. Arguments evals {X H C}.
Arguments call {X H C}. Arguments exec {X H C}. Arguments block {X H C}.

(* observable outcome of a whole program: module body, then the value of [main] *)
Inductive outcome :=
| Done (v : value) (trace : list value)
| Failed (e : exc) (trace : list value)
| NoFuel
| IsStuck.

Definition run_gen {X H C : Type} (o : ops X H C) (x0 : X) (h0 : H) (n : nat)
           (prog : list stmt) (main : expr) : outcome :=
  let fr0 := {| f_info := module_info (prog ++ [SExpr main]); f_ctx := []; f_fast := []; f_x := x0 |} in
  let st0 := {| g_glob := []; g_heap := h0; g_funs := []; g_next := 1; g_trace := [] |} in
  match block o n fr0 st0 prog with
  | Ok q st => match eval o n (fst q) st main with
               | Ok v st' => Done v (rev (g_trace st'))
               | Exn e st' => Failed e (rev (g_trace st'))
               | OutOfFuel => NoFuel
               | Stuck => IsStuck
               end
  | Exn e st => Failed e (rev (g_trace st))
  | OutOfFuel => NoFuel
  | Stuck => IsStuck
  end.

(* ---------- CPython's scheme: cells ---------- *)
Definition cellheap := list ((nat * ident) * option value).
Fixpoint cget (h : cellheap) (m : nat) (x : ident) : option (option value) :=
  match h with
  | [] => None
  | ((m', x'), v) :: r => if Nat.eqb m m' && Nat.eqb x x' then Some v else cget r m x
  end.
Definition cset (h : cellheap) (m : nat) (x : ident) (v : option value) : cellheap := ((m, x), v) :: h.

Definition cX := (list (ident * nat) * nat)%type.   (* cell map of the free variables; own activation *)
Definition cC := list (ident * nat).                (* captured cells: name -> owning activation *)

Definition actual_free (i : scope_info) (ctx : sctx) : list ident :=
  filter (has_owner ctx) (cfree i).

Definition c_loc (fr : frame cX) (h : cellheap) (x : ident) : option loc :=
  match classify (f_info fr) (f_ctx fr) x with
  | KGlobal => Some LGlob
  | KLocal => if is_cell (f_info fr) x then Some (LHeap (snd (f_x fr)) false) else Some LFast
  | KFree => match assoc x (fst (f_x fr)) with Some m => Some (LHeap m true) | None => None end
  end.

(* MAKE_FUNCTION: the closure tuple holds the cells of the new function's free variables, taken
   from the defining frame (its own cell for a cell variable, its free-variable cell otherwise) *)
Definition cap1 (fr : frame cX) (x : ident) : option nat :=
  if mem x (si_locals (f_info fr))
  then (if is_cell (f_info fr) x then Some (snd (f_x fr)) else None)
  else assoc x (fst (f_x fr)).
Fixpoint c_capture_list (fr : frame cX) (xs : list ident) : option cC :=
  match xs with
  | [] => Some []
  | x :: r =>
      match cap1 fr x, c_capture_list fr r with
      | Some m, Some l => Some ((x, m) :: l)
      | _, _ => None
      end
  end.
Definition c_capture (fr : frame cX) (i : scope_info) : option cC :=
  c_capture_list fr (actual_free i (f_info fr :: f_ctx fr)).

(* function entry: MAKE_CELL for every cell variable (empty), COPY_FREE_VARS *)
Definition c_enter (h : cellheap) (f : fn cC) (a : nat) : cX * cellheap :=
  ((fn_cap f, a), fold_right (fun x h => cset h a x None) h (si_cells (fn_info f))).

Definition cells_ops : ops cX cellheap cC :=
  {| op_loc := c_loc; op_get := cget; op_set := cset; op_capture := c_capture; op_enter := c_enter;
     op_delglob_exc := NameError |}.

Definition run_cells (n : nat) (prog : list stmt) (main : expr) : outcome :=
  run_gen cells_ops ([], 0) [] n prog main.
